#!/bin/bash
# usage: confirm_r6.sh <PROP> "<demo test filter>" ["-p crate --lib"]
# Confirms a round-6 seeded change in the seeder's own scratch worktree /tmp/r6/wt_<PROP> (its target dir is warm):
# demo passes on the pinned commit, fails with patch.diff, whole suite of the touched crate passes with patch.diff
# (demo skipped). Writes /tmp/r6/out_<PROP>/confirm.log.
set -u
P=$1; FILTERS=$2; PKGARGS=${3:-"-p lightning --lib"}
W=/tmp/r6/wt_$P; DIR=/tmp/r6/out_$P; LOG=$DIR/confirm.log; : > $LOG
cd $W && git checkout -q -- . && git clean -fdq -e target
export CARGO_NET_OFFLINE=true CARGO_BUILD_JOBS=${JOBS:-6}
git apply $DIR/demo.diff || { echo "demo.diff does not apply" >> $LOG; exit 1; }
run_demo() { cargo test --offline $PKGARGS -- --test-threads 4 $FILTERS 2>&1 | grep -E "^test result|^test .* (ok|FAILED)$|^error" ; }
echo "== pristine + demo" >> $LOG; run_demo >> $LOG
git apply $DIR/patch.diff || { echo "patch.diff does not apply" >> $LOG; exit 1; }
echo "== patched + demo" >> $LOG; run_demo >> $LOG
echo "== patched, whole suite ($PKGARGS) except the demo" >> $LOG
SKIPS=""; for f in $FILTERS; do SKIPS="$SKIPS --skip $f"; done
cargo test --offline $PKGARGS --no-fail-fast -- --test-threads 6 $SKIPS 2>&1 | grep -E "^test result|FAILED|^error" >> $LOG
git checkout -q -- . && git clean -fdq -e target
echo "== done $P" >> $LOG
