#!/usr/bin/env python3
"""Regenerate lean/LdkModel/Generated/MsgSchemas.lean (+ schemas.json) from /repo's current Rust sources.

For every `impl_writeable_msg!(Name, { fixed fields }, { (type, field, kind), ... })` in
lightning/src/ln/msgs.rs: look up `pub struct Name { ... }`, map every field's Rust type to a
`FieldTy` of lean/LdkModel/Model/Codec.lean and emit a `Schema` value.  Helper structs declared with
`impl_writeable!(S, { f1, f2 })` (msgs.rs, onion_utils.rs) are translated recursively into nested
pairs; `[u8; EXPR]` sizes are evaluated over the constants of msgs.rs / onion_utils.rs;
`OnionPacket` (hand-written impl) is translated from the field order of its `Readable` impl.

A message with a field type or TLV kind that the codec model cannot express is NOT dropped silently:
it is listed in `notCovered` (Lean) / "not_covered" (json) with the reason.

Exit 2 with `TRANSLATE-ERROR ...` when msgs.rs no longer has the expected shape.
"""
import re, sys, os, json
sys.path.insert(0, os.path.dirname(__file__))
from rs2lean import strip_comments

REPO = os.environ.get('VERIF_REPO', '/repo')
MSGS = 'lightning/src/ln/msgs.rs'
AUX = ['lightning/src/ln/msgs.rs', 'lightning/src/ln/onion_utils.rs']


class TranslateError(Exception):
    pass


class Unsupported(Exception):
    pass


# Rust leaf type -> (FieldTy as python tuple, the Readable/Writeable impl that justifies it)
LEAF = {
    'u8': (('uint', 1), 'util/ser.rs impl Readable for u8'),
    'u16': (('uint', 2), 'util/ser.rs impl_writeable_primitive!(u16, 2)'),
    'u32': (('uint', 4), 'util/ser.rs impl_writeable_primitive!(u32, 4)'),
    'u64': (('uint', 8), 'util/ser.rs impl_writeable_primitive!(u64, 8)'),
    'i64': (('uint', 8), 'util/ser.rs impl_writeable_primitive!(i64, 8) (two\'s-complement bit pattern)'),
    'bool': (('fixed', 1, 'bool'), 'util/ser.rs impl Readable for bool'),
    '()': (('unit',), 'util/ser.rs impl Readable for ()'),
    'ChannelId': (('fixed', 32, 'any'), 'ln/types.rs impl Readable for ChannelId ([u8; 32])'),
    'Txid': (('fixed', 32, 'any'), 'util/ser.rs impl Readable for Txid'),
    'ChainHash': (('fixed', 32, 'any'), 'util/ser.rs impl Readable for ChainHash'),
    'PaymentHash': (('fixed', 32, 'any'), 'util/ser.rs impl Readable for PaymentHash'),
    'PaymentPreimage': (('fixed', 32, 'any'), 'util/ser.rs impl Readable for PaymentPreimage'),
    'PaymentSecret': (('fixed', 32, 'any'), 'util/ser.rs impl Readable for PaymentSecret'),
    'PublicKey': (('fixed', 33, 'point'), 'util/ser.rs impl Readable for PublicKey'),
    'Signature': (('fixed', 64, 'sig'), 'util/ser.rs impl Readable for ecdsa::Signature'),
    'ScriptBuf': (('bytes16',), 'util/ser.rs impl Readable for ScriptBuf (u16 length prefix)'),
    'Vec<u8>': (('varBytes',), 'util/ser.rs impl Readable for Vec<u8> (CollectionLength prefix)'),
    'Vec<Signature>': (('vec', ('fixed', 64, 'sig')), 'util/ser.rs impl_for_vec!(ecdsa::Signature)'),
    # hand-written codecs (Model/MsgSchemasHand.lean)
    'ChannelFeatures': (('bytes16',), 'ln/features.rs impl_feature_len_prefixed_write!(ChannelFeatures): u16 length, flag bytes kept as they are'),
    'NodeId': (('fixed', 33, 'any'), 'routing/gossip.rs impl Readable for NodeId: 33 raw bytes, not validated as a point'),
    'ChannelTypeFeatures': (('restBytes',), 'ln/features.rs impl_feature_tlv_write!(ChannelTypeFeatures): WithoutLength, read_to_end, bytes kept as they are'),
}
# `(option, encoding: (T, WithoutLength))` on a hand-written TLV
HAND_ENCODINGS = {
    ('ScriptBuf', 'WithoutLength'): (('restBytes',), 'util/ser.rs WithoutLength<ScriptBuf>: the raw script bytes to the end of the record'),
}
# `(option, encoding: (T, Wrapper))` wrappers
ENCODINGS = {
    ('bool', 'AccountableBool'): (('fixed', 1, 'accountable'), 'ln/msgs.rs AccountableBool'),
}


def read(path):
    p = os.path.join(REPO, path)
    if not os.path.exists(p):
        raise TranslateError('missing ' + p)
    return strip_comments(open(p).read())


def match_close(src, i, op, cl):
    d = 0
    for j in range(i, len(src)):
        if src[j] == op:
            d += 1
        elif src[j] == cl:
            d -= 1
            if d == 0:
                return j
    raise TranslateError('unbalanced %s at %d' % (op, i))


def split_top(s, sep=','):
    parts, d, cur = [], 0, ''
    for c in s:
        if c in '([{<':
            d += 1
        elif c in ')]}>':
            d -= 1
        if c == sep and d == 0:
            parts.append(cur)
            cur = ''
        else:
            cur += c
    if cur.strip():
        parts.append(cur)
    return [p.strip() for p in parts if p.strip()]


class Ctx:
    def __init__(self):
        self.src = {p: read(p) for p in AUX}
        self.consts = {}

    def const(self, name):
        if name in self.consts:
            return self.consts[name]
        for p, s in self.src.items():
            m = re.search(r'const\s+%s\s*:\s*\w+\s*=\s*([^;]+);' % re.escape(name), s)
            if m:
                v = self.eval(m.group(1))
                self.consts[name] = v
                return v
        raise TranslateError('constant %s not found' % name)

    def eval(self, e):
        e = e.strip()
        toks = re.findall(r'\d[\d_]*|[A-Za-z_]\w*|[()*+/-]', e)
        if ''.join(toks) != re.sub(r'\s+', '', e):
            raise TranslateError('cannot evaluate size expression %r' % e)
        py = []
        for t in toks:
            if re.fullmatch(r'\d[\d_]*', t):
                py.append(t.replace('_', ''))
            elif re.fullmatch(r'[A-Za-z_]\w*', t):
                if t in ('usize', 'as'):
                    continue
                py.append(str(self.const(t)))
            elif t == '/':
                py.append('//')
            else:
                py.append(t)
        return int(eval(' '.join(py), {'__builtins__': {}}))

    def struct_fields(self, name):
        """[(field, type)] of `struct name { .. }` in declaration order (any visibility)"""
        for p, s in self.src.items():
            m = re.search(r'\bstruct\s+%s\s*\{' % re.escape(name), s)
            if m:
                j = match_close(s, m.end() - 1, '{', '}')
                body = s[m.end():j]
                body = re.sub(r'#\[[^\]]*\]', '', body)
                out = []
                for part in split_top(body):
                    mm = re.fullmatch(r'(?:pub(?:\([^)]*\))?\s+)?(\w+)\s*:\s*(.+)', part, re.S)
                    if not mm:
                        raise TranslateError('cannot parse field %r of struct %s' % (part, name))
                    out.append((mm.group(1), ' '.join(mm.group(2).split())))
                return out, p
        return None, None

    def impl_writeable_fields(self, name):
        for p, s in self.src.items():
            m = re.search(r'\bimpl_writeable!\(\s*%s\s*,\s*\{([^}]*)\}\s*\)' % re.escape(name), s)
            if m:
                return [f.strip() for f in m.group(1).split(',') if f.strip()], p
        return None, None

    def ty(self, t):
        """Rust type -> FieldTy tuple; raises Unsupported"""
        t = ' '.join(t.split())
        t = re.sub(r'^(?:bitcoin::|secp256k1::|ecdsa::|crate::[\w:]*::)', '', t)
        if t in LEAF:
            return LEAF[t][0]
        m = re.fullmatch(r'\[u8;\s*(.+)\]', t)
        if m:
            return ('fixed', self.eval(m.group(1)), 'any')
        # type aliases (`pub type SerialId = u64;`)
        for p, s in self.src.items():
            mm = re.search(r'\btype\s+%s\s*=\s*([^;]+);' % re.escape(t), s) if re.fullmatch(r'\w+', t) else None
            if mm:
                return self.ty(mm.group(1))
        if t == 'OnionPacket':
            return self.onion_packet()
        if re.fullmatch(r'\w+', t):
            fields, _ = self.impl_writeable_fields(t)
            if fields is not None:
                decl, _ = self.struct_fields(t)
                if decl is None:
                    raise TranslateError('impl_writeable!(%s) without a struct' % t)
                d = dict(decl)
                tys = []
                for f in fields:
                    if f not in d:
                        raise TranslateError('impl_writeable!(%s): field %s not in struct' % (t, f))
                    tys.append(self.ty(d[f]))
                return nest(tys)
        raise Unsupported('no codec model for Rust type `%s`' % t)

    def onion_packet(self):
        s = self.src[MSGS]
        m = re.search(r'impl Readable for OnionPacket\s*\{', s)
        if not m:
            raise TranslateError('impl Readable for OnionPacket not found')
        j = match_close(s, m.end() - 1, '{', '}')
        body = s[m.end():j]
        mm = re.search(r'Ok\(OnionPacket\s*\{', body)
        if not mm:
            raise TranslateError('OnionPacket::read: constructor not found')
        k = match_close(body, mm.end() - 1, '{', '}')
        decl, _ = self.struct_fields('OnionPacket')
        d = dict(decl)
        tys = []
        for part in split_top(body[mm.end():k]):
            pm = re.fullmatch(r'(\w+)\s*:\s*(.+)', part, re.S)
            if not pm:
                raise TranslateError('OnionPacket::read: cannot parse %r' % part)
            f, e = pm.group(1), ' '.join(pm.group(2).split())
            if e == 'Readable::read(r)?':
                tys.append(self.ty(d[f]))
            elif f == 'public_key' and '[0u8; 33]' in e and 'read_exact' in e and 'PublicKey::from_slice(&buf)' in e \
                    and d[f].replace(' ', '') == 'Result<PublicKey,secp256k1::Error>':
                tys.append(('fixed', 33, 'onionKey'))
            else:
                raise TranslateError('OnionPacket::read: unexpected reader for %s: %s' % (f, e))
        # the writer must use the same order
        wm = re.search(r'impl Writeable for OnionPacket\s*\{', s)
        wj = match_close(s, wm.end() - 1, '{', '}')
        wbody = s[wm.end():wj]
        order = [wbody.find(x) for x in ('self.version', 'self.public_key', 'self.hop_data', 'self.hmac')]
        if -1 in order or order != sorted(order) or '[0u8; 33].write' not in wbody:
            raise TranslateError('OnionPacket::write: unexpected shape')
        return nest(tys)


def nest(tys):
    if not tys:
        return ('unit',)
    if len(tys) == 1:
        return tys[0]
    return ('pair', tys[0], nest(tys[1:]))


def lean_ty(t):
    k = t[0]
    if k == 'uint':
        return '(.uint %d)' % t[1]
    if k == 'fixed':
        return '(.fixed %d .%s)' % (t[1], t[2])
    if k in ('unit', 'bigsize', 'varBytes', 'bytes16', 'restBytes'):
        return '.' + k
    if k == 'hzd':
        return '(.hzd %d)' % t[1]
    if k == 'pair':
        return '(.pair %s %s)' % (lean_ty(t[1]), lean_ty(t[2]))
    if k == 'vec':
        return '(.vec %s)' % lean_ty(t[1])
    raise TranslateError('bad ty %r' % (t,))


def json_ty(t):
    return list(json_ty(x) if isinstance(x, tuple) else x for x in t)


def parse_macros(src):
    out = []
    for m in re.finditer(r'^impl_writeable_msg!\(', src, re.M):
        j = match_close(src, m.end() - 1, '(', ')')
        inner = src[m.end():j]
        parts = split_top(inner)
        if len(parts) != 3 or not re.fullmatch(r'\w+', parts[0]) or parts[1][0] != '{' or parts[2][0] != '{':
            raise TranslateError('impl_writeable_msg! with unexpected shape: %r' % inner[:80])
        name = parts[0]
        fixed = [f for f in split_top(parts[1][1:-1])]
        tlvs = []
        for rec in split_top(parts[2][1:-1]):
            if not (rec.startswith('(') and rec.endswith(')')):
                raise TranslateError('%s: TLV entry %r' % (name, rec))
            items = split_top(rec[1:-1])
            if len(items) != 3:
                raise TranslateError('%s: TLV entry %r' % (name, rec))
            try:
                typ = int(items[0].replace('_', ''), 0)
            except ValueError:
                raise TranslateError('%s: TLV type %r is not a literal' % (name, items[0]))
            tlvs.append((typ, items[1], ' '.join(items[2].split())))
        out.append((name, fixed, tlvs, src.count('\n', 0, m.start()) + 1))
    return out


def impl_body(src, header_re, what):
    m = re.search(header_re, src)
    if not m:
        raise TranslateError('%s not found' % what)
    o = src.index('{', m.end() - 1)
    return src[o + 1:match_close(src, o, '{', '}')], src.count('\n', 0, m.start()) + 1


def tlv_entries(body, macro, what):
    m = re.search(r'\b%s!\(' % macro, body)
    if not m:
        return None
    j = match_close(body, m.end() - 1, '(', ')')
    inner = body[m.end():j]
    k = inner.index('{')
    out = []
    for rec in split_top(inner[k + 1:match_close(inner, k, '{', '}')]):
        if not (rec.startswith('(') and rec.endswith(')')):
            raise TranslateError('%s: TLV entry %r' % (what, rec))
        items = split_top(rec[1:-1])
        if len(items) != 3:
            raise TranslateError('%s: TLV entry %r' % (what, rec))
        out.append((int(items[0]), ' '.join(items[1].split()), ' '.join(items[2].split())))
    return out, body[:m.start()]


def hand_let_style(ctx, name):
    """`impl LengthReadable for Name`: `let f: T = Readable::read(r)?;`… then `decode_tlv_stream!(r, {…})`;
    `impl Writeable for Name`: `self.(path.)f.write(w)?;`… in the same order, then `encode_tlv_stream!` with the same types"""
    src = ctx.src[MSGS]
    rbody, rline = impl_body(src, r'impl LengthReadable for %s\s*\{' % name, 'impl LengthReadable for ' + name)
    wbody, wline = impl_body(src, r'impl Writeable for %s\s*\{' % name, 'impl Writeable for ' + name)
    r = tlv_entries(rbody, 'decode_tlv_stream', name)
    w = tlv_entries(wbody, 'encode_tlv_stream', name)
    if r is None or w is None:
        raise TranslateError('%s: expected decode_tlv_stream!/encode_tlv_stream!' % name)
    (rt, rpre), (wt, wpre) = r, w
    lets = re.findall(r'let\s+(\w+)\s*:\s*([\w<>:, ()]+?)\s*=\s*Readable::read\(r\)\?;', rpre)
    n_reads = len(re.findall(r'read\(r\)|read_from_fixed_length_buffer\(r\)|read_exact|read_to_end', rpre))
    if not lets or n_reads != len(lets):
        raise TranslateError('%s: reader is not a plain sequence of `let f: T = Readable::read(r)?;` (%d lets, %d reads)' % (name, len(lets), n_reads))
    writes = re.findall(r'self\.((?:\w+\.)*\w+)\.write\(w\)\?;', wpre)
    if [x.split('.')[-1] for x in writes] != [f for f, _ in lets] or len(re.findall(r'\.write\(w\)|write_all', wpre)) != len(writes):
        raise TranslateError('%s: writer field order %s differs from reader field order %s' % (name, [x.split('.')[-1] for x in writes], [f for f, _ in lets]))
    if [t for t, _, _ in rt] != [t for t, _, _ in wt]:
        raise TranslateError('%s: encode_tlv_stream! types %s vs decode_tlv_stream! types %s' % (name, [t for t, _, _ in wt], [t for t, _, _ in rt]))
    muts = dict(re.findall(r'let\s+mut\s+(\w+)\s*:\s*Option<(.+?)>\s*=\s*None;', rpre))
    fixed = [(f, ctx.ty(t), t) for f, t in lets]
    tlvs = []
    for typ, f, kind in rt:
        if f not in muts:
            raise TranslateError('%s: TLV variable %s has no `let mut %s: Option<T> = None;`' % (name, f, f))
        m = re.fullmatch(r'\(option,\s*encoding:\s*\((\w+),\s*(\w+)\)\)', kind)
        if kind == 'option':
            tlvs.append((typ, f, ctx.ty(muts[f]), muts[f]))
        elif m and (m.group(1), m.group(2)) in HAND_ENCODINGS and muts[f] == m.group(1):
            tlvs.append((typ, f, HAND_ENCODINGS[(m.group(1), m.group(2))][0], muts[f]))
        else:
            raise TranslateError('%s: TLV %d `%s` has kind `%s`' % (name, typ, f, kind))
    return {'name': name, 'fixed': fixed, 'tlvs': tlvs, 'tail': False, 'line': rline, 'wline': wline}


def hand_struct_style(ctx, name, expect_post=None):
    """`impl LengthReadable for Name`: `Self { f: Readable::read(r)?, …, excess_data: read_to_end(r)?, }` (field types from the
    struct declaration, `contents: LengthReadable::read_from_fixed_length_buffer(r)?` inlines the Unsigned… message);
    `impl Writeable`: `self.f.write(w)?;`… in the same order, `w.write_all(&self.excess_data[..])?` last"""
    src = ctx.src[MSGS]
    rbody, rline = impl_body(src, r'impl LengthReadable for %s\s*\{' % name, 'impl LengthReadable for ' + name)
    wbody, wline = impl_body(src, r'impl Writeable for %s\s*\{' % name, 'impl Writeable for ' + name)
    m = re.search(r'\bSelf\s*\{', rbody)
    if not m:
        raise TranslateError('%s: reader has no `Self { … }` literal' % name)
    lit = rbody[m.end():match_close(rbody, m.end() - 1, '{', '}')]
    decl, _ = ctx.struct_fields(name)
    if decl is None:
        raise TranslateError('struct %s not found' % name)
    d = dict(decl)
    fixed, tail, order = [], False, []
    for part in split_top(lit):
        pm = re.fullmatch(r'(\w+)\s*:\s*(.+)', part, re.S)
        if not pm or pm.group(1) not in d:
            raise TranslateError('%s: cannot parse reader field %r' % (name, part))
        f, e = pm.group(1), ' '.join(pm.group(2).split())
        order.append(f)
        if tail:
            raise TranslateError('%s: field %s after the read_to_end field' % (name, f))
        if e == 'Readable::read(r)?':
            fixed.append((f, ctx.ty(d[f]), d[f]))
        elif e == 'read_to_end(r)?' and d[f] == 'Vec<u8>':
            tail = True
        elif e == 'LengthReadable::read_from_fixed_length_buffer(r)?' and f == 'contents':
            inner = hand_struct_style(ctx, d[f])
            fixed += [('contents.' + a, b, c) for a, b, c in inner['fixed']]
            tail = inner['tail']
        else:
            raise TranslateError('%s: unexpected reader for %s: %s' % (name, f, e))
    if set(order) != set(d):
        raise TranslateError('%s: reader fills %s, struct has %s' % (name, order, sorted(d)))
    worder = re.findall(r'(?:\(?self\.(\w+)(?:\s*\|\s*1\))?\.write\(w\)\?;|w\.write_all\(&self\.(\w+)\[\.\.\]\)\?;)', wbody)
    worder = [a or b for a, b in worder]
    if worder != order:
        raise TranslateError('%s: writer field order %s differs from reader field order %s' % (name, worder, order))
    post = None
    pm = re.search(r'if\s+res\.(\w+)\s*&\s*1\s*!=\s*1\s*\{[^}]*Err\(DecodeError::InvalidValue\)', rbody, re.S)
    if pm:
        post = [f for f, _, _ in fixed].index(pm.group(1))
        if not re.search(r'\(self\.%s\s*\|\s*1\)\.write\(w\)' % pm.group(1), wbody):
            raise TranslateError('%s: writer does not force the low bit of %s' % (name, pm.group(1)))
    elif re.search(r'\bif\b', rbody):
        raise TranslateError('%s: reader has a check the translator does not know' % name)
    return {'name': name, 'fixed': fixed, 'tlvs': [], 'tail': tail, 'post': post, 'line': rline, 'wline': wline}


# whitespace-normalised bodies of the irregular hand-written impls mirrored by Model/MsgSchemasHand.lean (decodeErrorMsg,
# decodePing, decodePong and their encoders): any change to one of them is a TRANSLATE-ERROR
HAND_FRAGMENTS = {
    'Writeable for ErrorMessage':
        'fn write<W: Writer>(&self, w: &mut W) -> Result<(), io::Error> { self.channel_id.write(w)?; (self.data.len() as u16).write(w)?; w.write_all(self.data.as_bytes())?; Ok(()) }',
    'LengthReadable for ErrorMessage':
        'fn read_from_fixed_length_buffer<R: LengthLimitedRead>(r: &mut R) -> Result<Self, DecodeError> { Ok(Self { channel_id: Readable::read(r)?, data: { let sz: usize = <u16 as Readable>::read(r)? as usize; let mut data = Vec::with_capacity(sz); data.resize(sz, 0); r.read_exact(&mut data)?; match String::from_utf8(data) { Ok(s) => s, Err(_) => return Err(DecodeError::InvalidValue), } }, }) }',
    'Writeable for WarningMessage':
        'fn write<W: Writer>(&self, w: &mut W) -> Result<(), io::Error> { self.channel_id.write(w)?; (self.data.len() as u16).write(w)?; w.write_all(self.data.as_bytes())?; Ok(()) }',
    'LengthReadable for WarningMessage':
        'fn read_from_fixed_length_buffer<R: LengthLimitedRead>(r: &mut R) -> Result<Self, DecodeError> { Ok(Self { channel_id: Readable::read(r)?, data: { let sz: usize = <u16 as Readable>::read(r)? as usize; let mut data = Vec::with_capacity(sz); data.resize(sz, 0); r.read_exact(&mut data)?; match String::from_utf8(data) { Ok(s) => s, Err(_) => return Err(DecodeError::InvalidValue), } }, }) }',
    'Writeable for Ping':
        'fn write<W: Writer>(&self, w: &mut W) -> Result<(), io::Error> { self.ponglen.write(w)?; vec![0u8; self.byteslen as usize].write(w)?; Ok(()) }',
    'LengthReadable for Ping':
        'fn read_from_fixed_length_buffer<R: LengthLimitedRead>(r: &mut R) -> Result<Self, DecodeError> { Ok(Ping { ponglen: Readable::read(r)?, byteslen: { let byteslen = Readable::read(r)?; r.read_exact(&mut vec![0u8; byteslen as usize][..])?; byteslen }, }) }',
    'Writeable for Pong':
        'fn write<W: Writer>(&self, w: &mut W) -> Result<(), io::Error> { vec![0u8; self.byteslen as usize].write(w)?; Ok(()) }',
    'LengthReadable for Pong':
        'fn read_from_fixed_length_buffer<R: LengthLimitedRead>(r: &mut R) -> Result<Self, DecodeError> { Ok(Pong { byteslen: { let byteslen = Readable::read(r)?; r.read_exact(&mut vec![0u8; byteslen as usize][..])?; byteslen }, }) }',
}


def check_fragments(ctx):
    src = ctx.src[MSGS]
    for key, want in HAND_FRAGMENTS.items():
        tr, name = key.split(' for ')
        body, _ = impl_body(src, r'impl %s for %s\s*\{' % (tr, name), 'impl ' + key)
        got = ' '.join(body.split())
        if got != want:
            raise TranslateError('impl %s changed (Model/MsgSchemasHand.lean mirrors the old text): now `%s`' % (key, got[:300]))


HAND_LET = ['OpenChannel', 'AcceptChannel', 'OpenChannelV2', 'AcceptChannelV2']
HAND_STRUCT = ['UnsignedChannelAnnouncement', 'ChannelAnnouncement', 'UnsignedChannelUpdate', 'ChannelUpdate']


def unwrap_option(t):
    m = re.fullmatch(r'Option<(.+)>', t)
    return m.group(1).strip() if m else None


def main(out_path):
    ctx = Ctx()
    src = ctx.src[MSGS]
    macros = parse_macros(src)
    if len(macros) < 20:
        raise TranslateError('expected at least 20 impl_writeable_msg! invocations, found %d' % len(macros))
    schemas, not_covered = [], []
    for name, fixed, tlvs, line in macros:
        decl, _ = ctx.struct_fields(name)
        if decl is None:
            raise TranslateError('struct %s not found' % name)
        d = dict(decl)
        used = set()
        try:
            fx = []
            for f in fixed:
                if f not in d:
                    raise TranslateError('%s: fixed field %s not in struct' % (name, f))
                used.add(f)
                fx.append((f, ctx.ty(d[f]), d[f]))
            tv = []
            for typ, f, kind in tlvs:
                if f not in d:
                    raise TranslateError('%s: TLV field %s not in struct' % (name, f))
                used.add(f)
                rt = d[f]
                if kind == 'option':
                    inner = unwrap_option(rt)
                    if inner is None:
                        raise TranslateError('%s.%s: kind option but type %s' % (name, f, rt))
                    tv.append((typ, f, ctx.ty(inner), 'option', rt))
                elif kind == 'required':
                    tv.append((typ, f, ctx.ty(rt), 'required', rt))
                else:
                    m = re.fullmatch(r'\(option,\s*encoding:\s*\((\w+),\s*(\w+)\)\)', kind)
                    if m and (m.group(1), m.group(2)) in ENCODINGS:
                        if unwrap_option(rt) != m.group(1):
                            raise TranslateError('%s.%s: encoding %s but type %s' % (name, f, kind, rt))
                        tv.append((typ, f, ENCODINGS[(m.group(1), m.group(2))][0], 'option', rt))
                    else:
                        raise Unsupported('TLV %d `%s` has kind `%s` (type `%s`)' % (typ, f, kind, rt))
            if used != set(d):
                raise TranslateError('%s: struct fields %s are not serialized' % (name, sorted(set(d) - used)))
            schemas.append({'name': name, 'line': line, 'fixed': fx, 'tlvs': tv})
        except Unsupported as ex:
            not_covered.append((name, str(ex)))

    L = ['/- GENERATED by tools/gen_msg_schemas.py from lightning/src/ln/msgs.rs — do not edit.',
         '   One `Schema` per `impl_writeable_msg!` invocation; regenerated on every check. -/',
         'import LdkModel.Model.Codec', 'namespace Ldk.Codec.Gen', 'open Ldk.Codec', '']
    for s in schemas:
        L.append('/-- msgs.rs line %d: impl_writeable_msg!(%s, …) -/' % (s['line'], s['name']))
        L.append('def schema_%s : Schema where' % s['name'])
        L.append('  name := "%s"' % s['name'])
        L.append('  fixedNames := [%s]' % ', '.join('"%s"' % f for f, _, _ in s['fixed']))
        L.append('  fixed := [' + ', '.join('%s /- %s -/' % (lean_ty(t), rt.replace('-/', '- /')) for _, t, rt in s['fixed']) + ']')
        L.append('  tlvs := [' + ', '.join('⟨%d, "%s", %s, .%s⟩' % (typ, f, lean_ty(t), kind) for typ, f, t, kind, _ in s['tlvs']) + ']')
        L.append('')
    L.append('/-- every macro-declared message the codec model covers -/')
    L.append('def generatedSchemas : List Schema := [' + ', '.join('schema_' + s['name'] for s in schemas) + ']')
    L.append('')
    L.append('/-- macro-declared messages NOT covered by the model (name, reason) -/')
    L.append('def notCovered : List (String × String) := [' + ', '.join('("%s", "%s")' % (n, r.replace('"', "'")) for n, r in not_covered) + ']')
    L.append('')
    check_fragments(ctx)
    hand = [hand_let_style(ctx, n) for n in HAND_LET] + [hand_struct_style(ctx, n) for n in HAND_STRUCT]
    for h in hand:
        cp = ctx.src[MSGS]
        if h['name'] == 'ChannelUpdate':
            h['post'] = 1 + [f for f, _, _ in hand_struct_style(ctx, 'UnsignedChannelUpdate')['fixed']].index('message_flags')
    L.append('/-- Field layout of the hand-written codecs of msgs.rs covered by Model/MsgSchemasHand.lean, EXTRACTED from the')
    L.append('    `impl LengthReadable` / `impl Writeable` bodies (reader order = writer order checked by the translator):')
    L.append('    (name, fixed field types, TLVs (type, payload type), ends with read_to_end excess data,')
    L.append('     index of the u8 field whose low bit must be set (checked after all fields were read)) -/')
    L.append('def handPinned : List HandLayout := [')
    L.append(',\n'.join('  ⟨"%s", [%s], [%s], [%s], %s, %s⟩ /- msgs.rs read line %d, write line %d -/' % (
        h['name'], ', '.join('"%s"' % f for f, _, _ in h['fixed']), ', '.join(lean_ty(t) for _, t, _ in h['fixed']), ', '.join('(%d, %s)' % (typ, lean_ty(t)) for typ, _, t, _ in h['tlvs']),
        'true' if h['tail'] else 'false', 'none' if h.get('post') is None else 'some %d' % h['post'], h['line'], h['wline']) for h in hand) + ']')
    L.append('')
    L.append('end Ldk.Codec.Gen')
    text = '\n'.join(L) + '\n'
    old = open(out_path).read() if os.path.exists(out_path) else None
    if old != text:
        os.makedirs(os.path.dirname(os.path.abspath(out_path)), exist_ok=True)
        open(out_path, 'w').write(text)
    js = {'schemas': [{'name': s['name'], 'line': s['line'],
                       'fixed': [{'name': f, 'ty': json_ty(t), 'rust': rt} for f, t, rt in s['fixed']],
                       'tlvs': [{'type': typ, 'name': f, 'ty': json_ty(t), 'kind': kind, 'rust': rt} for typ, f, t, kind, rt in s['tlvs']]}
                      for s in schemas],
          'not_covered': [{'name': n, 'reason': r} for n, r in not_covered],
          'hand': [{'name': h['name'], 'fixed': [{'name': f, 'ty': json_ty(t), 'rust': rt} for f, t, rt in h['fixed']],
                    'tlvs': [{'type': typ, 'name': f, 'ty': json_ty(t), 'rust': rt} for typ, f, t, rt in h['tlvs']], 'tail': h['tail'], 'post': h.get('post')} for h in hand]}
    jp = os.path.join(os.path.dirname(os.path.abspath(out_path)), 'schemas.json')
    jt = json.dumps(js, indent=1, sort_keys=True) + '\n'
    if not os.path.exists(jp) or open(jp).read() != jt:
        open(jp, 'w').write(jt)
    print('gen_msg_schemas: %d schemas, %d not covered (%s)' % (len(schemas), len(not_covered), ', '.join(n for n, _ in not_covered)))


if __name__ == '__main__':
    try:
        main(sys.argv[1] if len(sys.argv) > 1 else os.path.join(os.path.dirname(os.path.abspath(__file__)), '..', 'lean', 'LdkModel', 'Generated', 'MsgSchemas.lean'))
    except TranslateError as ex:
        print('TRANSLATE-ERROR gen_msg_schemas: %s' % ex)
        sys.exit(2)
