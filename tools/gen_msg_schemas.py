#!/usr/bin/env python3
"""Regenerate lean/LdkModel/Generated/MsgSchemas.lean (+ schemas.json) from /repo's current Rust sources.

For every `impl_writeable_msg!(Name, { fixed fields }, { (type, field, kind), ... })` in
lightning/src/ln/msgs.rs: look up `pub struct Name { ... }`, map every field's Rust type to a
`FieldTy` of lean/LdkModel/Model/Codec.lean and emit a `Schema` value.  Helper structs declared with
`impl_writeable!(S, { f1, f2 })` (msgs.rs, onion_utils.rs) are translated recursively into nested
pairs; `[u8; EXPR]` sizes are evaluated over the constants of msgs.rs / onion_utils.rs;
`OnionPacket` (hand-written impl) is translated from the field order of its `Readable` impl.

A message with a field type or TLV kind that the codec model cannot express is NOT dropped silently:
it is listed in `notCovered` (Lean) / "not_covered" (json) with the reason.

Exit 2 with `TRANSLATE-ERROR ...` when msgs.rs no longer has the expected shape.
"""
import re, sys, os, json
sys.path.insert(0, os.path.dirname(__file__))
from rs2lean import strip_comments, parse_expr
import rs2lean

REPO = os.environ.get('VERIF_REPO', '/repo')
MSGS = 'lightning/src/ln/msgs.rs'
AUX = ['lightning/src/ln/msgs.rs', 'lightning/src/ln/onion_utils.rs']
SER = 'lightning/src/util/ser.rs'


class TranslateError(Exception):
    pass


class Unsupported(Exception):
    pass


# Rust leaf type -> (FieldTy as python tuple, the Readable/Writeable impl that justifies it)
LEAF = {
    'u8': (('uint', 1), 'util/ser.rs impl Readable for u8'),
    'u16': (('uint', 2), 'util/ser.rs impl_writeable_primitive!(u16, 2)'),
    'u32': (('uint', 4), 'util/ser.rs impl_writeable_primitive!(u32, 4)'),
    'u64': (('uint', 8), 'util/ser.rs impl_writeable_primitive!(u64, 8)'),
    'i64': (('uint', 8), 'util/ser.rs impl_writeable_primitive!(i64, 8) (two\'s-complement bit pattern)'),
    'bool': (('fixed', 1, 'bool'), 'util/ser.rs impl Readable for bool'),
    '()': (('unit',), 'util/ser.rs impl Readable for ()'),
    'ChannelId': (('fixed', 32, 'any'), 'ln/types.rs impl Readable for ChannelId ([u8; 32])'),
    'Txid': (('fixed', 32, 'any'), 'util/ser.rs impl Readable for Txid'),
    'ChainHash': (('fixed', 32, 'any'), 'util/ser.rs impl Readable for ChainHash'),
    'PaymentHash': (('fixed', 32, 'any'), 'util/ser.rs impl Readable for PaymentHash'),
    'PaymentPreimage': (('fixed', 32, 'any'), 'util/ser.rs impl Readable for PaymentPreimage'),
    'PaymentSecret': (('fixed', 32, 'any'), 'util/ser.rs impl Readable for PaymentSecret'),
    'PublicKey': (('fixed', 33, 'point'), 'util/ser.rs impl Readable for PublicKey'),
    'Signature': (('fixed', 64, 'sig'), 'util/ser.rs impl Readable for ecdsa::Signature'),
    'ScriptBuf': (('bytes16',), 'util/ser.rs impl Readable for ScriptBuf (u16 length prefix)'),
    'Vec<u8>': (('varBytes',), 'util/ser.rs impl Readable for Vec<u8> (CollectionLength prefix)'),
    'Vec<Signature>': (('vec', ('fixed', 64, 'sig')), 'util/ser.rs impl_for_vec!(ecdsa::Signature)'),
    # hand-written codecs (Model/MsgSchemasHand.lean)
    'NodeFeatures': (('bytes16',), 'ln/features.rs impl_feature_len_prefixed_write!(NodeFeatures): u16 length, flag bytes kept as they are'),
    'InitFeatures': (('bytes16',), 'ln/features.rs impl_feature_len_prefixed_write!(InitFeatures)'),
    'NodeAlias': (('fixed', 32, 'any'), 'routing/gossip.rs impl Readable for NodeAlias ([u8; 32])'),
    'ChannelFeatures': (('bytes16',), 'ln/features.rs impl_feature_len_prefixed_write!(ChannelFeatures): u16 length, flag bytes kept as they are'),
    'NodeId': (('fixed', 33, 'any'), 'routing/gossip.rs impl Readable for NodeId: 33 raw bytes, not validated as a point'),
    'ChannelTypeFeatures': (('restBytes',), 'ln/features.rs impl_feature_tlv_write!(ChannelTypeFeatures): WithoutLength, read_to_end, bytes kept as they are'),
}
# `(option, encoding: (T, WithoutLength))` on a hand-written TLV
HAND_ENCODINGS = {
    ('ScriptBuf', 'WithoutLength'): (('restBytes',), 'util/ser.rs WithoutLength<ScriptBuf>: the raw script bytes to the end of the record'),
}
# `(option, encoding: (T, Wrapper))` wrappers
ENCODINGS = {
    ('bool', 'AccountableBool'): (('fixed', 1, 'accountable'), 'ln/msgs.rs AccountableBool'),
}


def read(path):
    p = os.path.join(REPO, path)
    if not os.path.exists(p):
        raise TranslateError('missing ' + p)
    return strip_comments(open(p).read())


def match_close(src, i, op, cl):
    d = 0
    for j in range(i, len(src)):
        if src[j] == op:
            d += 1
        elif src[j] == cl:
            d -= 1
            if d == 0:
                return j
    raise TranslateError('unbalanced %s at %d' % (op, i))


def split_top(s, sep=','):
    parts, d, cur = [], 0, ''
    for c in s:
        if c in '([{<':
            d += 1
        elif c in ')]}>':
            d -= 1
        if c == sep and d == 0:
            parts.append(cur)
            cur = ''
        else:
            cur += c
    if cur.strip():
        parts.append(cur)
    return [p.strip() for p in parts if p.strip()]


class Ctx:
    def __init__(self):
        self.src = {p: read(p) for p in AUX}
        self.consts = {}

    def const(self, name):
        if name in self.consts:
            return self.consts[name]
        for p, s in self.src.items():
            m = re.search(r'const\s+%s\s*:\s*\w+\s*=\s*([^;]+);' % re.escape(name), s)
            if m:
                v = self.eval(m.group(1))
                self.consts[name] = v
                return v
        raise TranslateError('constant %s not found' % name)

    def eval(self, e):
        e = e.strip()
        toks = re.findall(r'\d[\d_]*|[A-Za-z_]\w*|[()*+/-]', e)
        if ''.join(toks) != re.sub(r'\s+', '', e):
            raise TranslateError('cannot evaluate size expression %r' % e)
        py = []
        for t in toks:
            if re.fullmatch(r'\d[\d_]*', t):
                py.append(t.replace('_', ''))
            elif re.fullmatch(r'[A-Za-z_]\w*', t):
                if t in ('usize', 'as'):
                    continue
                py.append(str(self.const(t)))
            elif t == '/':
                py.append('//')
            else:
                py.append(t)
        return int(eval(' '.join(py), {'__builtins__': {}}))

    def struct_fields(self, name):
        """[(field, type)] of `struct name { .. }` in declaration order (any visibility)"""
        for p, s in self.src.items():
            m = re.search(r'\bstruct\s+%s\s*\{' % re.escape(name), s)
            if m:
                j = match_close(s, m.end() - 1, '{', '}')
                body = s[m.end():j]
                body = re.sub(r'#\[[^\]]*\]', '', body)
                out = []
                for part in split_top(body):
                    mm = re.fullmatch(r'(?:pub(?:\([^)]*\))?\s+)?(\w+)\s*:\s*(.+)', part, re.S)
                    if not mm:
                        raise TranslateError('cannot parse field %r of struct %s' % (part, name))
                    out.append((mm.group(1), ' '.join(mm.group(2).split())))
                return out, p
        return None, None

    def impl_writeable_fields(self, name):
        for p, s in self.src.items():
            m = re.search(r'\bimpl_writeable!\(\s*%s\s*,\s*\{([^}]*)\}\s*\)' % re.escape(name), s)
            if m:
                return [f.strip() for f in m.group(1).split(',') if f.strip()], p
        return None, None

    def ty(self, t):
        """Rust type -> FieldTy tuple; raises Unsupported"""
        t = ' '.join(t.split())
        t = re.sub(r'^(?:bitcoin::|secp256k1::|ecdsa::|crate::[\w:]*::)', '', t)
        if t in LEAF:
            return LEAF[t][0]
        m = re.fullmatch(r'\[u8;\s*(.+)\]', t)
        if m:
            return ('fixed', self.eval(m.group(1)), 'any')
        # type aliases (`pub type SerialId = u64;`)
        for p, s in self.src.items():
            mm = re.search(r'\btype\s+%s\s*=\s*([^;]+);' % re.escape(t), s) if re.fullmatch(r'\w+', t) else None
            if mm:
                return self.ty(mm.group(1))
        if t == 'OnionPacket':
            return self.onion_packet()
        if re.fullmatch(r'\w+', t):
            fields, _ = self.impl_writeable_fields(t)
            if fields is not None:
                decl, _ = self.struct_fields(t)
                if decl is None:
                    raise TranslateError('impl_writeable!(%s) without a struct' % t)
                d = dict(decl)
                tys = []
                for f in fields:
                    if f not in d:
                        raise TranslateError('impl_writeable!(%s): field %s not in struct' % (t, f))
                    tys.append(self.ty(d[f]))
                return nest(tys)
        raise Unsupported('no codec model for Rust type `%s`' % t)

    def onion_packet(self):
        s = self.src[MSGS]
        m = re.search(r'impl Readable for OnionPacket\s*\{', s)
        if not m:
            raise TranslateError('impl Readable for OnionPacket not found')
        j = match_close(s, m.end() - 1, '{', '}')
        body = s[m.end():j]
        mm = re.search(r'Ok\(OnionPacket\s*\{', body)
        if not mm:
            raise TranslateError('OnionPacket::read: constructor not found')
        k = match_close(body, mm.end() - 1, '{', '}')
        decl, _ = self.struct_fields('OnionPacket')
        d = dict(decl)
        tys = []
        for part in split_top(body[mm.end():k]):
            pm = re.fullmatch(r'(\w+)\s*:\s*(.+)', part, re.S)
            if not pm:
                raise TranslateError('OnionPacket::read: cannot parse %r' % part)
            f, e = pm.group(1), ' '.join(pm.group(2).split())
            if e == 'Readable::read(r)?':
                tys.append(self.ty(d[f]))
            elif f == 'public_key' and '[0u8; 33]' in e and 'read_exact' in e and 'PublicKey::from_slice(&buf)' in e \
                    and d[f].replace(' ', '') == 'Result<PublicKey,secp256k1::Error>':
                tys.append(('fixed', 33, 'onionKey'))
            else:
                raise TranslateError('OnionPacket::read: unexpected reader for %s: %s' % (f, e))
        # the writer must use the same order
        wm = re.search(r'impl Writeable for OnionPacket\s*\{', s)
        wj = match_close(s, wm.end() - 1, '{', '}')
        wbody = s[wm.end():wj]
        order = [wbody.find(x) for x in ('self.version', 'self.public_key', 'self.hop_data', 'self.hmac')]
        if -1 in order or order != sorted(order) or '[0u8; 33].write' not in wbody:
            raise TranslateError('OnionPacket::write: unexpected shape')
        return nest(tys)


def nest(tys):
    if not tys:
        return ('unit',)
    if len(tys) == 1:
        return tys[0]
    return ('pair', tys[0], nest(tys[1:]))


def lean_ty(t):
    k = t[0]
    if k == 'uint':
        return '(.uint %d)' % t[1]
    if k == 'fixed':
        return '(.fixed %d .%s)' % (t[1], t[2])
    if k in ('unit', 'bigsize', 'varBytes', 'bytes16', 'restBytes'):
        return '.' + k
    if k == 'hzd':
        return '(.hzd %d)' % t[1]
    if k == 'pair':
        return '(.pair %s %s)' % (lean_ty(t[1]), lean_ty(t[2]))
    if k == 'vec':
        return '(.vec %s)' % lean_ty(t[1])
    if k == 'chunks':
        return '(.chunks %d)' % t[1]
    if k == 'sockAddr':
        return '(.sockAddr sockAddrKinds)'
    raise TranslateError('bad ty %r' % (t,))


def json_ty(t):
    return list(json_ty(x) if isinstance(x, tuple) else x for x in t)


def parse_macros(src):
    out = []
    for m in re.finditer(r'^impl_writeable_msg!\(', src, re.M):
        j = match_close(src, m.end() - 1, '(', ')')
        inner = src[m.end():j]
        parts = split_top(inner)
        if len(parts) != 3 or not re.fullmatch(r'\w+', parts[0]) or parts[1][0] != '{' or parts[2][0] != '{':
            raise TranslateError('impl_writeable_msg! with unexpected shape: %r' % inner[:80])
        name = parts[0]
        fixed = [f for f in split_top(parts[1][1:-1])]
        tlvs = []
        for rec in split_top(parts[2][1:-1]):
            if not (rec.startswith('(') and rec.endswith(')')):
                raise TranslateError('%s: TLV entry %r' % (name, rec))
            items = split_top(rec[1:-1])
            if len(items) != 3:
                raise TranslateError('%s: TLV entry %r' % (name, rec))
            try:
                typ = int(items[0].replace('_', ''), 0)
            except ValueError:
                raise TranslateError('%s: TLV type %r is not a literal' % (name, items[0]))
            tlvs.append((typ, items[1], ' '.join(items[2].split())))
        out.append((name, fixed, tlvs, src.count('\n', 0, m.start()) + 1))
    return out


def impl_body(src, header_re, what):
    m = re.search(header_re, src)
    if not m:
        raise TranslateError('%s not found' % what)
    o = src.index('{', m.end() - 1)
    return src[o + 1:match_close(src, o, '{', '}')], src.count('\n', 0, m.start()) + 1


def tlv_entries(body, macro, what):
    m = re.search(r'\b%s!\(' % macro, body)
    if not m:
        return None
    j = match_close(body, m.end() - 1, '(', ')')
    inner = body[m.end():j]
    k = inner.index('{')
    out = []
    for rec in split_top(inner[k + 1:match_close(inner, k, '{', '}')]):
        if not (rec.startswith('(') and rec.endswith(')')):
            raise TranslateError('%s: TLV entry %r' % (what, rec))
        items = split_top(rec[1:-1])
        if len(items) != 3:
            raise TranslateError('%s: TLV entry %r' % (what, rec))
        out.append((int(items[0]), ' '.join(items[1].split()), ' '.join(items[2].split())))
    return out, body[:m.start()]


def hand_let_style(ctx, name):
    """`impl LengthReadable for Name`: `let f: T = Readable::read(r)?;`… then `decode_tlv_stream!(r, {…})`;
    `impl Writeable for Name`: `self.(path.)f.write(w)?;`… in the same order, then `encode_tlv_stream!` with the same types"""
    src = ctx.src[MSGS]
    rbody, rline = impl_body(src, r'impl LengthReadable for %s\s*\{' % name, 'impl LengthReadable for ' + name)
    wbody, wline = impl_body(src, r'impl Writeable for %s\s*\{' % name, 'impl Writeable for ' + name)
    r = tlv_entries(rbody, 'decode_tlv_stream', name)
    w = tlv_entries(wbody, 'encode_tlv_stream', name)
    if r is None or w is None:
        raise TranslateError('%s: expected decode_tlv_stream!/encode_tlv_stream!' % name)
    (rt, rpre), (wt, wpre) = r, w
    lets = re.findall(r'let\s+(\w+)\s*:\s*([\w<>:, ()]+?)\s*=\s*Readable::read\(r\)\?;', rpre)
    n_reads = len(re.findall(r'read\(r\)|read_from_fixed_length_buffer\(r\)|read_exact|read_to_end', rpre))
    if not lets or n_reads != len(lets):
        raise TranslateError('%s: reader is not a plain sequence of `let f: T = Readable::read(r)?;` (%d lets, %d reads)' % (name, len(lets), n_reads))
    writes = re.findall(r'self\.((?:\w+\.)*\w+)\.write\(w\)\?;', wpre)
    if [x.split('.')[-1] for x in writes] != [f for f, _ in lets] or len(re.findall(r'\.write\(w\)|write_all', wpre)) != len(writes):
        raise TranslateError('%s: writer field order %s differs from reader field order %s' % (name, [x.split('.')[-1] for x in writes], [f for f, _ in lets]))
    if [t for t, _, _ in rt] != [t for t, _, _ in wt]:
        raise TranslateError('%s: encode_tlv_stream! types %s vs decode_tlv_stream! types %s' % (name, [t for t, _, _ in wt], [t for t, _, _ in rt]))
    muts = dict(re.findall(r'let\s+mut\s+(\w+)\s*:\s*Option<(.+?)>\s*=\s*None;', rpre))
    fixed = [(f, ctx.ty(t), t) for f, t in lets]
    tlvs = []
    for typ, f, kind in rt:
        if f not in muts:
            raise TranslateError('%s: TLV variable %s has no `let mut %s: Option<T> = None;`' % (name, f, f))
        m = re.fullmatch(r'\(option,\s*encoding:\s*\((\w+),\s*(\w+)\)\)', kind)
        if kind == 'option':
            tlvs.append((typ, f, ctx.ty(muts[f]), muts[f]))
        elif m and (m.group(1), m.group(2)) in HAND_ENCODINGS and muts[f] == m.group(1):
            tlvs.append((typ, f, HAND_ENCODINGS[(m.group(1), m.group(2))][0], muts[f]))
        else:
            raise TranslateError('%s: TLV %d `%s` has kind `%s`' % (name, typ, f, kind))
    return {'name': name, 'fixed': fixed, 'tlvs': tlvs, 'tail': False, 'line': rline, 'wline': wline}


def hand_struct_style(ctx, name, expect_post=None):
    """`impl LengthReadable for Name`: `Self { f: Readable::read(r)?, …, excess_data: read_to_end(r)?, }` (field types from the
    struct declaration, `contents: LengthReadable::read_from_fixed_length_buffer(r)?` inlines the Unsigned… message);
    `impl Writeable`: `self.f.write(w)?;`… in the same order, `w.write_all(&self.excess_data[..])?` last"""
    src = ctx.src[MSGS]
    rbody, rline = impl_body(src, r'impl LengthReadable for %s\s*\{' % name, 'impl LengthReadable for ' + name)
    wbody, wline = impl_body(src, r'impl Writeable for %s\s*\{' % name, 'impl Writeable for ' + name)
    m = re.search(r'\bSelf\s*\{', rbody)
    if not m:
        raise TranslateError('%s: reader has no `Self { … }` literal' % name)
    lit = rbody[m.end():match_close(rbody, m.end() - 1, '{', '}')]
    decl, _ = ctx.struct_fields(name)
    if decl is None:
        raise TranslateError('struct %s not found' % name)
    d = dict(decl)
    fixed, tail, order = [], False, []
    for part in split_top(lit):
        pm = re.fullmatch(r'(\w+)\s*:\s*(.+)', part, re.S)
        if not pm or pm.group(1) not in d:
            raise TranslateError('%s: cannot parse reader field %r' % (name, part))
        f, e = pm.group(1), ' '.join(pm.group(2).split())
        order.append(f)
        if tail:
            raise TranslateError('%s: field %s after the read_to_end field' % (name, f))
        if e == 'Readable::read(r)?':
            fixed.append((f, ctx.ty(d[f]), d[f]))
        elif e == 'read_to_end(r)?' and d[f] == 'Vec<u8>':
            tail = True
        elif e == 'LengthReadable::read_from_fixed_length_buffer(r)?' and f == 'contents':
            inner = hand_struct_style(ctx, d[f])
            fixed += [('contents.' + a, b, c) for a, b, c in inner['fixed']]
            tail = inner['tail']
        else:
            raise TranslateError('%s: unexpected reader for %s: %s' % (name, f, e))
    if set(order) != set(d):
        raise TranslateError('%s: reader fills %s, struct has %s' % (name, order, sorted(d)))
    worder = re.findall(r'(?:\(?self\.(\w+)(?:\s*\|\s*1\))?\.write\(w\)\?;|w\.write_all\(&self\.(\w+)\[\.\.\]\)\?;)', wbody)
    worder = [a or b for a, b in worder]
    if worder != order:
        raise TranslateError('%s: writer field order %s differs from reader field order %s' % (name, worder, order))
    post = None
    pm = re.search(r'if\s+res\.(\w+)\s*&\s*1\s*!=\s*1\s*\{[^}]*Err\(DecodeError::InvalidValue\)', rbody, re.S)
    if pm:
        post = [f for f, _, _ in fixed].index(pm.group(1))
        if not re.search(r'\(self\.%s\s*\|\s*1\)\.write\(w\)' % pm.group(1), wbody):
            raise TranslateError('%s: writer does not force the low bit of %s' % (name, pm.group(1)))
    elif re.search(r'\bif\b', rbody):
        raise TranslateError('%s: reader has a check the translator does not know' % name)
    return {'name': name, 'fixed': fixed, 'tlvs': [], 'tail': tail, 'post': post, 'line': rline, 'wline': wline}


# whitespace-normalised bodies of the irregular hand-written impls mirrored by Model/MsgSchemasHand.lean (decodeErrorMsg,
# decodePing, decodePong and their encoders): any change to one of them is a TRANSLATE-ERROR
HAND_FRAGMENTS = {
    'Writeable for ErrorMessage':
        'fn write<W: Writer>(&self, w: &mut W) -> Result<(), io::Error> { self.channel_id.write(w)?; (self.data.len() as u16).write(w)?; w.write_all(self.data.as_bytes())?; Ok(()) }',
    'LengthReadable for ErrorMessage':
        'fn read_from_fixed_length_buffer<R: LengthLimitedRead>(r: &mut R) -> Result<Self, DecodeError> { Ok(Self { channel_id: Readable::read(r)?, data: { let sz: usize = <u16 as Readable>::read(r)? as usize; let mut data = Vec::with_capacity(sz); data.resize(sz, 0); r.read_exact(&mut data)?; match String::from_utf8(data) { Ok(s) => s, Err(_) => return Err(DecodeError::InvalidValue), } }, }) }',
    'Writeable for WarningMessage':
        'fn write<W: Writer>(&self, w: &mut W) -> Result<(), io::Error> { self.channel_id.write(w)?; (self.data.len() as u16).write(w)?; w.write_all(self.data.as_bytes())?; Ok(()) }',
    'LengthReadable for WarningMessage':
        'fn read_from_fixed_length_buffer<R: LengthLimitedRead>(r: &mut R) -> Result<Self, DecodeError> { Ok(Self { channel_id: Readable::read(r)?, data: { let sz: usize = <u16 as Readable>::read(r)? as usize; let mut data = Vec::with_capacity(sz); data.resize(sz, 0); r.read_exact(&mut data)?; match String::from_utf8(data) { Ok(s) => s, Err(_) => return Err(DecodeError::InvalidValue), } }, }) }',
    'Writeable for Ping':
        'fn write<W: Writer>(&self, w: &mut W) -> Result<(), io::Error> { self.ponglen.write(w)?; vec![0u8; self.byteslen as usize].write(w)?; Ok(()) }',
    'LengthReadable for Ping':
        'fn read_from_fixed_length_buffer<R: LengthLimitedRead>(r: &mut R) -> Result<Self, DecodeError> { Ok(Ping { ponglen: Readable::read(r)?, byteslen: { let byteslen = Readable::read(r)?; r.read_exact(&mut vec![0u8; byteslen as usize][..])?; byteslen }, }) }',
    'Writeable for Pong':
        'fn write<W: Writer>(&self, w: &mut W) -> Result<(), io::Error> { vec![0u8; self.byteslen as usize].write(w)?; Ok(()) }',
    'LengthReadable for Pong':
        'fn read_from_fixed_length_buffer<R: LengthLimitedRead>(r: &mut R) -> Result<Self, DecodeError> { Ok(Pong { byteslen: { let byteslen = Readable::read(r)?; r.read_exact(&mut vec![0u8; byteslen as usize][..])?; byteslen }, }) }',
}


def check_fragments(ctx):
    src = ctx.src[MSGS]
    for key, want in HAND_FRAGMENTS.items():
        tr, name = key.split(' for ')
        body, _ = impl_body(src, r'impl %s for %s\s*\{' % (tr, name), 'impl ' + key)
        got = ' '.join(body.split())
        if got != want:
            raise TranslateError('impl %s changed (Model/MsgSchemasHand.lean mirrors the old text): now `%s`' % (key, got[:300]))


# ---------------------------------------------------------------------------------------------------------------------
# irregular hand-written codecs modelled by Model/MsgCustom.lean: SocketAddress, (Unsigned)NodeAnnouncement,
# QueryShortChannelIds, ReplyChannelRange.  The *shape* of each reader / writer body is pinned by a skeleton (the
# whitespace-normalised text with the arithmetic / comparison expressions cut out); the expressions themselves are
# TRANSLATED into Lean definitions the model calls, so the model follows the source and the theorems of Props/C13 are
# re-proved about what the source says now.

def split_arms(s):
    """split on top-level commas; only ( [ { nest (so that `=>` and `<T>` do not confuse the depth)"""
    parts, d, cur = [], 0, ''
    for c in s:
        if c in '([{':
            d += 1
        elif c in ')]}':
            d -= 1
        if c == ',' and d == 0:
            parts.append(cur)
            cur = ''
        else:
            cur += c
    if cur.strip():
        parts.append(cur)
    return [' '.join(p.split()) for p in parts if p.strip()]


def rtext(a):
    """Rust text of a name / field access / argument-less method call"""
    if a[0] == 'var':
        return a[1]
    if a[0] == 'field':
        return rtext(a[1]) + '.' + a[2]
    if a[0] == 'method' and not a[3]:
        return rtext(a[1]) + '.' + a[2] + '()'
    if a[0] == 'cast':
        return rtext(a[1])
    return repr(a)


def lean_expr(ast, env, what):
    """rs2lean AST of a pure integer / boolean expression -> (Lean text, 'nat' | 'bool'); `env`: Rust name / `x.len()` text -> Lean
    variable.  Only + - * / %, comparisons, || && !, integer literals, casts (dropped) and the names of `env` are accepted."""
    k = ast[0]
    if k == 'num':
        return str(ast[1]), 'nat'
    if k == 'cast':
        return lean_expr(ast[1], env, what)
    if k in ('var', 'method', 'field'):
        key = rtext(ast)
        for name, lean in env.items():
            if key == name:
                return lean, 'nat'
        raise TranslateError('%s: unexpected operand %r in %r' % (what, key, rtext(ast)))
    if k == 'un' and ast[1] == '!':
        t, ty = lean_expr(ast[2], env, what)
        if ty != 'bool':
            raise TranslateError('%s: `!` on a non-boolean' % what)
        return '(!%s)' % t, 'bool'
    if k == 'bin':
        op = ast[1]
        (l, lt), (r, rt) = lean_expr(ast[2], env, what), lean_expr(ast[3], env, what)
        if op in ('+', '-', '*', '/', '%') and lt == rt == 'nat':
            return '(%s %s %s)' % (l, op, r), 'nat'
        if op in ('<', '<=', '>', '>=', '==', '!=') and lt == rt == 'nat':
            return 'decide (%s %s %s)' % (l, {'<=': '≤', '>=': '≥', '==': '=', '!=': '≠'}.get(op, op), r), 'bool'
        if op in ('||', '&&') and lt == rt == 'bool':
            return '(%s %s %s)' % (l, op, r), 'bool'
    raise TranslateError('%s: cannot translate %r' % (what, rtext(ast)))


def tr(expr, env, want, what):
    try:
        ast = parse_expr(expr)
    except rs2lean.TranslateError as ex:
        raise TranslateError('%s: cannot parse %r: %s' % (what, expr, ex))
    t, ty = lean_expr(ast, env, what)
    if ty != want:
        raise TranslateError('%s: %r is a %s, expected a %s' % (what, expr, ty, want))
    return t


def norm_body(src, tr_name, ty_name):
    body, line = impl_body(src, r'impl %s for %s\s*\{' % (tr_name, re.escape(ty_name)), 'impl %s for %s' % (tr_name, ty_name))
    return ' '.join(body.split()), line


def cut(text, pattern, what):
    """text must match `pattern` (a regex with named groups) entirely; returns the groups"""
    m = re.fullmatch(pattern, text, re.S)
    if not m:
        raise TranslateError('%s changed shape (Model/MsgCustom.lean mirrors the old one): now `%s`' % (what, text[:400]))
    return m.groupdict()


def esc(skel):
    """skeleton with `«name»` holes -> regex"""
    out, i = '', 0
    for m in re.finditer(r'«(\w+)»', skel):
        out += re.escape(skel[i:m.start()]) + '(?P<%s>[^;{}]+?)' % m.group(1)
        i = m.end()
    return out + re.escape(skel[i:])


ADDR_PART = {'u16': '.u16', 'u8': '.u8', 'Hostname': '.hostname'}


def addr_part(t, what):
    t = ' '.join(t.split())
    m = re.fullmatch(r'\[u8;\s*(\d+)\]', t)
    if m:
        return '(.bytes %d)' % int(m.group(1))
    if t in ADDR_PART:
        return ADDR_PART[t]
    raise TranslateError('%s: no address-part model for Rust type `%s`' % (what, t))


def socket_address(ctx):
    """[(id, variant, [(field, part)], lenConst, lenHost)] from the enum, reader arms, writer arms, get_id and len"""
    src = ctx.src[MSGS]
    m = re.search(r'\bpub enum SocketAddress\s*\{', src)
    if not m:
        raise TranslateError('enum SocketAddress not found')
    body = re.sub(r'#\[[^\]]*\]', '', src[m.end():match_close(src, m.end() - 1, '{', '}')])
    variants = {}
    for v in split_arms(body):
        mm = re.fullmatch(r'(\w+)\s*\{(.*)\}', v, re.S)
        mt = re.fullmatch(r'(\w+)\s*\((.*)\)', v, re.S)
        if mm:
            fs = []
            for f in split_arms(mm.group(2)):
                fm = re.fullmatch(r'(\w+)\s*:\s*(.+)', f)
                if not fm:
                    raise TranslateError('SocketAddress::%s: field %r' % (mm.group(1), f))
                fs.append((fm.group(1), fm.group(2)))
            variants[mm.group(1)] = ('struct', fs)
        elif mt:
            variants[mt.group(1)] = ('tuple', [('0', t) for t in split_arms(mt.group(2))])
        else:
            raise TranslateError('SocketAddress: variant %r' % v)
    # reader
    rbody, _ = norm_body(src, 'Readable', 'Result<SocketAddress, u8>')
    g = cut(rbody, re.escape('fn read<R: Read>(reader: &mut R) -> Result<Result<SocketAddress, u8>, DecodeError> { let byte = <u8 as Readable>::read(reader)?; match byte {') + r'(?P<arms>.*)' + re.escape('} }'),
            'impl Readable for Result<SocketAddress, u8>')
    arms = split_arms(g['arms'])
    if not arms or arms[-1] != '_ => return Ok(Err(byte))':
        raise TranslateError('SocketAddress reader: last arm is %r' % (arms[-1:] or None))
    kinds = []
    for a in arms[:-1]:
        am = re.fullmatch(r'(\d+) => Ok\(Ok\(SocketAddress::(\w+)\s*(?:\{(.*)\}|\((.*)\))\)\)', a)
        if not am or am.group(2) not in variants:
            raise TranslateError('SocketAddress reader: arm %r' % a)
        tid, var = int(am.group(1)), am.group(2)
        shape, decl = variants[var]
        if am.group(3) is not None:
            fields = []
            for f in split_arms(am.group(3)):
                fm = re.fullmatch(r'(\w+): Readable::read\(reader\)\?', f)
                if not fm:
                    raise TranslateError('SocketAddress reader: %s field %r' % (var, f))
                fields.append(fm.group(1))
            if shape != 'struct' or sorted(fields) != sorted(n for n, _ in decl):
                raise TranslateError('SocketAddress reader: %s fills %s, enum declares %s' % (var, fields, decl))
        else:
            if shape != 'tuple' or split_arms(am.group(4)) != ['Readable::read(reader)?'] * len(decl):
                raise TranslateError('SocketAddress reader: %s tuple arm %r' % (var, a))
            fields = [n for n, _ in decl]
        d = dict(decl)
        kinds.append({'id': tid, 'name': var, 'fields': [(f, addr_part(d[f], 'SocketAddress::' + var)) for f in fields]})
    if sorted(k['name'] for k in kinds) != sorted(variants):
        raise TranslateError('SocketAddress reader covers %s, enum has %s' % ([k['name'] for k in kinds], sorted(variants)))
    # writer: same type byte, same field order
    wbody, _ = norm_body(src, 'Writeable', 'SocketAddress')
    g = cut(wbody, re.escape('fn write<W: Writer>(&self, writer: &mut W) -> Result<(), io::Error> { match self {') + r'(?P<arms>.*)' + re.escape('} Ok(()) }'),
            'impl Writeable for SocketAddress')
    warms = split_arms(g['arms'])
    byname = {k['name']: k for k in kinds}
    seen = set()
    for a in warms:
        am = re.fullmatch(r'&SocketAddress::(\w+)\s*(?:\{(.*)\}|\((\w+)\)) => \{ (\d+)u8\.write\(writer\)\?;((?: \w+\.write\(writer\)\?;)*) \}', a)
        if not am or am.group(1) not in byname:
            raise TranslateError('SocketAddress writer: arm %r' % a)
        k = byname[am.group(1)]
        written = re.findall(r'(\w+)\.write\(writer\)\?;', am.group(5))
        bound = [x.replace('ref ', '').strip() for x in am.group(2).split(',')] if am.group(2) is not None else [am.group(3)]
        want = [f for f, _ in k['fields']] if am.group(2) is not None else bound
        if int(am.group(4)) != k['id'] or written != want or sorted(bound) != sorted(want):
            raise TranslateError('SocketAddress writer: %s writes type %s fields %s, reader has type %d fields %s' % (k['name'], am.group(4), written, k['id'], want))
        seen.add(k['name'])
    if seen != set(byname):
        raise TranslateError('SocketAddress writer covers %s' % sorted(seen))
    # get_id and len
    im = re.search(r'\bimpl SocketAddress\s*\{', src)
    ibody = src[im.end():match_close(src, im.end() - 1, '{', '}')]

    def fn_arms(sig, what):
        fm = re.search(re.escape(sig) + r'\s*\{\s*match self\s*\{', ibody)
        if not fm:
            raise TranslateError('SocketAddress::%s not found' % what)
        o = ibody.rindex('{', 0, fm.end())
        return split_arms(ibody[o + 1:match_close(ibody, o, '{', '}')])
    for a in fn_arms('fn get_id(&self) -> u8', 'get_id'):
        am = re.fullmatch(r'&SocketAddress::(\w+)\s*(?:\{ \.\. \}|\(_\)) => (\d+)', a)
        if not am or am.group(1) not in byname or int(am.group(2)) != byname[am.group(1)]['id']:
            raise TranslateError('SocketAddress::get_id arm %r disagrees with the reader' % a)
    for a in fn_arms('fn len(&self) -> u16', 'len'):
        am = re.fullmatch(r'&SocketAddress::(\w+)\s*(?:\{ \.\. \}|\(_\)) => (\d+)', a)
        hm = re.fullmatch(r'&SocketAddress::(\w+)\s*\{ ref hostname, \.\. \} => u16::from\(hostname\.len\(\)\) \+ (\d+)', a)
        if am and am.group(1) in byname:
            byname[am.group(1)].update(lenConst=int(am.group(2)), lenHost=False)
        elif hm and hm.group(1) in byname:
            byname[hm.group(1)].update(lenConst=int(hm.group(2)), lenHost=True)
        else:
            raise TranslateError('SocketAddress::len arm %r' % a)
    for k in kinds:
        if 'lenConst' not in k:
            raise TranslateError('SocketAddress::len has no arm for %s' % k['name'])
    return kinds


NODE_ANN_READ = ('fn read_from_fixed_length_buffer<R: LengthLimitedRead>(r: &mut R) -> Result<Self, DecodeError> { '
    'let features: NodeFeatures = Readable::read(r)?; let timestamp: u32 = Readable::read(r)?; let node_id: NodeId = Readable::read(r)?; '
    'let mut rgb = [0; 3]; r.read_exact(&mut rgb)?; let alias: NodeAlias = Readable::read(r)?; let addr_len: u16 = Readable::read(r)?; '
    'let mut addresses: Vec<SocketAddress> = Vec::new(); let mut addr_readpos = 0; let mut excess = false; let mut excess_byte = 0; '
    'loop { if «done» { break; } match Readable::read(r) { Ok(Ok(addr)) => { if «overrun» { return Err(DecodeError::BadLengthDescriptor); } '
    'addr_readpos += «advance»; addresses.push(addr); }, Ok(Err(unknown_descriptor)) => { excess = true; excess_byte = unknown_descriptor; break; }, '
    'Err(DecodeError::ShortRead) => return Err(DecodeError::BadLengthDescriptor), Err(e) => return Err(e), } } '
    'let mut excess_data = vec![]; let excess_address_data = if «has_excess» { let mut excess_address_data = vec![0; «excess_len»]; '
    'r.read_exact(&mut excess_address_data[if excess { 1 } else { 0 }..])?; if excess { excess_address_data[0] = excess_byte; } excess_address_data } '
    'else { if excess { excess_data.push(excess_byte); } Vec::new() }; excess_data.extend(read_to_end(r)?.iter()); '
    'Ok(UnsignedNodeAnnouncement { features, timestamp, node_id, rgb, alias, addresses, excess_address_data, excess_data, }) }')
NODE_ANN_WRITE = ('fn write<W: Writer>(&self, w: &mut W) -> Result<(), io::Error> { self.features.write(w)?; self.timestamp.write(w)?; self.node_id.write(w)?; '
    'w.write_all(&self.rgb)?; self.alias.write(w)?; let mut addr_len = 0; for addr in self.addresses.iter() { addr_len += «step»; } '
    '(«total»).write(w)?; for addr in self.addresses.iter() { addr.write(w)?; } w.write_all(&self.excess_address_data[..])?; '
    'w.write_all(&self.excess_data[..])?; Ok(()) }')
# header of UnsignedNodeAnnouncement as the skeleton above fixes it: (field, Rust type); `rgb` is a `[0; 3]` buffer filled by read_exact
NODE_ANN_HEADER = [('features', 'NodeFeatures'), ('timestamp', 'u32'), ('node_id', 'NodeId'), ('rgb', '[u8; 3]'), ('alias', 'NodeAlias')]

SCID_READ_TAIL = ('let encoding_len: u16 = Readable::read(r)?; let encoding_type: u8 = Readable::read(r)?; '
    'if encoding_type != EncodingType::«compression» as u8 { return Err(DecodeError::UnsupportedCompression); } '
    'if «bad_len» { return Err(DecodeError::InvalidValue); } let short_channel_id_count: u16 = «count»; '
    'let mut short_channel_ids = Vec::with_capacity(short_channel_id_count as usize); '
    'for _ in 0..short_channel_id_count { short_channel_ids.push(Readable::read(r)?); } ')
SCID_MSGS = {
    'QueryShortChannelIds': {
        'read': 'fn read_from_fixed_length_buffer<R: LengthLimitedRead>(r: &mut R) -> Result<Self, DecodeError> { let chain_hash: ChainHash = Readable::read(r)?; '
                + SCID_READ_TAIL + 'Ok(QueryShortChannelIds { chain_hash, short_channel_ids }) }',
        'write': 'fn write<W: Writer>(&self, w: &mut W) -> Result<(), io::Error> { let encoding_len: u16 = «enc_len»; self.chain_hash.write(w)?; encoding_len.write(w)?; '
                 '(EncodingType::«wcompression» as u8).write(w)?; for scid in self.short_channel_ids.iter() { scid.write(w)?; } Ok(()) }',
        'header': [('chain_hash', 'ChainHash')]},
    'ReplyChannelRange': {
        'read': 'fn read_from_fixed_length_buffer<R: LengthLimitedRead>(r: &mut R) -> Result<Self, DecodeError> { let chain_hash: ChainHash = Readable::read(r)?; '
                'let first_blocknum: u32 = Readable::read(r)?; let number_of_blocks: u32 = Readable::read(r)?; let sync_complete: bool = Readable::read(r)?; '
                + SCID_READ_TAIL + 'Ok(ReplyChannelRange { chain_hash, first_blocknum, number_of_blocks, sync_complete, short_channel_ids, }) }',
        'write': 'fn write<W: Writer>(&self, w: &mut W) -> Result<(), io::Error> { let encoding_len: u16 = «enc_len»; self.chain_hash.write(w)?; self.first_blocknum.write(w)?; '
                 'self.number_of_blocks.write(w)?; self.sync_complete.write(w)?; encoding_len.write(w)?; (EncodingType::«wcompression» as u8).write(w)?; '
                 'for scid in self.short_channel_ids.iter() { scid.write(w)?; } Ok(()) }',
        'header': [('chain_hash', 'ChainHash'), ('first_blocknum', 'u32'), ('number_of_blocks', 'u32'), ('sync_complete', 'bool')]},
}

# whitespace-normalised bodies mirrored literally by the model (no expressions to translate)
CUSTOM_FRAGMENTS = {
    (MSGS, 'Readable', 'SocketAddress'):
        'fn read<R: Read>(reader: &mut R) -> Result<SocketAddress, DecodeError> { match Readable::read(reader) { Ok(Ok(res)) => Ok(res), Ok(Err(_)) => Err(DecodeError::UnknownVersion), Err(e) => Err(e), } }',
    (MSGS, 'LengthReadable', 'NodeAnnouncement'):
        'fn read_from_fixed_length_buffer<R: LengthLimitedRead>(r: &mut R) -> Result<Self, DecodeError> { Ok(Self { signature: Readable::read(r)?, contents: LengthReadable::read_from_fixed_length_buffer(r)?, }) }',
    (MSGS, 'Writeable', 'NodeAnnouncement'):
        'fn write<W: Writer>(&self, w: &mut W) -> Result<(), io::Error> { self.signature.write(w)?; self.contents.write(w)?; Ok(()) }',
    (SER, 'Writeable', 'Hostname'):
        '#[inline] fn write<W: Writer>(&self, w: &mut W) -> Result<(), io::Error> { self.len().write(w)?; w.write_all(self.as_bytes()) }',
    (SER, 'Readable', 'Hostname'):
        '#[inline] fn read<R: Read>(r: &mut R) -> Result<Hostname, DecodeError> { let len: u8 = Readable::read(r)?; let mut vec = Vec::with_capacity(len.into()); vec.resize(len.into(), 0); r.read_exact(&mut vec)?; Hostname::try_from(vec).map_err(|_| DecodeError::InvalidValue) }',
    (SER, 'TryFrom<Vec<u8>>', 'Hostname'):
        'type Error = (); fn try_from(bytes: Vec<u8>) -> Result<Self, Self::Error> { if let Ok(s) = String::from_utf8(bytes) { Hostname::try_from(s) } else { Err(()) } }',
    (SER, 'TryFrom<String>', 'Hostname'):
        'type Error = (); fn try_from(s: String) -> Result<Self, Self::Error> { if Hostname::str_is_valid_hostname(&s) { Ok(Hostname(s)) } else { Err(()) } }',
    (SER, None, 'Hostname'):
        'pub fn len(&self) -> u8 { (&self.0).len() as u8 } pub(crate) fn str_is_valid_hostname(s: &str) -> bool { s.len() <= 255 && s.chars().all(|c| c.is_ascii_alphanumeric() || c == \'.\' || c == \'_\' || c == \'-\') }',
}


# Init: reader / writer / feature-vector helpers mirrored literally by Model/MsgCustom.lean (decodeInit, encodeInit, orLE, first13LE);
# the TLV list is extracted (init_layout)
INIT_READ = ('fn read_from_fixed_length_buffer<R: LengthLimitedRead>(r: &mut R) -> Result<Self, DecodeError> { let global_features: InitFeatures = Readable::read(r)?; '
    'let features: InitFeatures = Readable::read(r)?; let mut remote_network_address: Option<«t_addr»> = None; let mut networks: Option<«t_networks»> = None; '
    'decode_tlv_stream!(r, { «rtlvs» }); Ok(Init { features: features | global_features, networks: networks.map(|n| n.0), remote_network_address, }) }')
INIT_WRITE = ('fn write<W: Writer>(&self, w: &mut W) -> Result<(), io::Error> { write_features_up_to_13(w, self.features.le_flags())?; self.features.write(w)?; '
    'encode_tlv_stream!(w, { «wtlvs» }); Ok(()) }')
INIT_TLV_TYPES = {'SocketAddress': ('sockAddr',), 'WithoutLength<Vec<ChainHash>>': ('chunks', 32)}
FN_FRAGMENTS = {
    (MSGS, r'pub\(crate\) fn write_features_up_to_13'):
        'pub(crate) fn write_features_up_to_13<W: Writer>( w: &mut W, le_flags: &[u8], ) -> Result<(), io::Error> { let len = core::cmp::min(2, le_flags.len()); (len as u16).write(w)?; for i in (0..len).rev() { if i == 0 { le_flags[i].write(w)?; } else { (le_flags[i] & 0b00_11_11_11).write(w)?; } } Ok(()) }',
    ('lightning-types/src/features.rs', r'impl<T: sealed::Context, Rhs: Borrow<Self>> core::ops::BitOrAssign<Rhs> for Features<T>'):
        'impl<T: sealed::Context, Rhs: Borrow<Self>> core::ops::BitOrAssign<Rhs> for Features<T> { fn bitor_assign(&mut self, rhs: Rhs) { let total_feature_len = cmp::max(self.flags.len(), rhs.borrow().flags.len()); self.flags.resize(total_feature_len, 0u8); for (byte, rhs_byte) in self.flags.iter_mut().zip(rhs.borrow().flags.iter()) { *byte |= *rhs_byte; } } }',
    ('lightning-types/src/features.rs', r'impl<T: sealed::Context> core::ops::BitOr for Features<T>'):
        'impl<T: sealed::Context> core::ops::BitOr for Features<T> { type Output = Self; fn bitor(mut self, o: Self) -> Self { self |= o; self } }',
    ('lightning-types/src/features.rs', r'pub fn from_be_bytes'):
        'pub fn from_be_bytes(mut flags: Vec<u8>) -> Features<T> { flags.reverse(); Self { flags: FeatureFlags::from(flags), mark: PhantomData } }',
    ('lightning/src/ln/features.rs', r'macro_rules! impl_feature_len_prefixed_write'):
        'macro_rules! impl_feature_len_prefixed_write { ($features: ident) => { impl Writeable for $features { fn write<W: Writer>(&self, w: &mut W) -> Result<(), io::Error> { let bytes = self.le_flags(); (bytes.len() as u16).write(w)?; write_be(w, bytes) } } impl Readable for $features { fn read<R: io::Read>(r: &mut R) -> Result<Self, DecodeError> { let len: u16 = Readable::read(r)?; let mut bytes = vec![0u8; len as usize]; r.read_exact(&mut bytes[..])?; Ok(Self::from_be_bytes(bytes)) } } }; }',
    ('lightning/src/ln/features.rs', r'fn write_be'):
        'fn write_be<W: Writer>(w: &mut W, le_flags: &[u8]) -> Result<(), io::Error> { for f in le_flags.iter().rev() { f.write(w)?; } Ok(()) }',
}


def check_fn_fragments(ctx):
    cache = {}
    for (path, start), want in FN_FRAGMENTS.items():
        src = ctx.src[path] if path in ctx.src else cache.setdefault(path, read(path))
        m = re.search(start, src)
        if not m:
            raise TranslateError('%s: `%s` not found' % (path, start))
        o = src.index('{', m.end())
        got = ' '.join(src[m.start():match_close(src, o, '{', '}') + 1].split())
        if got != want:
            raise TranslateError('%s: `%s…` changed (Model/MsgCustom.lean mirrors the old text): now `%s`' % (path, want[:50], got[:300]))


def init_layout(ctx):
    """TLVs of Init: [(type, field, FieldTy tuple)] — reader and writer must list the same types; payload types from the `let mut` declarations"""
    src = ctx.src[MSGS]
    rbody, rline = norm_body(src, 'LengthReadable', 'Init')
    wbody, wline = norm_body(src, 'Writeable', 'Init')
    def holes(skel):
        out, i = '', 0
        for m in re.finditer(r'«(\w+)»', skel):
            out += re.escape(skel[i:m.start()]) + '(?P<%s>.+?)' % m.group(1)
            i = m.end()
        return out + re.escape(skel[i:])
    g = cut(rbody, holes(INIT_READ), 'impl LengthReadable for Init')
    gw = cut(wbody, holes(INIT_WRITE), 'impl Writeable for Init')
    decl = {'remote_network_address': g['t_addr'].strip(), 'networks': g['t_networks'].strip()}
    tl = []
    for rec in split_arms(g['rtlvs']):
        m = re.fullmatch(r'\((\d+), (\w+), option\)', rec)
        if not m or m.group(2) not in decl or decl[m.group(2)] not in INIT_TLV_TYPES:
            raise TranslateError('Init: TLV entry %r (declared types %s)' % (rec, decl))
        tl.append((int(m.group(1)), m.group(2), INIT_TLV_TYPES[decl[m.group(2)]]))
    wt = []
    for rec in split_arms(gw['wtlvs']):
        m = re.fullmatch(r'\((\d+), self\.(\w+)(\.as_ref\(\)\.map\(\|n\| WithoutLength\(n\)\))?, option\)', rec)
        if not m:
            raise TranslateError('Init: encode_tlv_stream! entry %r' % rec)
        wt.append((int(m.group(1)), m.group(2), bool(m.group(3))))
    if [(t, f) for t, f, _ in tl] != [(t, f) for t, f, _ in wt] or any(wl != (ty[0] == 'chunks') for (_, _, ty), (_, _, wl) in zip(tl, wt)):
        raise TranslateError('Init: encode_tlv_stream! %s vs decode_tlv_stream! %s' % (wt, tl))
    return tl, rline, wline


# OnionMessage + onion_message::packet::Packet (Model/MsgCustom.lean decodeOnionMsg / encodeOnionMsg); the overhead constant is extracted
PACKET = 'lightning/src/onion_message/packet.rs'
ONION_FRAGMENTS = {
    (MSGS, 'LengthReadable', 'OnionMessage'):
        'fn read_from_fixed_length_buffer<R: LengthLimitedRead>(r: &mut R) -> Result<Self, DecodeError> { let blinding_point: PublicKey = Readable::read(r)?; let len: u16 = Readable::read(r)?; let mut packet_reader = FixedLengthReader::new(r, len as u64); let onion_routing_packet: onion_message::packet::Packet = <onion_message::packet::Packet as LengthReadable>::read_from_fixed_length_buffer( &mut packet_reader, )?; Ok(Self { blinding_point, onion_routing_packet }) }',
    (MSGS, 'Writeable', 'OnionMessage'):
        'fn write<W: Writer>(&self, w: &mut W) -> Result<(), io::Error> { self.blinding_point.write(w)?; let onion_packet_len = self.onion_routing_packet.serialized_length(); (onion_packet_len as u16).write(w)?; self.onion_routing_packet.write(w)?; Ok(()) }',
    (PACKET, 'LengthReadable', 'Packet'):
        'fn read_from_fixed_length_buffer<R: LengthLimitedRead>(r: &mut R) -> Result<Self, DecodeError> { const READ_BUFFER_SIZE: usize = 4096; let hop_data_len = r.remaining_bytes().saturating_sub(«overhead») as usize; let version = Readable::read(r)?; let public_key = Readable::read(r)?; let mut hop_data = Vec::new(); let mut read_idx = 0; while read_idx < hop_data_len { let mut read_buffer = [0; READ_BUFFER_SIZE]; let read_amt = cmp::min(hop_data_len - read_idx, READ_BUFFER_SIZE); r.read_exact(&mut read_buffer[..read_amt])?; hop_data.extend_from_slice(&read_buffer[..read_amt]); read_idx += read_amt; } let hmac = Readable::read(r)?; Ok(Packet { version, public_key, hop_data, hmac }) }',
    (PACKET, 'Writeable', 'Packet'):
        'fn write<W: Writer>(&self, w: &mut W) -> Result<(), io::Error> { self.version.write(w)?; self.public_key.write(w)?; w.write_all(&self.hop_data)?; self.hmac.write(w)?; Ok(()) }',
}


def onion_message(ctx):
    pk = read(PACKET)
    overhead = None
    for (path, trait, name), want in ONION_FRAGMENTS.items():
        src = ctx.src[MSGS] if path == MSGS else pk
        body, _ = impl_body(src, r'impl %s for %s\s*\{' % (trait, name), 'impl %s for %s' % (trait, name))
        g = cut(' '.join(body.split()), esc(want), 'impl %s for %s (%s)' % (trait, name, path))
        if 'overhead' in g:
            overhead = ctx.eval(g['overhead'])
    sm = re.search(r'pub struct Packet\s*\{', pk)
    body = re.sub(r'#\[[^\]]*\]', '', pk[sm.end():match_close(pk, sm.end() - 1, '{', '}')])
    fields = []
    for part in split_top(body):
        mm = re.fullmatch(r'(?:pub(?:\([^)]*\))?\s+)?(\w+)\s*:\s*(.+)', part, re.S)
        if not mm:
            raise TranslateError('onion_message::packet::Packet: field %r' % part)
        fields.append((mm.group(1), ' '.join(mm.group(2).split())))
    if fields != [('version', 'u8'), ('public_key', 'PublicKey'), ('hop_data', 'Vec<u8>'), ('hmac', '[u8; 32]')]:
        raise TranslateError('onion_message::packet::Packet fields changed: %s' % fields)
    return overhead


def check_custom_fragments(ctx, ser):
    for (path, trait, name), want in CUSTOM_FRAGMENTS.items():
        src = ctx.src[MSGS] if path == MSGS else ser
        hdr = r'impl %s for %s\s*\{' % (re.escape(trait), re.escape(name)) if trait else r'impl %s\s*\{' % re.escape(name)
        what = 'impl %s for %s' % (trait, name) if trait else 'impl %s' % name
        body, _ = impl_body(src, hdr, what)
        got = ' '.join(body.split())
        if got != want:
            raise TranslateError('%s (%s) changed (Model/Codec.lean / Model/MsgCustom.lean mirror the old text): now `%s`' % (what, path, got[:300]))


def custom_codecs(ctx):
    """Lean text for the generated definitions used by Model/MsgCustom.lean"""
    src = ctx.src[MSGS]
    ser = read(SER)
    check_custom_fragments(ctx, ser)
    L = []
    kinds = socket_address(ctx)
    L.append('/-- `enum SocketAddress` (ln/msgs.rs): type byte, variant, fields in reader order (= writer order = get_id), and the arm of')
    L.append('    `SocketAddress::len` (constant, adds `hostname.len()`) — extracted on this run -/')
    L.append('def sockAddrKinds : List AddrKind := [')
    L.append(',\n'.join('  ⟨%d, "%s", [%s], %d, %s⟩ /- %s -/' % (k['id'], k['name'], ', '.join(p for _, p in k['fields']), k['lenConst'],
                                                               'true' if k['lenHost'] else 'false', ', '.join(f for f, _ in k['fields'])) for k in kinds) + ']')
    L.append('')
    # UnsignedNodeAnnouncement
    rbody, rline = norm_body(src, 'LengthReadable', 'UnsignedNodeAnnouncement')
    g = cut(rbody, esc(NODE_ANN_READ), 'impl LengthReadable for UnsignedNodeAnnouncement')
    env = {'addr_len': 'addr_len', 'addr_readpos': 'addr_readpos', 'addr.len()': 'alen'}
    what = 'UnsignedNodeAnnouncement reader'
    L.append('/-! `impl LengthReadable for UnsignedNodeAnnouncement` (msgs.rs line %d): the expressions of the address loop, translated.' % rline)
    L.append('    `addr_len` = the declared u16 length, `addr_readpos` = bytes accounted for so far, `alen` = `addr.len()` of the descriptor just read -/')
    L.append('/-- loop head: `if %s { break; }` -/' % g['done'].strip())
    L.append('def nodeAnnDone (addr_len addr_readpos : Nat) : Bool := %s' % tr(g['done'], env, 'bool', what))
    L.append('/-- after a descriptor was read: `if %s { return Err(BadLengthDescriptor) }` -/' % g['overrun'].strip())
    L.append('def nodeAnnOverrun (addr_len addr_readpos alen : Nat) : Bool := %s' % tr(g['overrun'], env, 'bool', what))
    L.append('/-- `addr_readpos += %s` -/' % g['advance'].strip())
    L.append('def nodeAnnAdvance (addr_readpos alen : Nat) : Nat := addr_readpos + %s' % tr(g['advance'], env, 'nat', what))
    L.append('/-- after the loop: `if %s { … excess_address_data … }` -/' % g['has_excess'].strip())
    L.append('def nodeAnnHasExcess (addr_len addr_readpos : Nat) : Bool := %s' % tr(g['has_excess'], env, 'bool', what))
    L.append('/-- `vec![0; %s]` -/' % g['excess_len'].strip())
    L.append('def nodeAnnExcessLen (addr_len addr_readpos : Nat) : Nat := %s' % tr(g['excess_len'], env, 'nat', what))
    wbody, wline = norm_body(src, 'Writeable', 'UnsignedNodeAnnouncement')
    g = cut(wbody, esc(NODE_ANN_WRITE), 'impl Writeable for UnsignedNodeAnnouncement')
    what = 'UnsignedNodeAnnouncement writer'
    L.append('/-- `impl Writeable for UnsignedNodeAnnouncement` (msgs.rs line %d): `addr_len += %s` per address -/' % (wline, g['step'].strip()))
    L.append('def nodeAnnWriteStep (addr_len alen : Nat) : Nat := addr_len + %s' % tr(g['step'], {'addr.len()': 'alen'}, 'nat', what))
    L.append('/-- the declared length: `(%s).write(w)` -/' % g['total'].strip())
    L.append('def nodeAnnWriteTotal (addr_len excess_len : Nat) : Nat := %s' % tr(g['total'], {'addr_len': 'addr_len', 'self.excess_address_data.len()': 'excess_len'}, 'nat', what))
    L.append('/-- header of UnsignedNodeAnnouncement: the fields read before `addr_len` (names, types) -/')
    L.append('def nodeAnnHeaderPinned : List (String × FieldTy) := [%s]' % ', '.join('("%s", %s)' % (f, lean_ty(ctx.ty(t))) for f, t in NODE_ANN_HEADER))
    L.append('')
    # encoded short_channel_id lists
    em = re.search(r'\benum EncodingType\s*\{([^}]*)\}', src)
    if not em:
        raise TranslateError('enum EncodingType not found')
    enc = {}
    for v in split_arms(em.group(1)):
        vm = re.fullmatch(r'(\w+)\s*=\s*(0x[0-9a-fA-F]+|\d+)', v)
        if not vm:
            raise TranslateError('EncodingType variant %r' % v)
        enc[vm.group(1)] = int(vm.group(2), 0)
    for name, spec in SCID_MSGS.items():
        rbody, rline = norm_body(src, 'LengthReadable', name)
        g = cut(rbody, esc(spec['read']), 'impl LengthReadable for ' + name)
        wbody, wline = norm_body(src, 'Writeable', name)
        gw = cut(wbody, esc(spec['write']), 'impl Writeable for ' + name)
        for c in (g['compression'], gw['wcompression']):
            if c not in enc:
                raise TranslateError('%s: EncodingType::%s is not a variant' % (name, c))
        env = {'encoding_len': 'encoding_len'}
        p = name[0].lower() + name[1:]
        L.append('/-! `impl LengthReadable for %s` (msgs.rs line %d) / `impl Writeable` (line %d) -/' % (name, rline, wline))
        L.append('/-- `if %s { return Err(InvalidValue) }` -/' % g['bad_len'].strip())
        L.append('def %sBadLen (encoding_len : Nat) : Bool := %s' % (p, tr(g['bad_len'], env, 'bool', name + ' reader')))
        L.append('/-- `short_channel_id_count = %s` -/' % g['count'].strip())
        L.append('def %sCount (encoding_len : Nat) : Nat := %s' % (p, tr(g['count'], env, 'nat', name + ' reader')))
        L.append('/-- writer: `encoding_len = %s` -/' % gw['enc_len'].strip())
        L.append('def %sEncLen (n : Nat) : Nat := %s' % (p, tr(gw['enc_len'], {'self.short_channel_ids.len()': 'n'}, 'nat', name + ' writer')))
        L.append('def %sRules : ScidRules := ⟨%sBadLen, %sCount, %sEncLen, %d, %d⟩   -- …, EncodingType::%s accepted, EncodingType::%s written' % (p, p, p, p, enc[g['compression']], enc[gw['wcompression']], g['compression'], gw['wcompression']))
        L.append('def %sHeaderPinned : List (String × FieldTy) := [%s]' % (p, ', '.join('("%s", %s)' % (f, lean_ty(ctx.ty(t))) for f, t in spec['header'])))
        L.append('')
    check_fn_fragments(ctx)
    tl, rline, wline = init_layout(ctx)
    L.append('/-- `impl LengthReadable for Init` (msgs.rs line %d) / `impl Writeable for Init` (line %d): two feature vectors, then the TLVs' % (rline, wline))
    L.append('    extracted from decode_tlv_stream! / encode_tlv_stream! with the payload types of their `let mut` declarations -/')
    L.append('def initPinned : HandLayout := ⟨"Init", ["global_features", "features"], [%s, %s], [%s], false, none⟩' % (
        lean_ty(ctx.ty('InitFeatures')), lean_ty(ctx.ty('InitFeatures')), ', '.join('(%d, %s)' % (t, lean_ty(ty)) for t, _, ty in tl)))
    L.append('def initTlvNamesPinned : List String := [%s]' % ', '.join('"%s"' % f for _, f, _ in tl))
    L.append('')
    L.append('/-- onion_message/packet.rs `impl LengthReadable for Packet`: `hop_data_len = remaining_bytes().saturating_sub(N)` -/')
    L.append('def onionPacketOverheadPinned : Nat := %d' % onion_message(ctx))
    L.append('')
    return L, kinds



HAND_LET = ['OpenChannel', 'AcceptChannel', 'OpenChannelV2', 'AcceptChannelV2']
HAND_STRUCT = ['UnsignedChannelAnnouncement', 'ChannelAnnouncement', 'UnsignedChannelUpdate', 'ChannelUpdate']


def unwrap_option(t):
    m = re.fullmatch(r'Option<(.+)>', t)
    return m.group(1).strip() if m else None


def main(out_path):
    ctx = Ctx()
    src = ctx.src[MSGS]
    macros = parse_macros(src)
    if len(macros) < 20:
        raise TranslateError('expected at least 20 impl_writeable_msg! invocations, found %d' % len(macros))
    schemas, not_covered = [], []
    for name, fixed, tlvs, line in macros:
        decl, _ = ctx.struct_fields(name)
        if decl is None:
            raise TranslateError('struct %s not found' % name)
        d = dict(decl)
        used = set()
        try:
            fx = []
            for f in fixed:
                if f not in d:
                    raise TranslateError('%s: fixed field %s not in struct' % (name, f))
                used.add(f)
                fx.append((f, ctx.ty(d[f]), d[f]))
            tv = []
            for typ, f, kind in tlvs:
                if f not in d:
                    raise TranslateError('%s: TLV field %s not in struct' % (name, f))
                used.add(f)
                rt = d[f]
                if kind == 'option':
                    inner = unwrap_option(rt)
                    if inner is None:
                        raise TranslateError('%s.%s: kind option but type %s' % (name, f, rt))
                    tv.append((typ, f, ctx.ty(inner), 'option', rt))
                elif kind == 'required':
                    tv.append((typ, f, ctx.ty(rt), 'required', rt))
                else:
                    m = re.fullmatch(r'\(option,\s*encoding:\s*\((\w+),\s*(\w+)\)\)', kind)
                    if m and (m.group(1), m.group(2)) in ENCODINGS:
                        if unwrap_option(rt) != m.group(1):
                            raise TranslateError('%s.%s: encoding %s but type %s' % (name, f, kind, rt))
                        tv.append((typ, f, ENCODINGS[(m.group(1), m.group(2))][0], 'option', rt))
                    else:
                        raise Unsupported('TLV %d `%s` has kind `%s` (type `%s`)' % (typ, f, kind, rt))
            if used != set(d):
                raise TranslateError('%s: struct fields %s are not serialized' % (name, sorted(set(d) - used)))
            schemas.append({'name': name, 'line': line, 'fixed': fx, 'tlvs': tv})
        except Unsupported as ex:
            not_covered.append((name, str(ex)))

    L = ['/- GENERATED by tools/gen_msg_schemas.py from lightning/src/ln/msgs.rs — do not edit.',
         '   One `Schema` per `impl_writeable_msg!` invocation; regenerated on every check. -/',
         'import LdkModel.Model.Codec', 'namespace Ldk.Codec.Gen', 'open Ldk.Codec', '']
    for s in schemas:
        L.append('/-- msgs.rs line %d: impl_writeable_msg!(%s, …) -/' % (s['line'], s['name']))
        L.append('def schema_%s : Schema where' % s['name'])
        L.append('  name := "%s"' % s['name'])
        L.append('  fixedNames := [%s]' % ', '.join('"%s"' % f for f, _, _ in s['fixed']))
        L.append('  fixed := [' + ', '.join('%s /- %s -/' % (lean_ty(t), rt.replace('-/', '- /')) for _, t, rt in s['fixed']) + ']')
        L.append('  tlvs := [' + ', '.join('⟨%d, "%s", %s, .%s⟩' % (typ, f, lean_ty(t), kind) for typ, f, t, kind, _ in s['tlvs']) + ']')
        L.append('')
    L.append('/-- every macro-declared message the codec model covers -/')
    L.append('def generatedSchemas : List Schema := [' + ', '.join('schema_' + s['name'] for s in schemas) + ']')
    L.append('')
    L.append('/-- macro-declared messages NOT covered by the model (name, reason) -/')
    L.append('def notCovered : List (String × String) := [' + ', '.join('("%s", "%s")' % (n, r.replace('"', "'")) for n, r in not_covered) + ']')
    L.append('')
    check_fragments(ctx)
    hand = [hand_let_style(ctx, n) for n in HAND_LET] + [hand_struct_style(ctx, n) for n in HAND_STRUCT]
    for h in hand:
        cp = ctx.src[MSGS]
        if h['name'] == 'ChannelUpdate':
            h['post'] = 1 + [f for f, _, _ in hand_struct_style(ctx, 'UnsignedChannelUpdate')['fixed']].index('message_flags')
    L.append('/-- Field layout of the hand-written codecs of msgs.rs covered by Model/MsgSchemasHand.lean, EXTRACTED from the')
    L.append('    `impl LengthReadable` / `impl Writeable` bodies (reader order = writer order checked by the translator):')
    L.append('    (name, fixed field types, TLVs (type, payload type), ends with read_to_end excess data,')
    L.append('     index of the u8 field whose low bit must be set (checked after all fields were read)) -/')
    L.append('def handPinned : List HandLayout := [')
    L.append(',\n'.join('  ⟨"%s", [%s], [%s], [%s], %s, %s⟩ /- msgs.rs read line %d, write line %d -/' % (
        h['name'], ', '.join('"%s"' % f for f, _, _ in h['fixed']), ', '.join(lean_ty(t) for _, t, _ in h['fixed']), ', '.join('(%d, %s)' % (typ, lean_ty(t)) for typ, _, t, _ in h['tlvs']),
        'true' if h['tail'] else 'false', 'none' if h.get('post') is None else 'some %d' % h['post'], h['line'], h['wline']) for h in hand) + ']')
    L.append('')
    custom_lines, kinds = custom_codecs(ctx)
    L += custom_lines
    L.append('end Ldk.Codec.Gen')
    text = '\n'.join(L) + '\n'
    old = open(out_path).read() if os.path.exists(out_path) else None
    if old != text:
        os.makedirs(os.path.dirname(os.path.abspath(out_path)), exist_ok=True)
        open(out_path, 'w').write(text)
    js = {'schemas': [{'name': s['name'], 'line': s['line'],
                       'fixed': [{'name': f, 'ty': json_ty(t), 'rust': rt} for f, t, rt in s['fixed']],
                       'tlvs': [{'type': typ, 'name': f, 'ty': json_ty(t), 'kind': kind, 'rust': rt} for typ, f, t, kind, rt in s['tlvs']]}
                      for s in schemas],
          'not_covered': [{'name': n, 'reason': r} for n, r in not_covered],
          'hand': [{'name': h['name'], 'fixed': [{'name': f, 'ty': json_ty(t), 'rust': rt} for f, t, rt in h['fixed']],
                    'tlvs': [{'type': typ, 'name': f, 'ty': json_ty(t), 'rust': rt} for typ, f, t, rt in h['tlvs']], 'tail': h['tail'], 'post': h.get('post')} for h in hand]}
    jp = os.path.join(os.path.dirname(os.path.abspath(out_path)), 'schemas.json')
    jt = json.dumps(js, indent=1, sort_keys=True) + '\n'
    if not os.path.exists(jp) or open(jp).read() != jt:
        open(jp, 'w').write(jt)
    print('gen_msg_schemas: %d schemas, %d not covered (%s)' % (len(schemas), len(not_covered), ', '.join(n for n, _ in not_covered)))


if __name__ == '__main__':
    try:
        main(sys.argv[1] if len(sys.argv) > 1 else os.path.join(os.path.dirname(os.path.abspath(__file__)), '..', 'lean', 'LdkModel', 'Generated', 'MsgSchemas.lean'))
    except TranslateError as ex:
        print('TRANSLATE-ERROR gen_msg_schemas: %s' % ex)
        sys.exit(2)
