#!/usr/bin/env python3
"""Regenerate lean/LdkModel/Generated/MsgSchemas.lean (+ schemas.json) from /repo's current Rust sources.

For every `impl_writeable_msg!(Name, { fixed fields }, { (type, field, kind), ... })` in
lightning/src/ln/msgs.rs: look up `pub struct Name { ... }`, map every field's Rust type to a
`FieldTy` of lean/LdkModel/Model/Codec.lean and emit a `Schema` value.  Helper structs declared with
`impl_writeable!(S, { f1, f2 })` (msgs.rs, onion_utils.rs) are translated recursively into nested
pairs; `[u8; EXPR]` sizes are evaluated over the constants of msgs.rs / onion_utils.rs;
`OnionPacket` (hand-written impl) is translated from the field order of its `Readable` impl.

A message with a field type or TLV kind that the codec model cannot express is NOT dropped silently:
it is listed in `notCovered` (Lean) / "not_covered" (json) with the reason.

Exit 2 with `TRANSLATE-ERROR ...` when msgs.rs no longer has the expected shape.
"""
import re, sys, os, json
sys.path.insert(0, os.path.dirname(__file__))
from rs2lean import strip_comments

REPO = os.environ.get('VERIF_REPO', '/repo')
MSGS = 'lightning/src/ln/msgs.rs'
AUX = ['lightning/src/ln/msgs.rs', 'lightning/src/ln/onion_utils.rs']


class TranslateError(Exception):
    pass


class Unsupported(Exception):
    pass


# Rust leaf type -> (FieldTy as python tuple, the Readable/Writeable impl that justifies it)
LEAF = {
    'u8': (('uint', 1), 'util/ser.rs impl Readable for u8'),
    'u16': (('uint', 2), 'util/ser.rs impl_writeable_primitive!(u16, 2)'),
    'u32': (('uint', 4), 'util/ser.rs impl_writeable_primitive!(u32, 4)'),
    'u64': (('uint', 8), 'util/ser.rs impl_writeable_primitive!(u64, 8)'),
    'i64': (('uint', 8), 'util/ser.rs impl_writeable_primitive!(i64, 8) (two\'s-complement bit pattern)'),
    'bool': (('fixed', 1, 'bool'), 'util/ser.rs impl Readable for bool'),
    '()': (('unit',), 'util/ser.rs impl Readable for ()'),
    'ChannelId': (('fixed', 32, 'any'), 'ln/types.rs impl Readable for ChannelId ([u8; 32])'),
    'Txid': (('fixed', 32, 'any'), 'util/ser.rs impl Readable for Txid'),
    'ChainHash': (('fixed', 32, 'any'), 'util/ser.rs impl Readable for ChainHash'),
    'PaymentHash': (('fixed', 32, 'any'), 'util/ser.rs impl Readable for PaymentHash'),
    'PaymentPreimage': (('fixed', 32, 'any'), 'util/ser.rs impl Readable for PaymentPreimage'),
    'PaymentSecret': (('fixed', 32, 'any'), 'util/ser.rs impl Readable for PaymentSecret'),
    'PublicKey': (('fixed', 33, 'point'), 'util/ser.rs impl Readable for PublicKey'),
    'Signature': (('fixed', 64, 'sig'), 'util/ser.rs impl Readable for ecdsa::Signature'),
    'ScriptBuf': (('bytes16',), 'util/ser.rs impl Readable for ScriptBuf (u16 length prefix)'),
    'Vec<u8>': (('varBytes',), 'util/ser.rs impl Readable for Vec<u8> (CollectionLength prefix)'),
    'Vec<Signature>': (('vec', ('fixed', 64, 'sig')), 'util/ser.rs impl_for_vec!(ecdsa::Signature)'),
}
# `(option, encoding: (T, Wrapper))` wrappers
ENCODINGS = {
    ('bool', 'AccountableBool'): (('fixed', 1, 'accountable'), 'ln/msgs.rs AccountableBool'),
}


def read(path):
    p = os.path.join(REPO, path)
    if not os.path.exists(p):
        raise TranslateError('missing ' + p)
    return strip_comments(open(p).read())


def match_close(src, i, op, cl):
    d = 0
    for j in range(i, len(src)):
        if src[j] == op:
            d += 1
        elif src[j] == cl:
            d -= 1
            if d == 0:
                return j
    raise TranslateError('unbalanced %s at %d' % (op, i))


def split_top(s, sep=','):
    parts, d, cur = [], 0, ''
    for c in s:
        if c in '([{<':
            d += 1
        elif c in ')]}>':
            d -= 1
        if c == sep and d == 0:
            parts.append(cur)
            cur = ''
        else:
            cur += c
    if cur.strip():
        parts.append(cur)
    return [p.strip() for p in parts if p.strip()]


class Ctx:
    def __init__(self):
        self.src = {p: read(p) for p in AUX}
        self.consts = {}

    def const(self, name):
        if name in self.consts:
            return self.consts[name]
        for p, s in self.src.items():
            m = re.search(r'const\s+%s\s*:\s*\w+\s*=\s*([^;]+);' % re.escape(name), s)
            if m:
                v = self.eval(m.group(1))
                self.consts[name] = v
                return v
        raise TranslateError('constant %s not found' % name)

    def eval(self, e):
        e = e.strip()
        toks = re.findall(r'\d[\d_]*|[A-Za-z_]\w*|[()*+/-]', e)
        if ''.join(toks) != re.sub(r'\s+', '', e):
            raise TranslateError('cannot evaluate size expression %r' % e)
        py = []
        for t in toks:
            if re.fullmatch(r'\d[\d_]*', t):
                py.append(t.replace('_', ''))
            elif re.fullmatch(r'[A-Za-z_]\w*', t):
                if t in ('usize', 'as'):
                    continue
                py.append(str(self.const(t)))
            elif t == '/':
                py.append('//')
            else:
                py.append(t)
        return int(eval(' '.join(py), {'__builtins__': {}}))

    def struct_fields(self, name):
        """[(field, type)] of `struct name { .. }` in declaration order (any visibility)"""
        for p, s in self.src.items():
            m = re.search(r'\bstruct\s+%s\s*\{' % re.escape(name), s)
            if m:
                j = match_close(s, m.end() - 1, '{', '}')
                body = s[m.end():j]
                body = re.sub(r'#\[[^\]]*\]', '', body)
                out = []
                for part in split_top(body):
                    mm = re.fullmatch(r'(?:pub(?:\([^)]*\))?\s+)?(\w+)\s*:\s*(.+)', part, re.S)
                    if not mm:
                        raise TranslateError('cannot parse field %r of struct %s' % (part, name))
                    out.append((mm.group(1), ' '.join(mm.group(2).split())))
                return out, p
        return None, None

    def impl_writeable_fields(self, name):
        for p, s in self.src.items():
            m = re.search(r'\bimpl_writeable!\(\s*%s\s*,\s*\{([^}]*)\}\s*\)' % re.escape(name), s)
            if m:
                return [f.strip() for f in m.group(1).split(',') if f.strip()], p
        return None, None

    def ty(self, t):
        """Rust type -> FieldTy tuple; raises Unsupported"""
        t = ' '.join(t.split())
        t = re.sub(r'^(?:bitcoin::|secp256k1::|ecdsa::|crate::[\w:]*::)', '', t)
        if t in LEAF:
            return LEAF[t][0]
        m = re.fullmatch(r'\[u8;\s*(.+)\]', t)
        if m:
            return ('fixed', self.eval(m.group(1)), 'any')
        # type aliases (`pub type SerialId = u64;`)
        for p, s in self.src.items():
            mm = re.search(r'\btype\s+%s\s*=\s*([^;]+);' % re.escape(t), s) if re.fullmatch(r'\w+', t) else None
            if mm:
                return self.ty(mm.group(1))
        if t == 'OnionPacket':
            return self.onion_packet()
        if re.fullmatch(r'\w+', t):
            fields, _ = self.impl_writeable_fields(t)
            if fields is not None:
                decl, _ = self.struct_fields(t)
                if decl is None:
                    raise TranslateError('impl_writeable!(%s) without a struct' % t)
                d = dict(decl)
                tys = []
                for f in fields:
                    if f not in d:
                        raise TranslateError('impl_writeable!(%s): field %s not in struct' % (t, f))
                    tys.append(self.ty(d[f]))
                return nest(tys)
        raise Unsupported('no codec model for Rust type `%s`' % t)

    def onion_packet(self):
        s = self.src[MSGS]
        m = re.search(r'impl Readable for OnionPacket\s*\{', s)
        if not m:
            raise TranslateError('impl Readable for OnionPacket not found')
        j = match_close(s, m.end() - 1, '{', '}')
        body = s[m.end():j]
        mm = re.search(r'Ok\(OnionPacket\s*\{', body)
        if not mm:
            raise TranslateError('OnionPacket::read: constructor not found')
        k = match_close(body, mm.end() - 1, '{', '}')
        decl, _ = self.struct_fields('OnionPacket')
        d = dict(decl)
        tys = []
        for part in split_top(body[mm.end():k]):
            pm = re.fullmatch(r'(\w+)\s*:\s*(.+)', part, re.S)
            if not pm:
                raise TranslateError('OnionPacket::read: cannot parse %r' % part)
            f, e = pm.group(1), ' '.join(pm.group(2).split())
            if e == 'Readable::read(r)?':
                tys.append(self.ty(d[f]))
            elif f == 'public_key' and '[0u8; 33]' in e and 'read_exact' in e and 'PublicKey::from_slice(&buf)' in e \
                    and d[f].replace(' ', '') == 'Result<PublicKey,secp256k1::Error>':
                tys.append(('fixed', 33, 'onionKey'))
            else:
                raise TranslateError('OnionPacket::read: unexpected reader for %s: %s' % (f, e))
        # the writer must use the same order
        wm = re.search(r'impl Writeable for OnionPacket\s*\{', s)
        wj = match_close(s, wm.end() - 1, '{', '}')
        wbody = s[wm.end():wj]
        order = [wbody.find(x) for x in ('self.version', 'self.public_key', 'self.hop_data', 'self.hmac')]
        if -1 in order or order != sorted(order) or '[0u8; 33].write' not in wbody:
            raise TranslateError('OnionPacket::write: unexpected shape')
        return nest(tys)


def nest(tys):
    if not tys:
        return ('unit',)
    if len(tys) == 1:
        return tys[0]
    return ('pair', tys[0], nest(tys[1:]))


def lean_ty(t):
    k = t[0]
    if k == 'uint':
        return '(.uint %d)' % t[1]
    if k == 'fixed':
        return '(.fixed %d .%s)' % (t[1], t[2])
    if k in ('unit', 'bigsize', 'varBytes', 'bytes16', 'restBytes'):
        return '.' + k
    if k == 'hzd':
        return '(.hzd %d)' % t[1]
    if k == 'pair':
        return '(.pair %s %s)' % (lean_ty(t[1]), lean_ty(t[2]))
    if k == 'vec':
        return '(.vec %s)' % lean_ty(t[1])
    raise TranslateError('bad ty %r' % (t,))


def json_ty(t):
    return list(json_ty(x) if isinstance(x, tuple) else x for x in t)


def parse_macros(src):
    out = []
    for m in re.finditer(r'^impl_writeable_msg!\(', src, re.M):
        j = match_close(src, m.end() - 1, '(', ')')
        inner = src[m.end():j]
        parts = split_top(inner)
        if len(parts) != 3 or not re.fullmatch(r'\w+', parts[0]) or parts[1][0] != '{' or parts[2][0] != '{':
            raise TranslateError('impl_writeable_msg! with unexpected shape: %r' % inner[:80])
        name = parts[0]
        fixed = [f for f in split_top(parts[1][1:-1])]
        tlvs = []
        for rec in split_top(parts[2][1:-1]):
            if not (rec.startswith('(') and rec.endswith(')')):
                raise TranslateError('%s: TLV entry %r' % (name, rec))
            items = split_top(rec[1:-1])
            if len(items) != 3:
                raise TranslateError('%s: TLV entry %r' % (name, rec))
            try:
                typ = int(items[0].replace('_', ''), 0)
            except ValueError:
                raise TranslateError('%s: TLV type %r is not a literal' % (name, items[0]))
            tlvs.append((typ, items[1], ' '.join(items[2].split())))
        out.append((name, fixed, tlvs, src.count('\n', 0, m.start()) + 1))
    return out


def unwrap_option(t):
    m = re.fullmatch(r'Option<(.+)>', t)
    return m.group(1).strip() if m else None


def main(out_path):
    ctx = Ctx()
    src = ctx.src[MSGS]
    macros = parse_macros(src)
    if len(macros) < 20:
        raise TranslateError('expected at least 20 impl_writeable_msg! invocations, found %d' % len(macros))
    schemas, not_covered = [], []
    for name, fixed, tlvs, line in macros:
        decl, _ = ctx.struct_fields(name)
        if decl is None:
            raise TranslateError('struct %s not found' % name)
        d = dict(decl)
        used = set()
        try:
            fx = []
            for f in fixed:
                if f not in d:
                    raise TranslateError('%s: fixed field %s not in struct' % (name, f))
                used.add(f)
                fx.append((f, ctx.ty(d[f]), d[f]))
            tv = []
            for typ, f, kind in tlvs:
                if f not in d:
                    raise TranslateError('%s: TLV field %s not in struct' % (name, f))
                used.add(f)
                rt = d[f]
                if kind == 'option':
                    inner = unwrap_option(rt)
                    if inner is None:
                        raise TranslateError('%s.%s: kind option but type %s' % (name, f, rt))
                    tv.append((typ, f, ctx.ty(inner), 'option', rt))
                elif kind == 'required':
                    tv.append((typ, f, ctx.ty(rt), 'required', rt))
                else:
                    m = re.fullmatch(r'\(option,\s*encoding:\s*\((\w+),\s*(\w+)\)\)', kind)
                    if m and (m.group(1), m.group(2)) in ENCODINGS:
                        if unwrap_option(rt) != m.group(1):
                            raise TranslateError('%s.%s: encoding %s but type %s' % (name, f, kind, rt))
                        tv.append((typ, f, ENCODINGS[(m.group(1), m.group(2))][0], 'option', rt))
                    else:
                        raise Unsupported('TLV %d `%s` has kind `%s` (type `%s`)' % (typ, f, kind, rt))
            if used != set(d):
                raise TranslateError('%s: struct fields %s are not serialized' % (name, sorted(set(d) - used)))
            schemas.append({'name': name, 'line': line, 'fixed': fx, 'tlvs': tv})
        except Unsupported as ex:
            not_covered.append((name, str(ex)))

    L = ['/- GENERATED by tools/gen_msg_schemas.py from lightning/src/ln/msgs.rs — do not edit.',
         '   One `Schema` per `impl_writeable_msg!` invocation; regenerated on every check. -/',
         'import LdkModel.Model.Codec', 'namespace Ldk.Codec.Gen', 'open Ldk.Codec', '']
    for s in schemas:
        L.append('/-- msgs.rs line %d: impl_writeable_msg!(%s, …) -/' % (s['line'], s['name']))
        L.append('def schema_%s : Schema where' % s['name'])
        L.append('  name := "%s"' % s['name'])
        L.append('  fixedNames := [%s]' % ', '.join('"%s"' % f for f, _, _ in s['fixed']))
        L.append('  fixed := [' + ', '.join('%s /- %s -/' % (lean_ty(t), rt.replace('-/', '- /')) for _, t, rt in s['fixed']) + ']')
        L.append('  tlvs := [' + ', '.join('⟨%d, "%s", %s, .%s⟩' % (typ, f, lean_ty(t), kind) for typ, f, t, kind, _ in s['tlvs']) + ']')
        L.append('')
    L.append('/-- every macro-declared message the codec model covers -/')
    L.append('def generatedSchemas : List Schema := [' + ', '.join('schema_' + s['name'] for s in schemas) + ']')
    L.append('')
    L.append('/-- macro-declared messages NOT covered by the model (name, reason) -/')
    L.append('def notCovered : List (String × String) := [' + ', '.join('("%s", "%s")' % (n, r.replace('"', "'")) for n, r in not_covered) + ']')
    L.append('')
    L.append('end Ldk.Codec.Gen')
    text = '\n'.join(L) + '\n'
    old = open(out_path).read() if os.path.exists(out_path) else None
    if old != text:
        os.makedirs(os.path.dirname(os.path.abspath(out_path)), exist_ok=True)
        open(out_path, 'w').write(text)
    js = {'schemas': [{'name': s['name'], 'line': s['line'],
                       'fixed': [{'name': f, 'ty': json_ty(t), 'rust': rt} for f, t, rt in s['fixed']],
                       'tlvs': [{'type': typ, 'name': f, 'ty': json_ty(t), 'kind': kind, 'rust': rt} for typ, f, t, kind, rt in s['tlvs']]}
                      for s in schemas],
          'not_covered': [{'name': n, 'reason': r} for n, r in not_covered]}
    jp = os.path.join(os.path.dirname(os.path.abspath(out_path)), 'schemas.json')
    jt = json.dumps(js, indent=1, sort_keys=True) + '\n'
    if not os.path.exists(jp) or open(jp).read() != jt:
        open(jp, 'w').write(jt)
    print('gen_msg_schemas: %d schemas, %d not covered (%s)' % (len(schemas), len(not_covered), ', '.join(n for n, _ in not_covered)))


if __name__ == '__main__':
    try:
        main(sys.argv[1] if len(sys.argv) > 1 else os.path.join(os.path.dirname(os.path.abspath(__file__)), '..', 'lean', 'LdkModel', 'Generated', 'MsgSchemas.lean'))
    except TranslateError as ex:
        print('TRANSLATE-ERROR gen_msg_schemas: %s' % ex)
        sys.exit(2)
