"""Per-property configuration: one file tools/cfg/CNN.py defining CFG (and optionally NOT_CLAIMED_REASON)."""
import os, glob, importlib.util
PROPS, NOT_CLAIMED = {}, {}
for f in sorted(glob.glob(os.path.join(os.path.dirname(__file__), 'cfg', 'C*.py'))):
    pid = os.path.basename(f)[:-3]
    spec = importlib.util.spec_from_file_location('cfg_' + pid, f)
    m = importlib.util.module_from_spec(spec); spec.loader.exec_module(m)
    if getattr(m, 'CFG', None): PROPS[pid] = m.CFG
    if getattr(m, 'NOT_CLAIMED_REASON', None): NOT_CLAIMED[pid] = m.NOT_CLAIMED_REASON
