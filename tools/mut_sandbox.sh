#!/bin/bash
# Isolated trial of a /repo mutation without touching /repo or /verif's build outputs.
#   tools/mut_sandbox.sh new <name> <patch.diff>   worktree /tmp/mutwt/<name> (= /repo HEAD + patch) and a copy of /verif in /tmp/mutv/<name>
#   tools/mut_sandbox.sh sync <name>                re-copy /verif sources into the sandbox (keeps its build outputs)
#   tools/mut_sandbox.sh check <name> <PROP> [args] run the sandbox's ./check against the mutated worktree
#   tools/mut_sandbox.sh rm <name>                  remove both
set -eu
cmd=$1; name=$2; wt=/tmp/mutwt/$name; v=/tmp/mutv/$name
sync_v() {
  mkdir -p $v
  rsync -a --delete --exclude /harness/target --exclude /run --exclude /replays --exclude /.git --exclude /evidence /verif/ $v/
  mkdir -p $v/evidence
  sed -i "s#\"/repo/#\"$wt/#" $v/harness/Cargo.toml
}
case $cmd in
  new) git -C /repo worktree add --detach $wt HEAD >/dev/null; git -C $wt apply $3; sync_v; echo "sandbox $v against $wt";;
  sync) sync_v;;
  check) shift 2; cd $v; VERIF_REPO=$wt ./check "$@";;
  rm) git -C /repo worktree remove --force $wt 2>/dev/null || true; git -C /repo worktree prune; rm -rf $v $wt;;
esac
