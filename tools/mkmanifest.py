#!/usr/bin/env python3
"""Regenerate /verif/MANIFEST.json from tools/props_cfg.py (claimed) and properties.jsonl (all)."""
import json, os, subprocess, sys
ROOT = os.path.dirname(os.path.dirname(os.path.abspath(__file__)))
sys.path.insert(0, os.path.join(ROOT, 'tools'))
from props_cfg import PROPS as ALLPROPS, NOT_CLAIMED
# only verticals the integrator has reviewed and marked ready are claimed
READY = set(open(os.path.join(ROOT, 'tools', 'ready.txt')).read().split())
PROPS = {k: v for k, v in ALLPROPS.items() if k in READY}
props = [json.loads(l) for l in open(os.path.join(ROOT, 'properties.jsonl'))]
commits = subprocess.run(['git', '-C', '/repo', 'log', '--format=%H %s'], stdout=subprocess.PIPE).stdout.decode().split('\n')
hook_commits = [c.split(' ')[0] for c in commits if ' verif hooks:' in ' ' + c]
checks = []
for p in props:
    pid = p['id']
    if pid not in PROPS: continue
    c = PROPS[pid]
    checks.append({
        'property_id': pid,
        'quick_cmd': './check %s --tier quick' % pid,
        'thorough_cmd': './check %s --tier thorough' % pid,
        'evidence_file': '/verif/evidence/%s.json' % pid,
        'replay_cmd_template': './check %s --replay {path}' % pid,
        'engine': 'lean4-proof+correspondence',
        'level_claimed': {'category': c.get('level', 'proof'), 'text': c['level_text'], 'design_ref': 'DESIGN.md §6 ' + pid},
        'level_note': c['level_note'],
        'technique': c.get('technique', 'Lean 4 proof over a model tied to the source by translators and a differential correspondence check'),
    })
m = {'version': 1, 'setup_cmd': './setup.sh',
     'hooks': {'guard': 'verif_hooks (cargo feature of the `lightning` crate and, for one read-only accessor, of the `lightning-block-sync` crate; off by default)',
               'enable': 'harness/Cargo.toml depends on lightning with features ["_test_utils","verif_hooks"] and on lightning-block-sync with feature "verif_hooks"; `cargo build --offline` in /verif/harness',
               'baseline_off_cmd': 'cd /repo && cargo test --workspace --no-fail-fast --offline',
               'source_commits': hook_commits, 'add_only': True},
     'engines': [{'name': 'lean4-proof+correspondence', 'path': '/verif/check', 'serves_properties': sorted(PROPS),
                  'kind_free_text': 'Lean 4 library LdkModel (property theorems in lean/LdkModel/Props), python translators Rust→Lean (tools/gen_*.py), Rust harness (harness/) and compiled Lean model driver (lean_exe ldkdriver) joined by a line protocol; orchestrated by ./check'}],
     'checks': checks,
     'notes': 'See DESIGN.md. Every check regenerates the Lean model parts from /repo, re-checks the theorems, rebuilds the harness against /repo and diffs implementation vs model.',
     'not_applicable': [{'property_id': p['id'], 'reason': NOT_CLAIMED.get(p['id'], 'not yet built; no claim is made (planned, DESIGN.md §8)')} for p in props if p['id'] not in PROPS]}
json.dump(m, open(os.path.join(ROOT, 'MANIFEST.json'), 'w'), indent=1, ensure_ascii=False)
print('claimed:', sorted(PROPS))
