#!/usr/bin/env python3
"""Regenerate lean/LdkModel/Generated/BtcConsensus.lean (C13): what Model/MsgBitcoin.lean takes from the source.

From /repo (rust-lightning):
  * util/ser.rs   `impl Readable / Writeable for Vec<Witness>` (skeleton; the comparison `witness.size() != witness_len` TRANSLATED),
                  `impl_consensus_ser!` (error mapping, pinned), `WithoutLength<Vec<T>>` reader (pinned)
  * ln/msgs.rs    `impl LengthReadable / Writeable for TxAddInput` (skeleton; `prevtx_len > 0` TRANSLATED, TLV type extracted),
                  `impl_writeable_msg!(TxSignatures …)` / `(RevokeAndACK …)` (field lists, TLV types and kinds extracted)
  * blinded_path/mod.rs  `impl Readable / Writeable for BlindedPath` (skeleton; the first-byte match arms and `num_hops == 0`
                  TRANSLATED), `impl_writeable!(BlindedHop, …)`, blinded_path/message.rs wrappers (pinned)
From the `bitcoin` crate the harness is locked to (harness/Cargo.lock -> ~/.cargo/registry/src/*/bitcoin-<version>):
  * consensus/encode.rs  MAX_VEC_SIZE, the VarInt encode ranges and decode non-minimality bounds (extracted), Vec<u8> / impl_vec!
                  bodies (pinned by normalised text)
  * blockdata/witness.rs `impl Decodable / Encodable for Witness`, `Witness::size` (pinned; the two `> MAX_VEC_SIZE` tests extracted)
  * blockdata/transaction.rs `impl Decodable / Encodable for Transaction`, `uses_segwit_serialization`, TxIn, TxOut, OutPoint (pinned)
Exit 2 with `TRANSLATE-ERROR ...` when any of them no longer has the expected shape.
"""
import re, sys, os, glob, hashlib
sys.path.insert(0, os.path.dirname(os.path.abspath(__file__)))
import gen_msg_schemas as G
from gen_msg_schemas import TranslateError, impl_body, match_close, tr, esc, cut, parse_macros
from rs2lean import strip_comments

REPO = os.environ.get('VERIF_REPO', '/repo')
ROOT = os.path.join(os.path.dirname(os.path.abspath(__file__)), '..')


def rd(path):
    if not os.path.exists(path):
        raise TranslateError('missing ' + path)
    return strip_comments(open(path).read())


def norm(s):
    return ' '.join(s.split())


def body_of(src, header_re, what):
    b, _ = impl_body(src, header_re, what)
    return norm(b)


def bitcoin_dir():
    lock = os.path.join(ROOT, 'harness', 'Cargo.lock')
    if not os.path.exists(lock):
        lock = os.path.join(REPO, 'Cargo.lock')
    m = re.search(r'name = "bitcoin"\nversion = "([^"]+)"', open(lock).read())
    if not m:
        raise TranslateError('no `bitcoin` package in ' + lock)
    ds = glob.glob(os.path.expanduser('~/.cargo/registry/src/*/bitcoin-%s' % m.group(1)))
    if len(ds) != 1:
        raise TranslateError('bitcoin-%s not found (once) in the cargo registry' % m.group(1))
    return ds[0], m.group(1)


# ---- rust-lightning side: skeletons with «holes» ----------------------------------------------------------------------------------

VECWIT_READ = ('#[inline] fn read<R: Read>(r: &mut R) -> Result<Self, DecodeError> { let num_witnesses = <u16 as Readable>::read(r)? as usize; '
               'let mut witnesses = Vec::with_capacity(num_witnesses); for _ in 0..num_witnesses { let witness_len = <u16 as Readable>::read(r)? as usize; '
               'let witness = <Witness as Readable>::read(r)?; if «bad» { return Err(DecodeError::BadLengthDescriptor); } witnesses.push(witness); } Ok(witnesses) }')
VECWIT_WRITE = ('#[inline] fn write<W: Writer>(&self, w: &mut W) -> Result<(), io::Error> { (self.len() as u16).write(w)?; for witness in self { '
                '(witness.size() as u16).write(w)?; witness.write(w)?; } Ok(()) }')
CONSENSUS_SER = ('($bitcoin_type: ty) => { impl Writeable for $bitcoin_type { fn write<W: Writer>(&self, writer: &mut W) -> Result<(), io::Error> { '
                 'match self.consensus_encode(&mut WriterWriteAdaptor(writer)) { Ok(_) => Ok(()), Err(e) => Err(e), } } } impl Readable for $bitcoin_type { '
                 'fn read<R: Read>(r: &mut R) -> Result<Self, DecodeError> { match consensus::encode::Decodable::consensus_decode(r) { Ok(t) => Ok(t), '
                 'Err(consensus::encode::Error::Io(ref e)) if e.kind() == io::ErrorKind::UnexpectedEof => { Err(DecodeError::ShortRead) }, '
                 'Err(consensus::encode::Error::Io(e)) => Err(DecodeError::Io(e.kind().into())), Err(_) => Err(DecodeError::InvalidValue), } } } };')
WITHOUT_LEN_VEC = ('#[inline] fn read_from_fixed_length_buffer<R: LengthLimitedRead>( reader: &mut R, ) -> Result<Self, DecodeError> { let mut values = Vec::new(); '
                   'loop { let mut track_read = ReadTrackingReader::new(reader); match MaybeReadable::read(&mut track_read) { Ok(Some(v)) => { values.push(v); }, '
                   'Ok(None) => {}, Err(ref e) if e == &DecodeError::ShortRead && !track_read.have_read => break, Err(e) => return Err(e), } } Ok(Self(values)) }')
TXADD_READ = ('fn read_from_fixed_length_buffer<R: LengthLimitedRead>(r: &mut R) -> Result<Self, DecodeError> { let channel_id: ChannelId = Readable::read(r)?; '
              'let serial_id: SerialId = Readable::read(r)?; let prevtx_len: u16 = Readable::read(r)?; let prevtx = if «present» { '
              'let mut tx_reader = FixedLengthReader::new(r, prevtx_len as u64); let tx: Transaction = Readable::read(&mut tx_reader)?; '
              'if tx_reader.bytes_remain() { return Err(DecodeError::BadLengthDescriptor); } Some(tx) } else { None }; let prevtx_out: u32 = Readable::read(r)?; '
              'let sequence: u32 = Readable::read(r)?; let mut shared_input_txid: Option<Txid> = None; decode_tlv_stream!(r, { («tlvr», shared_input_txid, option), }); '
              'Ok(TxAddInput { channel_id, serial_id, prevtx, prevtx_out, sequence, shared_input_txid }) }')
TXADD_WRITE = ('fn write<W: Writer>(&self, w: &mut W) -> Result<(), io::Error> { self.channel_id.write(w)?; self.serial_id.write(w)?; match &self.prevtx { '
               'Some(tx) => { (tx.serialized_length() as u16).write(w)?; tx.write(w)?; }, None => 0u16.write(w)?, } self.prevtx_out.write(w)?; self.sequence.write(w)?; '
               'encode_tlv_stream!(w, { («tlvw», self.shared_input_txid, option), }); Ok(()) }')
BPATH_READ = ('fn read<R: io::Read>(r: &mut R) -> Result<Self, DecodeError> { let first_byte: u8 = Readable::read(r)?; let introduction_node = match first_byte { '
              '«one» => IntroductionNode::DirectedShortChannelId(Direction::NodeOne, Readable::read(r)?), '
              '«two» => IntroductionNode::DirectedShortChannelId(Direction::NodeTwo, Readable::read(r)?), '
              '«node» => { let mut bytes = [0; 33]; bytes[0] = first_byte; r.read_exact(&mut bytes[1..])?; IntroductionNode::NodeId(Readable::read(&mut &bytes[..])?) }, '
              '_ => return Err(DecodeError::InvalidValue), }; let blinding_point = Readable::read(r)?; let num_hops: u8 = Readable::read(r)?; '
              'if «nohops» { return Err(DecodeError::InvalidValue); } let mut blinded_hops: Vec<BlindedHop> = Vec::with_capacity(num_hops.into()); '
              'for _ in 0..num_hops { blinded_hops.push(Readable::read(r)?); } Ok(BlindedPath { introduction_node, blinding_point, blinded_hops }) }')
BPATH_WRITE = ('fn write<W: Writer>(&self, w: &mut W) -> Result<(), io::Error> { match &self.introduction_node { IntroductionNode::NodeId(pubkey) => pubkey.write(w)?, '
               'IntroductionNode::DirectedShortChannelId(direction, scid) => { match direction { Direction::NodeOne => «wone»u8.write(w)?, '
               'Direction::NodeTwo => «wtwo»u8.write(w)?, } scid.write(w)?; }, } self.blinding_point.write(w)?; (self.blinded_hops.len() as u8).write(w)?; '
               'for hop in &self.blinded_hops { hop.write(w)?; } Ok(()) }')
BMP_READ = 'fn read<R: io::Read>(r: &mut R) -> Result<Self, DecodeError> { Ok(Self(BlindedPath::read(r)?)) }'
BMP_WRITE = 'fn write<W: Writer>(&self, w: &mut W) -> Result<(), io::Error> { self.0.write(w) }'


def pin(got, want, what):
    if got != want:
        raise TranslateError('%s changed (Model/MsgBitcoin.lean mirrors the old text): now `%s`' % (what, got[:400]))


def int_list(pat, what):
    out = []
    for p in pat.split('|'):
        p = p.strip()
        if not re.fullmatch(r'\d+', p):
            raise TranslateError('%s: match pattern %r is not a list of literals' % (what, pat))
        out.append(int(p))
    return out


def ldk_side():
    ser = rd(os.path.join(REPO, 'lightning/src/util/ser.rs'))
    msgs = rd(os.path.join(REPO, 'lightning/src/ln/msgs.rs'))
    bp = rd(os.path.join(REPO, 'lightning/src/blinded_path/mod.rs'))
    bmp = rd(os.path.join(REPO, 'lightning/src/blinded_path/message.rs'))
    D = {}
    g = cut(body_of(ser, r'impl Readable for Vec<Witness>\s*\{', 'impl Readable for Vec<Witness>'), esc(VECWIT_READ), 'impl Readable for Vec<Witness>')
    D['btcWitnessLenBad (size wlen : Nat) : Bool'] = tr(g['bad'], {'witness.size()': 'size', 'witness_len': 'wlen'}, 'bool', 'Vec<Witness> length test')
    pin(body_of(ser, r'impl Writeable for Vec<Witness>\s*\{', 'impl Writeable for Vec<Witness>'), VECWIT_WRITE, 'impl Writeable for Vec<Witness>')
    pin(body_of(ser, r'macro_rules! impl_consensus_ser\s*\{', 'impl_consensus_ser!'), CONSENSUS_SER, 'impl_consensus_ser!')
    for t in ('Transaction', 'Witness'):
        if not re.search(r'^impl_consensus_ser!\(%s\);' % t, ser, re.M):
            raise TranslateError('impl_consensus_ser!(%s) not found' % t)
    pin(body_of(ser, r'impl<T: MaybeReadable> LengthReadable for WithoutLength<Vec<T>>\s*\{', 'WithoutLength<Vec<T>> reader'), WITHOUT_LEN_VEC, 'impl LengthReadable for WithoutLength<Vec<T>>')
    g = cut(body_of(msgs, r'impl LengthReadable for TxAddInput\s*\{', 'impl LengthReadable for TxAddInput'), esc(TXADD_READ), 'impl LengthReadable for TxAddInput')
    D['btcPrevtxPresent (prevtxLen : Nat) : Bool'] = tr(g['present'], {'prevtx_len': 'prevtxLen'}, 'bool', 'TxAddInput prevtx test')
    gw = cut(body_of(msgs, r'impl Writeable for TxAddInput\s*\{', 'impl Writeable for TxAddInput'), esc(TXADD_WRITE), 'impl Writeable for TxAddInput')
    if g['tlvr'].strip() != gw['tlvw'].strip() or not re.fullmatch(r'\d+', g['tlvr'].strip()):
        raise TranslateError('TxAddInput: reader TLV type %r / writer TLV type %r' % (g['tlvr'], gw['tlvw']))
    D['btcTxAddInputTlv : Nat'] = g['tlvr'].strip()
    g = cut(body_of(bp, r'impl Readable for BlindedPath\s*\{', 'impl Readable for BlindedPath'), esc(BPATH_READ), 'impl Readable for BlindedPath')
    gw = cut(body_of(bp, r'impl Writeable for BlindedPath\s*\{', 'impl Writeable for BlindedPath'), esc(BPATH_WRITE), 'impl Writeable for BlindedPath')
    one, two, node = int_list(g['one'], 'BlindedPath NodeOne arm'), int_list(g['two'], 'BlindedPath NodeTwo arm'), int_list(g['node'], 'BlindedPath NodeId arm')
    if [int(gw['wone'])] != one or [int(gw['wtwo'])] != two:
        raise TranslateError('BlindedPath: writer direction bytes %s/%s, reader arms %s/%s' % (gw['wone'], gw['wtwo'], one, two))
    D['btcIntroScid (t : Nat) : Bool'] = '(' + ' || '.join('decide (t = %d)' % x for x in one + two) + ')'
    D['btcIntroNode (t : Nat) : Bool'] = '(' + ' || '.join('decide (t = %d)' % x for x in node) + ')'
    D['btcNoHops (numHops : Nat) : Bool'] = tr(g['nohops'], {'num_hops': 'numHops'}, 'bool', 'BlindedPath num_hops test')
    m = re.search(r'impl_writeable!\(BlindedHop,\s*\{([^}]*)\}\);', bp)
    if not m or [x.strip() for x in m.group(1).split(',') if x.strip()] != ['blinded_node_id', 'encrypted_payload']:
        raise TranslateError('impl_writeable!(BlindedHop, {blinded_node_id, encrypted_payload}) not found')
    m = re.search(r'pub struct BlindedHop\s*\{(.*?)\}', bp, re.S)
    if not m or re.findall(r'pub (\w+): ([^,]+),', m.group(1)) != [('blinded_node_id', 'PublicKey'), ('encrypted_payload', 'Vec<u8>')]:
        raise TranslateError('struct BlindedHop { blinded_node_id: PublicKey, encrypted_payload: Vec<u8> } not found')
    pin(body_of(bmp, r'impl Readable for BlindedMessagePath\s*\{', 'impl Readable for BlindedMessagePath'), BMP_READ, 'impl Readable for BlindedMessagePath')
    pin(body_of(bmp, r'impl Writeable for BlindedMessagePath\s*\{', 'impl Writeable for BlindedMessagePath'), BMP_WRITE, 'impl Writeable for BlindedMessagePath')
    # the two macro-declared messages
    macros = {name: (fixed, tlvs) for name, fixed, tlvs, _ in parse_macros(msgs)}
    want = {'TxSignatures': (['channel_id', 'tx_hash', 'witnesses'], 'shared_input_signature', 'option'),
            'RevokeAndACK': (['channel_id', 'per_commitment_secret', 'next_per_commitment_point'], 'release_htlc_message_paths', 'optional_vec')}
    for name, (fx, fld, kind) in want.items():
        if name not in macros:
            raise TranslateError('impl_writeable_msg!(%s …) not found' % name)
        fixed, tlvs = macros[name]
        if [f.strip() for f in fixed] != fx or len(tlvs) != 1 or tlvs[0][1] != fld or tlvs[0][2] != kind:
            raise TranslateError('%s: fields %r TLVs %r (Model/MsgBitcoin.lean mirrors %r + (%s, %s))' % (name, fixed, tlvs, fx, fld, kind))
        D['btc%sTlv : Nat' % {'TxSignatures': 'TxSignatures', 'RevokeAndACK': 'RevokeAndAck'}[name]] = str(tlvs[0][0])
    for struct, fld, ty in (('TxSignatures', 'witnesses', 'Vec<Witness>'), ('TxSignatures', 'shared_input_signature', 'Option<Signature>'),
                            ('RevokeAndACK', 'release_htlc_message_paths', 'Vec<(u64, BlindedMessagePath)>'), ('RevokeAndACK', 'next_per_commitment_point', 'PublicKey'),
                            ('TxAddInput', 'prevtx', 'Option<Transaction>'), ('TxAddInput', 'shared_input_txid', 'Option<Txid>')):
        m = re.search(r'pub struct %s\s*\{(.*?)\n\}' % struct, msgs, re.S)
        if not m or not re.search(r'pub %s:\s*%s\s*,' % (fld, re.escape(ty)), m.group(1)):
            raise TranslateError('struct %s: field `%s: %s` not found' % (struct, fld, ty))
    return D


# ---- bitcoin crate side ---------------------------------------------------------------------------------------------------------------

# sha256 of the whitespace-normalised, comment-stripped bodies Model/MsgBitcoin.lean mirrors (bitcoin 0.32.x)
CRATE_PINS = {}


def crate_side():
    d, ver = bitcoin_dir()
    enc = rd(os.path.join(d, 'src/consensus/encode.rs'))
    wit = rd(os.path.join(d, 'src/blockdata/witness.rs'))
    txs = rd(os.path.join(d, 'src/blockdata/transaction.rs'))
    D = {}
    m = re.search(r'pub const MAX_VEC_SIZE: usize = ([\d_]+);', enc)
    if not m:
        raise TranslateError('bitcoin: MAX_VEC_SIZE not found')
    D['btcMaxVecSize : Nat'] = m.group(1).replace('_', '')
    dec = body_of(enc, r'impl Decodable for VarInt\s*\{', 'impl Decodable for VarInt')
    g = cut(dec, r'#\[inline\] fn consensus_decode<R: Read \+ \?Sized>\(r: &mut R\) -> Result<Self, Error> \{ let n = ReadExt::read_u8\(r\)\?; match n \{ '
                 r'0xFF => \{ let x = ReadExt::read_u64\(r\)\?; if x < (?P<m8>0x[0-9A-Fa-f]+) \{ Err\(self::Error::NonMinimalVarInt\) \} else \{ Ok\(VarInt::from\(x\)\) \} \} '
                 r'0xFE => \{ let x = ReadExt::read_u32\(r\)\?; if x < (?P<m4>0x[0-9A-Fa-f]+) \{ Err\(self::Error::NonMinimalVarInt\) \} else \{ Ok\(VarInt::from\(x\)\) \} \} '
                 r'0xFD => \{ let x = ReadExt::read_u16\(r\)\?; if x < (?P<m2>0x[0-9A-Fa-f]+) \{ Err\(self::Error::NonMinimalVarInt\) \} else \{ Ok\(VarInt::from\(x\)\) \} \} '
                 r'n => Ok\(VarInt::from\(n\)\), \} \}', 'bitcoin `impl Decodable for VarInt`')
    D['btcCs8Min : Nat'], D['btcCs4Min : Nat'], D['btcCs2Min : Nat'] = g['m8'], g['m4'], g['m2']
    encb = body_of(enc, r'impl Encodable for VarInt\s*\{', 'impl Encodable for VarInt')
    g = cut(encb, r'#\[inline\] fn consensus_encode<W: Write \+ \?Sized>\(&self, w: &mut W\) -> Result<usize, io::Error> \{ match self\.0 \{ '
                  r'0\.\.=(?P<a>0x[0-9A-Fa-f]+) => \{ \(self\.0 as u8\)\.consensus_encode\(w\)\?; Ok\(1\) \} '
                  r'(?P<b0>0x[0-9A-Fa-f]+)\.\.=(?P<b>0x[0-9A-Fa-f]+) => \{ w\.emit_u8\(0xFD\)\?; \(self\.0 as u16\)\.consensus_encode\(w\)\?; Ok\(3\) \} '
                  r'(?P<c0>0x[0-9A-Fa-f]+)\.\.=(?P<c>0x[0-9A-Fa-f]+) => \{ w\.emit_u8\(0xFE\)\?; \(self\.0 as u32\)\.consensus_encode\(w\)\?; Ok\(5\) \} '
                  r'_ => \{ w\.emit_u8\(0xFF\)\?; self\.0\.consensus_encode\(w\)\?; Ok\(9\) \} \} \}', 'bitcoin `impl Encodable for VarInt`')
    if int(g['b0'], 16) != int(g['a'], 16) + 1 or int(g['c0'], 16) != int(g['b'], 16) + 1:
        raise TranslateError('bitcoin VarInt encode ranges are not contiguous')
    D['btcCs1Max : Nat'], D['btcCs2Max : Nat'], D['btcCs4Max : Nat'] = g['a'], g['b'], g['c']
    wd = body_of(wit, r'impl Decodable for Witness\s*\{', 'impl Decodable for Witness')
    if 'if witness_elements > MAX_VEC_SIZE { return Err(self::Error::OversizedVectorAllocation' not in wd or \
       'if required_len > MAX_VEC_SIZE + witness_index_space { return Err(self::Error::OversizedVectorAllocation' not in wd or \
       'let witness_index_space = witness_elements * 4; let mut cursor = witness_index_space;' not in wd or \
       'let required_len = cursor .checked_add(element_size)' not in wd or '.checked_add(element_size_varint_len)' not in wd:
        raise TranslateError('bitcoin `impl Decodable for Witness`: the MAX_VEC_SIZE tests changed shape')
    D['btcWitnessOversized (n : Nat) : Bool'] = 'decide (n > btcMaxVecSize)'
    pins = {
        'Decodable for Witness': wd,
        'Encodable for Witness': body_of(wit, r'impl Encodable for Witness\s*\{', 'impl Encodable for Witness'),
        'Witness::size': norm(wit[wit.index('pub fn size(&self) -> usize'):wit.index('pub fn clear(&mut self)')]),
        'Decodable for Transaction': body_of(txs, r'impl Decodable for Transaction\s*\{', 'impl Decodable for Transaction'),
        'Encodable for Transaction': body_of(txs, r'impl Encodable for Transaction\s*\{', 'impl Encodable for Transaction'),
        'uses_segwit_serialization': body_of(txs, r'fn uses_segwit_serialization\(&self\) -> bool\s*\{', 'uses_segwit_serialization'),
        'Decodable for TxIn': body_of(txs, r'impl Decodable for TxIn\s*\{', 'impl Decodable for TxIn'),
        'Encodable for TxIn': body_of(txs, r'impl Encodable for TxIn\s*\{', 'impl Encodable for TxIn'),
        'TxOut': norm(re.search(r'impl_consensus_encoding!\(TxOut,[^)]*\);', txs).group(0)) if re.search(r'impl_consensus_encoding!\(TxOut,[^)]*\);', txs) else 'missing',
        'impl_consensus_encoding!': body_of(rd(os.path.join(d, 'src/internal_macros.rs')), r'macro_rules! impl_consensus_encoding\s*\{', 'impl_consensus_encoding!'),
        'Decodable for OutPoint': body_of(txs, r'impl Decodable for OutPoint\s*\{', 'impl Decodable for OutPoint'),
        'Encodable for OutPoint': body_of(txs, r'impl Encodable for OutPoint\s*\{', 'impl Encodable for OutPoint'),
        'Decodable for Vec<u8>': body_of(enc, r'impl Decodable for Vec<u8>\s*\{', 'impl Decodable for Vec<u8>'),
        'impl_vec!': body_of(enc, r'macro_rules! impl_vec\s*\{', 'impl_vec!'),
        'read_bytes_from_finite_reader': body_of(enc, r'fn read_bytes_from_finite_reader<D: Read \+ \?Sized>\([^)]*\) -> Result<Vec<u8>, Error>\s*\{', 'read_bytes_from_finite_reader'),
    }
    digest = {k: hashlib.sha256(v.encode()).hexdigest()[:16] for k, v in pins.items()}
    pin_path = os.path.join(os.path.dirname(os.path.abspath(__file__)), 'btc_consensus_pins.json')
    import json
    if os.environ.get('VERIF_BTC_REPIN') == '1' or not os.path.exists(pin_path):
        json.dump({'version': ver, 'sha256_16': digest}, open(pin_path, 'w'), indent=1, sort_keys=True)
    want = json.load(open(pin_path))
    if want['sha256_16'] != digest:
        bad = [k for k in digest if want['sha256_16'].get(k) != digest[k]]
        raise TranslateError('bitcoin crate %s: the bodies of %s differ from the ones Model/MsgBitcoin.lean mirrors (bitcoin %s; re-read them, then VERIF_BTC_REPIN=1)' % (ver, ', '.join(bad), want['version']))
    return D, ver


def main(out_path):
    D = ldk_side()
    C, ver = crate_side()
    L = ['/- GENERATED by tools/gen_btc_consensus.py from lightning/src/{util/ser.rs, ln/msgs.rs, blinded_path/mod.rs} and the `bitcoin` crate',
         '   (%s) the harness is locked to — do not edit.  Regenerated on every check. -/' % ver,
         'namespace Ldk.Codec.Gen', '']
    order = ['btcMaxVecSize : Nat', 'btcCs1Max : Nat', 'btcCs2Max : Nat', 'btcCs4Max : Nat', 'btcCs2Min : Nat', 'btcCs4Min : Nat', 'btcCs8Min : Nat',
             'btcWitnessOversized (n : Nat) : Bool']
    doc = {'btcMaxVecSize : Nat': 'consensus/encode.rs `pub const MAX_VEC_SIZE`',
           'btcCs1Max : Nat': '`impl Encodable for VarInt`: upper ends of the 1-, 3- and 5-byte ranges',
           'btcCs2Min : Nat': '`impl Decodable for VarInt`: values below these are NonMinimalVarInt in the 3-, 5- and 9-byte forms',
           'btcWitnessOversized (n : Nat) : Bool': '`impl Decodable for Witness`: `witness_elements > MAX_VEC_SIZE`, `required_len > MAX_VEC_SIZE + witness_index_space`',
           'btcWitnessLenBad (size wlen : Nat) : Bool': 'util/ser.rs `impl Readable for Vec<Witness>`: the test that answers BadLengthDescriptor',
           'btcPrevtxPresent (prevtxLen : Nat) : Bool': 'ln/msgs.rs `impl LengthReadable for TxAddInput`: `let prevtx = if … {`',
           'btcIntroScid (t : Nat) : Bool': 'blinded_path/mod.rs `impl Readable for BlindedPath`: first bytes of the two DirectedShortChannelId arms (= the writer\'s direction bytes)',
           'btcIntroNode (t : Nat) : Bool': '… first bytes of the NodeId arm',
           'btcNoHops (numHops : Nat) : Bool': '… the test that answers InvalidValue after `num_hops`',
           'btcTxAddInputTlv : Nat': 'TLV types of the three messages'}
    allc = dict(C)
    allc.update(D)
    for k in order + [k for k in D]:
        if k in doc:
            L.append('/-- %s -/' % doc[k])
        L.append('def %s := %s' % (k, allc[k]))
    L += ['', 'end Ldk.Codec.Gen']
    text = '\n'.join(L) + '\n'
    old = open(out_path).read() if os.path.exists(out_path) else None
    if old != text:
        os.makedirs(os.path.dirname(os.path.abspath(out_path)), exist_ok=True)
        open(out_path, 'w').write(text)
    print('gen_btc_consensus: bitcoin %s, MAX_VEC_SIZE %s, %d definitions' % (ver, C['btcMaxVecSize : Nat'], len(allc)))


if __name__ == '__main__':
    try:
        main(sys.argv[1] if len(sys.argv) > 1 else os.path.join(ROOT, 'lean', 'LdkModel', 'Generated', 'BtcConsensus.lean'))
    except TranslateError as ex:
        print('TRANSLATE-ERROR gen_btc_consensus: %s' % ex)
        sys.exit(2)
