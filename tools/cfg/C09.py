"""C09 configuration for ./check and mkmanifest"""
CFG = {
  'ready': True,
  'gens': [],
  'props_module': 'LdkModel.Props.C09',
  'driver': 'drv_chan',
  'models': ['mongate'],
  'model_bins': {'mongate': 'chan'},
  'level_text': 'Lean 4 theorems about the monitor-update gating discipline as an event monitor (gap-free ids, releases only when every earlier update is complete, independence of completion order) for every event list, plus trace validation: every observed trace of real two-node schedules (each update_*/commitment_signed/revoke_and_ack delivered separately, Completed or InProgress persistence with out-of-order completion) must be accepted by the compiled Lean monitor, plus an implementation-side oracle that re-checks the declarative statements on the raw trace',
  'level_note': 'Trusted: Lean kernel; axioms {propext, Classical.choice, Quot.sound}; the scenario engine harness/src/sim.rs (FIFO delivery, observation of chain::Watch calls through TestChainMonitor.monitor_updates, step kinds through hook monitor_update_step_kinds); the finite set of explored schedules. The model is a monitor of observable events, not a model of ChannelManager internals: that every schedule of the real code is accepted is validated per run (trace inclusion), not proved.',
  'modelled': 'Model/MonGate.lean: ids handed to chain::Watch, in-flight set, which update a commitment_signed / revoke_and_ack depends on',
  'partial': 'channel_ready / funding broadcast / forward-and-claim actions gated by an update are covered by the implementation oracle of the C02/C10 scenarios only; deferred ChainMonitor mode and splice signing are not exercised',
  'assumptions': ['a released commitment_signed depends on the latest update carrying a counterparty commitment, a released revoke_and_ack on the latest update carrying a holder commitment (step kinds read through the hook)'],
  'timeout_quick': 900, 'timeout_thorough': 3400,
}
