"""C05 configuration for ./check and mkmanifest (this slice: the revocation-secret store shared with C06)"""
CFG = {
  'ready': True,
  'gens': ['gen_secrets.py', 'gen_htlc_tables.py'],
  'props_module': 'LdkModel.Props.C05',
  'extra_props_modules': ['LdkModel.Props.ChanProto'],
  'models': ['c05', 'chan', 'mongate'],
  'model_bins': {'chan': 'chan', 'mongate': 'chan'},
  'model_drivers': {'chan': 'drv_chan', 'mongate': 'drv_chan'},
  'level_text': 'Lean 4 theorems about a model of CounterpartyCommitmentSecrets / build_commitment_secret that is generic in the index width B, the secret type, the bit flip and the hash (all 2^B indices, every seed, by induction on the number of inserts and on the bits — no enumeration; the code is the instance B = 48 whose width, slot count and statement shapes are re-read from chan_utils.rs on every run), plus a differential run of the real store against the compiled model with real SHA-256 on stateful op sequences',
  'level_note': 'Trusted: Lean kernel; axioms {propext, Classical.choice, Quot.sound}; tools/gen_secrets.py (regex shape check + constants); the finite correspondence sample; the executable SHA-256 of Prim/Sha256.lean is validated (FIPS vectors + byte-exact agreement with bitcoin_hashes on every op of the run), not proved, and no theorem unfolds it. secret_store_rejects assumes injectivity of flip-bit-0-then-hash (collision resistance of SHA-256) as a hypothesis. The channel-level theorems of C05 (revoke_only_after_newer_signed, at_most_one_outstanding, raa_checked, never_sign_revoked_holder) are a separate section added by the integrator.',
  'modelled': 'Model/Secrets.lean is a hand-written mirror of place_secret / derive_secret / provide_secret / get_secret / get_min_seen_secret / new / Writeable / Readable (empty TLV suffix only) and build_commitment_secret; tied by gen_secrets.py (shape + constants) and by the c05 correspondence',
  'partial': 'the store checks a provided secret only against LOWER slots: a wrong secret at an odd index, and a right secret presented under a wrong index that shares the low bits, are accepted by the store itself (real code and model agree; the per-commitment-point check in channel.rs covers them — channel-level section). Readable with a non-empty trailing TLV stream is not modelled.',
  'assumptions': ['SHA-256 behaves as an injective function on the derivations compared by provide_secret (hypothesis hinj of secret_store_rejects); completeness, soundness and min tracking need no assumption on the hash',
                  'commitment numbers are provided in descending order from 2^48-1, one per revoke_and_ack (the channel-level theorems establish this order)'],
  'timeout_quick': 300,
  'timeout_thorough': 3000,
 }
