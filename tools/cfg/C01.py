"""C01 configuration for ./check and mkmanifest"""
CFG = {
  'ready': True,
  'gens': ['gen_consts.py', 'gen_txbuilder.py', 'gen_htlc_tables.py', 'gen_feeupd.py'],
  'props_module': 'LdkModel.Props.C01',
  'extra_props_modules': ['LdkModel.Props.C01Stats', 'LdkModel.Props.C01Fee', 'LdkModel.Props.ChanProto'],
  'models': ['c01txb', 'chan'],
  'model_bins': {'chan': 'chan'},
  'model_drivers': {'chan': 'drv_chan'},
  'level_text': 'Lean 4 theorems (conservation, exactly-once HTLC representation, stats/limits arithmetic) over a model whose arithmetic core — all of sign/tx_builder.rs statistics and send-limit code and the chan_utils.rs fee helpers — is re-TRANSLATED from the Rust source on every run, plus a differential run of the real SpecTxBuilder (stats, available balances, built transaction outputs) against the model driver on boundary tuples, plus an implementation-side conservation oracle on the real bitcoin::Transaction',
  'level_note': 'Trusted: Lean kernel; axioms {propext, Classical.choice, Quot.sound}; translators gen_consts.py / gen_txbuilder.py (rs2lean.py); the hand-written mirror of build_commitment_transaction / CommitmentTransaction::new (Model/TxBuilder.lean), tied by the c01txb correspondence; the finite correspondence sample. The two-party update state machine (agreement, balance tracking, reconnection) and cooperative close are validated by the scenario engine, proofs over the channel model are in progress (see partial).',
  'modelled': 'get_next_commitment_stats, get_available_balances, has_output, dust exposure, fee helpers: generated translation; build_commitment_transaction + output list: hand-written mirror; splice-out maximum: not modelled (constant 0, field not compared)',
  'partial': 'agreement of both peers / balance tracking over all interleavings, send-limit exactness against the peer (limit_accepted_by_peer) and cooperative close are not yet theorems; splicing/V2 not modelled',
  'assumptions': ['u64 arithmetic does not overflow on the inputs the callers produce (channel value ≤ 21e6 BTC); zero-fee-commitment channels always run at feerate 0 (debug_assert in the code, hypothesis hz of the theorems)'],
  'timeout_quick': 600, 'timeout_thorough': 3000,
}
