"""C20 configuration for ./check and mkmanifest"""
CFG = {
  'ready': True,
  'gens': ['gen_consts.py', 'gen_chainsync.py'],
  'props_module': 'LdkModel.Props.C20',
  'models': ['c20'],
  'technique': 'Lean 4 model of SpvClient / ChainNotifier / HeaderCache / ChainPoller / synchronize_listeners over abstract block trees with a failure-scheduled source; theorems by induction over the walk fuel, the connected path and poll histories; differential run of the real lightning-block-sync against the compiled model on real-header regtest trees',
  'level_text': 'Lean 4 theorems over a hand-written executable model of lightning-block-sync (all block trees, all failure schedules, all consistent caches, all poll histories; induction, no bounds), plus a differential run of the real SpvClient::poll_best_tip / init::synchronize_listeners over random real-header regtest trees (valid PoW, real prev_blockhash links and chainwork, forks deeper than HEADER_CACHE_LIMIT in both tiers) against the compiled model: exact notification sequences, return values, returned cache contents and the number of requests the block source received',
  'level_note': 'Trusted: Lean kernel; axioms {propext, Classical.choice, Quot.sound}; tools/gen_consts.py (HEADER_CACHE_LIMIT) and tools/gen_chainsync.py (MAX_BLOCKS_AT_ONCE, 15 textual shape anchors of the mirrored comparisons); the finite correspondence sample. The model is hand-written (Model/ChainSync.lean), tied to the Rust only by the differential run. PoW / merkle / witness-commitment validation is delegated to rust-bitcoin and appears in the model as "this request fails". HTTP/RPC/REST clients are outside.',
  'modelled': 'Model/ChainSync.lean is a hand-written mirror of lib.rs (SpvClient, ChainNotifier, HeaderCache), poll.rs (ChainPoller::{poll_chain_tip, look_up_previous_header}, check_builds_on for Regtest) and init.rs (synchronize_listeners incl. BlockLocator fallback and fetch batches); check_builds_on chainwork equality is abstracted to a strict increase of cumulative work; MAX_BLOCKS_AT_ONCE and HEADER_CACHE_LIMIT are regenerated from the Rust text on every run; gen_chainsync.py additionally fails if one of 15 decisive comparisons the model mirrors is no longer present verbatim',
  'partial': 'tip_only_improves_partial needs a source that answers every request of the poll: an interrupted reorg leaves chain_tip and the listeners at the last delivered block of the better chain, possibly the fork point with less work than before (interrupted_reorg_example; the real code behaves the same; the harness counts these cases). listeners_converge is stated for a successful synchronize_listeners (on Err the real code documents that listeners may be left at different blocks).',
  'assumptions': ['block hashes are collision-free identifiers (hashes are keys of the tree: wfTree)',
                  'a header the poller accepts is the tree\'s header for that hash: PoW / hash validation by rust-bitcoin is assumed sound (a header that fails it is a failed request in the model)',
                  'BlockLocator.previous_blocks of a listener are hashes of ancestors of its best block (LocatorOk)'],
  'timeout_quick': 600,
  'timeout_thorough': 3000,
 }
