"""C08 configuration for ./check and mkmanifest"""
CRYPTO = "cryptographic primitives are assumptions (hypotheses of theorems), never axioms"
CFG = {
  'ready': True,
  'gens': ['gen_consts.py', 'gen_timing.py', 'gen_forward.py', 'gen_htlc_tables.py', 'gen_forceclose.py'],
  'props_module': 'LdkModel.Props.C08',
  # the CLTV admission checks must hold for EVERY next-hop kind (real channel, phantom, intercept, unknown SCID): the per-hop
  # admission model regenerated from can_forward_htlc_should_intercept & co. and its theorems (hop_offer_bounded: "… leaves
  # >= MIN_CLTV_EXPIRY_DELTA and respects the height margins") live in the C02 vertical and are C08 obligations as well;
  # c02hop drives them on real nodes with hand-built onions
  'extra_props_modules': ['LdkModel.Props.C02'],
  'models': ['c08', 'c02hop'],
  'model_bins': {'c02hop': 'c02'},
  'model_drivers': {'c02hop': 'drv_c02'},
  'level_text': 'Lean 4 theorems over decision predicates translated from the Rust source on every run (every height/expiry/delta, by omega over regenerated constants), plus a differential run of the real functions against the model driver on boundary sweeps',
  'level_note': 'Trusted: Lean kernel; axioms {propext, Classical.choice, Quot.sound}; the translators tools/gen_consts.py and gen_timing.py; the finite correspondence sample. Race theorems assume the library\'s stated confirmation bounds. End-to-end broadcast heights in a running node are validated by scenario models, not proved.',
  'modelled': 'decision predicates are TRANSLATED from the Rust bodies each run (gen_timing.py); race timelines (Model/Timing.lean) are hand-written compositions of them',
  'partial': 'end-to-end broadcast heights in a running node (monitor + manager glue) are validated by the scenario models, not proved; last_moment_onchain_claim_partial needs a responsive upstream peer',
  'assumptions': ['blocks/transactions confirm within MAX_BLOCKS_FOR_CONF and a peer update completes within LATENCY_GRACE_PERIOD_BLOCKS (hypotheses d1,d2 ≤ MAX_BLOCKS_FOR_CONF of the race theorems)',
                  'nLockTime=N transactions are minable from block N+1 (consensus rule, stated as earliestTimeoutConf)'],
 }
