#!/usr/bin/env python3
"""Regenerate lean/LdkModel/Generated/InboundMpp.lean (C04): every decision of the inbound MPP
accumulator that SUMS or COMPARES per-part amounts, translated from the Rust text that exists in
/repo *now*.  A part (`MppPart` / `ClaimableHTLC`) has three amounts of the same type:
`value` (what arrived on the HTLC), `sender_intended_value` (the onion's amt_to_forward) and
`counterparty_skimmed_fee_msat`; which of them each decision reads is what this file pins:

  channelmanager.rs  check_mpp_timeout                      -> timeoutBody / timeoutDone / checkMppTimeout
                     check_incoming_mpp_part                -> incomingInit / incomingBody / incomingBreak /
                                                               incomingVerdict / completeAmount / checkIncomingMppPart
                     handle_claimable_htlc (Ok(true) arm)   -> eventAmount / eventSkim / eventIntended
                     ClaimablePayment::total_counterparty_skimmed_msat
                     claim_payment_internal                 -> claimMismatch / claimBody / claimNothing / claimShort / claimLoop
                     ClaimablePayments::begin_claiming_payment -> claimingAmount (+ pinned sender_intended_value)
                     impl From<&ClaimableHTLC> for ClaimedHTLC -> claimedHtlcValue / claimedHtlcSkim
                     process_receive_htlcs                  -> recvValue / recvPart
                     process_receive_htlcs (min_final_cltv_expiry_delta test after verify) -> recvCltvBelowMin
  onion_payment.rs   create_recv_pending_htlc_info          -> recvAmountTooLow (the whole `if` statement, with its `let`s),
                                                               recvRouting / keysendPreimageMismatch (keysend / invoice / refused), recvInfoAmounts

Expressions, conditions and loop bodies go through rs2lean (swapping a field changes the generated
Lean and the theorems of Props/C04.lean about these functions stop checking); the glue around them
(`for x in y`, `break`, `push`, `for_each`, which branch returns what) is matched textually and any
change of shape is a TRANSLATE-ERROR.
"""
import re, sys, os
sys.path.insert(0, os.path.dirname(__file__))
from rs2lean import (parse_expr, parse_block, Emitter, TranslateError, strip_comments, find_fn, match_brace)

REPO = os.environ.get('VERIF_REPO', '/repo')
def rd(p): return open(os.path.join(REPO, p)).read()

def norm(s): return ' '.join(s.split())

def _no_arg(fn): raise TranslateError("%s: two-argument form not expected here" % fn)

PART_FIELDS = ['value', 'sender_intended_value', 'timer_ticks', 'total_value_received', 'cltv_expiry',
               'counterparty_skimmed_fee_msat']

def emitter(extra_fields=None, env=None):
    ident = lambda r: r
    f = {'mpp_part': ident}
    f.update(extra_fields or {})
    return Emitter(fields=f, env=env or {},
                   methods={'mpp_part': lambda recv, args: recv, 'mpp_part_mut': lambda recv, args: recv},
                   narrow=lambda t: False)

def check_part_fields(expr_text, what):
    """every `.field` read off a part in a translated expression must be a PartG field"""
    for m in re.finditer(r'\b(?:htlc|h|source|val|new_htlc)\s*\.\s*(?:mpp_part(?:\(\))?\s*\.\s*)?([a-z_]+)\b(?!\s*\()', expr_text):
        if m.group(1) not in PART_FIELDS and m.group(1) != 'mpp_part':
            raise TranslateError("%s reads unknown part field `%s`" % (what, m.group(1)))

RUST_KW = {'if', 'else', 'let', 'mut', 'return', 'true', 'false', 'as', 'u64', 'u32', 'u8', 'usize', 'self', 'msgs'}
def check_vars(text, allowed, what):
    """every free (lower-case) variable of a translated Rust fragment must be a parameter of the Lean function it becomes"""
    bound = set(re.findall(r'\|\s*&?\s*(\w+)\s*\|', text)) | set(re.findall(r'\blet\s+(?:mut\s+)?(\w+)', text))
    for m in re.finditer(r'(?<![.\w:])([a-z_][a-z0-9_]*)\b(?!\s*(?:\(|!|::))', text):
        v = m.group(1)
        if v in RUST_KW or v in bound or v in allowed: continue
        raise TranslateError("%s mentions `%s`, which is not one of %s" % (what, v, sorted(allowed)))

def struct_fields(src, header):
    m = re.search(header + r'\s*\{', src)
    if not m: raise TranslateError("%s not found" % header)
    body = strip_comments(src[m.end() - 1: match_brace(src, m.end() - 1)])[1:-1]
    out = {}
    for part in body.split(','):
        part = re.sub(r'#\[[^\]]*\]', '', part).strip()
        if not part: continue
        mm = re.fullmatch(r'(?:pub(?:\([a-z]+\))?\s+)?([a-z_0-9]+)\s*:\s*(.+)', part, re.S)
        if not mm: raise TranslateError("cannot parse field %r of %s" % (part, header))
        out[mm.group(1)] = norm(mm.group(2))
    return out

def for_loop(body, header_re, what):
    """body: comment-stripped fn body.  Returns (text before, loop body with braces, text after)."""
    m = re.search(r'\bfor\s+' + header_re + r'\s*\{', body)
    if not m: raise TranslateError("%s: loop `for %s` not found" % (what, header_re))
    j = match_brace(body, m.end() - 1)
    return body[:m.start()], body[m.end() - 1:j], body[j:]

def if_chain(text, what):
    """text starts (after whitespace) with `if`; returns [(cond|None, block_inner)], rest"""
    out = []
    i = 0
    while True:
        m = re.match(r'\s*if\b', text[i:])
        if not m: raise TranslateError("%s: expected `if`" % what)
        i += m.end()
        k = text.index('{', i)
        cond = text[i:k]
        j = match_brace(text, k)
        out.append((norm(cond), text[k + 1:j - 1]))
        i = j
        m = re.match(r'\s*else\b', text[i:])
        if not m: return out, text[i:]
        i += m.end()
        if re.match(r'\s*if\b', text[i:]): continue
        k = text.index('{', i)
        j = match_brace(text, k)
        out.append((None, text[k + 1:j - 1]))
        return out, text[j:]

def main(out_path):
    cm = rd('lightning/src/ln/channelmanager.rs')
    op = rd('lightning/src/ln/onion_payment.rs')
    L = ['/- GENERATED by tools/gen_inbound.py from lightning/src/ln/channelmanager.rs and onion_payment.rs — do not edit.',
         '   The per-part amount decisions of the inbound MPP accumulator (C04), translated. -/',
         'import LdkModel.Prim.Arith', 'import LdkModel.Generated.Consts', 'import LdkModel.Generated.Timing', 'set_option linter.unusedVariables false', 'namespace Ldk.MppGen', 'open Ldk', '']

    # ---- the part ---------------------------------------------------------------------------------
    mp = struct_fields(cm, r'pub\(super\) struct MppPart')
    want = {'value': 'u64', 'sender_intended_value': 'u64', 'timer_ticks': 'u8', 'total_value_received': 'Option<u64>', 'cltv_expiry': 'u32'}
    for k, t in want.items():
        if mp.get(k) != t: raise TranslateError("MppPart.%s: expected %s, found %s" % (k, t, mp.get(k)))
    amounts = sorted(k for k, t in mp.items() if t == 'u64')
    if amounts != ['sender_intended_value', 'value']:
        raise TranslateError("MppPart has other u64 amount fields than value / sender_intended_value: %s" % amounts)
    ch = struct_fields(cm, r'\nstruct ClaimableHTLC')
    if ch.get('counterparty_skimmed_fee_msat') != 'Option<u64>' or ch.get('mpp_part') != 'MppPart':
        raise TranslateError("ClaimableHTLC fields changed: %s" % ch)
    L += ['/-- the fields of `MppPart` / `ClaimableHTLC` the decisions below read (same names as in Rust) -/',
          'structure PartG where',
          '  value : Nat', '  sender_intended_value : Nat', '  timer_ticks : Nat', '  total_value_received : Option Nat',
          '  cltv_expiry : Nat', '  counterparty_skimmed_fee_msat : Option Nat', '  deriving DecidableEq, Repr', '']

    # ---- check_mpp_timeout ---------------------------------------------------------------------------
    params, _, body = find_fn(cm, 'check_mpp_timeout')
    if not re.search(r'htlcs\s*:\s*impl Iterator<Item = &\'a mut MppPart>', params): raise TranslateError("check_mpp_timeout signature changed")
    b = strip_comments(body)
    pre, loop, post = for_loop(b, r'htlc\s+in\s+htlcs', 'check_mpp_timeout')
    if norm(pre) != '{ let total_mpp_value = onion_fields.total_mpp_amount_msat; let mut total_intended_recvd_value = 0; let mut timed_out = false;':
        raise TranslateError("check_mpp_timeout prologue changed: %r" % norm(pre))
    inner = loop[1:-1]
    check_part_fields(inner, 'check_mpp_timeout')
    # the one in-place mutation of the element: `htlc.timer_ticks += 1;` -> a fresh local read by what follows
    m = re.search(r'\bhtlc\.timer_ticks\s*\+=\s*([^;]+);', inner)
    if not m or re.search(r'\bhtlc\.[a-z_]+\s*[-+*/]?=[^=]', inner[:m.start()] + inner[m.end():]):
        raise TranslateError("check_mpp_timeout: expected exactly one element mutation `htlc.timer_ticks += ..`")
    inner2 = inner[:m.start()] + 'timer_ticks_new = htlc.timer_ticks + (%s);' % m.group(1) + inner[m.end():].replace('htlc.timer_ticks', 'timer_ticks_new')
    if 'htlc.timer_ticks' in inner[:m.start()]: raise TranslateError("check_mpp_timeout reads timer_ticks before incrementing it")
    check_vars(inner, {'total_intended_recvd_value', 'timed_out', 'htlc'}, 'check_mpp_timeout loop body')
    check_vars(post.strip()[:-1], {'total_intended_recvd_value', 'total_mpp_value', 'timed_out'}, 'check_mpp_timeout epilogue')
    em = emitter()
    blk = parse_block('{' + inner2 + ' (total_intended_recvd_value, timed_out, timer_ticks_new) }')
    L += ['/-- loop body of channelmanager.rs::check_mpp_timeout (translated): `%s` -/' % norm(inner),
          'def timeoutBody (total_intended_recvd_value : Nat) (timed_out : Bool) (htlc : PartG) : Nat × Bool × Nat :=',
          '  ' + em.block(blk), '']
    tail = parse_block('{' + post.strip()[:-1] + '}') if post.strip().endswith('}') else None
    if tail is None: raise TranslateError("check_mpp_timeout epilogue not recognised")
    L += ['/-- what check_mpp_timeout returns after the loop (translated): `%s` -/' % norm(post.strip()[:-1]),
          'def timeoutDone (total_intended_recvd_value total_mpp_value : Nat) (timed_out : Bool) : Bool :=',
          '  ' + emitter().block(tail), '',
          '/-- `for htlc in htlcs { .. }` -/',
          'def timeoutLoop : List PartG → Nat → Bool → List PartG × Nat × Bool',
          '  | [], total, timed_out => ([], total, timed_out)',
          '  | htlc :: rest, total, timed_out =>',
          '    let r := timeoutBody total timed_out htlc',
          '    let q := timeoutLoop rest r.1 r.2.1',
          '    ({ htlc with timer_ticks := r.2.2 } :: q.1, q.2)', '',
          '/-- channelmanager.rs::check_mpp_timeout: the parts with their ticks advanced, and whether the set timed out -/',
          'def checkMppTimeout (htlcs : List PartG) (total_mpp_value : Nat) : List PartG × Bool :=',
          '  let r := timeoutLoop htlcs 0 false',
          '  (r.1, timeoutDone r.2.1 total_mpp_value r.2.2)', '']

    # ---- check_incoming_mpp_part ---------------------------------------------------------------------
    _, _, body = find_fn(cm, 'check_incoming_mpp_part')
    b = strip_comments(body)
    pre, loop, post = for_loop(b, r'htlc\s+in\s+htlc_set\.iter\(\)', 'check_incoming_mpp_part')
    m = re.search(r'let mut total_intended_recvd_value = ([^;]+);\s*$', pre)
    if not m: raise TranslateError("check_incoming_mpp_part: accumulator initialisation not found")
    init = norm(m.group(1))
    if not re.search(r'let onions_compatible = payment_onion_fields\.check_merge\(&mut onion_fields\);\s*if onions_compatible\.is_err\(\) \{\s*return Err\(\(\)\);\s*\}', pre):
        raise TranslateError("check_incoming_mpp_part: check_merge prologue changed")
    check_part_fields(init, 'check_incoming_mpp_part')
    check_vars(init, {'new_htlc'}, 'check_incoming_mpp_part accumulator initialisation')
    L += ['/-- check_incoming_mpp_part: `let mut total_intended_recvd_value = %s;` -/' % init,
          'def incomingInit (new_htlc : PartG) : Nat :=', '  ' + emitter().e(parse_expr(init)), '']
    inner = loop[1:-1]
    m = re.fullmatch(r'\s*(.*?;)\s*if\s+([^{}]+?)\s*\{\s*break;\s*\}\s*', inner, re.S)
    if not m: raise TranslateError("check_incoming_mpp_part: loop body is no longer `<stmts>; if <cond> { break; }`")
    check_part_fields(m.group(1), 'check_incoming_mpp_part')
    check_vars(m.group(1), {'total_intended_recvd_value', 'htlc'}, 'check_incoming_mpp_part loop body')
    check_vars(m.group(2), {'total_intended_recvd_value'}, 'check_incoming_mpp_part break condition')
    L += ['/-- loop body (translated): `%s` -/' % norm(m.group(1)),
          'def incomingBody (total_intended_recvd_value : Nat) (htlc : PartG) : Nat :=',
          '  ' + emitter().block(parse_block('{' + m.group(1) + ' total_intended_recvd_value }')), '',
          '/-- `if %s { break; }` -/' % norm(m.group(2)),
          'def incomingBreak (total_intended_recvd_value : Nat) : Bool :=',
          '  ' + emitter().e(parse_expr(m.group(2))), '',
          '/-- `for htlc in htlc_set.iter() { ..; if .. { break; } }` -/',
          'def incomingLoop : List PartG → Nat → Nat',
          '  | [], total => total',
          '  | htlc :: rest, total =>',
          '    let t := incomingBody total htlc',
          '    if incomingBreak t then t else incomingLoop rest t', '']
    m = re.match(r'\s*let total_mpp_value = payment_onion_fields\.total_mpp_amount_msat;\s*', post)
    if not m: raise TranslateError("check_incoming_mpp_part: total_mpp_value no longer payment_onion_fields.total_mpp_amount_msat")
    chain, rest = if_chain(post[m.end():], 'check_incoming_mpp_part')
    if len(chain) != 4 or chain[3][0] is not None or norm(rest) != '}':
        raise TranslateError("check_incoming_mpp_part: expected if / else if / else if / else, got %d arms" % len(chain))
    if norm(chain[0][1]) != 'return Err(());': raise TranslateError("check_incoming_mpp_part arm 1 changed: %r" % norm(chain[0][1]))
    if not re.fullmatch(r'log_trace!\(.*\);\s*return Err\(\(\)\);', norm(chain[1][1])): raise TranslateError("check_incoming_mpp_part arm 2 changed")
    m3 = re.fullmatch(r'htlc_set\.push\(new_htlc\); let amount_msat = (.+?); htlc_set \.iter_mut\(\) \.for_each\(\|htlc\| htlc\.mpp_part_mut\(\)\.total_value_received = Some\(amount_msat\)\); htlc_set\.sort\(\); Ok\(true\)', norm(chain[2][1]))
    if not m3: raise TranslateError("check_incoming_mpp_part completing arm changed: %r" % norm(chain[2][1]))
    if norm(chain[3][1]) != 'htlc_set.push(new_htlc); Ok(false)': raise TranslateError("check_incoming_mpp_part holding arm changed")
    for c, _ in chain[:3]:
        check_part_fields(c, 'check_incoming_mpp_part')
        check_vars(c, {'total_intended_recvd_value', 'new_htlc', 'total_mpp_value'}, 'check_incoming_mpp_part verdict condition')
    check_part_fields(m3.group(1), 'check_incoming_mpp_part')
    check_vars(m3.group(1), {'htlc_set'}, 'check_incoming_mpp_part amount_msat')
    ce = [emitter().e(parse_expr(c)) for c, _ in chain[:3]]
    L += ['/-- outcome of check_incoming_mpp_part: `Err(())` / `Ok(true)` / `Ok(false)` -/',
          'inductive Verdict where', '  | reject | complete | hold', '  deriving DecidableEq, Repr', '',
          '/-- the if / else-if chain of check_incoming_mpp_part (conditions translated):',
          '    `%s` → Err; `%s` → Err ("already claimable"); `%s` → Ok(true); else Ok(false) -/' % tuple(c for c, _ in chain[:3]),
          'def incomingVerdict (total_intended_recvd_value : Nat) (new_htlc : PartG) (total_mpp_value : Nat) : Verdict :=',
          '  if %s then .reject' % ce[0], '  else if %s then .reject' % ce[1], '  else if %s then .complete' % ce[2], '  else .hold', '',
          '/-- `let amount_msat = %s;` of the completing arm (stored in every part as total_value_received) -/' % m3.group(1),
          'def completeAmount (htlc_set : List PartG) : Nat :=', '  ' + emitter().e(parse_expr(m3.group(1))), '',
          '/-- check_incoming_mpp_part after a successful check_merge (the final `htlc_set.sort()` by',
          '    (channel_id, htlc_id) is not represented: PartG has no key) -/',
          'def checkIncomingMppPart (htlc_set : List PartG) (new_htlc : PartG) (total_mpp_value : Nat) : Verdict × List PartG :=',
          '  match incomingVerdict (incomingLoop htlc_set (incomingInit new_htlc)) new_htlc total_mpp_value with',
          '  | .reject => (.reject, htlc_set)',
          '  | .complete =>',
          '    let set := htlc_set ++ [new_htlc]',
          '    let amount_msat := completeAmount set',
          '    (.complete, set.map fun htlc => { htlc with total_value_received := some amount_msat })',
          '  | .hold => (.hold, htlc_set ++ [new_htlc])', '']

    # ---- handle_claimable_htlc: what PaymentClaimable reports ------------------------------------------
    _, _, body = find_fn(cm, 'handle_claimable_htlc')
    b = strip_comments(body)
    i = b.find('Ok(true) =>')
    if i < 0: raise TranslateError("handle_claimable_htlc: Ok(true) arm not found")
    k = b.index('{', i)
    arm = b[k:match_brace(b, k)]
    lets = dict((m.group(1), norm(m.group(2))) for m in re.finditer(r'let (\w+)(?:\s*:\s*u64)?\s*=\s*([^;]+);', arm))
    for n in ('counterparty_skimmed_fee_msat', 'amount_msat', 'total_sender_intended'):
        if n not in lets: raise TranslateError("handle_claimable_htlc: `let %s` not found in the Ok(true) arm" % n)
    k2 = arm.find('events::Event::PaymentClaimable {')
    if k2 < 0: raise TranslateError("PaymentClaimable literal not found")
    k3 = arm.index('{', k2)
    lit = arm[k3:match_brace(arm, k3)]
    for n in ('amount_msat', 'counterparty_skimmed_fee_msat', 'claim_deadline'):
        if not re.search(r'[{,]\s*' + n + r'\s*,', lit): raise TranslateError("PaymentClaimable.%s is no longer the local of that name" % n)
    if lets['counterparty_skimmed_fee_msat'] != 'claimable_payment.total_counterparty_skimmed_msat()':
        raise TranslateError("PaymentClaimable skimmed fee no longer total_counterparty_skimmed_msat(): %s" % lets['counterparty_skimmed_fee_msat'])
    _, _, sk = find_fn(cm, 'total_counterparty_skimmed_msat')
    sk = norm(strip_comments(sk))[1:-1].strip()
    fe = {'self.htlcs': 'htlcs', 'claimable_payment.htlcs': 'htlcs', 'payment.htlcs': 'htlcs'}
    for t in (sk, lets['amount_msat'], lets['total_sender_intended']):
        check_part_fields(t, 'handle_claimable_htlc')
        check_vars(t.replace('self.htlcs', 'htlcs').replace('claimable_payment.htlcs', 'htlcs'), {'htlcs'}, 'PaymentClaimable amounts')
    L += ['/-- PaymentClaimable.amount_msat: `%s` -/' % lets['amount_msat'],
          'def eventAmount (htlcs : List PartG) : Nat :=', '  ' + emitter(fe).e(parse_expr(lets['amount_msat'])), '',
          '/-- PaymentClaimable.counterparty_skimmed_fee_msat = total_counterparty_skimmed_msat(): `%s` -/' % sk,
          'def eventSkim (htlcs : List PartG) : Nat :=', '  ' + emitter(fe).e(parse_expr(sk)), '',
          '/-- `total_sender_intended` of the same arm (only debug_asserted against the two above): `%s` -/' % lets['total_sender_intended'],
          'def eventIntended (htlcs : List PartG) : Nat :=', '  ' + emitter(fe).e(parse_expr(lets['total_sender_intended'])), '']
    # PaymentClaimable.claim_deadline: `Some(match <E over claimable_payment.htlcs> { Some(x) => x, None => { debug_assert!(..); htlc_expiry } } <tail>)`
    m = re.search(r'let claim_deadline = Some\(\s*match\s+([^{}]+?)\s*\{', arm)
    if not m: raise TranslateError("handle_claimable_htlc: `let claim_deadline = Some(match .. {` not found")
    sel = norm(m.group(1))
    j = match_brace(arm, m.end() - 1)
    arms = norm(arm[m.end():j - 1])
    ma = re.fullmatch(r'Some\((\w+)\) => (\w+), None => \{ debug_assert!\(false, "[^"]*"\); (\w+) \},?', arms)
    if not ma or ma.group(1) != ma.group(2):
        raise TranslateError("handle_claimable_htlc: claim_deadline match arms changed: %r" % arms)
    dflt = ma.group(3)
    if dflt != 'htlc_expiry' or not re.search(r'let htlc_expiry = claimable_htlc\.mpp_part\.cltv_expiry;', b[:i]):
        raise TranslateError("handle_claimable_htlc: claim_deadline fallback is no longer the new part's cltv_expiry (%s)" % dflt)
    mt = re.match(r'\s*([^;]*?),?\s*\)\s*;', arm[j:], re.S)
    if not mt: raise TranslateError("handle_claimable_htlc: claim_deadline tail not recognised: %r" % arm[j:j + 60])
    tail = norm(mt.group(1))
    check_part_fields(sel, 'handle_claimable_htlc claim_deadline')
    check_vars(sel.replace('claimable_payment.htlcs', 'htlcs'), {'htlcs'}, 'PaymentClaimable claim_deadline')
    check_vars(tail, set(), 'PaymentClaimable claim_deadline tail')
    # Iterator::min()/max() (no argument) and slice first()/last() give Options; u32 arithmetic of the tail: plain `-` is Nat
    # subtraction (a u32 underflow would need cltv_expiry < HTLC_FAIL_BACK_BUFFER, which the final-hop expiry check excludes)
    emd = emitter(fe)
    for nm, fn in (('min', 'List.min?'), ('max', 'List.max?'), ('first', 'List.head?'), ('last', 'List.getLast?')):
        emd.methods[nm] = (lambda fn: lambda recv, args: ('(%s %s)' % (fn, recv)) if not args else _no_arg(fn))(fn)
    L += ['/-- PaymentClaimable.claim_deadline, the scrutinee: `%s` -/' % sel,
          'def eventMinCltv (htlcs : List PartG) : Option Nat :=', '  ' + emd.e(parse_expr(sel)), '',
          '/-- PaymentClaimable.claim_deadline (translated): `match %s { %s } %s` where `htlc_expiry` is the new part\'s cltv_expiry -/' % (sel, arms, tail),
          'def eventClaimDeadline (htlcs : List PartG) (htlc_expiry : Nat) : Nat :=',
          '  let sel := match eventMinCltv htlcs with',
          '    | some claim_deadline => claim_deadline',
          '    | none => htlc_expiry',
          '  ' + emitter().e(parse_expr('sel ' + tail)), '']

    # ---- handle_claimable_htlc: the gates in front of check_incoming_mpp_part, and check_merge ------------
    # order of the statements of handle_claimable_htlc (positions in the comment-stripped body `b`)
    g1 = re.search(r'if\s+([^{}]+?)\s*\{\s*return Err\(\(\)\);\s*\}', b)
    if not g1 or 'pending_claiming_payments' not in g1.group(1): raise TranslateError("handle_claimable_htlc: the pending_claiming_payments gate is no longer the first test")
    ent = re.search(r'claimable_payments\.claimable_payments\.entry\(payment_hash\)\.or_insert_with\(\|\|\s*\{\s*first_claimable_htlc = true;\s*ClaimablePayment\s*\{\s*purpose: purpose\.clone\(\),\s*htlcs: Vec::new\(\),\s*onion_fields: onion_fields\.clone\(\),\s*\}\s*\}\)', b)
    if not ent: raise TranslateError("handle_claimable_htlc: the entry is no longer created from the first part's purpose / onion_fields")
    g2 = re.search(r'if\s+(purpose\s*[!=]=\s*claimable_payment\.purpose|claimable_payment\.purpose\s*[!=]=\s*purpose)\s*\{', b)
    if not g2: raise TranslateError("handle_claimable_htlc: purpose comparison not found")
    g2end = match_brace(b, g2.end() - 1)
    if not re.search(r'return Err\(\(\)\);\s*\}$', b[g2.end():g2end]): raise TranslateError("handle_claimable_htlc: the purpose test no longer returns Err(())")
    g3 = re.search(r'match self\.check_incoming_mpp_part\(\s*&mut claimable_payment\.htlcs,\s*&mut claimable_payment\.onion_fields,\s*claimable_htlc,\s*onion_fields,\s*payment_hash,?\s*\)\s*\{', b)
    if not g3: raise TranslateError("handle_claimable_htlc: call of check_incoming_mpp_part changed")
    if not (g1.start() < ent.start() < g2.start() < g3.start()): raise TranslateError("handle_claimable_htlc: order pending-claim gate / entry / purpose test / check_incoming_mpp_part changed")
    if re.search(r'return\s+(Ok|Err)', b[g1.end():g2.start()]) or re.search(r'return\s+(Ok|Err)', b[g2end:g3.start()]):
        raise TranslateError("handle_claimable_htlc: an extra early return appeared in front of check_incoming_mpp_part")
    k = b.index('{', b.find('Err(()) =>', g3.end()))
    if not re.fullmatch(r'\{\s*debug_assert!\(!first_claimable_htlc\);\s*Err\(\(\)\)\s*\}', b[k:match_brace(b, k)]) or not re.search(r'Ok\(false\) => Ok\(\(\)\),', b[g3.end():]):
        raise TranslateError("handle_claimable_htlc: Ok(false) / Err arms changed")
    c1 = norm(g1.group(1)); c2 = norm(g2.group(1))
    check_vars(c1, {'claimable_payments', 'payment_hash'}, 'handle_claimable_htlc pending-claim gate')
    em1 = Emitter(methods={'contains_key': lambda recv, args: 'pending_claiming_contains'}, narrow=lambda t: False)
    em2 = Emitter(fields={'claimable_payment.purpose': 'entry_purpose'}, narrow=lambda t: False)
    L += ['/-- handle_claimable_htlc, first test: `if %s { return Err(()); }` (pending_claiming_contains: the hash is being claimed) -/' % c1,
          'def pendingClaimRefuses (pending_claiming_contains : Bool) : Bool :=', '  ' + em1.e(parse_expr(c1)), '',
          '/-- handle_claimable_htlc, second test: `if %s { .. return Err(()); }` (entry_purpose: the purpose the FIRST part of the entry arrived with) -/' % c2,
          'def purposeMismatch (purpose entry_purpose : Nat) : Bool :=', '  ' + em2.e(parse_expr(c2)), '']

    # RecipientOnionFields::check_merge (outbound_payment.rs)
    obp = rd('lightning/src/ln/outbound_payment.rs')
    params, _, body = find_fn(obp, 'check_merge')
    if norm(params) != '&mut self, further_htlc_fields: &mut Self': raise TranslateError("check_merge signature changed: %s" % norm(params))
    cb = norm(strip_comments(body))[1:-1].strip()
    tests = []
    while True:
        mm = re.match(r'if ([^{}]+?) \{ return Err\(\(\)\);? \} ?', cb)
        if not mm: break
        tests.append(mm.group(1)); cb = cb[mm.end():]
    want_f = ['payment_secret', 'payment_metadata', 'total_mpp_amount_msat']
    if len(tests) != 3: raise TranslateError("check_merge: expected 3 leading field tests, found %d" % len(tests))
    for t, f in zip(tests, want_f):
        if not re.fullmatch(r'(self|further_htlc_fields)\.%s\s*\S+\s*(self|further_htlc_fields)\.%s' % (f, f), t) or t.count('self.') != 1:
            raise TranslateError("check_merge: test on %s changed: %r" % (f, t))
    head_re = r'let tlvs = &mut self\.custom_tlvs; let further_tlvs = &mut further_htlc_fields\.custom_tlvs; '
    tail_re = (r'tlvs\.retain\(\|tlv\| further_tlvs\.iter\(\)\.any\(\|further_tlv\| (.+?)\)\); '
               r'further_tlvs\.retain\(\|further_tlv\| tlvs\.iter\(\)\.any\(\|tlv\| (.+?)\)\); Ok\(\(\)\)')
    # shape A (the source): the two filtered even sub-sequences compared AS SEQUENCES with .ne / .eq
    rest_re = (head_re +
               r'let even_tlvs = tlvs\.iter\(\)\.filter\(\|\((\w+), _\)\| (.+?)\); '
               r'let further_even_tlvs = further_tlvs\.iter\(\)\.filter\(\|\((\w+), _\)\| (.+?)\); '
               r'if (even_tlvs|further_even_tlvs)\.(ne|eq)\((even_tlvs|further_even_tlvs)\) \{ return Err\(\(\)\);? \} ' + tail_re)
    # shape B (one-directional containment): `if even_tlvs.any(|tlv| !further_tlvs.contains(tlv))` - translated as it stands
    # (Props/C04.lean merge_ok_implies_same_even_tlvs is not provable for it); every other shape is a TRANSLATE-ERROR
    rest_re_b = (head_re +
               r'let (?:mut )?even_tlvs = (tlvs|further_tlvs)\.iter\(\)\.filter\(\|\((\w+), _\)\| (.+?)\); '
               r'if even_tlvs\.(any|all)\(\|(\w+)\| (!?)(tlvs|further_tlvs)\.contains\(\5\)\) \{ return Err\(\(\)\);? \} ' + tail_re)
    mr = re.fullmatch(rest_re, cb)
    mrb = None if mr else re.fullmatch(rest_re_b, cb)
    if not mr and not mrb: raise TranslateError("check_merge: the custom-TLV part changed: %r" % cb[:200])
    if mr:
        v1, p1, v2, p2, lhs, cmpop, rhs, keep1, keep2 = mr.groups()
        if lhs == rhs: raise TranslateError("check_merge compares %s with itself" % lhs)
    else:
        src_b, v1, p1, quant_b, _tv, neg_b, other_b, keep1, keep2 = mrb.groups()
        if src_b == other_b: raise TranslateError("check_merge tests %s against itself" % src_b)
        v2, p2, cmpop = v1, p1, '%s(|tlv| %s%s.contains(tlv)) over the even TLVs of %s' % (quant_b, neg_b, other_b, src_b)
    def tlv_pred(v, body_):
        body_ = body_.replace('*' + v, v)
        check_vars(body_, {v}, 'check_merge even-TLV predicate')
        return '(fun (tlv : Nat × Nat) => let %s := tlv.1; %s)' % (v, Emitter(narrow=lambda t: False).e(parse_expr(body_)))
    for kx in (keep1, keep2): check_vars(kx, {'tlv', 'further_tlv'}, 'check_merge retain')
    eme = Emitter(narrow=lambda t: False)
    L += ['/-- `RecipientOnionFields` as far as check_merge / begin_claiming_payment read it (payment_secret, payment_metadata: codes',
          '    standing for the Option<..> values; custom_tlvs: (type, code of the value), strictly increasing types) -/',
          'structure OnionG where',
          '  payment_secret : Nat', '  payment_metadata : Nat', '  total_mpp_amount_msat : Nat', '  custom_tlvs : List (Nat × Nat)',
          '  deriving DecidableEq, Repr', '',
          '/-- outbound_payment.rs::RecipientOnionFields::check_merge, true = `Err(())` (translated tests, in source order):',
          '    %s; even TLVs `%s` / `%s` compared with `.%s` -/' % ('; '.join('`%s`' % t for t in tests), p1, p2, cmpop),
          'def checkMergeErr (self further_htlc_fields : OnionG) : Bool :=']
    for t in tests: L.append('  if %s then true else' % eme.e(parse_expr(t)))
    L += ['  let tlvs := self.custom_tlvs',
          '  let further_tlvs := further_htlc_fields.custom_tlvs']
    if mr:
        L += ['  let even_tlvs := List.filter %s tlvs' % tlv_pred(v1, p1),
              '  let further_even_tlvs := List.filter %s further_tlvs' % tlv_pred(v2, p2),
              '  decide (%s %s %s)' % (lhs, '≠' if cmpop == 'ne' else '=', rhs), '']
    else:
        L += ['  let even_tlvs := List.filter %s %s' % (tlv_pred(v1, p1), src_b),
              '  List.%s even_tlvs (fun (tlv : Nat × Nat) => %s(List.contains %s tlv))' % (quant_b, '!' if neg_b else '', other_b), '']
    L += [
          '/-- handle_claimable_htlc up to the verdict, in source order: pending-claim gate, purpose test (against the entry the FIRST',
          '    part created), then check_incoming_mpp_part = check_merge + the amount decisions; `Err(())` = .reject (the new HTLC is failed back) -/',
          'def handleClaimable (pending_claiming_contains : Bool) (purpose entry_purpose : Nat) (entry_fields onion_fields : OnionG)',
          '    (htlc_set : List PartG) (new_htlc : PartG) : Verdict × List PartG :=',
          '  if pendingClaimRefuses pending_claiming_contains then (.reject, htlc_set)',
          '  else if purposeMismatch purpose entry_purpose then (.reject, htlc_set)',
          '  else if checkMergeErr entry_fields onion_fields then (.reject, htlc_set)',
          '  else checkIncomingMppPart htlc_set new_htlc entry_fields.total_mpp_amount_msat', '']

    # ---- claim_payment_internal ---------------------------------------------------------------------
    _, _, body = find_fn(cm, 'claim_payment_internal')
    b = strip_comments(body)
    pre, loop, post = for_loop(b, r'htlc\s+in\s+sources\.iter\(\)', 'claim_payment_internal')
    if not re.search(r'let mut claimable_amt_msat = 0;\s*let mut expected_amt_msat = None;\s*let mut valid_mpp = true;', pre):
        raise TranslateError("claim_payment_internal: accumulator initialisation changed")
    chain, rest = if_chain(loop[1:-1], 'claim_payment_internal loop')
    if len(chain) != 1 or not re.fullmatch(r'(log_error!\(.*?\);\s*)?(debug_assert!\(false\);\s*)?valid_mpp = false;\s*break;', norm(chain[0][1])):
        raise TranslateError("claim_payment_internal: loop head is no longer `if <mismatch> { ..; valid_mpp = false; break; }`")
    check_part_fields(chain[0][0], 'claim_payment_internal'); check_part_fields(rest, 'claim_payment_internal')
    check_vars(chain[0][0], {'expected_amt_msat', 'htlc'}, 'claim_payment_internal mismatch test')
    check_vars(rest, {'expected_amt_msat', 'claimable_amt_msat', 'htlc'}, 'claim_payment_internal loop body')
    L += ['/-- claim_payment_internal loop: `if %s { valid_mpp = false; break; }` -/' % chain[0][0],
          'def claimMismatch (expected_amt_msat : Option Nat) (htlc : PartG) : Bool :=',
          '  ' + emitter().e(parse_expr(chain[0][0])), '',
          '/-- the rest of the loop body (translated): `%s` -/' % norm(rest),
          'def claimBody (expected_amt_msat : Option Nat) (claimable_amt_msat : Nat) (htlc : PartG) : Option Nat × Nat :=',
          '  ' + emitter().block(parse_block('{' + rest + ' (expected_amt_msat, claimable_amt_msat) }')), '',
          '/-- `for htlc in sources.iter() { .. }`: (expected_amt_msat, claimable_amt_msat, valid_mpp) -/',
          'def claimLoop : List PartG → Option Nat → Nat → Option Nat × Nat × Bool',
          '  | [], expected, amt => (expected, amt, true)',
          '  | htlc :: rest, expected, amt =>',
          '    if claimMismatch expected htlc then (expected, amt, false)',
          '    else claimLoop rest (claimBody expected amt htlc).1 (claimBody expected amt htlc).2', '']
    post2 = re.sub(r'^\s*mem::drop\(per_peer_state\);', '', post)
    chain1, post3 = if_chain(post2, 'claim_payment_internal')
    chain2, post4 = if_chain(post3, 'claim_payment_internal')
    chain3, _ = if_chain(post4, 'claim_payment_internal')
    for c in (chain1, chain2):
        if len(c) != 1 or not norm(c[0][1]).endswith('return;') or 'pending_claiming_payments.remove(&payment_hash)' not in c[0][1]:
            raise TranslateError("claim_payment_internal: early-return guards changed")
    if len(chain3) != 2 or chain3[0][0] != 'valid_mpp' or 'claim_funds_from_hop' not in chain3[0][1] or 'fail_htlc_backwards_internal' not in chain3[1][1]:
        raise TranslateError("claim_payment_internal: `if valid_mpp { claim all } else { fail all }` changed")
    check_vars(chain1[0][0], {'sources', 'expected_amt_msat'}, 'claim_payment_internal first guard')
    check_vars(chain2[0][0], {'claimable_amt_msat', 'expected_amt_msat'}, 'claim_payment_internal amount guard')
    L += ['/-- "no longer had any available HTLCs": `if %s { .. return; }` -/' % chain1[0][0],
          'def claimNothing (sources : List PartG) (expected_amt_msat : Option Nat) : Bool :=',
          '  ' + emitter().e(parse_expr(chain1[0][0])), '',
          '/-- "expected {} msat, had {} available to claim": `if %s { .. return; }` -/' % chain2[0][0],
          'def claimShort (claimable_amt_msat : Nat) (expected_amt_msat : Option Nat) : Bool :=',
          '  ' + emitter().e(parse_expr(chain2[0][0])), '']

    # ---- begin_claiming_payment / ClaimedHTLC ------------------------------------------------------------
    _, _, body = find_fn(cm, 'begin_claiming_payment')
    b = strip_comments(body)
    m = re.search(r'ClaimingPayment\s*\{', b)
    if not m: raise TranslateError("ClaimingPayment literal not found")
    lit = b[m.end() - 1:match_brace(b, m.end() - 1)]
    m1 = re.search(r'amount_msat:\s*(.+?),\s*payment_purpose', lit, re.S)
    if not m1: raise TranslateError("ClaimingPayment.amount_msat not found")
    amt = norm(m1.group(1))
    check_part_fields(amt, 'begin_claiming_payment')
    check_vars(amt.replace('payment.htlcs', 'htlcs'), {'htlcs'}, 'ClaimingPayment.amount_msat')
    if not re.search(r'let sender_intended_value = payment\.onion_fields\.total_mpp_amount_msat;', b) or not re.search(r'sender_intended_value:\s*Some\(sender_intended_value\)', lit):
        raise TranslateError("ClaimingPayment.sender_intended_value is no longer the onion's total_mpp_amount_msat")
    if not re.search(r'sender_intended_value:\s*sender_intended_total_msat,', cm) or not re.search(r'events::Event::PaymentClaimed\s*\{\s*payment_hash,\s*purpose,\s*amount_msat,\s*receiver_node_id: Some\(receiver_node_id\),\s*htlcs,\s*sender_intended_total_msat,', cm):
        raise TranslateError("PaymentClaimed is no longer built from ClaimingPayment's amount_msat / htlcs / sender_intended_value")
    me = re.search(r'let custom_tlvs = &payment\.onion_fields\.custom_tlvs;\s*if\s+(.+?)\s*\{\s*log_info!\(.*?\);\s*return Err\(payment\.htlcs\);\s*\}', b, re.S)
    if not me: raise TranslateError("begin_claiming_payment: the unknown-even-TLV refusal changed")
    ce = norm(me.group(1))
    mce = re.fullmatch(r'(.*)custom_tlvs\.iter\(\)\.(any|all)\(\|\((\w+), _\)\| (.+?)\)', ce)
    if not mce: raise TranslateError("begin_claiming_payment: unknown-even-TLV test not recognised: %r" % ce)
    head, quant, tv, tbody = mce.groups()
    check_vars(head, {'custom_tlvs_known'}, 'begin_claiming_payment even-TLV test'); check_vars(tbody.replace('*' + tv, tv), {tv}, 'begin_claiming_payment even-TLV predicate')
    if me.start() > b.find('pending_claiming_payments'): raise TranslateError("begin_claiming_payment: the even-TLV refusal no longer precedes the pending_claiming_payments insertion")
    eh = Emitter(narrow=lambda t: False)
    L += ['/-- begin_claiming_payment: `if %s { .. return Err(payment.htlcs); }` (every HTLC is then failed with InvalidOnionPayload) -/' % ce,
          'def claimRefusesUnknownEven (custom_tlvs_known : Bool) (custom_tlvs : List (Nat × Nat)) : Bool :=',
          '  ' + eh.e(parse_expr(head + 'tlv_test'))[:-len('tlv_test)')] + '(List.%s custom_tlvs (fun (tlv : Nat × Nat) => let %s := tlv.1; %s)))' % (quant, tv, eh.e(parse_expr(tbody.replace('*' + tv, tv)))), '']
    L += ['/-- ClaimingPayment.amount_msat (= PaymentClaimed.amount_msat): `%s` -/' % amt,
          'def claimingAmount (htlcs : List PartG) : Nat :=', '  ' + emitter(fe).e(parse_expr(amt)), '']
    _, _, body = find_fn(cm, 'from', after='impl From<&ClaimableHTLC> for events::ClaimedHTLC')
    blk = parse_block(strip_comments(body))
    if blk[1] or blk[2] is None or blk[2][0] != 'struct': raise TranslateError("ClaimedHTLC::from is no longer a struct literal")
    flds = dict(blk[2][2])
    for n in ('value_msat', 'counterparty_skimmed_fee_msat'):
        if n not in flds: raise TranslateError("ClaimedHTLC.%s missing" % n)
    L += ['/-- PaymentClaimed.htlcs[i].value_msat (impl From<&ClaimableHTLC> for ClaimedHTLC) -/',
          'def claimedHtlcValue (val : PartG) : Nat :=', '  ' + emitter().e(flds['value_msat']), '',
          '/-- PaymentClaimed.htlcs[i].counterparty_skimmed_fee_msat -/',
          'def claimedHtlcSkim (val : PartG) : Nat :=', '  ' + emitter().e(flds['counterparty_skimmed_fee_msat']), '']

    # ---- process_receive_htlcs: how a part is built from the HTLC and its onion --------------------------
    _, _, body = find_fn(cm, 'process_receive_htlcs')
    b = strip_comments(body)
    m = re.search(r'let value = ([^;]+);', b)
    if not m: raise TranslateError("process_receive_htlcs: `let value = ..` not found")
    check_vars(m.group(1), {'incoming_amt_msat', 'outgoing_amt_msat'}, 'process_receive_htlcs value')
    L += ['/-- process_receive_htlcs: `let value = %s;` (incoming_amt_msat: amount of the update_add_htlc;' % norm(m.group(1)),
          '    outgoing_amt_msat: the onion\'s amt_to_forward) -/',
          'def recvValue (incoming_amt_msat : Option Nat) (outgoing_amt_msat : Nat) : Nat :=',
          '  ' + emitter().e(parse_expr(m.group(1))), '']
    m = re.search(r'let claimable_htlc = ClaimableHTLC\s*\{', b)
    if not m: raise TranslateError("process_receive_htlcs: ClaimableHTLC literal not found")
    lit = parse_expr('ClaimableHTLC ' + b[m.end() - 1:match_brace(b, m.end() - 1)])
    outer = dict(lit[2])
    if 'mpp_part' not in outer or outer['mpp_part'][0] != 'struct' or 'counterparty_skimmed_fee_msat' not in outer:
        raise TranslateError("process_receive_htlcs: ClaimableHTLC literal changed")
    inner = dict(outer['mpp_part'][2])
    if sorted(inner) != sorted(['prev_hop', 'cltv_expiry', 'value', 'sender_intended_value', 'timer_ticks', 'total_value_received']):
        raise TranslateError("process_receive_htlcs: MppPart literal fields changed: %s" % sorted(inner))
    em = emitter()
    flds = [(n, em.e(inner[n])) for n in ('value', 'sender_intended_value', 'timer_ticks', 'total_value_received', 'cltv_expiry')]
    flds.append(('counterparty_skimmed_fee_msat', em.e(outer['counterparty_skimmed_fee_msat'])))
    for n, v in flds:
        if v not in ('value', 'outgoing_amt_msat', 'cltv_expiry', 'skimmed_fee_msat', '0', 'none'):
            raise TranslateError("process_receive_htlcs fills %s with `%s`" % (n, v))
    L += ['/-- process_receive_htlcs: the `ClaimableHTLC { mpp_part: MppPart { .. }, counterparty_skimmed_fee_msat: .. }` it hands to handle_claimable_htlc -/',
          'def recvPart (value outgoing_amt_msat cltv_expiry : Nat) (skimmed_fee_msat : Option Nat) : PartG :=',
          '  { ' + ', '.join('%s := %s' % f for f in flds) + ' }', '']

    # ---- create_recv_pending_htlc_info: the amount test ---------------------------------------------------
    # Translated as a whole STATEMENT: the top-level `if` (chain, possibly nested, possibly preceded by pure `let`s that it
    # reads) whose body returns `Err(InboundHTLCErr { reason: FinalIncorrectHTLCAmount, .. })`; every such return becomes
    # `return true`, falling out of the statement is `false`.  A rewritten but readable test therefore REGENERATES
    # (and the theorems recvAmountTest_exact / not_underpaid_without_opt_in decide whether it still means the same);
    # shapes rs2lean cannot read (match, loops, calls of unknown functions, other free variables) stay TRANSLATE-ERRORs.
    _, _, body = find_fn(op, 'create_recv_pending_htlc_info')
    b = strip_comments(body)
    if b.count('FinalIncorrectHTLCAmount') < 1: raise TranslateError("FinalIncorrectHTLCAmount check not found")
    # (a) every `return Err(InboundHTLCErr { .. FinalIncorrectHTLCAmount .. })` -> `return true;`
    nret = 0
    while True:
        idx = b.find('LocalHTLCFailureReason::FinalIncorrectHTLCAmount')
        if idx < 0: break
        r0 = b.rfind('return Err(InboundHTLCErr', 0, idx)
        if r0 < 0: raise TranslateError("FinalIncorrectHTLCAmount is no longer inside `return Err(InboundHTLCErr { .. })`")
        k = b.index('{', r0)
        j = match_brace(b, k)
        if not (k < idx < j): raise TranslateError("FinalIncorrectHTLCAmount is no longer inside `return Err(InboundHTLCErr { .. })`")
        if len(re.findall(r'LocalHTLCFailureReason::(\w+)', b[k:j])) != 1 or not re.search(r'\breason\s*:\s*LocalHTLCFailureReason::FinalIncorrectHTLCAmount\s*[,}]', b[k:j]):
            raise TranslateError("the FinalIncorrectHTLCAmount error literal names another reason as well")
        mt_ = re.match(r'\s*\)\s*;?', b[j:])
        if not mt_: raise TranslateError("`return Err(InboundHTLCErr { .. })` not closed as expected")
        b = b[:r0] + 'return RECV_AMOUNT_TOO_LOW__;' + b[j + mt_.end():]
        nret += 1
    # (b) the top-level statements of the function body that contain such a return
    depth = 0; par = 0; tops = []
    for i_, ch_ in enumerate(b):
        if ch_ == '{': depth += 1
        elif ch_ == '}': depth -= 1
        elif ch_ in '([': par += 1
        elif ch_ in ')]': par -= 1
        elif ch_ == 'i' and depth == 1 and par == 0 and re.match(r'if\b', b[i_:]) and re.search(r'[;{}]\s*$', b[:i_]):
            tops.append(i_)
    stmts_ = []
    for i_ in tops:
        chain_, rest_ = if_chain(b[i_:], 'create_recv_pending_htlc_info')
        end_ = len(b) - len(rest_)
        if 'RECV_AMOUNT_TOO_LOW__' in b[i_:end_]: stmts_.append((i_, end_))
    if len(stmts_) != 1 or b.count('RECV_AMOUNT_TOO_LOW__') != nret or sum(b[a_:e_].count('RECV_AMOUNT_TOO_LOW__') for a_, e_ in stmts_) != nret:
        raise TranslateError("create_recv_pending_htlc_info: the FinalIncorrectHTLCAmount returns are no longer inside ONE top-level `if` statement (%d found)" % len(stmts_))
    s0_, e0_ = stmts_[0]
    stmt = b[s0_:e0_]
    if re.search(r'\breturn\b(?!\s+RECV_AMOUNT_TOO_LOW__)', stmt) or '?' in stmt:
        raise TranslateError("create_recv_pending_htlc_info: the amount statement has another exit than the FinalIncorrectHTLCAmount error")
    # (c) pure `let`s directly in front of it that it (transitively) reads
    lets_ = []; pre_ = b[:s0_]; used_ = stmt
    while True:
        ml = re.search(r'(?:^|[;{}])\s*let\s+(\w+)(?:\s*:\s*\w+)?\s*=\s*([^;{}]+);\s*$', pre_)
        if not ml: break
        if re.search(r'\b%s\b' % ml.group(1), used_):
            lets_.insert(0, (ml.group(1), norm(ml.group(2)))); used_ += ' ' + ml.group(2)
        pre_ = pre_[:ml.start() + (0 if pre_[ml.start()] not in ';{}' else 1)]
    params_ = {'allow_underpay', 'onion_amt_msat', 'amt_msat', 'counterparty_skimmed_fee_msat'}
    for nm_, ex_ in lets_:
        if nm_ in params_: raise TranslateError("create_recv_pending_htlc_info: `let %s` shadows an input of the amount test" % nm_)
    # the inputs themselves must be what they were: parameters / the tuple slot of the onion amount, not re-bound in between
    for nm_ in ('amt_msat', 'allow_underpay', 'counterparty_skimmed_fee_msat'):
        if len(re.findall(r'\blet\s+(?:mut\s+)?%s\b' % nm_, b[:s0_])) != 0:
            raise TranslateError("create_recv_pending_htlc_info: `%s` is re-bound in front of the amount test" % nm_)
    text_ = ' '.join('let %s = %s;' % le for le in lets_) + ' ' + stmt
    check_vars(text_.replace('RECV_AMOUNT_TOO_LOW__', 'true'), params_, 'create_recv_pending_htlc_info amount test')
    def too_low(t):
        """t: pure `let`s, `if` chains (nested) and `return RECV_AMOUNT_TOO_LOW__;` -> Lean Bool: was the error returned?"""
        t = t.strip()
        if not t: return 'false'
        if re.match(r'return RECV_AMOUNT_TOO_LOW__;', t): return 'true'
        ml = re.match(r'let\s+(\w+)(?:\s*:\s*\w+)?\s*=\s*([^;{}]+);', t)
        if ml: return '(let %s := %s;\n  %s)' % (ml.group(1), emitter().e(parse_expr(ml.group(2))), too_low(t[ml.end():]))
        if re.match(r'if\b', t):
            chain_, rest_ = if_chain(t, 'create_recv_pending_htlc_info amount statement')
            out_ = 'false'
            for c_, blk in reversed(chain_):
                out_ = too_low(blk) if c_ is None else '(if %s then %s else\n  %s)' % (emitter().e(parse_expr(c_)), too_low(blk), out_)
            return out_ if not rest_.strip() else '(%s || %s)' % (out_, too_low(rest_))
        raise TranslateError("create_recv_pending_htlc_info: statement of the amount test outside the subset: %r" % t[:60])
    shown_ = norm(text_.replace('return RECV_AMOUNT_TOO_LOW__;', 'return Err(FinalIncorrectHTLCAmount);'))
    m1_ = re.fullmatch(r'if ([^{}]+?) \{ return Err\(FinalIncorrectHTLCAmount\); \}', shown_)
    if m1_:   # the plain `if <cond> { return Err(..) }`: emit the condition itself (keeps Generated/ byte-identical for the current source)
        doc_ = m1_.group(1); lean_ = emitter().e(parse_expr(m1_.group(1)))
    else:
        doc_ = shown_; lean_ = too_low(text_)
    L += ['/-- onion_payment.rs::create_recv_pending_htlc_info, FinalIncorrectHTLCAmount: `%s`' % doc_,
          '    (amt_msat: amount of the HTLC; onion_amt_msat: amt_to_forward; allow_underpay: the channel\'s accept_underpaying_htlcs) -/',
          'def recvAmountTooLow (allow_underpay : Bool) (onion_amt_msat amt_msat : Nat) (counterparty_skimmed_fee_msat : Option Nat) : Bool :=',
          '  ' + lean_, '']

    # ---- create_recv_pending_htlc_info: which routing a final HTLC gets (keysend / invoice / refused), and the amounts it hands on ----
    _, _, body = find_fn(op, 'create_recv_pending_htlc_info')
    b = norm(strip_comments(body))
    i0 = b.find('let routing = ')
    if i0 < 0: raise TranslateError("create_recv_pending_htlc_info: `let routing = ..` not found")
    if b.find('FinalIncorrectHTLCAmount') > i0 or b.find('PaymentClaimBuffer') > i0:
        raise TranslateError("create_recv_pending_htlc_info: the routing selection no longer follows the final CLTV / amount tests")
    t = b[i0 + len('let routing = '):]
    arms = []   # (binder pattern, scrutinee) or None for the final else; block text
    while True:
        mh = re.match(r'if let Some\((\w+)\) = (\w+) \{', t)
        if mh:
            j = match_brace(t, mh.end() - 1)
            arms.append(((mh.group(1), mh.group(2)), t[mh.end():j - 1].strip()))
            t = t[j:].lstrip()
            if not t.startswith('else '): raise TranslateError("create_recv_pending_htlc_info: routing selection without a final else")
            t = t[5:]
            continue
        if t.startswith('{'):
            j = match_brace(t, 0)
            arms.append((None, t[1:j - 1].strip())); t = t[j:].lstrip()
            break
        raise TranslateError("create_recv_pending_htlc_info: routing selection is no longer an `if let Some(..) = .. {} else ..` chain: %r" % t[:60])
    if not t.startswith(';'): raise TranslateError("create_recv_pending_htlc_info: routing selection not closed by `;`")
    if [a_[0] and a_[0][1] for a_ in arms] != ['keysend_preimage', 'payment_data', None]:
        raise TranslateError("create_recv_pending_htlc_info: routing selection no longer tests keysend_preimage, then payment_data: %s" % [a_[0] for a_ in arms])
    ERR_RE = r'return Err\(InboundHTLCErr \{ reason: LocalHTLCFailureReason::(\w+), err_data: [^;]*?, msg: "[^"]*",? \}\);?'
    def arm_result(txt, what):
        m_ = re.fullmatch(ERR_RE, txt)
        if m_: return '.refused .%s' % lcv(m_.group(1))
        m_ = re.fullmatch(r'PendingHTLCRouting::(\w+) \{[^{}]*\}', txt)
        if m_ and m_.group(1) in ('ReceiveKeysend', 'Receive'): return '.keysend' if m_.group(1) == 'ReceiveKeysend' else '.invoice'
        raise TranslateError("create_recv_pending_htlc_info: %s arm of the routing selection not recognised: %r" % (what, txt[:80]))
    lcv = lambda n: n[0].lower() + n[1:]
    # keysend arm: `let hashed_preimage = PaymentHash(Sha256::hash(&<binder>.0).to_byte_array()); if <C> { return Err(..) } <routing>`
    kb = arms[0][0][0]
    mk = re.fullmatch(r'let hashed_preimage = PaymentHash\(Sha256::hash\(&%s\.0\)\.to_byte_array\(\)\); if ([^{}]+?) \{ (%s) \} (PendingHTLCRouting::\w+ \{[^{}]*\})' % (kb, ERR_RE), arms[0][1])
    if not mk: raise TranslateError("create_recv_pending_htlc_info: keysend arm is no longer `let hashed_preimage = sha256(preimage); if <test> { return Err } ReceiveKeysend {..}`: %r" % arms[0][1][:120])
    kcond = mk.group(1)
    check_vars(kcond, {'hashed_preimage', 'payment_hash'}, 'keysend preimage test')
    k_err = arm_result(mk.group(2), 'keysend error'); k_ok = arm_result(mk.groups()[-1], 'keysend')
    if not re.search(r'\bpayment_preimage\b', mk.groups()[-1]) or kb != 'payment_preimage': raise TranslateError("ReceiveKeysend no longer carries the tested preimage")
    inv = arm_result(arms[1][1], 'payment_data'); els = arm_result(arms[2][1], 'else')
    if not re.search(r'payment_data: %s\b' % arms[1][0][0], arms[1][1]): raise TranslateError("Receive no longer carries the payment_data that was tested")
    L += ['/-- what create_recv_pending_htlc_info does with a final-hop HTLC that passed the CLTV / amount tests -/',
          'inductive RecvRouting where', '  | keysend | invoice | refused (reason : FailReason)', '  deriving DecidableEq, Repr', '',
          '/-- the keysend test (translated): `if %s { return Err(..) }` (hashed_preimage = SHA-256 of the onion\'s keysend preimage) -/' % kcond,
          'def keysendPreimageMismatch (hashed_preimage payment_hash : Nat) : Bool :=', '  ' + Emitter(narrow=lambda t: False).e(parse_expr(kcond)), '',
          '/-- onion_payment.rs::create_recv_pending_htlc_info, `let routing = if let Some(payment_preimage) = keysend_preimage { .. } else if let Some(data) = payment_data { .. } else { .. }`',
          '    (arms in source order, results read from the text; keysend_preimage: code of the preimage, sha256: the hash as a function on codes) -/',
          'def recvRouting (sha256 : Nat → Nat) (keysend_preimage : Option Nat) (payment_data : Bool) (payment_hash : Nat) : RecvRouting :=',
          '  match keysend_preimage with',
          '  | some payment_preimage =>',
          '    let hashed_preimage := sha256 payment_preimage',
          '    if keysendPreimageMismatch hashed_preimage payment_hash then %s else %s' % (k_err, k_ok),
          '  | none => if payment_data then %s else %s' % (inv, els), '']
    # the PendingHTLCInfo it returns: which amount goes where (process_receive_htlcs builds the part from these, see recvValue / recvPart)
    mi_ = re.match(r' Ok\(PendingHTLCInfo (\{[^{}]*\})\) \}$', t[1:])
    if not mi_: raise TranslateError("create_recv_pending_htlc_info: the final `Ok(PendingHTLCInfo { .. })` changed: %r" % t[:80])
    info = dict(lit_ for lit_ in parse_expr('PendingHTLCInfo ' + mi_.group(1))[2])
    for n_ in ('incoming_amt_msat', 'outgoing_amt_msat', 'skimmed_fee_msat'):
        if n_ not in info: raise TranslateError("PendingHTLCInfo.%s missing" % n_)
    for n_ in ('incoming_amt_msat', 'outgoing_amt_msat', 'skimmed_fee_msat'):
        check_vars(re.search(r'\b%s(?:: ([^,}]+))?[,}]' % n_, mi_.group(1)).group(1) or n_, {'amt_msat', 'onion_amt_msat', 'counterparty_skimmed_fee_msat'}, 'PendingHTLCInfo.%s' % n_)
    L += ['/-- the amounts of the `PendingHTLCInfo` create_recv_pending_htlc_info returns: (incoming_amt_msat, outgoing_amt_msat, skimmed_fee_msat) -/',
          'def recvInfoAmounts (amt_msat onion_amt_msat : Nat) (counterparty_skimmed_fee_msat : Option Nat) : Option Nat × Nat × Option Nat :=',
          '  (%s, %s, %s)' % tuple(emitter().e(info[n_]) for n_ in ('incoming_amt_msat', 'outgoing_amt_msat', 'skimmed_fee_msat')), '']

    # ---- process_receive_htlcs: the min_final_cltv_expiry_delta test after inbound_payment::verify -----------------------
    # `if let Some(min_final_cltv_expiry_delta) = min_final_cltv_expiry_delta { let expected_min_expiry_height = <E>; if <C> { log; fail_htlc!(..); } }`
    _, _, body = find_fn(cm, 'process_receive_htlcs')
    pb = strip_comments(body)
    mv = re.search(r'let \(payment_preimage, min_final_cltv_expiry_delta\) = match verify_res \{\s*Ok\(result\) => result,\s*Err\(\(\)\) => \{\s*(?:log_trace!\([^;]*\);\s*)?fail_htlc!\(payment_hash\);\s*\},?\s*\};', pb)
    if not mv: raise TranslateError("process_receive_htlcs: `let (payment_preimage, min_final_cltv_expiry_delta) = match verify_res { Ok(result) => result, Err(()) => { fail_htlc! } }` changed")
    mc_ = re.match(r'\s*if let Some\(min_final_cltv_expiry_delta\) = min_final_cltv_expiry_delta\s*\{', pb[mv.end():])
    if not mc_: raise TranslateError("process_receive_htlcs: the min_final_cltv_expiry_delta test no longer follows inbound_payment::verify directly")
    k0 = mv.end() + mc_.end() - 1
    inner = pb[k0 + 1:match_brace(pb, k0) - 1]
    if not re.match(r'\s*payment_preimage\s*\}', pb[match_brace(pb, k0):]): raise TranslateError("process_receive_htlcs: statements appeared between the min_final_cltv test and `payment_preimage`")
    inner = re.sub(r'log_trace!\((?:[^()]|\([^()]*\))*\);', '', inner)
    inner = inner.replace('fail_htlc!(payment_hash);', 'return RECV_CLTV_BELOW_MIN__;')
    if inner.count('RECV_CLTV_BELOW_MIN__') < 1 or '!' in inner.replace('!=', ''): raise TranslateError("process_receive_htlcs: min_final_cltv test no longer ends in fail_htlc!(payment_hash): %r" % norm(inner)[:200])
    # the receiver's height as this function reads it
    hsrc = [h_ for h_ in ('self.current_best_block().height', 'self.best_block.read().unwrap().height') if h_ in inner]
    inner2 = inner
    for h_ in hsrc: inner2 = inner2.replace(h_, 'height')
    check_vars(inner2.replace('RECV_CLTV_BELOW_MIN__', 'true'), {'height', 'min_final_cltv_expiry_delta', 'cltv_expiry'}, 'process_receive_htlcs min_final_cltv test')
    if not re.search(r'PendingHTLCRouting::Receive \{[^}]*\bincoming_cltv_expiry\b', pb) or not re.search(r'=> \{(?:(?!=> \{).)*?\(\s*incoming_cltv_expiry,\s*OnionPayload::Invoice', pb, re.S):
        raise TranslateError("process_receive_htlcs: cltv_expiry of a Receive is no longer the HTLC's incoming_cltv_expiry")
    def cltv_low(t):
        t = t.strip()
        if not t: return 'false'
        if re.match(r'return RECV_CLTV_BELOW_MIN__;', t): return 'true'
        ml = re.match(r'let\s+(\w+)(?:\s*:\s*\w+)?\s*=\s*([^;{}]+);', t)
        if ml: return '(let %s := %s;\n  %s)' % (ml.group(1), emitter().e(parse_expr(ml.group(2))), cltv_low(t[ml.end():]))
        if re.match(r'if\b', t):
            chain_, rest_ = if_chain(t, 'process_receive_htlcs min_final_cltv statement')
            out_ = 'false'
            for c_, blk in reversed(chain_):
                out_ = cltv_low(blk) if c_ is None else '(if %s then %s else\n  %s)' % (emitter().e(parse_expr(c_)), cltv_low(blk), out_)
            return out_ if not rest_.strip() else '(%s || %s)' % (out_, cltv_low(rest_))
        raise TranslateError("process_receive_htlcs: statement of the min_final_cltv test outside the subset: %r" % t[:60])
    L += ['/-- channelmanager.rs::process_receive_htlcs, after inbound_payment::verify returned Some(min_final_cltv_expiry_delta):',
          '    `%s` (true = the new HTLC is failed back with IncorrectPaymentDetails; height: the receiver\'s best block height; u32/u64 casts are widenings) -/' % norm(inner.replace('return RECV_CLTV_BELOW_MIN__;', 'fail_htlc!(payment_hash);')),
          'def recvCltvBelowMin (height min_final_cltv_expiry_delta cltv_expiry : Nat) : Bool :=',
          '  ' + cltv_low(inner2), '']

    # ---- the ORDER of the deciding statements on the path decoded onion -> claimable_payments --------------------------
    # create_recv_pending_htlc_info (tests, then the routing selection, then Ok(PendingHTLCInfo)), then process_receive_htlcs
    # (verify under has_recipient_created_payment_secret, the min_final_cltv test, then handle_claimable_htlc).  The stage list
    # is emitted in TEXT order; Model.runStages interprets it and recv_tests_precede_accumulator (Props/C04) needs the
    # accumulator to come last.
    _, _, body = find_fn(op, 'create_recv_pending_htlc_info')
    cb_ = strip_comments(body)
    def pos1(txt, needle, what):
        i_ = txt.find(needle)
        if i_ < 0: raise TranslateError("%s: `%s` not found" % (what, needle))
        return i_
    st1 = [(pos1(cb_, 'LocalHTLCFailureReason::FinalIncorrectCLTVExpiry', 'create_recv_pending_htlc_info'), 'finalCltv'),
           (pos1(cb_, 'LocalHTLCFailureReason::PaymentClaimBuffer', 'create_recv_pending_htlc_info'), 'expirySoon'),
           (pos1(cb_, 'LocalHTLCFailureReason::FinalIncorrectHTLCAmount', 'create_recv_pending_htlc_info'), 'amount'),
           (pos1(cb_, 'let routing =', 'create_recv_pending_htlc_info'), 'routing')]
    okpos = pos1(cb_, 'Ok(PendingHTLCInfo', 'create_recv_pending_htlc_info')
    if any(p_ > okpos for p_, _ in st1): raise TranslateError("create_recv_pending_htlc_info: a final-hop test follows `Ok(PendingHTLCInfo ..)`")
    if not re.search(r'cltv_expiry_height, payment_metadata, None, false, keysend_preimage\.is_none\(\), None, None\)', norm(cb_)):
        raise TranslateError("create_recv_pending_htlc_info: has_recipient_created_payment_secret of a plain Receive is no longer keysend_preimage.is_none()")
    _, _, body = find_fn(cm, 'process_receive_htlcs')
    pb_ = strip_comments(body)
    if not re.search(r'let payment_preimage = if has_recipient_created_payment_secret \{\s*if let Some\(ref payment_data\) = payment_data \{\s*let verify_res = inbound_payment::verify\(', pb_):
        raise TranslateError("process_receive_htlcs: inbound_payment::verify is no longer run under `if has_recipient_created_payment_secret { if let Some(ref payment_data) = payment_data {`")
    st2 = [(pos1(pb_, 'inbound_payment::verify(', 'process_receive_htlcs'), 'verifySecret'),
           (pos1(pb_, 'if let Some(min_final_cltv_expiry_delta) = min_final_cltv_expiry_delta', 'process_receive_htlcs'), 'minCltv')]
    hc = [m_.start() for m_ in re.finditer(r'self\.handle_claimable_htlc\(', pb_)]
    if len(hc) != 2: raise TranslateError("process_receive_htlcs: expected 2 calls of handle_claimable_htlc, found %d" % len(hc))
    # both calls (Invoice arm, Spontaneous arm) are alternatives of one `match`: one accumulator stage at the position of the first
    mm_ = pos1(pb_, 'match claimable_htlc.onion_payload', 'process_receive_htlcs')
    if not (mm_ < hc[0]): raise TranslateError("process_receive_htlcs: handle_claimable_htlc is no longer called inside `match claimable_htlc.onion_payload`")
    st2.append((hc[0], 'accumulator'))
    if re.search(r'claimable_payments\s*\.\s*(lock|claimable_payments)', pb_[:hc[0]]) and 'claimable_payments.lock()' in pb_[:min(p_ for p_, _ in st2)]:
        raise TranslateError("process_receive_htlcs touches claimable_payments in front of the receive tests")
    order = [n_ for _, n_ in sorted(st1)] + [n_ for _, n_ in sorted(st2)]
    L += ['/-- the deciding statements between the decoded onion of a final-hop HTLC and the claimable_payments map -/',
          'inductive RecvStage where', '  | finalCltv | expirySoon | amount | routing | verifySecret | minCltv | accumulator', '  deriving DecidableEq, Repr', '',
          '/-- their order in the Rust text: create_recv_pending_htlc_info (up to `Ok(PendingHTLCInfo ..)`), then process_receive_htlcs -/',
          'def recvStages : List RecvStage := [%s]' % ', '.join('.' + n_ for n_ in order), '']

    # ---- blinded receive: the payment_constraints test of create_recv_pending_htlc_info's BlindedReceive arm -----------------
    _, _, cbody_ = find_fn(op, 'check_blinded_payment_constraints')
    mcb = re.fullmatch(r'\{ if (.+?) \{ return Err\(\(\)\) \} Ok\(\(\)\) \}', norm(strip_comments(cbody_)))
    if not mcb: raise TranslateError("check_blinded_payment_constraints: shape changed")
    ccond = mcb.group(1)
    check_vars(ccond.replace('constraints.', ''), {'amt_msat', 'cltv_expiry', 'htlc_minimum_msat', 'max_cltv_expiry'}, 'check_blinded_payment_constraints')
    emc = Emitter(fields={'constraints.htlc_minimum_msat': 'htlc_minimum_msat', 'constraints.max_cltv_expiry': 'max_cltv_expiry'}, narrow=lambda t: False)
    _, _, body = find_fn(op, 'create_recv_pending_htlc_info')
    cb_ = strip_comments(body)
    ib = cb_.find('onion_utils::Hop::BlindedReceive {')
    if ib < 0: raise TranslateError("create_recv_pending_htlc_info: BlindedReceive arm not found")
    ka = cb_.index('=> {', ib) + 3
    barm = norm(cb_[ka:match_brace(cb_, ka)])
    mca = re.match(r'\{ check_blinded_payment_constraints\( (\w+), (\w+), &payment_constraints,? ?\) \.map_err\(\|\(\)\| \{ InboundHTLCErr \{ reason: LocalHTLCFailureReason::(\w+),', barm)
    if not mca: raise TranslateError("create_recv_pending_htlc_info: BlindedReceive arm no longer starts with check_blinded_payment_constraints(..).map_err(..): %r" % barm[:120])
    if not re.search(r'\}\)\?; let payment_data = msgs::FinalOnionHopData \{ payment_secret, total_msat \};', barm): raise TranslateError("BlindedReceive: the constraints test no longer returns (`?`) before payment_data is built")
    barg = (mca.group(1), mca.group(2))
    for a_ in barg:
        if a_ not in ('sender_intended_htlc_amt_msat', 'amt_msat', 'cltv_expiry', 'cltv_expiry_height'): raise TranslateError("BlindedReceive: check_blinded_payment_constraints called with `%s`" % a_)
    if not re.search(r'\(Some\(payment_data\), keysend_preimage, custom_tlvs, sender_intended_htlc_amt_msat, cltv_expiry_height, None, Some\(payment_context\), intro_node_blinding_point\.is_none\(\), true, invoice_request, None\) \}$', barm):
        raise TranslateError("BlindedReceive: the tuple handed to the common tests changed")
    L += ['/-- onion_payment.rs::check_blinded_payment_constraints (translated): `if %s { return Err(()) }` -/' % ccond,
          'def blindedConstraintsViolated (amt_msat cltv_expiry htlc_minimum_msat max_cltv_expiry : Nat) : Bool :=', '  ' + emc.e(parse_expr(ccond)), '',
          '/-- the BlindedReceive arm of create_recv_pending_htlc_info: `check_blinded_payment_constraints(%s, %s, &payment_constraints)` failing' % barg,
          '    means `%s` (amt_msat / cltv_expiry: of the HTLC; sender_intended_htlc_amt_msat / cltv_expiry_height: of the onion) -/' % mca.group(3),
          'def blindedReceiveRefuses (sender_intended_htlc_amt_msat amt_msat cltv_expiry cltv_expiry_height htlc_minimum_msat max_cltv_expiry : Nat) : Bool :=',
          '  blindedConstraintsViolated %s %s htlc_minimum_msat max_cltv_expiry' % barg, '',
          'def reasonBlindedReceive : FailReason := .%s' % (mca.group(3)[0].lower() + mca.group(3)[1:]), '']

    # ---- reload: what `impl Readable for (ClaimableHTLC, u64)` reads back of what `impl Writeable for ClaimableHTLC` wrote --------
    iw = cm.find('fn write_claimable_htlc<')
    ir = cm.find('impl Readable for (ClaimableHTLC, u64)')
    if iw < 0 or ir < 0: raise TranslateError("write_claimable_htlc / impl Readable for (ClaimableHTLC, u64) not found")
    wtxt = norm(strip_comments(cm[iw:ir])); rtxt = strip_comments(cm[ir:match_brace(cm, cm.index('{', ir))])
    wmap = dict((int(n_), f_) for n_, f_ in re.findall(r'\((\d+), htlc\.(?:mpp_part\.)?(\w+), (?:required|option)\)', wtxt))
    rmap = dict((v_, (int(n_), k_)) for n_, v_, k_ in re.findall(r'\((\d+), (\w+), (required|option)\)', norm(rtxt)))
    wreq = dict((int(n_), k_) for n_, k_ in re.findall(r'\((\d+), htlc\.(?:mpp_part\.)?\w+, (required|option)\)', wtxt))
    kl = rtxt.find('Ok((ClaimableHTLC {')
    if kl < 0: raise TranslateError("Readable for ClaimableHTLC: `Ok((ClaimableHTLC {` not found")
    kb_ = rtxt.index('{', kl)
    lit_txt = rtxt[kb_:match_brace(rtxt, kb_)]
    for raw_ in ('prev_hop: prev_hop.0.unwrap(),',): lit_txt = lit_txt.replace(raw_, '')
    lit_txt = re.sub(r'onion_payload,', '', lit_txt).replace('.0.unwrap()', '')
    rl = parse_expr('ClaimableHTLC ' + lit_txt)
    outer_ = dict(rl[2]); inner_ = dict(outer_['mpp_part'][2])
    if not re.search(r'let value = value_ser\.0\.unwrap\(\);', rtxt): raise TranslateError("Readable for ClaimableHTLC: `let value = value_ser.0.unwrap();` changed")
    lets_r = []
    for v_, (n_, k_) in sorted(rmap.items(), key=lambda kv: kv[1][0]):
        if n_ not in wmap or wmap[n_] not in PART_FIELDS: continue
        src_ = 'w.' + wmap[n_]
        if k_ == 'option' and wreq.get(n_) == 'required': src_ = '(some %s)' % src_
        lets_r.append('  let %s := %s' % (v_, src_))
    emr = emitter()
    fl_ = [(n_, emr.e(inner_[n_])) for n_ in ('value', 'sender_intended_value', 'timer_ticks', 'total_value_received', 'cltv_expiry')]
    fl_.append(('counterparty_skimmed_fee_msat', emr.e(outer_['counterparty_skimmed_fee_msat'])))
    L += ['/-- what a part is after the ChannelManager was written and read back: TLV numbers paired between `write_claimable_htlc`',
          '    and `impl Readable for (ClaimableHTLC, u64)`, the field expressions of the read side translated (`w`: the part as written) -/',
          'def reloadPart (w : PartG) : PartG :='] + lets_r + ['  let value := value_ser',
          '  { ' + ', '.join('%s := %s' % f_ for f_ in fl_) + ' }', '']

    # ---- the fail-back sites of the accumulator: WHICH HTLCs are failed, with WHICH LocalHTLCFailureReason ---------
    lcv = lambda n: n[0].lower() + n[1:]
    mi = re.search(r'impl Into<LocalHTLCFailureReason> for FailureCode\s*\{', cm)
    if not mi: raise TranslateError("impl Into<LocalHTLCFailureReason> for FailureCode not found")
    ib = norm(strip_comments(cm[mi.end() - 1:match_brace(cm, mi.end() - 1)]))
    code_map = dict((a, r_) for a, r_ in re.findall(r'FailureCode::(\w+)(?:\(_\))? => \{? ?LocalHTLCFailureReason::(\w+)', ib))
    def via_code(c):
        if c not in code_map: raise TranslateError("FailureCode::%s has no LocalHTLCFailureReason mapping" % c)
        return code_map[c]
    sites = []
    # (1) a part refused by handle_claimable_htlc: the fail_htlc! macro of process_receive_htlcs
    _, _, body = find_fn(cm, 'process_receive_htlcs')
    pb = strip_comments(body)
    mm = re.search(r'macro_rules! fail_htlc \{.*?HTLCFailReason::reason\(\s*LocalHTLCFailureReason::(\w+),\s*err_data,?\s*\)', pb, re.S)
    if not mm: raise TranslateError("process_receive_htlcs: fail_htlc! macro changed")
    if len(re.findall(r'if let Err\(\(\)\) = self\.handle_claimable_htlc\([^;{}]*\)\s*\{\s*fail_htlc!\(payment_hash\);\s*\}', pb)) != 2:
        raise TranslateError("process_receive_htlcs: `if let Err(()) = self.handle_claimable_htlc(..) { fail_htlc!(..) }` no longer in both purpose arms")
    sites.append(('reasonPartRefused', mm.group(1), 'process_receive_htlcs fail_htlc! (handle_claimable_htlc returned Err: only the NEW HTLC is failed)'))
    # (2) MPP timeout: timer_tick_occurred fails EVERY HTLC of a timed-out entry and drops the entry
    _, _, body = find_fn(cm, 'timer_tick_occurred')
    tb = norm(strip_comments(body))
    mt = re.search(r'self\.claimable_payments\.lock\(\)\.unwrap\(\)\.claimable_payments\.retain\( \|payment_hash, payment\| \{ if payment\.htlcs\.is_empty\(\) \{ debug_assert!\(false\); return false; \} '
                   r'let mpp_timeout = check_mpp_timeout\( payment\.htlcs\.iter_mut\(\)\.map\(\|htlc\| &mut htlc\.mpp_part\), &payment\.onion_fields, \); '
                   r'if mpp_timeout \{ timed_out_mpp_htlcs\.extend\(payment\.htlcs\.drain\(\.\.\)\.map\(\|h\| \{.*?\}\)\); \} return !mpp_timeout; \}, \);', tb)
    if not mt: raise TranslateError("timer_tick_occurred: the claimable_payments MPP-timeout retain changed")
    mt2 = re.search(r'for \(htlc_source, payment_hash, failure_type\) in timed_out_mpp_htlcs\.drain\(\.\.\) \{ let failure_reason = LocalHTLCFailureReason::(\w+); let reason = HTLCFailReason::from_failure_code\(failure_reason\);', tb)
    if not mt2: raise TranslateError("timer_tick_occurred: failure reason of timed-out MPP HTLCs not found")
    sites.append(('reasonMppTimeout', mt2.group(1), 'timer_tick_occurred (check_mpp_timeout returned true: ALL HTLCs of the entry are drained and failed, the entry is removed)'))
    # (3) on-chain timeout: do_chain_event fails each HTLC whose own check_onchain_timeout(height) holds, keeps the others
    mo = re.search(r'payment\.htlcs\.retain\(\|htlc\| \{ let htlc_timed_out = htlc\.mpp_part\.check_onchain_timeout\(height\); if htlc_timed_out \{ let reason = LocalHTLCFailureReason::(\w+); '
                   r'timed_out_htlcs\.push\(\(.*?\)\); \} !htlc_timed_out \}\); !payment\.htlcs\.is_empty\(\)', norm(strip_comments(cm[cm.find('fn do_chain_event'):])))
    if not mo: raise TranslateError("do_chain_event: the claimable_payments on-chain-timeout retain changed")
    sites.append(('reasonOnchainTimeout', mo.group(1), 'do_chain_event (each HTLC with check_onchain_timeout(height) is failed, the others stay; an emptied entry is removed)'))
    # (4) claim_funds: unknown even TLVs -> every HTLC failed with FailureCode::InvalidOnionPayload(None); (5) !valid_mpp -> every HTLC failed
    _, _, body = find_fn(cm, 'claim_payment_internal')
    cb2 = norm(strip_comments(body))
    mc = re.search(r'Err\(htlcs\) => \{ for htlc in htlcs \{ let reason = self\.get_htlc_fail_reason_from_failure_code\( FailureCode::(\w+)(?:\(None\))?, &htlc, \);', cb2)
    if not mc: raise TranslateError("claim_payment_internal: the Err(htlcs) arm (unknown even TLVs) changed")
    sites.append(('reasonUnknownEvenTlv', via_code(mc.group(1)), 'claim_payment_internal, begin_claiming_payment returned Err(htlcs): FailureCode::%s' % mc.group(1)))
    mc2 = re.search(r'\} else \{ for htlc in sources \{ let err_data = .*?let reason = HTLCFailReason::reason\( LocalHTLCFailureReason::(\w+), err_data, \);', cb2)
    if not mc2: raise TranslateError("claim_payment_internal: the !valid_mpp arm changed")
    sites.append(('reasonClaimInvalidMpp', mc2.group(1), 'claim_payment_internal, valid_mpp = false: every remaining HTLC is failed'))
    # (6) fail_htlc_backwards
    _, _, body = find_fn(cm, 'fail_htlc_backwards')
    mf = re.fullmatch(r'\{ let failure_code = FailureCode::(\w+); self\.fail_htlc_backwards_with_reason\(payment_hash, failure_code\); \}', norm(strip_comments(body)))
    if not mf: raise TranslateError("fail_htlc_backwards changed")
    _, _, body = find_fn(cm, 'fail_htlc_backwards_with_reason')
    if not re.search(r'claimable_payments\.remove\(payment_hash\); if let Some\(payment\) = removed_source \{ for htlc in payment\.htlcs \{ let reason = self\.get_htlc_fail_reason_from_failure_code\(failure_code, &htlc\);', norm(strip_comments(body))):
        raise TranslateError("fail_htlc_backwards_with_reason changed")
    sites.append(('reasonFailBack', via_code(mf.group(1)), 'fail_htlc_backwards = fail_htlc_backwards_with_reason(FailureCode::%s): every HTLC of the removed entry' % mf.group(1)))
    for nm, var, doc in sites:
        L += ['/-- %s: `LocalHTLCFailureReason::%s` -/' % (doc, var), 'def %s : FailReason := .%s' % (nm, lcv(var)), '']

    L.append('end Ldk.MppGen')
    text = '\n'.join(L) + '\n'
    old = open(out_path).read() if os.path.exists(out_path) else None
    if old != text:
        open(out_path, 'w').write(text)

if __name__ == '__main__':
    try:
        main(sys.argv[1] if len(sys.argv) > 1 else os.path.join(os.path.dirname(__file__), '..', 'lean', 'LdkModel', 'Generated', 'InboundMpp.lean'))
    except TranslateError as ex:
        print("TRANSLATE-ERROR gen_inbound: %s" % ex)
        sys.exit(2)
    except (ValueError, IndexError, KeyError) as ex:
        print("TRANSLATE-ERROR gen_inbound: source shape changed (%s: %s)" % (type(ex).__name__, ex))
        sys.exit(2)
