#!/usr/bin/env python3
"""Regenerate lean/LdkModel/Generated/TlvSchemas.lean + TlvFieldPairs.lean (+ tlv_schemas.json / .txt) from /repo's current Rust sources.

Every TLV block of the persisted-object serialization code is extracted as a list of
(type number, kind class):

  * `impl_ser_tlv_based!(Name, { (type, field, kind), … })`, `impl_writeable_tlv_based!(Ty, self, { … })`
  * every struct variant `(id, Variant) => { … }` of `impl_ser_tlv_based_enum!`, `impl_ser_tlv_based_enum_legacy!`,
    `impl_writeable_tlv_based_enum_upgradable!`, `impl_writeable_tlv_based_enum_upgradable_legacy!`
    (plus the list of variant ids of the enum, struct and tuple variants)
  * every hand-written block `write_tlv_fields!` / `read_tlv_fields!` / `_init_and_read_len_prefixed_tlv_fields!`
    / `encode_tlv_stream!` / `decode_tlv_stream!` / `_init_and_read_tlv_stream!` /
    `_encode_varint_length_prefixed_tlv!` / `decode_tlv_stream_with_custom_tlv_decode!`, identified by
    enclosing `impl … for Type` + `fn` + direction + ordinal (`Type.fn.w0`, `Type.fn.r1`)

in ALL non-test source files under lightning/src (ser_macros.rs itself, which only defines the macros,
is excluded).  Only type numbers and kinds are extracted, not field types.  Kind classes
(Model/TlvFrame.lean `FrameKind`):

  required   required | (required: T, a) | (required, explicit_type: T) | required_vec |
             (required_vec, encoding: …) | upgradable_required      -- missing ⇒ InvalidValue
  optional   option | (option, explicit_type: T) | (option: T, a) | (option, encoding: …) | optional_vec |
             upgradable_option                                       -- may be absent
  default    (default_value, e) | (default_value_vec, e)             -- absent ⇒ default
  custom     (custom, T, read, write)                                -- absent ⇒ `$read(None)` (may fail)
  legacy     (legacy, T, read, write)                                -- optional; `$read(opt)` runs at the end (may fail)
  (static_value, e) entries are not part of the stream (`_decode_tlv_stream_match_check!` is `false`,
  nothing is written) and are dropped.

Hand-written write/read blocks of the same `impl … for Type` are paired (k-th write block with k-th
read block of the type; explicit overrides in PAIRS) and emitted as `tlvPairs` — Props/C12 proves that
every type a writer emits is known to the paired reader.

FIELD-LEVEL pairing (lean/LdkModel/Generated/TlvFieldPairs.lean): for every resolved pair and every TLV type present on
both sides, the struct field the writer takes the value from and the struct field the reader restores from the record of
that type (see the comment above `writer_paths`), as `tlvFieldRows`; per write block the field paths it writes
(`tlvWriterFields`); the constructor fields a paired reader initialises with a constant (`tlvReaderConstFields`).
Props/C12 proves `writer_reader_fields_agree`, `field_exceptions_exact`, `no_field_written_twice`,
`reader_constant_fields_exact` over them.  Shape changes — a reader binding something that is not an identifier, a pair
whose blocks have no analysable enclosing fn, fewer than 300 rows or fewer than half of them resolved to struct fields
on both sides — are a TRANSLATE-ERROR.

ENUM BYTE CODECS + positional names (lean/LdkModel/Generated/EnumCodecs.lean): the hand-written `match` pairs variant ->
byte / byte -> variant (`enumCodecs`, see `extract_enum_codecs`; a core codec whose match changes shape is a
TRANSLATE-ERROR) and the common subsequence of positional written field names / read variable names of the three big
serializers (`positionalCommon`).

Exit 2 with `TRANSLATE-ERROR …` when an invocation cannot be parsed.  Invocations that are deliberately
not extracted are listed in SKIP with the reason (and emitted in the json as "skipped").
"""
import re, sys, os, json

REPO = os.environ.get('VERIF_REPO', '/repo')
SRC_ROOT = 'lightning/src'
EXCLUDE_FILES = {
    'lightning/src/util/ser_macros.rs': 'defines the macros (and their unit tests)',
}
# file-name patterns of test-only sources
TEST_FILE = re.compile(r'(_tests?\.rs$|/functional_test_utils\.rs$|/test_utils\.rs$|/tests?/|fuzz)')

STRUCT_MACROS = {'impl_ser_tlv_based': 'both', 'impl_writeable_tlv_based': 'write'}
ENUM_MACROS = {'impl_ser_tlv_based_enum', 'impl_ser_tlv_based_enum_legacy',
               'impl_writeable_tlv_based_enum_upgradable', 'impl_writeable_tlv_based_enum_upgradable_legacy'}
BLOCK_MACROS = {
    'write_tlv_fields': 'write', 'encode_tlv_stream': 'write', '_encode_varint_length_prefixed_tlv': 'write',
    '_encode_tlv_stream': 'write',
    'read_tlv_fields': 'read', '_init_and_read_len_prefixed_tlv_fields': 'read', 'decode_tlv_stream': 'read',
    '_init_and_read_tlv_stream': 'read', 'decode_tlv_stream_with_custom_tlv_decode': 'read',
}
# length-prefixed (BigSize length, then the stream) vs bare stream to the end of the reader
LEN_PREFIXED = {'impl_ser_tlv_based', 'impl_writeable_tlv_based', 'write_tlv_fields', '_encode_varint_length_prefixed_tlv',
                'read_tlv_fields', '_init_and_read_len_prefixed_tlv_fields'} | ENUM_MACROS
ALL_MACROS = set(STRUCT_MACROS) | ENUM_MACROS | set(BLOCK_MACROS)

# (file, enclosing, macro) -> reason; invocations that are not extracted
SKIP = {
}

# TLV entries whose type number is computed at run time (entry omitted from the block, block flagged `dynamic`)
DYNAMIC_TYPES = {
    'message.tlv_type()': 'onion message content: the type is chosen by the OnionMessageContents impl',
}

# explicit write-block -> read-block pairing overrides (names as generated); None = deliberately unpaired
PAIRS = {
    'write_chanmon_internal.w0': 'ChannelMonitor.read.r0',
    'ChannelManager.write.w0': 'ChannelManagerData.read.r0',
    'PendingFundingWriteable.write.w0': 'PendingFunding.read.r0',
    'write_claimable_htlc.w0': 'ClaimableHTLC.read.r0',
    'write_legacy_holder_commitment_data.w0': 'HolderSignedTx',   # "Matches the serialization of `HolderSignedTx`"
}

# the writer's `self` is a wrapper around the persisted struct: this prefix of its field paths is dropped
WRITER_PREFIX = {
    'PendingFundingWriteable.write.w0': 'pending_funding.',   # PendingFundingWriteable { pending_funding: &PendingFunding, .. }
}

KIND_HEAD = {
    'required': 'required', 'required_vec': 'required', 'upgradable_required': 'required',
    'option': 'optional', 'optional_vec': 'optional', 'upgradable_option': 'optional',
    'default_value': 'default', 'default_value_vec': 'default',
    'custom': 'custom', 'legacy': 'legacy', 'static_value': 'static',
}


class TranslateError(Exception):
    pass


def clean(src):
    """comments and string/char literal contents replaced by spaces (same length, newlines kept)"""
    out = list(src)
    n = len(src)
    i = 0

    def blank(a, b):
        for k in range(a, b):
            if out[k] != '\n':
                out[k] = ' '
    while i < n:
        c = src[i]
        if c == '/' and src.startswith('//', i):
            j = src.find('\n', i)
            j = n if j < 0 else j
            blank(i, j)
            i = j
        elif c == '/' and src.startswith('/*', i):
            d, j = 1, i + 2
            while j < n and d > 0:
                if src.startswith('/*', j):
                    d += 1; j += 2
                elif src.startswith('*/', j):
                    d -= 1; j += 2
                else:
                    j += 1
            blank(i, j)
            i = j
        elif c == 'r' and re.match(r'r#*"', src[i:i + 8]) and (i == 0 or not (src[i - 1].isalnum() or src[i - 1] == '_')):
            m = re.match(r'r(#*)"', src[i:i + 8])
            close = '"' + m.group(1)
            j = src.find(close, i + len(m.group(0)))
            if j < 0:
                raise TranslateError('unterminated raw string')
            blank(i + len(m.group(0)), j)
            i = j + len(close)
        elif c == '"':
            j = i + 1
            while j < n and src[j] != '"':
                if src[j] == '\\':
                    j += 1
                j += 1
            blank(i + 1, j)
            i = j + 1
        elif c == "'":
            m = re.match(r"'(\\u\{[0-9a-fA-F]+\}|\\x[0-9a-fA-F]{2}|\\.|[^\\'])'", src[i:i + 14])
            if m:
                blank(i + 1, i + len(m.group(0)) - 1)
                i += len(m.group(0))
            else:
                i += 1   # lifetime
        else:
            i += 1
    return ''.join(out)


def match_close(s, i):
    """s[i] is an opening bracket; index of its partner"""
    pairs = {'(': ')', '{': '}', '[': ']'}
    op = s[i]
    cl = pairs[op]
    d = 0
    for j in range(i, len(s)):
        if s[j] == op:
            d += 1
        elif s[j] == cl:
            d -= 1
            if d == 0:
                return j
    raise TranslateError('unbalanced %s' % op)


def split_top(s, sep=','):
    """split on `sep` outside (), [], {} (angle brackets are NOT tracked: `<`/`>` also occur as operators;
    callers re-join where needed)"""
    parts, d, cur = [], 0, ''
    for c in s:
        if c in '([{':
            d += 1
        elif c in ')]}':
            d -= 1
        if c == sep and d == 0:
            parts.append(cur)
            cur = ''
        else:
            cur += c
    if cur.strip():
        parts.append(cur)
    return [p.strip() for p in parts if p.strip()]


def first_top_comma(s):
    d = 0
    for k, c in enumerate(s):
        if c in '([{':
            d += 1
        elif c in ')]}':
            d -= 1
        elif c == ',' and d == 0:
            return k
    return -1


def last_top_comma(s):
    d, last = 0, -1
    for k, c in enumerate(s):
        if c in '([{':
            d += 1
        elif c in ')]}':
            d -= 1
        elif c == ',' and d == 0:
            last = k
    return last


class Consts:
    def __init__(self):
        self.cache = {}

    def lookup(self, name, srcs):
        if name in self.cache:
            return self.cache[name]
        for s in srcs:
            m = re.search(r'\bconst\s+%s\s*:\s*u(?:8|16|32|64|size)\s*=\s*([0-9_xa-fA-F]+)\s*;' % re.escape(name), s)
            if m:
                v = int(m.group(1).replace('_', ''), 0)
                self.cache[name] = v
                return v
        return None


CONSTS = Consts()


def parse_type_number(t, where, srcs):
    t = t.strip()
    if re.fullmatch(r'[0-9][0-9_]*', t) or re.fullmatch(r'0x[0-9a-fA-F_]+', t):
        return int(t.replace('_', ''), 0)
    m = re.fullmatch(r'([0-9][0-9_]*)\s*(?:as\s+)?u(?:8|16|32|64)', t)
    if m:
        return int(m.group(1).replace('_', ''))
    if t == '_unused':
        return None
    if re.fullmatch(r'[A-Z][A-Z0-9_]*', t):
        v = CONSTS.lookup(t, srcs)
        if v is not None:
            return v
    raise TranslateError('%s: TLV type %r is not a literal / known constant' % (where, t))


def parse_kind(k, where):
    k = ' '.join(k.split())
    if re.fullmatch(r'\w+', k):
        head = k
    elif k.startswith('(') and k.endswith(')'):
        m = re.match(r'\(\s*(\w+)\s*[,:]', k)
        if not m:
            raise TranslateError('%s: cannot parse TLV kind %r' % (where, k))
        head = m.group(1)
    else:
        raise TranslateError('%s: cannot parse TLV kind %r' % (where, k))
    if head not in KIND_HEAD:
        raise TranslateError('%s: unknown TLV kind %r' % (where, k))
    return KIND_HEAD[head], head


def parse_entries(body, where, srcs):
    """body = text between the braces of a `{ (type, field, kind), … }` list"""
    out = []
    for rec in split_top(body):
        if not (rec.startswith('(') and rec.endswith(')')) or match_close(rec, 0) != len(rec) - 1:
            raise TranslateError('%s: TLV entry %r' % (where, rec[:80]))
        inner = rec[1:-1]
        a = first_top_comma(inner)
        b = last_top_comma(inner)
        if a < 0 or b <= a:
            raise TranslateError('%s: TLV entry %r' % (where, rec[:80]))
        typ_s, field, kind_s = inner[:a], inner[a + 1:b], inner[b + 1:]
        # entries of the `$self` form `(type, field, kind, self)` (internal macros)
        if kind_s.strip() == 'self':
            inner2 = inner[:b]
            b2 = last_top_comma(inner2)
            typ_s, field, kind_s = inner2[:a], inner2[a + 1:b2], inner2[b2 + 1:]
        kind, head = parse_kind(kind_s, where)
        if kind == 'static':
            continue   # the type token of a static_value entry is a placeholder (`_unused`, `not_written`, …)
        if ' '.join(typ_s.split()) in DYNAMIC_TYPES:
            out.append({'dynamic': ' '.join(typ_s.split())})
            continue
        typ = parse_type_number(typ_s, where, srcs)
        if typ is None:
            raise TranslateError('%s: `_unused` type on a non-static entry %r' % (where, rec[:80]))
        out.append({'type': typ, 'kind': kind, 'rust_kind': head, 'field': ' '.join(field.split())[:60], 'expr': ' '.join(field.split())})
    return out


def scopes(cl):
    """for every `{` of the cleaned text: (open index, close index, header text)"""
    out = []
    stack = []
    last_break = 0
    for i, c in enumerate(cl):
        if c == '{':
            j, d = i - 1, 0
            while j >= 0:
                ch = cl[j]
                if ch in ')]':
                    d += 1
                elif ch in '([':
                    d -= 1
                elif ch in '{}' or (ch == ';' and d <= 0):
                    break
                j -= 1
            stack.append((i, ' '.join(cl[j + 1:i].split())))
        elif c == '}':
            if not stack:
                raise TranslateError('unbalanced }')
            o, h = stack.pop()
            out.append((o, i, h))
    if stack:
        raise TranslateError('unbalanced {')
    return out


def enclosing(sc, pos):
    """headers of the brace scopes around pos, innermost first"""
    enc = [(o, c, h) for (o, c, h) in sc if o < pos < c]
    enc.sort(key=lambda x: -x[0])
    return enc


def impl_type(header):
    m = re.search(r'\bimpl\b', header)
    if not m:
        return None
    rest = header[m.end():]
    # drop the generic parameter list `<…>` right after impl
    rest = rest.lstrip()
    if rest.startswith('<'):
        d = 0
        for k, c in enumerate(rest):
            if c == '<':
                d += 1
            elif c == '>' and rest[k - 1] != '-':
                d -= 1
                if d == 0:
                    rest = rest[k + 1:]
                    break
    rest = re.split(r'\bwhere\b', rest)[0]
    mm = re.search(r'\bfor\s+(.+)$', rest)
    ty = mm.group(1) if mm else rest
    ty = ty.strip()
    ty = re.sub(r'^&?\s*(?:\'\w+\s+)?(?:mut\s+)?', '', ty)
    if ty.startswith('Option<') and ty.endswith('>'):
        ty = ty[len('Option<'):-1].strip()
    if ty.startswith('('):
        # `(BlockLocator, ChannelMonitor<SP::EcdsaSigner>)`, `(ClaimableHTLC, u64)`: the last tuple component that is a
        # CamelCase type name (generic arguments dropped)
        t = ty
        while re.search(r'<[^<>]*>', t):
            t = re.sub(r'<[^<>]*>', '', t)
        ids = [x.strip().split('::')[-1] for x in t.strip('()').split(',')]
        ids = [x for x in ids if re.fullmatch(r'[A-Z][a-z]\w*', x)]
        return ids[-1] if ids else None
    name = re.match(r'(?:[\w]+::)*(\w+)', ty)
    return name.group(1) if name else None



# ---------------------------------------------------------------------------------------------------
# FIELD-LEVEL pairing: which struct field does a hand-written writer put under a TLV type, and which struct
# field does the paired reader initialise from the record of that type?  Purely syntactic:
#
#   writer   the written EXPRESSION with transparent wrappers removed (`&`, `*`, `Some(..)`, `WithoutLength(..)`,
#            `.as_ref()`, `.clone()`, `.map(..)`, …) is a path `root.a.b`.  `self` / a fn parameter as root is
#            dropped (`htlc.mpp_part.value` -> `mpp_part.value`); an identifier bound by the enclosing match-arm /
#            `let` struct pattern stands for the field it was bound from (`Event::X { ref payment_hash, .. }`);
#            a `let` local is followed to its initialiser when that is itself such a path, or mentions exactly one.
#            Anything else is `local:<name>` (a computed local), `const:<literal>` or `expr:<text>`.
#   reader   the VARIABLE the macro binds is followed (through `let` re-bindings and assignments) to the field(s) of
#            the constructor literal(s) after the macro whose initialiser mentions it; the field whose initialiser
#            STARTS with the variable wins (`sender_intended_value: sender_intended_value.unwrap_or(value)` is the
#            field of `sender_intended_value`, not of `value`).  Nested literals give dotted paths
#            (`mpp_part.value`).  A variable that reaches no constructor field is `local:<name>`.
#
# Both sides are normalised to `field:<dotted path>`; Props/C12 `writer_reader_fields_agree` demands equality for
# every TLV type present on both sides of a pair, with the differing rows pinned one by one.
# ---------------------------------------------------------------------------------------------------
RUST_KEYWORDS = {'as', 'break', 'const', 'continue', 'crate', 'else', 'enum', 'extern', 'false', 'fn', 'for', 'if', 'impl', 'in',
                 'let', 'loop', 'match', 'mod', 'move', 'mut', 'pub', 'ref', 'return', 'self', 'Self', 'static', 'struct', 'super',
                 'trait', 'true', 'type', 'unsafe', 'use', 'where', 'while', 'dyn', 'Some', 'None', 'Ok', 'Err', 'Vec', 'Box'}
TRANSPARENT_METHODS = {'as_ref', 'as_mut', 'clone', 'cloned', 'copied', 'iter', 'unwrap', 'read', 'lock', 'borrow', 'deref',
                       'as_slice', 'to_vec', 'into', 'as_deref', 'unwrap_or_default', 'expect', 'into_iter', 'unwrap_or', 'unwrap_or_else',
                       'ok_or', 'take', 'to_owned', 'load', 'then_some', 'as_str', 'as_bytes'}
NAME_AFFIXES = re.compile(r'^(_+)|(_opt|_ser|_wrap|_legacy|_read)$')


def norm_local(n):
    prev = None
    while prev != n:
        prev = n
        n = NAME_AFFIXES.sub('', n)
    return n


def strip_wrappers(e):
    e = e.strip()
    while True:
        m = re.match(r'^(&\s*mut\b\s*|&|\*|mut\s+|ref\s+)', e)
        if m:
            e = e[m.end():].strip()
            continue
        if e.startswith('(') and match_close(e, 0) == len(e) - 1 and first_top_comma(e[1:-1]) < 0:
            e = e[1:-1].strip()
            continue
        m = re.match(r'^((?:[A-Za-z_]\w*\s*::\s*)*[A-Z]\w*(?:\s*::\s*new)?)\s*\(', e)
        if m and match_close(e, m.end() - 1) == len(e) - 1:
            inner = e[m.end():-1].strip()
            if inner and first_top_comma(inner) < 0:
                e = inner
                continue
        return e


def parse_path(e):
    """`root.a.0.b()?.c` -> ([(name, is_call)], rest) or None when e does not start with an identifier"""
    m = re.match(r'[A-Za-z_]\w*', e)
    if not m or (m.group(0) in RUST_KEYWORDS and m.group(0) != 'self'):
        return None
    segs = [(m.group(0), False)]
    i = m.end()
    if e[i:i + 2] == '::' or e[i:].lstrip().startswith('('):
        return None   # a type path / a free function call
    while True:
        j = i
        while j < len(e) and e[j] in ' \t\n?':
            j += 1
        mm = re.match(r'\.\s*([A-Za-z_]\w*|\d+)', e[j:])
        if not mm:
            return segs, e[i:].strip()
        k = j + mm.end()
        call = False
        tf = re.match(r'\s*::\s*<', e[k:])
        if tf:   # turbofish
            d, q = 0, k + tf.end() - 1
            while q < len(e):
                if e[q] == '<':
                    d += 1
                elif e[q] == '>':
                    d -= 1
                    if d == 0:
                        break
                q += 1
            k = q + 1
        if re.match(r'\s*\(', e[k:]):
            o = k + re.match(r'\s*\(', e[k:]).end() - 1
            k = match_close(e, o) + 1
            call = e[o + 1:k - 1]
        segs.append((mm.group(1), call))
        i = k


def path_text(segs):
    """field path of the segments after the root: transparent method calls dropped; `.map(|x| x.a.b)` /
    `.and_then(|x| …)` with a projecting (or merely wrapping) closure continues the path with `a.b`; every other method
    call kept as `name()` (see `finish_path`)"""
    out = []
    for name, call in segs:
        if call is False:
            if name != '0':   # `.0` of a newtype wrapper
                out.append(name)
        elif name in TRANSPARENT_METHODS:
            continue
        elif name in ('map', 'and_then'):
            cm = re.match(r'^\s*\|\s*(?:&\s*)?(?:mut\s+)?(\w+)\s*\|\s*(.*)$', call, re.S)
            sub = parse_path(strip_wrappers(cm.group(2))) if cm else None
            if sub and not sub[1] and sub[0][0][0] == cm.group(1):
                t = path_text(sub[0][1:])
                if t:
                    out.append(t)
            else:
                out.append(name + '()')
        else:
            out.append(name + '()')
    return '.'.join(out)


def finish_path(path):
    """a zero-argument getter in LAST position stands for the field of the same name (`payee.node_id()` ->
    `payee.node_id`); a method call anywhere else makes the value a derived one: None"""
    if path.endswith('()'):
        path = path[:-2]
    return None if '(' in path else path


def innermost(sc_list, pos):
    best = None
    for o, c, h in sc_list:
        if o < pos < c and (best is None or o > best[0]):
            best = (o, c, h)
    return best


def pattern_bindings(body, prefix=''):
    """`ref a, b: ref c, d: Foo { e, .. }, ..` -> {binding: field path}"""
    out = {}
    for item in split_top(body):
        if item.startswith('..'):
            continue
        m = re.match(r'^(\w+)\s*:(?!:)\s*(.*)$', item, re.S)
        if m:
            fld, pat = m.group(1), m.group(2).strip()
            pat = re.sub(r'^(&\s*)?(ref\s+)?(mut\s+)?', '', pat)
            mm = re.match(r'^(?:[\w:]+\s*)?\{', pat)
            if mm and match_close(pat, mm.end() - 1) == len(pat) - 1:
                out.update(pattern_bindings(pat[mm.end():-1], prefix + fld + '.'))
            else:
                mm = re.match(r'^(?:Some\s*\(\s*)?(?:ref\s+)?(?:mut\s+)?([a-z_]\w*)\s*\)?$', pat)
                if mm:
                    out[mm.group(1)] = prefix + fld
        else:
            mm = re.match(r'^(?:ref\s+)?(?:mut\s+)?([a-z_]\w*)$', item)
            if mm:
                out[mm.group(1)] = prefix + mm.group(1)
    return out


def stmt_end(text, i):
    """index of the `;` ending the statement that starts at i (brackets balanced)"""
    d = 0
    for k in range(i, len(text)):
        c = text[k]
        if c in '([{':
            d += 1
        elif c in ')]}':
            d -= 1
            if d < 0:
                return k
        elif c == ';' and d == 0:
            return k
    return len(text)


def writer_paths(cl, sc, fscope, mpos, entries, where):
    fo, fc = fscope
    body = cl[fo:mpos]
    # fn parameters (the header text before the fn's `{`)
    hdr = next((h for (o, c, h) in sc if o == fo), '')
    params = {'self'}
    pm = re.search(r'\bfn\s+\w+\s*(?:<[^()]*>)?\s*\(', hdr)
    if pm:
        pe = match_close(hdr, pm.end() - 1)
        for prm in split_top(hdr[pm.end():pe]):
            mm = re.match(r'^(?:mut\s+)?(\w+)\s*:', prm)
            if mm:
                params.add(mm.group(1))
    enclosing_ok = lambda pos: (lambda s: s is None or s[0] < fo or (s[0] < mpos < s[1]))(innermost(sc, pos))
    # bindings in scope at the macro, in source order: (position, name, kind, payload)
    binds = []
    for m in re.finditer(r'((?:[A-Za-z_]\w*\s*::\s*)*[A-Z]\w*)\s*\{', body):
        o = fo + m.end() - 1
        try:
            c = match_close(cl, o)
        except TranslateError:
            continue
        if c >= mpos:
            continue
        k = c + 1
        while k < len(cl) and (cl[k].isspace() or cl[k] == ')'):
            k += 1
        is_arm = cl.startswith('=>', k) or cl[k] == '|' or cl.startswith('if ', k)
        is_let = cl[k] == '=' and not cl.startswith('==', k) and not cl.startswith('=>', k)
        if not (is_arm or is_let):
            continue
        if is_arm:
            a = cl.find('=>', k)
            if a < 0:
                continue
            b = a + 2
            while b < len(cl) and cl[b].isspace():
                b += 1
            if not (cl[b] == '{' and b < mpos < match_close(cl, b)):
                continue
        else:
            pre = re.sub(r'(?:[\s(&]|\bSome\b|\bOk\b|\bref\b)+$', '', cl[fo:fo + m.start()])
            if re.search(r'\b(if|while)\s+let$', pre):
                # `if let Pat = expr { … }`: the bindings live in that block only
                d, q = 0, k + 1
                while q < mpos and not (cl[q] == '{' and d == 0):
                    d += (cl[q] in '([') - (cl[q] in ')]')
                    q += 1
                if not (q < mpos < match_close(cl, q)):
                    continue
            elif not enclosing_ok(fo + m.start()):
                continue
        for name, fld in pattern_bindings(cl[o + 1:c]).items():
            binds.append((fo + m.start(), name, 'pat', fld))
    for m in re.finditer(r'\blet\s+(?:mut\s+)?([a-z_]\w*)\s*(?::[^=;]*?)?=(?!=)', body):
        pos = fo + m.start()
        if not enclosing_ok(pos):
            continue
        e = stmt_end(cl, fo + m.end())
        binds.append((pos, m.group(1), 'let', cl[fo + m.end():e]))
    for m in re.finditer(r'\blet\s*\(([^()]*)\)\s*(?::[^=;]*?)?=(?!=)', body):
        pos = fo + m.start()
        if not enclosing_ok(pos):
            continue
        for nm in re.findall(r'[a-z_]\w*', m.group(1)):
            if nm not in ('mut', 'ref'):
                binds.append((pos, nm, 'tuple', ''))
    binds.sort(key=lambda b: b[0])

    def lookup(name, before):
        r = None
        for b in binds:
            if b[0] < before and b[1] == name:
                r = b
        return r

    def resolve(expr, before, depth=0):
        e = strip_wrappers(' '.join(expr.split()))
        if re.fullmatch(r'[0-9][0-9_]*(?:u8|u16|u32|u64|usize)?|true|false|None(?:\s*::\s*<.*>)?|[\w:<>\s]+::\s*new\s*\(\s*\)', e):
            return 'const:' + re.sub(r'\s+', '', e)[:40]
        pp = parse_path(e)
        if pp is None or pp[1]:
            return 'expr:' + re.sub(r'\s+', ' ', e)[:48]
        segs = pp[0]
        root, rest = segs[0][0], path_text(segs[1:])
        join = lambda a, b: a + ('.' + b if a and b else b)
        b = lookup(root, before)
        if b is None:
            if root in params and (rest or root == 'self'):
                return 'raw:' + rest
            return 'local:' + norm_local(root)
        if b[2] == 'pat':
            return 'raw:' + join(b[3], rest)
        if b[2] == 'let' and depth < 4:
            r = resolve(b[3], b[0], depth + 1)
            if r.startswith('raw:'):
                return 'raw:' + join(r[4:], rest)
        return 'local:' + norm_local(root)

    def resolve_top(expr):
        r = resolve(expr, mpos)
        if r.startswith('raw:'):
            f = finish_path(r[4:])
            if f is None:
                pp = parse_path(strip_wrappers(' '.join(expr.split())))
                return 'local:' + ('.'.join([norm_local(pp[0][0][0])] + [n for n, c in pp[0][1:] if c is False]) if pp else 'derived')
            return 'field:' + f
        return r

    for ent in entries:
        if 'expr' in ent:
            ent['path'] = resolve_top(ent['expr'])


def reader_paths(cl, enc, fscope, mend, entries, where):
    fo, fc = fscope
    tlv_vars = [e['expr'] for e in entries if 'expr' in e]
    if any(not re.fullmatch(r'[A-Za-z_]\w*', v) for v in tlv_vars):
        raise TranslateError('%s: a reader binds something that is not an identifier: %r' % (where, [v for v in tlv_vars if not re.fullmatch(r'[A-Za-z_]\w*', v)][:3]))
    # regions to look at, innermost enclosing block first, widened up to the fn body
    regions = [(mend, c) for (o, c, h) in enc if fo <= o and c <= fc and o < mend < c]
    regions.sort(key=lambda r: r[1])

    def analyse(a, b):
        text = cl[a:b]
        deps = {v: {v} for v in tlv_vars}
        head = {}

        def idents(s):
            out = []
            for mm in re.finditer(r'(?<![\w.])([A-Za-z_]\w*)', s):
                nm = mm.group(1)
                if nm in RUST_KEYWORDS or s[mm.end():mm.end() + 2] == '::' or (s[max(0, mm.start() - 2):mm.start()] == '::'):
                    continue
                if re.match(r'\s*[(!]', s[mm.end():]) and not nm[0].islower():
                    continue
                if re.match(r'\s*\(', s[mm.end():]):
                    continue   # free function call
                if re.match(r'\s*:(?!:)', s[mm.end():]) and re.search(r'[{,]\s*$', s[:mm.start()]):
                    continue   # `field:` label of a nested literal
                out.append(nm)
            return out

        def dep_of(s):
            d = set()
            for nm in idents(s):
                d |= deps.get(nm, set())
            return d

        def head_var(s, depth=0):
            ids = idents(s)
            if not ids:
                return None
            h = ids[0]
            if h in tlv_vars and h not in head:
                return h
            if h in head and depth < 6:
                return head_var(head[h], depth + 1) if head[h] is not None else None
            return h if h in tlv_vars else None

        # let statements / assignments, in order
        stm = []
        for mm in re.finditer(r'\blet\s+(?:mut\s+)?([a-z_]\w*)\s*(?::[^=;]*?)?=(?!=)', text):
            e = stmt_end(text, mm.end())
            stm.append((mm.start(), [mm.group(1)], text[mm.end():e], True))
        for mm in re.finditer(r'\blet\s*\(([^()]*)\)\s*(?::[^=;]*?)?=(?!=)', text):
            e = stmt_end(text, mm.end())
            stm.append((mm.start(), [x for x in re.findall(r'[a-z_]\w*', mm.group(1)) if x not in ('mut', 'ref')], text[mm.end():e], True))
        for mm in re.finditer(r'(?<![\w.])([a-z_]\w*)\s*=(?![=>])', text):
            if re.search(r'\blet\s+(?:mut\s+)?$', text[:mm.start()]) or re.search(r'[:<>!+\-*/|&^]$', text[:mm.start()].rstrip()[-1:] or ' '):
                continue
            e = stmt_end(text, mm.end())
            stm.append((mm.start(), [mm.group(1)], text[mm.end():e], False))
        stm.sort(key=lambda x: x[0])
        lets = {}
        for pos, names, init, is_let in stm:
            d = dep_of(init)
            for nm in names:
                if is_let:
                    # `let x = x…` re-binding of a TLV variable keeps its identity
                    deps[nm] = set(d) | ({nm} if (nm in tlv_vars and nm in idents(init)) else set())
                    if not (nm in tlv_vars and head_var(init) == nm):
                        head[nm] = init
                    lets[nm] = (pos, init)
                else:
                    deps[nm] = deps.get(nm, set()) | d
        # constructor literals
        ctors = []
        for mm in re.finditer(r'((?:[A-Za-z_]\w*\s*::\s*)*[A-Z]\w*)\s*\{', text):
            pre = text[:mm.start()].rstrip()
            if re.search(r'\b(struct|enum|impl|trait|for|match|if|while|in|loop|unsafe|else|mod)$', pre):
                continue
            if not re.search(r'[a-z]', mm.group(1).split('::')[-1]):
                continue   # `… == u32::MAX { … }`: a constant, not a type
            o = mm.end() - 1
            try:
                c = match_close(text, o)
            except TranslateError:
                continue
            k = c + 1
            while k < len(text) and (text[k].isspace() or text[k] == ')'):
                k += 1
            if text.startswith('=>', k) or (k < len(text) and text[k] == '|' and not text.startswith('||', k)) or (k < len(text) and text[k] == '=' and not text.startswith('==', k)):
                continue   # a pattern
            if re.search(r'\b(let|if\s+let|while\s+let)\s*(\(|Some\s*\(|Ok\s*\()?\s*$', pre):
                continue
            fields = []
            for item in split_top(text[o + 1:c]):
                while item.startswith('#['):
                    item = item[match_close(item, 1) + 1:].strip()
                if item.startswith('..') or not item:
                    continue
                fm = re.match(r'^(\w+)\s*:(?!:)\s*(.*)$', item, re.S)
                if fm and re.fullmatch(r'[a-z_]\w*', fm.group(1)):
                    fields.append((fm.group(1), fm.group(2)))
                elif re.fullmatch(r'[a-z_]\w*', item):
                    fields.append((item, item))
                else:
                    fields = None
                    break
            if fields:
                ctors.append({'a': mm.start(), 'o': o, 'c': c, 'fields': fields, 'prefix': None})
        # nesting prefixes
        def prefix_of(ct, depth=0):
            if ct['prefix'] is not None or depth > 6:
                return ct['prefix'] or ''
            ct['prefix'] = ''
            parent = None
            for p in ctors:
                if p is not ct and p['o'] < ct['a'] and ct['c'] < p['c'] and (parent is None or p['o'] > parent['o']):
                    parent = p
            if parent is not None:
                # which field of the parent holds it
                off = parent['o'] + 1
                body = text[off:parent['c']]
                pos = 0
                for item in split_top(body):
                    st = body.find(item, pos)
                    pos = st + len(item)
                    if off + st <= ct['a'] < off + pos:
                        fm = re.match(r'^(\w+)\s*:(?!:)', item)
                        if fm:
                            ct['prefix'] = prefix_of(parent, depth + 1) + fm.group(1) + '.'
                        break
                return ct['prefix']
            # bound by `let name = … Ctor { … }` and used as the head of exactly one constructor field
            for nm, (pos, init) in lets.items():
                ipos = text.find(init, pos)
                if ipos <= ct['a'] and ct['c'] <= ipos + len(init):
                    users = [(p, f) for p in ctors if p is not ct for (f, ex) in p['fields'] if (idents(ex) or [None])[0] == nm]
                    if len(users) == 1:
                        ct['prefix'] = prefix_of(users[0][0], depth + 1) + users[0][1] + '.'
                    break
            return ct['prefix']
        flds = []   # (path, expr)
        for ct in ctors:
            pre = prefix_of(ct)
            for f, ex in ct['fields']:
                flds.append((pre + f, ex))
        consts = []
        for pth, ex in flds:
            e1 = ' '.join(ex.split())
            if not idents(e1) and not re.search(r'\b[A-Z]\w*\s*\{', e1):
                consts.append((pth, e1[:40]))
        res = {}
        for v in tlv_vars:
            by_head = sorted(set(p for p, ex in flds if head_var(ex) == v))
            by_any = sorted(set(p for p, ex in flds if v in dep_of(ex)))
            # a field that merely wraps a nested literal is not the target when one of the literal's own fields is
            leaf = lambda ps: [p for p in ps if not any(q != p and q.startswith(p + '.') for q in ps)]
            by_head, by_any = leaf(by_head), leaf(by_any)
            if len(by_head) == 1:
                res[v] = 'field:' + by_head[0]
            elif len(by_head) > 1:
                res[v] = 'multi:' + '|'.join(by_head)
            elif len(by_any) == 1:
                res[v] = 'field:' + by_any[0]
            elif len(by_any) > 1:
                res[v] = 'multi:' + '|'.join(by_any)
            else:
                res[v] = None
        return res, bool(ctors), consts

    final = {v: None for v in tlv_vars}
    const_fields = []
    for a, b in regions:
        res, any_ctor, consts = analyse(a, b)
        hit = False
        for v in tlv_vars:
            if final[v] is None and res[v] is not None:
                final[v] = res[v]
                hit = True
        if hit:
            for c in consts:
                if c not in const_fields:
                    const_fields.append(c)
        if all(final[v] is not None for v in tlv_vars):
            break
    for ent in entries:
        if 'expr' in ent:
            ent['path'] = final[ent['expr']] or ('local:' + norm_local(ent['expr']))
    return const_fields



# ---------------------------------------------------------------------------------------------------
# Hand-written ENUM BYTE CODECS (the positional, non-TLV parts): `match x { Enum::A => 0u8.write(w)?, … }` on the write
# side, `match <u8 as Readable>::read(r)? { 0 => Enum::A, … }` on the read side — whole `impl Writeable/Readable for Enum`
# pairs (ChannelUpdateStatus, AnnouncementSigsState, HTLCSource, …) and the inline ones of FundedChannel::write/read
# (InboundHTLCState, InboundHTLCRemovalReason, OutboundHTLCState, HTLCUpdateAwaitingACK, RAACommitmentOrder, …).
# Extracted per `match`: writer (variant -> first `<N>u8.write(` / `<CONST>.write(` of the arm), reader (byte -> the
# `Enum::Variant` of the arm's tail expression, `?` when the tail names none or several).  Writer and reader matches of the
# same enum in the same file are paired in source order.
# ---------------------------------------------------------------------------------------------------
ENUM_VARIANT = re.compile(r'((?:[A-Za-z_]\w*\s*::\s*)*)([A-Z]\w*)\s*::\s*([A-Z]\w*)')
CORE_ENUM_CODECS = ['ChannelUpdateStatus', 'AnnouncementSigsState', 'InboundHTLCState', 'InboundHTLCRemovalReason', 'OutboundHTLCState',
                    'HTLCUpdateAwaitingACK', 'RAACommitmentOrder', 'HTLCSource', 'HTLCFailureMsg', 'MonitorEvent']


def split_arms(body):
    """[(pattern, arm body)] of the text between the braces of a `match`"""
    arms, i, n, start, d = [], 0, len(body), 0, 0
    while i < n:
        c = body[i]
        if c in '([{':
            d += 1
        elif c in ')]}':
            d -= 1
        elif c == '=' and d == 0 and body[i:i + 2] == '=>':
            pat = body[start:i].strip()
            j = i + 2
            while j < n and body[j].isspace():
                j += 1
            if j < n and body[j] == '{':
                e = match_close(body, j)
                arm, k = body[j + 1:e], e + 1
                while k < n and body[k].isspace():
                    k += 1
                if k < n and body[k] == ',':
                    k += 1
            else:
                dd, k = 0, j
                while k < n:
                    ch = body[k]
                    if ch in '([{':
                        dd += 1
                    elif ch in ')]}':
                        dd -= 1
                    elif ch == ',' and dd == 0:
                        break
                    k += 1
                arm, k = body[j:k], k + 1
            arms.append((pat, arm.strip()))
            i = start = k
            continue
        i += 1
    return arms


def top_statements(arm):
    out, d, cur = [], 0, ''
    for ch in arm:
        if ch in '([{':
            d += 1
        elif ch in ')]}':
            d -= 1
        if ch == ';' and d == 0:
            out.append(cur.strip())
            cur = ''
        else:
            cur += ch
    if cur.strip():
        out.append(cur.strip())
    return out


def extract_enum_codecs(files):
    W, R = [], []
    for path, rel in files:
        cl = clean(open(path).read())
        sc = scopes(cl)
        for m in re.finditer(r'\bmatch\b([^{};]*)\{', cl):
            o = m.end() - 1
            try:
                c = match_close(cl, o)
            except TranslateError:
                continue
            enc = enclosing(sc, m.start())
            headers = [h for _, _, h in enc]
            if any(re.search(r'\bmod\s+(tests?|\w+_tests?|bench\w*|fuzzy\w*)\b', h) for h in headers) or any('#[test]' in h or 'cfg(test)' in h for h in headers):
                continue
            if any('macro_rules' in h for h in headers):
                continue
            fn = next((re.search(r'\bfn\s+(\w+)', h).group(1) for h in headers if re.search(r'\bfn\s+(\w+)', h)), None)
            ty = next((impl_type(h) for h in headers if re.search(r'\bimpl\b', h) and impl_type(h)), None)
            fscope = next(((fo, fc) for (fo, fc, h) in enc if re.search(r'\bfn\s+\w+', h)), None)
            scrut = ' '.join(m.group(1).split())
            arms = split_arms(cl[o + 1:c])
            line = cl.count('\n', 0, m.start()) + 1
            is_read = bool(re.search(r'<\s*u8\s+as\s+Readable\s*>\s*::\s*read\s*\(', scrut)) or bool(
                re.fullmatch(r'\w+', scrut) and fscope and re.search(r'\blet\s+%s\s*:\s*u8\s*=\s*(?:Readable|<\s*u8\s+as\s+Readable\s*>)\s*::\s*read\s*\(' % scrut, cl[fscope[0]:m.start()]))
            if is_read:
                rows, ok = [], True
                for pat, arm in arms:
                    if pat == '_' or pat.startswith('_ '):
                        continue
                    bs = [x.strip() for x in pat.split('|')]
                    if not all(re.fullmatch(r'\d+(?:u8)?', b) for b in bs):
                        ok = False
                        break
                    st = top_statements(arm)
                    tail = st[-1] if st else ''
                    # drop leading block statements (`if … { … }`, `for … { … }`) in front of the tail expression
                    d, cutp = 0, -1
                    for k, ch in enumerate(tail):
                        if ch in '([{':
                            d += 1
                        elif ch in ')]}':
                            d -= 1
                            if ch == '}' and d == 0:
                                rest = tail[k + 1:].strip()
                                if rest and not rest.startswith('else') and not rest[0] in ').,?':
                                    cutp = k
                    if cutp >= 0:
                        tail = tail[cutp + 1:].strip()
                    vs = set(((mv.group(2) if mv.group(2) != 'Self' else ty), mv.group(3)) for mv in ENUM_VARIANT.finditer(tail)
                             if mv.group(2) not in ('DecodeError', 'Some', 'Ok', 'Err') and mv.group(3) not in ('new', 'default', 'from'))
                    # the outermost variant: the first one of the tail
                    first = ENUM_VARIANT.search(tail)
                    v = None
                    if first and not tail.startswith('return') and not re.match(r'^(if|match)\b', tail):
                        en = first.group(2) if first.group(2) != 'Self' else ty
                        if en not in ('DecodeError',):
                            v = (en, first.group(3))
                    for b in bs:
                        rows.append((int(re.match(r'\d+', b).group(0)), v))
                named = [r for r in rows if r[1]]
                if ok and len(named) >= 2 and len(set(r[1][0] for r in named)) == 1:
                    R.append({'enum': named[0][1][0], 'rows': [(r[0], r[1][1] if r[1] else '?') for r in rows], 'file': rel, 'line': line, 'where': '%s.%s' % (ty, fn)})
            else:
                rows, bad = [], 0
                for pat, arm in arms:
                    byte = None
                    for stt in top_statements(arm):
                        mb = re.match(r'^(\d+)u8\s*\.\s*write\s*\(', stt)
                        mc = re.match(r'^([A-Z][A-Z0-9_]*)\s*\.\s*write\s*\(', stt)
                        if mb:
                            byte = int(mb.group(1))
                            break
                        if mc and fscope:
                            cm = re.search(r'\bconst\s+%s\s*:\s*u8\s*=\s*(\d+)\s*;' % mc.group(1), cl[fscope[0]:fscope[1]])
                            if cm:
                                byte = int(cm.group(1))
                                break
                        if re.search(r'\.\s*write\s*\(', stt):
                            break   # something else is written first
                    vs = [((mv.group(2) if mv.group(2) != 'Self' else ty), mv.group(3)) for mv in ENUM_VARIANT.finditer(pat.split(' if ')[0])]
                    vs = vs[:1] if '|' not in pat else [v for v in vs]
                    if byte is not None and vs:
                        # only the outermost variant(s) of the pattern: those not inside another variant's parentheses
                        outer = []
                        for alt in split_top(pat.split(' if ')[0], '|'):
                            mv = ENUM_VARIANT.search(alt)
                            if mv:
                                outer.append(((mv.group(2) if mv.group(2) != 'Self' else ty), mv.group(3)))
                        for v in outer:
                            rows.append((v[0], v[1], byte))
                    elif re.match(r'^(unreachable!|continue|debug_assert!|$)', arm):
                        pass
                    else:
                        bad += 1
                if len(rows) >= 2 and not bad and len(set(r[0] for r in rows)) == 1:
                    W.append({'enum': rows[0][0], 'rows': [(r[1], r[2]) for r in rows], 'file': rel, 'line': line, 'where': '%s.%s' % (ty, fn)})
    codecs, unpaired = [], []
    keys = []
    for w in W:
        k = (w['file'], w['enum'])
        if k not in keys:
            keys.append(k)
    used_r = set()
    for k in keys:
        ws = [w for w in W if (w['file'], w['enum']) == k]
        rs = [r for r in R if (r['file'], r['enum']) == k]
        for i, w in enumerate(ws):
            if i < len(rs):
                used_r.add(id(rs[i]))
                name = w['enum'] + ('' if i == 0 else '#%d' % i)
                codecs.append({'name': name, 'file': w['file'], 'wline': w['line'], 'rline': rs[i]['line'], 'where': w['where'], 'writes': w['rows'], 'reads': rs[i]['rows']})
            else:
                unpaired.append('writer %s (%s:%d)' % (w['enum'], w['file'], w['line']))
    for r in R:
        if id(r) not in used_r:
            unpaired.append('reader %s (%s:%d)' % (r['enum'], r['file'], r['line']))
    names = [c['name'] for c in codecs]
    if len(set(names)) != len(names):
        # the same enum name in two files
        seen_n = {}
        for c in codecs:
            if names.count(c['name']) > 1:
                c['name'] = '%s@%s' % (c['name'], os.path.basename(c['file'])[:-3])
    for core in CORE_ENUM_CODECS:
        if not any(c['name'] == core for c in codecs):
            raise TranslateError('enum codec %s: the hand-written write / read `match` no longer has the expected shape (variant => <N>u8.write(..) / N => Enum::Variant)' % core)
    return codecs, unpaired


# the straight-line positional (non-TLV) part of the three big hand-written serializers: names of what is written
# (`self.a.b.write(writer)`) and of the variables read (`let x = Readable::read(reader)?`), aligned; the common subsequence
# is pinned in Props/C12 (a swap of two positional fields shortens it)
POSITIONAL = [
    ('FundedChannel', 'lightning/src/ln/channel.rs', r'Writeable for FundedChannel', 'write', r'for FundedChannel', 'read'),
    ('ChannelManager', 'lightning/src/ln/channelmanager.rs', r'Writeable for ChannelManager', 'write', r'for ChannelManagerData', 'read'),
    ('ChannelMonitor', 'lightning/src/chain/channelmonitor.rs', None, 'write_chanmon_internal', r'for Option<\(BlockLocator, ChannelMonitor', 'read'),
]


def extract_positional():
    import difflib
    out = []
    for name, file, impl_w, fnw, impl_r, fnr in POSITIONAL:
        cl = clean(open(os.path.join(REPO, file)).read())
        sc = scopes(cl)

        def body(impl_pat, fn_name):
            for (o, c, h) in sc:
                if re.search(r'\bfn\s+%s\b' % fn_name, h):
                    enc = enclosing(sc, o)
                    if impl_pat is None or any(re.search(impl_pat, hh) for _, _, hh in enc):
                        return o, c
            return None
        w, r = body(impl_w, fnw), body(impl_r, fnr)
        if not w or not r:
            raise TranslateError('positional pairing %s: write / read fn not found' % name)
        ws = []
        for m in re.finditer(r'([^;{}]*?)\.\s*write\s*\(\s*writer\s*\)\s*\?', cl[w[0]:w[1]]):
            e = ' '.join(m.group(1).split())
            e = re.sub(r'^.*(=>|\belse\b|\bin\b)\s*', '', e)
            e = strip_wrappers(e)
            pp = parse_path(e)
            if pp and not pp[1]:
                segs = [n for n, c in pp[0] if c is False]
                if segs and segs[-1] not in ('self',):
                    ws.append(norm_local(segs[-1]))
        rs = []
        for m in re.finditer(r'\blet\s+(?:mut\s+)?(\w+)\s*(?::[^=;]*)?=\s*(?:<[^>]*>\s*::\s*read|Readable\s*::\s*read)\s*\(\s*reader\b', cl[r[0]:r[1]]):
            rs.append(norm_local(m.group(1)))
        sm = difflib.SequenceMatcher(None, ws, rs, autojunk=False)
        common = []
        for tag, i1, i2, j1, j2 in sm.get_opcodes():
            if tag == 'equal':
                common += ws[i1:i2]
        out.append((name, common, len(ws), len(rs)))
    return out


def extract_file(path, rel, all_srcs):
    src = open(path).read()
    cl = clean(src)
    sc = scopes(cl)
    found = []
    counters = {}
    for m in re.finditer(r'(?<![\w!])((?:\$?crate::)?)(\w+)!\s*\(', cl):
        name = m.group(2)
        if name not in ALL_MACROS:
            continue
        line = cl.count('\n', 0, m.start()) + 1
        enc = enclosing(sc, m.start())
        headers = [h for _, _, h in enc]
        if any(re.search(r'\bmacro_rules!\s*\w*$|\bmacro_rules\b', h) for h in headers):
            found.append({'skip': True, 'file': rel, 'line': line, 'macro': name, 'reason': 'inside a local macro_rules! definition (types are macro parameters)'})
            continue
        if any(re.search(r'\bmod\s+(tests?|\w+_tests?|bench\w*|fuzzy\w*)\b', h) for h in headers) or any('#[test]' in h or 'cfg(test)' in h for h in headers):
            continue
        close = match_close(cl, m.end() - 1)
        inner = cl[m.end():close]
        fn = next((re.search(r'\bfn\s+(\w+)', h).group(1) for h in headers if re.search(r'\bfn\s+(\w+)', h)), None)
        ty = next((impl_type(h) for h in headers if re.search(r'\bimpl\b', h) and impl_type(h)), None)
        key = (rel, '%s.%s' % (ty, fn), name)
        where = '%s:%d %s! [skip key %r]' % (rel, line, name, key)
        if key in SKIP:
            found.append({'skip': True, 'file': rel, 'line': line, 'macro': name, 'reason': SKIP[key]})
            continue
        srcs = [cl] + all_srcs
        if name in STRUCT_MACROS:
            parts = split_top(inner)
            # impl_ser_tlv_based!(Name, {…}) / impl_writeable_tlv_based!(Ty, self, {…})
            if name == 'impl_ser_tlv_based':
                ok = len(parts) == 2 and re.fullmatch(r'[\w:]+', parts[0]) and parts[1].startswith('{')
            else:
                ok = len(parts) == 3 and parts[1] == 'self' and parts[2].startswith('{')
            if not ok:
                raise TranslateError('%s: unexpected shape %r' % (where, inner[:80]))
            sname = re.sub(r'<.*$', '', parts[0]).split('::')[-1].strip()
            body = parts[-1]
            if match_close(body, 0) != len(body) - 1:
                raise TranslateError('%s: unexpected shape' % where)
            found.append({'name': sname, 'file': rel, 'line': line, 'macro': name, 'dir': STRUCT_MACROS[name],
                          'len_prefixed': True, 'fields': parse_entries(body[1:-1], where, srcs)})
        elif name in ENUM_MACROS:
            found += parse_enum(name, inner, rel, line, where, srcs)
        else:
            # hand-written block: (stream, {entries} [, extra])
            k = inner.find('{')
            if k < 0:
                raise TranslateError('%s: no field list' % where)
            e = match_close(inner, k)
            direction = BLOCK_MACROS[name]
            scope = '%s.%s' % (ty, fn) if ty else (fn or 'toplevel')
            ck = (scope, direction)
            n = counters.get(ck, 0)
            counters[ck] = n + 1
            tag, arms = None, []
            fscope = next(((o, c) for (o, c, h) in enc if re.search(r'\bfn\s+\w+', h)), None)
            if fscope:
                before = cl[fscope[0]:m.start()]
                if direction == 'write':
                    tm = list(re.finditer(r'\b(\d+)u8\s*\.write\(|\b([A-Z][A-Z0-9_]*)\.write\(\w+\)\?', before))
                    if tm:
                        g = tm[-1]
                        if g.group(1):
                            tag = int(g.group(1))
                        else:
                            cm = re.search(r'\bconst\s+%s\s*:\s*u8\s*=\s*(\d+)\s*;' % g.group(2), before)
                            tag = int(cm.group(1)) if cm else None
                else:
                    tm = list(re.finditer(r'(?<![\w.])(\d+)(?:u8)?\s*=>', before))
                    if tm:
                        tag = int(tm[-1].group(1))
                    arms = sorted(set(int(x.group(1)) for x in re.finditer(r'(?<![\w.])(\d+)(?:u8)?\s*=>', cl[fscope[0]:fscope[1]])))
            entries = parse_entries(inner[k + 1:e], where, srcs)
            const_fields = []
            if fscope:
                if direction == 'write':
                    writer_paths(cl, sc, fscope, m.start(), entries, where)
                else:
                    const_fields = reader_paths(cl, enc, fscope, close + 1, entries, where)
            found.append({'name': '%s.%s%d' % (scope, 'w' if direction == 'write' else 'r', n), 'file': rel, 'line': line, 'tag': tag, 'arms': arms,
                          'macro': name, 'dir': direction, 'len_prefixed': name in LEN_PREFIXED, 'owner': ty, 'fn': fn,
                          'fields': entries, 'const_fields': const_fields})
    return found


def parse_enum(name, inner, rel, line, where, srcs):
    """sequential scan: `Name,` then `(id, V) => {…}` | `(id, T)` | `{id, T} => ()` | `unread_variants: A, B`,
    separated by optional `,` / `;`"""
    m = re.match(r'\s*(\w+)\s*,', inner)
    if not m:
        raise TranslateError('%s: enum name' % where)
    ename = m.group(1)
    i = m.end()
    n = len(inner)
    out, struct_ids, tuple_ids, unread = [], [], [], []
    while True:
        while i < n and (inner[i].isspace() or inner[i] in ',;'):
            i += 1
        if i >= n:
            break
        if inner[i] == '(':
            c = match_close(inner, i)
            mm = re.fullmatch(r'\(\s*([0-9_]+)\s*,\s*(\w+)\s*\)', inner[i:c + 1], re.S)
            if not mm:
                raise TranslateError('%s: cannot parse variant head %r' % (where, inner[i:c + 1][:60]))
            vid, vname = int(mm.group(1).replace('_', '')), mm.group(2)
            j = c + 1
            ma = re.match(r'\s*=>\s*\{', inner[j:])
            if ma:
                o = j + ma.end() - 1
                e = match_close(inner, o)
                struct_ids.append(vid)
                out.append({'name': '%s.%s' % (ename, vname), 'file': rel, 'line': line + inner.count('\n', 0, i), 'macro': name, 'dir': 'both',
                            'len_prefixed': True, 'variant_id': vid, 'enum_name': ename,
                            'fields': parse_entries(inner[o + 1:e], '%s %s::%s' % (where, ename, vname), srcs)})
                i = e + 1
            else:
                tuple_ids.append(vid)
                i = j
        elif inner[i] == '{':
            c = match_close(inner, i)
            mm = re.fullmatch(r'\{\s*([0-9_]+)\s*,\s*(\w+)\s*\}', inner[i:c + 1], re.S)
            ma = re.match(r'\s*=>\s*\(\s*\)', inner[c + 1:])
            if not mm or not ma:
                raise TranslateError('%s: cannot parse tuple variant %r' % (where, inner[i:c + 12][:60]))
            tuple_ids.append(int(mm.group(1).replace('_', '')))
            i = c + 1 + ma.end()
        else:
            mm = re.match(r'unread_variants\s*:\s*((?:\w+\s*,?\s*)+)$', inner[i:])
            if not mm:
                raise TranslateError('%s: cannot parse enum item %r' % (where, inner[i:i + 60]))
            unread = [x for x in re.split(r'[\s,]+', mm.group(1)) if x]
            break
    out.append({'enum': ename, 'file': rel, 'line': line, 'macro': name, 'struct_ids': struct_ids, 'tuple_ids': tuple_ids,
                'unread': unread, 'upgradable': 'upgradable' in name})
    return out


def lean_str(s):
    return '"' + s.replace('\\', '\\\\').replace('"', '\\"') + '"'


def main(out_path):
    root = os.path.join(REPO, SRC_ROOT)
    if not os.path.isdir(root):
        raise TranslateError('missing ' + root)
    files = []
    for d, _, fs in os.walk(root):
        for f in sorted(fs):
            if f.endswith('.rs'):
                p = os.path.join(d, f)
                rel = os.path.relpath(p, REPO)
                if rel in EXCLUDE_FILES or TEST_FILE.search(rel):
                    continue
                files.append((p, rel))
    files.sort(key=lambda x: x[1])
    # constants used as TLV types may live in another file
    const_srcs = []
    schemas, enums, skipped = [], [], []
    for p, rel in files:
        try:
            for x in extract_file(p, rel, const_srcs):
                if x.get('skip'):
                    skipped.append(x)
                elif 'enum' in x:
                    enums.append(x)
                else:
                    schemas.append(x)
        except TranslateError as ex:
            raise TranslateError('%s: %s' % (rel, ex))
    for s in schemas:
        s['dynamic'] = [e['dynamic'] for e in s['fields'] if 'dynamic' in e]
        s['fields'] = [e for e in s['fields'] if 'dynamic' not in e]
    # unique names
    seen = {}
    for s in schemas:
        base = s['name']
        if base in seen:
            stem = os.path.basename(s['file'])[:-3]
            s['name'] = '%s@%s' % (base, stem)
            k = 2
            while s['name'] in seen:
                s['name'] = '%s@%s%d' % (base, stem, k)
                k += 1
        seen[s['name']] = s
    # the anchored persisted-object files must be present with at least these many blocks (shape guard)
    expect = {'lightning/src/chain/channelmonitor.rs': 8, 'lightning/src/ln/channel.rs': 4, 'lightning/src/ln/channelmanager.rs': 10,
              'lightning/src/chain/onchaintx.rs': 2, 'lightning/src/chain/package.rs': 5, 'lightning/src/routing/gossip.rs': 6,
              'lightning/src/routing/scoring.rs': 3, 'lightning/src/util/sweep.rs': 2, 'lightning/src/events/mod.rs': 20,
              }
    per_file = {}
    for s in schemas:
        per_file[s['file']] = per_file.get(s['file'], 0) + 1
    for f, n in expect.items():
        if per_file.get(f, 0) < n:
            raise TranslateError('%s: expected at least %d TLV blocks, found %d' % (f, n, per_file.get(f, 0)))

    # pair hand-written write and read blocks of the same owner type: k-th write with k-th read
    pairs, unpaired = [], []
    by_owner = {}
    for s in schemas:
        if s['macro'] in BLOCK_MACROS and s.get('owner'):
            by_owner.setdefault((s['file'], s['owner']), {'write': [], 'read': []})[s['dir']].append(s)
    untlv = []    # tagged writers whose id the reader matches in an arm that reads no TLV block
    unread = []   # tagged writers (enum-like `id.write(); write_tlv_fields!`) whose id the paired reader never matches
    for (f, owner), d in sorted(by_owner.items()):
        tagged = d['write'] and d['read'] and all(x.get('tag') is not None for x in d['write'] + d['read']) \
            and len(set(x['tag'] for x in d['read'])) == len(d['read']) and (len(d['write']) > 1 or len(d['read']) > 1)
        for k, w in enumerate(d['write']):
            if w['name'] in PAIRS:
                tgt = PAIRS[w['name']]
                if tgt is None:
                    unpaired.append(w['name'])
                elif tgt not in seen:
                    raise TranslateError('PAIRS: read block %s of %s does not exist' % (tgt, w['name']))
                else:
                    pairs.append((w['name'], tgt))
            elif tagged:
                r = [x for x in d['read'] if x['tag'] == w['tag']]
                if r:
                    pairs.append((w['name'], r[0]['name']))
                elif any(w['tag'] in x['arms'] for x in d['read']):
                    untlv.append(w['name'])
                else:
                    unread.append(w['name'])
            elif len(d['write']) == len(d['read']):
                pairs.append((w['name'], d['read'][k]['name']))
            else:
                unpaired.append(w['name'])
    for w, tgt in PAIRS.items():
        if w not in seen:
            raise TranslateError('PAIRS: write block %s does not exist' % w)
        if not seen[w].get('owner'):
            if tgt is None:
                unpaired.append(w)
            elif tgt not in seen:
                raise TranslateError('PAIRS: read block %s of %s does not exist' % (tgt, w))
            else:
                pairs.append((w, tgt))
    for s in schemas:
        if s['macro'] in BLOCK_MACROS and s['dir'] == 'write' and not s.get('owner') and s['name'] not in PAIRS:
            unpaired.append(s['name'])

    # ---- field-level pairing of every resolved writer/reader pair --------------------------------------------
    def last_name(path):
        body = path.split(':', 1)[1]
        return norm_local(body.split('.')[-1]) if body else ''

    field_rows, writer_fields = [], []
    for wn, rn in pairs:
        w, r = seen[wn], seen[rn]
        if any('expr' not in e for e in w['fields']):
            raise TranslateError('%s: writer block without expressions' % wn)
        rt = {}
        for e in r['fields']:
            if r['dir'] == 'both':
                rt[e['type']] = ('field:' + e['expr'], e['expr'])     # declarative reader: the field list IS the struct
            else:
                if 'path' not in e:
                    raise TranslateError('%s: reader block %s has no analysable enclosing fn' % (wn, rn))
                rt[e['type']] = (e['path'], e['expr'])
        pre = WRITER_PREFIX.get(wn)
        wf = []
        for e in w['fields']:
            if 'path' not in e:
                raise TranslateError('%s: writer block has no analysable enclosing fn' % wn)
            wp = e['path']
            if pre and wp.startswith('field:' + pre):
                wp = 'field:' + wp[6 + len(pre):]
            if wp.startswith('field:') and wp != 'field:':
                wf.append((e['type'], wp[6:]))
            if e['type'] not in rt:
                continue
            rp, rexpr = rt[e['type']]
            wk, rk = wp, rp
            if not (wp.startswith('field:') and rp.startswith('field:')) and wp.split(':')[0] in ('field', 'local') and rp.split(':')[0] in ('field', 'local'):
                # one side is not resolvable to a struct field: compare NAMES (modulo _opt, _legacy, …) — the writer's
                # field / local name against the reader's field name and the name of the variable the reader binds
                wnames = [last_name(wp)]
                pw = parse_path(strip_wrappers(e['expr']))
                if pw and len(pw[0]) == 1 and not pw[1]:
                    wnames.append(norm_local(pw[0][0][0]))
                rnames = [last_name(rp), norm_local(rexpr)]
                common = [n for n in wnames if n and n in rnames]
                if common:
                    wk = rk = 'name:' + common[0]
            field_rows.append({'wblock': wn, 'rblock': rn, 'type': e['type'], 'wpath': wp, 'rpath': rp, 'wkey': wk, 'rkey': rk,
                               'wexpr': e['expr'], 'rexpr': rexpr})
        writer_fields.append((wn, wf))
    n_both = sum(1 for x in field_rows if x['wpath'].startswith('field:') and x['rpath'].startswith('field:'))
    if len(field_rows) < 300 or n_both * 2 < len(field_rows):
        raise TranslateError('field pairing: only %d rows / %d resolved to struct fields on both sides (the writers / readers no longer have the expected shape)' % (len(field_rows), n_both))
    def lean_key(k):
        kind, text = k.split(':', 1)
        return '(.%s, %s)' % ({'local': 'loc', 'const': 'const', 'expr': 'expr', 'multi': 'multi', 'field': 'field', 'name': 'name'}[kind], lean_str(text))
    pair_index = {pr: k for k, pr in enumerate(pairs)}
    FL = ['/- GENERATED by tools/gen_tlv_schemas.py from lightning/src/**/*.rs — do not edit.',
          '   Field-level pairing of the hand-written TLV writers and readers: for every (write block, read block) pair and every',
          '   TLV type present on both sides, the struct field the writer takes the value from and the struct field the reader',
          '   initialises from it (syntactic analysis, see the translator).  Key kinds: `.field a.b` = struct field path;',
          '   `.name x` = one side is a computed local, names compared and equal; `.loc` = computed local; `.const` / `.expr` /',
          '   `.multi` = not a single field. -/',
          'import LdkModel.Model.TlvFrame', 'namespace Ldk.TlvFrame.Gen', 'open Ldk.TlvFrame', '',
          '/-- (index of the pair in tlvPairs, write block, read block, TLV type, writer key, reader key) -/',
          'def tlvFieldRows : List FieldRow := [']
    FL.append(',\n'.join('  (%d, %s, %s, %d, %s, %s)' % (pair_index[(x['wblock'], x['rblock'])], lean_str(x['wblock']), lean_str(x['rblock']), x['type'], lean_key(x['wkey']), lean_key(x['rkey'])) for x in field_rows) + ']')
    FL += ['', '/-- per hand-written write block of a pair: (TLV type, struct field path written) for the entries that resolve to a field -/',
           'def tlvWriterFields : List (String × List (Nat × String)) := [']
    FL.append(',\n'.join('  (%s, [%s])' % (lean_str(wn), ', '.join('(%d, %s)' % (t, lean_str(pth)) for t, pth in wf)) for wn, wf in writer_fields) + ']')
    reader_consts = []
    done = set()
    for wn, rn in pairs:
        if rn in done:
            continue
        done.add(rn)
        for pth, lit in seen[rn].get('const_fields', []):
            reader_consts.append((rn, pth, lit))
    FL += ['', '/-- fields of the constructor literal of a paired hand-written reader that are initialised with a CONSTANT (no variable at',
           '    all): (read block, field path, initialiser) — what a write + read resets -/',
           'def tlvReaderConstFields : List (String × String × String) := [']
    FL.append(',\n'.join('  (%s, %s, %s)' % (lean_str(a), lean_str(b), lean_str(c)) for a, b, c in reader_consts) + ']')
    FL += ['', 'end Ldk.TlvFrame.Gen', '']
    fp = os.path.join(os.path.dirname(os.path.abspath(out_path)), 'TlvFieldPairs.lean')
    ft = '\n'.join(FL)
    if not os.path.exists(fp) or open(fp).read() != ft:
        open(fp, 'w').write(ft)

    # ---- enum byte codecs + positional common subsequence ---------------------------------------------------
    codecs, codecs_unpaired = extract_enum_codecs(files)
    positional = extract_positional()
    EL = ['/- GENERATED by tools/gen_tlv_schemas.py from lightning/src/**/*.rs — do not edit.',
          '   Hand-written enum byte codecs (variant -> byte on the write side, byte -> variant on the read side; `?` = the read arm',
          '   names no single variant) and, for the three big positional serializers, the common subsequence of written field',
          '   names and read variable names. -/',
          'namespace Ldk.TlvFrame.Gen', '',
          '/-- (codec, [(variant, byte written)], [(byte, variant read)]) -/',
          'def enumCodecs : List (String × List (String × Nat) × List (Nat × String)) := [']
    EL.append(',\n'.join('  (%s, [%s], [%s])' % (lean_str(c['name']), ', '.join('(%s, %d)' % (lean_str(v), b) for v, b in c['writes']),
                                                 ', '.join('(%d, %s)' % (b, lean_str(v)) for b, v in c['reads'])) for c in codecs) + ']')
    EL += ['', '/-- (object, common subsequence of positional written field names and read variable names) -/',
           'def positionalCommon : List (String × List String) := [']
    EL.append(',\n'.join('  (%s, [%s])' % (lean_str(n), ', '.join(lean_str(x) for x in common)) for n, common, _, _ in positional) + ']')
    EL += ['', 'end Ldk.TlvFrame.Gen', '']
    ep = os.path.join(os.path.dirname(os.path.abspath(out_path)), 'EnumCodecs.lean')
    et = '\n'.join(EL)
    if not os.path.exists(ep) or open(ep).read() != et:
        open(ep, 'w').write(et)

    # version prefixes: write_ver_prefix!(w, VER, MIN) / read_ver_prefix!(r, THIS) with per-file u8 constants
    vers = []
    for p, rel in files:
        cl = clean(open(p).read())
        ws = list(re.finditer(r'\bwrite_ver_prefix!\s*\(\s*\w+\s*,\s*(\w+)\s*,\s*(\w+)\s*\)', cl))
        rs = list(re.finditer(r'\bread_ver_prefix!\s*\(\s*\w+\s*,\s*(\w+)\s*\)', cl))
        if len(ws) != len(re.findall(r'\bwrite_ver_prefix!', cl)) or len(rs) != len(re.findall(r'\bread_ver_prefix!', cl)):
            raise TranslateError('%s: write_ver_prefix!/read_ver_prefix! with an unexpected argument shape' % rel)
        if not ws and not rs:
            continue

        def cv(name):
            if re.fullmatch(r'\d+', name):
                return int(name)
            m = re.search(r'\bconst\s+%s\s*:\s*u8\s*=\s*(\d+)\s*;' % re.escape(name), cl)
            if not m:
                raise TranslateError('%s: version constant %s is not a u8 literal constant of the file' % (rel, name))
            return int(m.group(1))
        if len(ws) != len(rs):
            raise TranslateError('%s: %d write_ver_prefix! vs %d read_ver_prefix!' % (rel, len(ws), len(rs)))
        for k, (w, r) in enumerate(zip(ws, rs)):
            vers.append({'file': rel, 'ordinal': k, 'line_w': cl.count('\n', 0, w.start()) + 1, 'line_r': cl.count('\n', 0, r.start()) + 1,
                         'ver': cv(w.group(1)), 'min': cv(w.group(2)), 'reader': cv(r.group(1))})
    if len(vers) < 5:
        raise TranslateError('expected at least 5 version-prefixed objects, found %d' % len(vers))

    files_with = sorted(set(s['file'] for s in schemas))
    L = ['/- GENERATED by tools/gen_tlv_schemas.py from lightning/src/**/*.rs — do not edit.',
         '   One `FrameSchema` per TLV block (type numbers and kind classes only); regenerated on every check. -/',
         'import LdkModel.Model.TlvFrame', 'namespace Ldk.TlvFrame.Gen', 'open Ldk.TlvFrame', '']
    chunk_names = []
    for f in files_with:
        cname = 'schemas_' + re.sub(r'\W+', '_', f[len(SRC_ROOT) + 1:-3])
        chunk_names.append(cname)
        L.append('/-- %s -/' % f)
        L.append('def %s : List FrameSchema := [' % cname)
        rows = []
        for s in schemas:
            if s['file'] != f:
                continue
            flds = ', '.join('⟨%d, .%s⟩' % (e['type'], e['kind']) for e in s['fields'])
            rows.append('  ⟨%s, %s, %d, %s, .%s, %s, [%s]⟩' % (lean_str(s['name']), lean_str(f[len(SRC_ROOT) + 1:]), s['line'], lean_str(s['macro']),
                                                          s['dir'], 'true' if s['len_prefixed'] else 'false', flds))
        L.append(',\n'.join(rows) + ']')
        L.append('')
    L.append('/-- the per-file chunks (file, schemas) -/')
    L.append('def schemaChunks : List (List FrameSchema) := [' + ', '.join(chunk_names) + ']')
    L.append('')
    L.append('/-- every extracted TLV block -/')
    L.append('def generatedTlvSchemas : List FrameSchema := schemaChunks.flatten')
    L.append('')
    L.append('/-- TLV-based enums: (name, upgradable, struct variant ids, tuple variant ids) -/')
    L.append('def generatedEnums : List (String × Bool × List Nat × List Nat) := [')
    L.append(',\n'.join('  (%s, %s, [%s], [%s])' % (lean_str(e['enum']), 'true' if e['upgradable'] else 'false',
                                                     ', '.join(map(str, e['struct_ids'])), ', '.join(map(str, e['tuple_ids']))) for e in enums) + ']')
    L.append('')
    # indices follow the order of generatedTlvSchemas (chunks in file order, blocks in source order)
    order = [s['name'] for f in files_with for s in schemas if s['file'] == f]
    index = {n: k for k, n in enumerate(order)}
    L.append('/-- hand-written blocks: (write block, its index in generatedTlvSchemas, read block, its index) -/')
    L.append('def tlvPairs : List (String × Nat × String × Nat) := [')
    L.append(',\n'.join('  (%s, %d, %s, %d)' % (lean_str(a), index[a], lean_str(b), index[b]) for a, b in pairs) + ']')
    L.append('')
    L.append('/-- version-prefixed objects: (file#ordinal, version written, min version written, version the reader passes to read_ver_prefix!) -/')
    L.append('def generatedVerPrefixes : List (String × Nat × Nat × Nat) := [')
    L.append(',\n'.join('  (%s, %d, %d, %d)' % (lean_str('%s#%d' % (v['file'][len(SRC_ROOT) + 1:], v['ordinal'])), v['ver'], v['min'], v['reader']) for v in vers) + ']')
    L.append('')
    L.append('end Ldk.TlvFrame.Gen')
    text = '\n'.join(L) + '\n'
    old = open(out_path).read() if os.path.exists(out_path) else None
    if old != text:
        os.makedirs(os.path.dirname(os.path.abspath(out_path)), exist_ok=True)
        open(out_path, 'w').write(text)
    js = {'schemas': [{k: v for k, v in s.items()} for s in schemas], 'enums': enums, 'pairs': pairs, 'unpaired_writers': unpaired, 'unread_writers': unread, 'reader_arm_without_tlv': untlv,
          'skipped': skipped, 'ver_prefixes': vers, 'field_rows': field_rows, 'reader_const_fields': reader_consts, 'enum_codecs': codecs, 'enum_codecs_unpaired': codecs_unpaired,
          'positional': [{'object': n, 'common': c, 'written': a, 'read': b} for n, c, a, b in positional]}
    jp = os.path.join(os.path.dirname(os.path.abspath(out_path)), 'tlv_schemas.json')
    jt = json.dumps(js, indent=1, sort_keys=True) + '\n'
    if not os.path.exists(jp) or open(jp).read() != jt:
        open(jp, 'w').write(jt)
    # line-based copy for the Rust harness (no JSON parser there)
    T = []
    for s in schemas:
        T.append('\t'.join(['block', s['name'], s['file'], s['macro'], s['dir'], '1' if s['len_prefixed'] else '0', s.get('enum_name') or '-',
                            str(s['variant_id']) if 'variant_id' in s else '-', s.get('owner') or '-',
                            str(s['tag']) if s.get('tag') is not None else '-',
                            ','.join('%d:%s' % (e['type'], e['kind']) for e in s['fields']) or '-']))
    for e in enums:
        T.append('\t'.join(['enum', e['enum'], '1' if e['upgradable'] else '0', ','.join(map(str, e['struct_ids'])) or '-',
                            ','.join(map(str, e['tuple_ids'])) or '-']))
    for v in vers:
        T.append('\t'.join(['ver', v['file'], str(v['ordinal']), str(v['ver']), str(v['min']), str(v['reader'])]))
    for k, names in (('unpaired_writer', unpaired), ('unread_writer', unread), ('reader_arm_without_tlv', untlv)):
        for n in names:
            T.append('\t'.join([k, n]))
    tp = os.path.join(os.path.dirname(os.path.abspath(out_path)), 'tlv_schemas.txt')
    tt = '\n'.join(T) + '\n'
    if not os.path.exists(tp) or open(tp).read() != tt:
        open(tp, 'w').write(tt)
    print('gen_tlv_schemas: %d TLV blocks (%d fields) in %d files, %d enums, %d write/read pairs, %d unpaired writers, %d skipped; field pairing: %d rows, %d resolved to struct fields on both sides, %d keys differ'
          % (len(schemas), sum(len(s['fields']) for s in schemas), len(files_with), len(enums), len(pairs), len(unpaired), len(skipped),
             len(field_rows), n_both, sum(1 for x in field_rows if x['wkey'] != x['rkey'])))


if __name__ == '__main__':
    try:
        main(sys.argv[1] if len(sys.argv) > 1 else os.path.join(os.path.dirname(os.path.abspath(__file__)), '..', 'lean', 'LdkModel', 'Generated', 'TlvSchemas.lean'))
    except TranslateError as ex:
        print('TRANSLATE-ERROR gen_tlv_schemas: %s' % ex)
        sys.exit(2)
