#!/usr/bin/env python3
"""Regenerate lean/LdkModel/Generated/TlvSchemas.lean (+ tlv_schemas.json) from /repo's current Rust sources.

Every TLV block of the persisted-object serialization code is extracted as a list of
(type number, kind class):

  * `impl_ser_tlv_based!(Name, { (type, field, kind), … })`, `impl_writeable_tlv_based!(Ty, self, { … })`
  * every struct variant `(id, Variant) => { … }` of `impl_ser_tlv_based_enum!`, `impl_ser_tlv_based_enum_legacy!`,
    `impl_writeable_tlv_based_enum_upgradable!`, `impl_writeable_tlv_based_enum_upgradable_legacy!`
    (plus the list of variant ids of the enum, struct and tuple variants)
  * every hand-written block `write_tlv_fields!` / `read_tlv_fields!` / `_init_and_read_len_prefixed_tlv_fields!`
    / `encode_tlv_stream!` / `decode_tlv_stream!` / `_init_and_read_tlv_stream!` /
    `_encode_varint_length_prefixed_tlv!` / `decode_tlv_stream_with_custom_tlv_decode!`, identified by
    enclosing `impl … for Type` + `fn` + direction + ordinal (`Type.fn.w0`, `Type.fn.r1`)

in ALL non-test source files under lightning/src (ser_macros.rs itself, which only defines the macros,
is excluded).  Only type numbers and kinds are extracted, not field types.  Kind classes
(Model/TlvFrame.lean `FrameKind`):

  required   required | (required: T, a) | (required, explicit_type: T) | required_vec |
             (required_vec, encoding: …) | upgradable_required      -- missing ⇒ InvalidValue
  optional   option | (option, explicit_type: T) | (option: T, a) | (option, encoding: …) | optional_vec |
             upgradable_option                                       -- may be absent
  default    (default_value, e) | (default_value_vec, e)             -- absent ⇒ default
  custom     (custom, T, read, write)                                -- absent ⇒ `$read(None)` (may fail)
  legacy     (legacy, T, read, write)                                -- optional; `$read(opt)` runs at the end (may fail)
  (static_value, e) entries are not part of the stream (`_decode_tlv_stream_match_check!` is `false`,
  nothing is written) and are dropped.

Hand-written write/read blocks of the same `impl … for Type` are paired (k-th write block with k-th
read block of the type; explicit overrides in PAIRS) and emitted as `tlvPairs` — Props/C12 proves that
every type a writer emits is known to the paired reader.

Exit 2 with `TRANSLATE-ERROR …` when an invocation cannot be parsed.  Invocations that are deliberately
not extracted are listed in SKIP with the reason (and emitted in the json as "skipped").
"""
import re, sys, os, json

REPO = os.environ.get('VERIF_REPO', '/repo')
SRC_ROOT = 'lightning/src'
EXCLUDE_FILES = {
    'lightning/src/util/ser_macros.rs': 'defines the macros (and their unit tests)',
}
# file-name patterns of test-only sources
TEST_FILE = re.compile(r'(_tests?\.rs$|/functional_test_utils\.rs$|/test_utils\.rs$|/tests?/|fuzz)')

STRUCT_MACROS = {'impl_ser_tlv_based': 'both', 'impl_writeable_tlv_based': 'write'}
ENUM_MACROS = {'impl_ser_tlv_based_enum', 'impl_ser_tlv_based_enum_legacy',
               'impl_writeable_tlv_based_enum_upgradable', 'impl_writeable_tlv_based_enum_upgradable_legacy'}
BLOCK_MACROS = {
    'write_tlv_fields': 'write', 'encode_tlv_stream': 'write', '_encode_varint_length_prefixed_tlv': 'write',
    '_encode_tlv_stream': 'write',
    'read_tlv_fields': 'read', '_init_and_read_len_prefixed_tlv_fields': 'read', 'decode_tlv_stream': 'read',
    '_init_and_read_tlv_stream': 'read', 'decode_tlv_stream_with_custom_tlv_decode': 'read',
}
# length-prefixed (BigSize length, then the stream) vs bare stream to the end of the reader
LEN_PREFIXED = {'impl_ser_tlv_based', 'impl_writeable_tlv_based', 'write_tlv_fields', '_encode_varint_length_prefixed_tlv',
                'read_tlv_fields', '_init_and_read_len_prefixed_tlv_fields'} | ENUM_MACROS
ALL_MACROS = set(STRUCT_MACROS) | ENUM_MACROS | set(BLOCK_MACROS)

# (file, enclosing, macro) -> reason; invocations that are not extracted
SKIP = {
}

# TLV entries whose type number is computed at run time (entry omitted from the block, block flagged `dynamic`)
DYNAMIC_TYPES = {
    'message.tlv_type()': 'onion message content: the type is chosen by the OnionMessageContents impl',
}

# explicit write-block -> read-block pairing overrides (names as generated); None = deliberately unpaired
PAIRS = {
    'write_chanmon_internal.w0': 'ChannelMonitor.read.r0',
    'ChannelManager.write.w0': 'ChannelManagerData.read.r0',
    'PendingFundingWriteable.write.w0': 'PendingFunding.read.r0',
    'write_claimable_htlc.w0': 'ClaimableHTLC.read.r0',
    'write_legacy_holder_commitment_data.w0': 'HolderSignedTx',   # "Matches the serialization of `HolderSignedTx`"
}

KIND_HEAD = {
    'required': 'required', 'required_vec': 'required', 'upgradable_required': 'required',
    'option': 'optional', 'optional_vec': 'optional', 'upgradable_option': 'optional',
    'default_value': 'default', 'default_value_vec': 'default',
    'custom': 'custom', 'legacy': 'legacy', 'static_value': 'static',
}


class TranslateError(Exception):
    pass


def clean(src):
    """comments and string/char literal contents replaced by spaces (same length, newlines kept)"""
    out = list(src)
    n = len(src)
    i = 0

    def blank(a, b):
        for k in range(a, b):
            if out[k] != '\n':
                out[k] = ' '
    while i < n:
        c = src[i]
        if c == '/' and src.startswith('//', i):
            j = src.find('\n', i)
            j = n if j < 0 else j
            blank(i, j)
            i = j
        elif c == '/' and src.startswith('/*', i):
            d, j = 1, i + 2
            while j < n and d > 0:
                if src.startswith('/*', j):
                    d += 1; j += 2
                elif src.startswith('*/', j):
                    d -= 1; j += 2
                else:
                    j += 1
            blank(i, j)
            i = j
        elif c == 'r' and re.match(r'r#*"', src[i:i + 8]) and (i == 0 or not (src[i - 1].isalnum() or src[i - 1] == '_')):
            m = re.match(r'r(#*)"', src[i:i + 8])
            close = '"' + m.group(1)
            j = src.find(close, i + len(m.group(0)))
            if j < 0:
                raise TranslateError('unterminated raw string')
            blank(i + len(m.group(0)), j)
            i = j + len(close)
        elif c == '"':
            j = i + 1
            while j < n and src[j] != '"':
                if src[j] == '\\':
                    j += 1
                j += 1
            blank(i + 1, j)
            i = j + 1
        elif c == "'":
            m = re.match(r"'(\\u\{[0-9a-fA-F]+\}|\\x[0-9a-fA-F]{2}|\\.|[^\\'])'", src[i:i + 14])
            if m:
                blank(i + 1, i + len(m.group(0)) - 1)
                i += len(m.group(0))
            else:
                i += 1   # lifetime
        else:
            i += 1
    return ''.join(out)


def match_close(s, i):
    """s[i] is an opening bracket; index of its partner"""
    pairs = {'(': ')', '{': '}', '[': ']'}
    op = s[i]
    cl = pairs[op]
    d = 0
    for j in range(i, len(s)):
        if s[j] == op:
            d += 1
        elif s[j] == cl:
            d -= 1
            if d == 0:
                return j
    raise TranslateError('unbalanced %s' % op)


def split_top(s, sep=','):
    """split on `sep` outside (), [], {} (angle brackets are NOT tracked: `<`/`>` also occur as operators;
    callers re-join where needed)"""
    parts, d, cur = [], 0, ''
    for c in s:
        if c in '([{':
            d += 1
        elif c in ')]}':
            d -= 1
        if c == sep and d == 0:
            parts.append(cur)
            cur = ''
        else:
            cur += c
    if cur.strip():
        parts.append(cur)
    return [p.strip() for p in parts if p.strip()]


def first_top_comma(s):
    d = 0
    for k, c in enumerate(s):
        if c in '([{':
            d += 1
        elif c in ')]}':
            d -= 1
        elif c == ',' and d == 0:
            return k
    return -1


def last_top_comma(s):
    d, last = 0, -1
    for k, c in enumerate(s):
        if c in '([{':
            d += 1
        elif c in ')]}':
            d -= 1
        elif c == ',' and d == 0:
            last = k
    return last


class Consts:
    def __init__(self):
        self.cache = {}

    def lookup(self, name, srcs):
        if name in self.cache:
            return self.cache[name]
        for s in srcs:
            m = re.search(r'\bconst\s+%s\s*:\s*u(?:8|16|32|64|size)\s*=\s*([0-9_xa-fA-F]+)\s*;' % re.escape(name), s)
            if m:
                v = int(m.group(1).replace('_', ''), 0)
                self.cache[name] = v
                return v
        return None


CONSTS = Consts()


def parse_type_number(t, where, srcs):
    t = t.strip()
    if re.fullmatch(r'[0-9][0-9_]*', t) or re.fullmatch(r'0x[0-9a-fA-F_]+', t):
        return int(t.replace('_', ''), 0)
    m = re.fullmatch(r'([0-9][0-9_]*)\s*(?:as\s+)?u(?:8|16|32|64)', t)
    if m:
        return int(m.group(1).replace('_', ''))
    if t == '_unused':
        return None
    if re.fullmatch(r'[A-Z][A-Z0-9_]*', t):
        v = CONSTS.lookup(t, srcs)
        if v is not None:
            return v
    raise TranslateError('%s: TLV type %r is not a literal / known constant' % (where, t))


def parse_kind(k, where):
    k = ' '.join(k.split())
    if re.fullmatch(r'\w+', k):
        head = k
    elif k.startswith('(') and k.endswith(')'):
        m = re.match(r'\(\s*(\w+)\s*[,:]', k)
        if not m:
            raise TranslateError('%s: cannot parse TLV kind %r' % (where, k))
        head = m.group(1)
    else:
        raise TranslateError('%s: cannot parse TLV kind %r' % (where, k))
    if head not in KIND_HEAD:
        raise TranslateError('%s: unknown TLV kind %r' % (where, k))
    return KIND_HEAD[head], head


def parse_entries(body, where, srcs):
    """body = text between the braces of a `{ (type, field, kind), … }` list"""
    out = []
    for rec in split_top(body):
        if not (rec.startswith('(') and rec.endswith(')')) or match_close(rec, 0) != len(rec) - 1:
            raise TranslateError('%s: TLV entry %r' % (where, rec[:80]))
        inner = rec[1:-1]
        a = first_top_comma(inner)
        b = last_top_comma(inner)
        if a < 0 or b <= a:
            raise TranslateError('%s: TLV entry %r' % (where, rec[:80]))
        typ_s, field, kind_s = inner[:a], inner[a + 1:b], inner[b + 1:]
        # entries of the `$self` form `(type, field, kind, self)` (internal macros)
        if kind_s.strip() == 'self':
            inner2 = inner[:b]
            b2 = last_top_comma(inner2)
            typ_s, field, kind_s = inner2[:a], inner2[a + 1:b2], inner2[b2 + 1:]
        kind, head = parse_kind(kind_s, where)
        if kind == 'static':
            continue   # the type token of a static_value entry is a placeholder (`_unused`, `not_written`, …)
        if ' '.join(typ_s.split()) in DYNAMIC_TYPES:
            out.append({'dynamic': ' '.join(typ_s.split())})
            continue
        typ = parse_type_number(typ_s, where, srcs)
        if typ is None:
            raise TranslateError('%s: `_unused` type on a non-static entry %r' % (where, rec[:80]))
        out.append({'type': typ, 'kind': kind, 'rust_kind': head, 'field': ' '.join(field.split())[:60]})
    return out


def scopes(cl):
    """for every `{` of the cleaned text: (open index, close index, header text)"""
    out = []
    stack = []
    last_break = 0
    for i, c in enumerate(cl):
        if c == '{':
            j, d = i - 1, 0
            while j >= 0:
                ch = cl[j]
                if ch in ')]':
                    d += 1
                elif ch in '([':
                    d -= 1
                elif ch in '{}' or (ch == ';' and d <= 0):
                    break
                j -= 1
            stack.append((i, ' '.join(cl[j + 1:i].split())))
        elif c == '}':
            if not stack:
                raise TranslateError('unbalanced }')
            o, h = stack.pop()
            out.append((o, i, h))
    if stack:
        raise TranslateError('unbalanced {')
    return out


def enclosing(sc, pos):
    """headers of the brace scopes around pos, innermost first"""
    enc = [(o, c, h) for (o, c, h) in sc if o < pos < c]
    enc.sort(key=lambda x: -x[0])
    return enc


def impl_type(header):
    m = re.search(r'\bimpl\b', header)
    if not m:
        return None
    rest = header[m.end():]
    # drop the generic parameter list `<…>` right after impl
    rest = rest.lstrip()
    if rest.startswith('<'):
        d = 0
        for k, c in enumerate(rest):
            if c == '<':
                d += 1
            elif c == '>' and rest[k - 1] != '-':
                d -= 1
                if d == 0:
                    rest = rest[k + 1:]
                    break
    rest = re.split(r'\bwhere\b', rest)[0]
    mm = re.search(r'\bfor\s+(.+)$', rest)
    ty = mm.group(1) if mm else rest
    ty = ty.strip()
    ty = re.sub(r'^&?\s*(?:\'\w+\s+)?(?:mut\s+)?', '', ty)
    if ty.startswith('Option<') and ty.endswith('>'):
        ty = ty[len('Option<'):-1].strip()
    if ty.startswith('('):
        # `(BlockLocator, ChannelMonitor<SP::EcdsaSigner>)`, `(ClaimableHTLC, u64)`: the last tuple component that is a
        # CamelCase type name (generic arguments dropped)
        t = ty
        while re.search(r'<[^<>]*>', t):
            t = re.sub(r'<[^<>]*>', '', t)
        ids = [x.strip().split('::')[-1] for x in t.strip('()').split(',')]
        ids = [x for x in ids if re.fullmatch(r'[A-Z][a-z]\w*', x)]
        return ids[-1] if ids else None
    name = re.match(r'(?:[\w]+::)*(\w+)', ty)
    return name.group(1) if name else None


def extract_file(path, rel, all_srcs):
    src = open(path).read()
    cl = clean(src)
    sc = scopes(cl)
    found = []
    counters = {}
    for m in re.finditer(r'(?<![\w!])((?:\$?crate::)?)(\w+)!\s*\(', cl):
        name = m.group(2)
        if name not in ALL_MACROS:
            continue
        line = cl.count('\n', 0, m.start()) + 1
        enc = enclosing(sc, m.start())
        headers = [h for _, _, h in enc]
        if any(re.search(r'\bmacro_rules!\s*\w*$|\bmacro_rules\b', h) for h in headers):
            found.append({'skip': True, 'file': rel, 'line': line, 'macro': name, 'reason': 'inside a local macro_rules! definition (types are macro parameters)'})
            continue
        if any(re.search(r'\bmod\s+(tests?|\w+_tests?|bench\w*|fuzzy\w*)\b', h) for h in headers) or any('#[test]' in h or 'cfg(test)' in h for h in headers):
            continue
        close = match_close(cl, m.end() - 1)
        inner = cl[m.end():close]
        fn = next((re.search(r'\bfn\s+(\w+)', h).group(1) for h in headers if re.search(r'\bfn\s+(\w+)', h)), None)
        ty = next((impl_type(h) for h in headers if re.search(r'\bimpl\b', h) and impl_type(h)), None)
        key = (rel, '%s.%s' % (ty, fn), name)
        where = '%s:%d %s! [skip key %r]' % (rel, line, name, key)
        if key in SKIP:
            found.append({'skip': True, 'file': rel, 'line': line, 'macro': name, 'reason': SKIP[key]})
            continue
        srcs = [cl] + all_srcs
        if name in STRUCT_MACROS:
            parts = split_top(inner)
            # impl_ser_tlv_based!(Name, {…}) / impl_writeable_tlv_based!(Ty, self, {…})
            if name == 'impl_ser_tlv_based':
                ok = len(parts) == 2 and re.fullmatch(r'[\w:]+', parts[0]) and parts[1].startswith('{')
            else:
                ok = len(parts) == 3 and parts[1] == 'self' and parts[2].startswith('{')
            if not ok:
                raise TranslateError('%s: unexpected shape %r' % (where, inner[:80]))
            sname = re.sub(r'<.*$', '', parts[0]).split('::')[-1].strip()
            body = parts[-1]
            if match_close(body, 0) != len(body) - 1:
                raise TranslateError('%s: unexpected shape' % where)
            found.append({'name': sname, 'file': rel, 'line': line, 'macro': name, 'dir': STRUCT_MACROS[name],
                          'len_prefixed': True, 'fields': parse_entries(body[1:-1], where, srcs)})
        elif name in ENUM_MACROS:
            found += parse_enum(name, inner, rel, line, where, srcs)
        else:
            # hand-written block: (stream, {entries} [, extra])
            k = inner.find('{')
            if k < 0:
                raise TranslateError('%s: no field list' % where)
            e = match_close(inner, k)
            direction = BLOCK_MACROS[name]
            scope = '%s.%s' % (ty, fn) if ty else (fn or 'toplevel')
            ck = (scope, direction)
            n = counters.get(ck, 0)
            counters[ck] = n + 1
            tag, arms = None, []
            fscope = next(((o, c) for (o, c, h) in enc if re.search(r'\bfn\s+\w+', h)), None)
            if fscope:
                before = cl[fscope[0]:m.start()]
                if direction == 'write':
                    tm = list(re.finditer(r'\b(\d+)u8\s*\.write\(|\b([A-Z][A-Z0-9_]*)\.write\(\w+\)\?', before))
                    if tm:
                        g = tm[-1]
                        if g.group(1):
                            tag = int(g.group(1))
                        else:
                            cm = re.search(r'\bconst\s+%s\s*:\s*u8\s*=\s*(\d+)\s*;' % g.group(2), before)
                            tag = int(cm.group(1)) if cm else None
                else:
                    tm = list(re.finditer(r'(?<![\w.])(\d+)(?:u8)?\s*=>', before))
                    if tm:
                        tag = int(tm[-1].group(1))
                    arms = sorted(set(int(x.group(1)) for x in re.finditer(r'(?<![\w.])(\d+)(?:u8)?\s*=>', cl[fscope[0]:fscope[1]])))
            found.append({'name': '%s.%s%d' % (scope, 'w' if direction == 'write' else 'r', n), 'file': rel, 'line': line, 'tag': tag, 'arms': arms,
                          'macro': name, 'dir': direction, 'len_prefixed': name in LEN_PREFIXED, 'owner': ty, 'fn': fn,
                          'fields': parse_entries(inner[k + 1:e], where, srcs)})
    return found


def parse_enum(name, inner, rel, line, where, srcs):
    """sequential scan: `Name,` then `(id, V) => {…}` | `(id, T)` | `{id, T} => ()` | `unread_variants: A, B`,
    separated by optional `,` / `;`"""
    m = re.match(r'\s*(\w+)\s*,', inner)
    if not m:
        raise TranslateError('%s: enum name' % where)
    ename = m.group(1)
    i = m.end()
    n = len(inner)
    out, struct_ids, tuple_ids, unread = [], [], [], []
    while True:
        while i < n and (inner[i].isspace() or inner[i] in ',;'):
            i += 1
        if i >= n:
            break
        if inner[i] == '(':
            c = match_close(inner, i)
            mm = re.fullmatch(r'\(\s*([0-9_]+)\s*,\s*(\w+)\s*\)', inner[i:c + 1], re.S)
            if not mm:
                raise TranslateError('%s: cannot parse variant head %r' % (where, inner[i:c + 1][:60]))
            vid, vname = int(mm.group(1).replace('_', '')), mm.group(2)
            j = c + 1
            ma = re.match(r'\s*=>\s*\{', inner[j:])
            if ma:
                o = j + ma.end() - 1
                e = match_close(inner, o)
                struct_ids.append(vid)
                out.append({'name': '%s.%s' % (ename, vname), 'file': rel, 'line': line + inner.count('\n', 0, i), 'macro': name, 'dir': 'both',
                            'len_prefixed': True, 'variant_id': vid, 'enum_name': ename,
                            'fields': parse_entries(inner[o + 1:e], '%s %s::%s' % (where, ename, vname), srcs)})
                i = e + 1
            else:
                tuple_ids.append(vid)
                i = j
        elif inner[i] == '{':
            c = match_close(inner, i)
            mm = re.fullmatch(r'\{\s*([0-9_]+)\s*,\s*(\w+)\s*\}', inner[i:c + 1], re.S)
            ma = re.match(r'\s*=>\s*\(\s*\)', inner[c + 1:])
            if not mm or not ma:
                raise TranslateError('%s: cannot parse tuple variant %r' % (where, inner[i:c + 12][:60]))
            tuple_ids.append(int(mm.group(1).replace('_', '')))
            i = c + 1 + ma.end()
        else:
            mm = re.match(r'unread_variants\s*:\s*((?:\w+\s*,?\s*)+)$', inner[i:])
            if not mm:
                raise TranslateError('%s: cannot parse enum item %r' % (where, inner[i:i + 60]))
            unread = [x for x in re.split(r'[\s,]+', mm.group(1)) if x]
            break
    out.append({'enum': ename, 'file': rel, 'line': line, 'macro': name, 'struct_ids': struct_ids, 'tuple_ids': tuple_ids,
                'unread': unread, 'upgradable': 'upgradable' in name})
    return out


def lean_str(s):
    return '"' + s.replace('\\', '\\\\').replace('"', '\\"') + '"'


def main(out_path):
    root = os.path.join(REPO, SRC_ROOT)
    if not os.path.isdir(root):
        raise TranslateError('missing ' + root)
    files = []
    for d, _, fs in os.walk(root):
        for f in sorted(fs):
            if f.endswith('.rs'):
                p = os.path.join(d, f)
                rel = os.path.relpath(p, REPO)
                if rel in EXCLUDE_FILES or TEST_FILE.search(rel):
                    continue
                files.append((p, rel))
    files.sort(key=lambda x: x[1])
    # constants used as TLV types may live in another file
    const_srcs = []
    schemas, enums, skipped = [], [], []
    for p, rel in files:
        try:
            for x in extract_file(p, rel, const_srcs):
                if x.get('skip'):
                    skipped.append(x)
                elif 'enum' in x:
                    enums.append(x)
                else:
                    schemas.append(x)
        except TranslateError as ex:
            raise TranslateError('%s: %s' % (rel, ex))
    for s in schemas:
        s['dynamic'] = [e['dynamic'] for e in s['fields'] if 'dynamic' in e]
        s['fields'] = [e for e in s['fields'] if 'dynamic' not in e]
    # unique names
    seen = {}
    for s in schemas:
        base = s['name']
        if base in seen:
            stem = os.path.basename(s['file'])[:-3]
            s['name'] = '%s@%s' % (base, stem)
            k = 2
            while s['name'] in seen:
                s['name'] = '%s@%s%d' % (base, stem, k)
                k += 1
        seen[s['name']] = s
    # the anchored persisted-object files must be present with at least these many blocks (shape guard)
    expect = {'lightning/src/chain/channelmonitor.rs': 8, 'lightning/src/ln/channel.rs': 4, 'lightning/src/ln/channelmanager.rs': 10,
              'lightning/src/chain/onchaintx.rs': 2, 'lightning/src/chain/package.rs': 5, 'lightning/src/routing/gossip.rs': 6,
              'lightning/src/routing/scoring.rs': 3, 'lightning/src/util/sweep.rs': 2, 'lightning/src/events/mod.rs': 20,
              }
    per_file = {}
    for s in schemas:
        per_file[s['file']] = per_file.get(s['file'], 0) + 1
    for f, n in expect.items():
        if per_file.get(f, 0) < n:
            raise TranslateError('%s: expected at least %d TLV blocks, found %d' % (f, n, per_file.get(f, 0)))

    # pair hand-written write and read blocks of the same owner type: k-th write with k-th read
    pairs, unpaired = [], []
    by_owner = {}
    for s in schemas:
        if s['macro'] in BLOCK_MACROS and s.get('owner'):
            by_owner.setdefault((s['file'], s['owner']), {'write': [], 'read': []})[s['dir']].append(s)
    untlv = []    # tagged writers whose id the reader matches in an arm that reads no TLV block
    unread = []   # tagged writers (enum-like `id.write(); write_tlv_fields!`) whose id the paired reader never matches
    for (f, owner), d in sorted(by_owner.items()):
        tagged = d['write'] and d['read'] and all(x.get('tag') is not None for x in d['write'] + d['read']) \
            and len(set(x['tag'] for x in d['read'])) == len(d['read']) and (len(d['write']) > 1 or len(d['read']) > 1)
        for k, w in enumerate(d['write']):
            if w['name'] in PAIRS:
                tgt = PAIRS[w['name']]
                if tgt is None:
                    unpaired.append(w['name'])
                elif tgt not in seen:
                    raise TranslateError('PAIRS: read block %s of %s does not exist' % (tgt, w['name']))
                else:
                    pairs.append((w['name'], tgt))
            elif tagged:
                r = [x for x in d['read'] if x['tag'] == w['tag']]
                if r:
                    pairs.append((w['name'], r[0]['name']))
                elif any(w['tag'] in x['arms'] for x in d['read']):
                    untlv.append(w['name'])
                else:
                    unread.append(w['name'])
            elif len(d['write']) == len(d['read']):
                pairs.append((w['name'], d['read'][k]['name']))
            else:
                unpaired.append(w['name'])
    for w, tgt in PAIRS.items():
        if w not in seen:
            raise TranslateError('PAIRS: write block %s does not exist' % w)
        if not seen[w].get('owner'):
            if tgt is None:
                unpaired.append(w)
            elif tgt not in seen:
                raise TranslateError('PAIRS: read block %s of %s does not exist' % (tgt, w))
            else:
                pairs.append((w, tgt))
    for s in schemas:
        if s['macro'] in BLOCK_MACROS and s['dir'] == 'write' and not s.get('owner') and s['name'] not in PAIRS:
            unpaired.append(s['name'])

    # version prefixes: write_ver_prefix!(w, VER, MIN) / read_ver_prefix!(r, THIS) with per-file u8 constants
    vers = []
    for p, rel in files:
        cl = clean(open(p).read())
        ws = list(re.finditer(r'\bwrite_ver_prefix!\s*\(\s*\w+\s*,\s*(\w+)\s*,\s*(\w+)\s*\)', cl))
        rs = list(re.finditer(r'\bread_ver_prefix!\s*\(\s*\w+\s*,\s*(\w+)\s*\)', cl))
        if len(ws) != len(re.findall(r'\bwrite_ver_prefix!', cl)) or len(rs) != len(re.findall(r'\bread_ver_prefix!', cl)):
            raise TranslateError('%s: write_ver_prefix!/read_ver_prefix! with an unexpected argument shape' % rel)
        if not ws and not rs:
            continue

        def cv(name):
            if re.fullmatch(r'\d+', name):
                return int(name)
            m = re.search(r'\bconst\s+%s\s*:\s*u8\s*=\s*(\d+)\s*;' % re.escape(name), cl)
            if not m:
                raise TranslateError('%s: version constant %s is not a u8 literal constant of the file' % (rel, name))
            return int(m.group(1))
        if len(ws) != len(rs):
            raise TranslateError('%s: %d write_ver_prefix! vs %d read_ver_prefix!' % (rel, len(ws), len(rs)))
        for k, (w, r) in enumerate(zip(ws, rs)):
            vers.append({'file': rel, 'ordinal': k, 'line_w': cl.count('\n', 0, w.start()) + 1, 'line_r': cl.count('\n', 0, r.start()) + 1,
                         'ver': cv(w.group(1)), 'min': cv(w.group(2)), 'reader': cv(r.group(1))})
    if len(vers) < 5:
        raise TranslateError('expected at least 5 version-prefixed objects, found %d' % len(vers))

    files_with = sorted(set(s['file'] for s in schemas))
    L = ['/- GENERATED by tools/gen_tlv_schemas.py from lightning/src/**/*.rs — do not edit.',
         '   One `FrameSchema` per TLV block (type numbers and kind classes only); regenerated on every check. -/',
         'import LdkModel.Model.TlvFrame', 'namespace Ldk.TlvFrame.Gen', 'open Ldk.TlvFrame', '']
    chunk_names = []
    for f in files_with:
        cname = 'schemas_' + re.sub(r'\W+', '_', f[len(SRC_ROOT) + 1:-3])
        chunk_names.append(cname)
        L.append('/-- %s -/' % f)
        L.append('def %s : List FrameSchema := [' % cname)
        rows = []
        for s in schemas:
            if s['file'] != f:
                continue
            flds = ', '.join('⟨%d, .%s⟩' % (e['type'], e['kind']) for e in s['fields'])
            rows.append('  ⟨%s, %s, %d, %s, .%s, %s, [%s]⟩' % (lean_str(s['name']), lean_str(f[len(SRC_ROOT) + 1:]), s['line'], lean_str(s['macro']),
                                                          s['dir'], 'true' if s['len_prefixed'] else 'false', flds))
        L.append(',\n'.join(rows) + ']')
        L.append('')
    L.append('/-- the per-file chunks (file, schemas) -/')
    L.append('def schemaChunks : List (List FrameSchema) := [' + ', '.join(chunk_names) + ']')
    L.append('')
    L.append('/-- every extracted TLV block -/')
    L.append('def generatedTlvSchemas : List FrameSchema := schemaChunks.flatten')
    L.append('')
    L.append('/-- TLV-based enums: (name, upgradable, struct variant ids, tuple variant ids) -/')
    L.append('def generatedEnums : List (String × Bool × List Nat × List Nat) := [')
    L.append(',\n'.join('  (%s, %s, [%s], [%s])' % (lean_str(e['enum']), 'true' if e['upgradable'] else 'false',
                                                     ', '.join(map(str, e['struct_ids'])), ', '.join(map(str, e['tuple_ids']))) for e in enums) + ']')
    L.append('')
    # indices follow the order of generatedTlvSchemas (chunks in file order, blocks in source order)
    order = [s['name'] for f in files_with for s in schemas if s['file'] == f]
    index = {n: k for k, n in enumerate(order)}
    L.append('/-- hand-written blocks: (write block, its index in generatedTlvSchemas, read block, its index) -/')
    L.append('def tlvPairs : List (String × Nat × String × Nat) := [')
    L.append(',\n'.join('  (%s, %d, %s, %d)' % (lean_str(a), index[a], lean_str(b), index[b]) for a, b in pairs) + ']')
    L.append('')
    L.append('/-- version-prefixed objects: (file#ordinal, version written, min version written, version the reader passes to read_ver_prefix!) -/')
    L.append('def generatedVerPrefixes : List (String × Nat × Nat × Nat) := [')
    L.append(',\n'.join('  (%s, %d, %d, %d)' % (lean_str('%s#%d' % (v['file'][len(SRC_ROOT) + 1:], v['ordinal'])), v['ver'], v['min'], v['reader']) for v in vers) + ']')
    L.append('')
    L.append('end Ldk.TlvFrame.Gen')
    text = '\n'.join(L) + '\n'
    old = open(out_path).read() if os.path.exists(out_path) else None
    if old != text:
        os.makedirs(os.path.dirname(os.path.abspath(out_path)), exist_ok=True)
        open(out_path, 'w').write(text)
    js = {'schemas': [{k: v for k, v in s.items()} for s in schemas], 'enums': enums, 'pairs': pairs, 'unpaired_writers': unpaired, 'unread_writers': unread, 'reader_arm_without_tlv': untlv,
          'skipped': skipped, 'ver_prefixes': vers}
    jp = os.path.join(os.path.dirname(os.path.abspath(out_path)), 'tlv_schemas.json')
    jt = json.dumps(js, indent=1, sort_keys=True) + '\n'
    if not os.path.exists(jp) or open(jp).read() != jt:
        open(jp, 'w').write(jt)
    # line-based copy for the Rust harness (no JSON parser there)
    T = []
    for s in schemas:
        T.append('\t'.join(['block', s['name'], s['file'], s['macro'], s['dir'], '1' if s['len_prefixed'] else '0', s.get('enum_name') or '-',
                            str(s['variant_id']) if 'variant_id' in s else '-', s.get('owner') or '-',
                            str(s['tag']) if s.get('tag') is not None else '-',
                            ','.join('%d:%s' % (e['type'], e['kind']) for e in s['fields']) or '-']))
    for e in enums:
        T.append('\t'.join(['enum', e['enum'], '1' if e['upgradable'] else '0', ','.join(map(str, e['struct_ids'])) or '-',
                            ','.join(map(str, e['tuple_ids'])) or '-']))
    for v in vers:
        T.append('\t'.join(['ver', v['file'], str(v['ordinal']), str(v['ver']), str(v['min']), str(v['reader'])]))
    for k, names in (('unpaired_writer', unpaired), ('unread_writer', unread), ('reader_arm_without_tlv', untlv)):
        for n in names:
            T.append('\t'.join([k, n]))
    tp = os.path.join(os.path.dirname(os.path.abspath(out_path)), 'tlv_schemas.txt')
    tt = '\n'.join(T) + '\n'
    if not os.path.exists(tp) or open(tp).read() != tt:
        open(tp, 'w').write(tt)
    print('gen_tlv_schemas: %d TLV blocks (%d fields) in %d files, %d enums, %d write/read pairs, %d unpaired writers, %d skipped'
          % (len(schemas), sum(len(s['fields']) for s in schemas), len(files_with), len(enums), len(pairs), len(unpaired), len(skipped)))


if __name__ == '__main__':
    try:
        main(sys.argv[1] if len(sys.argv) > 1 else os.path.join(os.path.dirname(os.path.abspath(__file__)), '..', 'lean', 'LdkModel', 'Generated', 'TlvSchemas.lean'))
    except TranslateError as ex:
        print('TRANSLATE-ERROR gen_tlv_schemas: %s' % ex)
        sys.exit(2)
