#!/usr/bin/env python3
"""Regenerate lean/LdkModel/Generated/ChainClaim.lean (C02): how `ChannelMonitorImpl::is_resolving_htlc_output`
(lightning/src/chain/channelmonitor.rs) turns an on-chain PREIMAGE spend of one of our outbound HTLC outputs into a
`MonitorEvent::HTLCEvent` for the HTLC's *source* (the inbound HTLC the forwarding node must then claim), translated from
the source that exists in /repo *now*:

  * the de-duplication test against `pending_monitor_events` of BOTH arms (`accepted_preimage_claim`: the counterparty's
    HTLC-Success on its own commitment; `offered_preimage_claim`: the counterparty's preimage spend of our commitment) is
    TRANSLATED (the body of the `if let &MonitorEvent::HTLCEvent(ref upd) = update { <key> } else { false }` closure);
  * what each arm then records (`HTLCSpendConfirmation`, `counterparty_fulfilled_htlcs.insert(SentHTLCId::from_source(&source), ..)`,
    the pushed `HTLCUpdate { source, payment_preimage: Some(..), payment_hash, htlc_value_satoshis: amount_msat / 1000 }`) is
    pinned textually, the value expression is translated;
  * `scan_commitment!`'s match of the spent outpoint to ONE HTLC (`Some(input.previous_output.vout) ==
    htlc_output.transaction_output_index`) and the `payment_data` it yields are pinned textually.

TRANSLATE-ERROR (exit 2) when the shape is not the expected one.
"""
import re, sys, os
sys.path.insert(0, os.path.dirname(__file__))
from rs2lean import parse_expr, Emitter, TranslateError, strip_comments, match_brace

REPO = os.environ.get('VERIF_REPO', '/repo')
def norm(s): return ' '.join(s.split())

ARM = re.compile(
    r"if !self\.pending_monitor_events\.iter\(\)\.any\( \|update\| if let &MonitorEvent::HTLCEvent\(ref upd\) = update \{ (?P<key>[^{}]*?) \} else \{ false \}\) \{ (?P<body>.*)$")

def arm_parts(text, what):
    """text: normalised source starting at `if !self.pending_monitor_events...`; returns (key, body-of-the-if)"""
    m = ARM.match(text)
    if not m: raise TranslateError("is_resolving_htlc_output: the %s arm does not start with the pending_monitor_events de-duplication test" % what)
    # the `{` opening the body is the last char before group 'body'
    open_at = m.start('body') - 2
    end = match_brace(text, open_at)
    return m.group('key').strip(), norm(text[open_at:end]), text[end:].strip()

def main(out_path):
    src = open(os.path.join(REPO, 'lightning/src/chain/channelmonitor.rs')).read()
    m = re.search(r'\bfn is_resolving_htlc_output<L: Logger>\(\s*&mut self, tx: &Transaction, height: u32, block_hash: &BlockHash, logger: &WithContext<L>,?\s*\) \{', src)
    if not m: raise TranslateError("ChannelMonitorImpl::is_resolving_htlc_output not found")
    body = norm(strip_comments(src[m.end() - 1: match_brace(src, m.end() - 1)]))
    # ---- scan_commitment!: one spent outpoint -> one HTLC with its own source ------------------------------------
    for frag, what in [
        ("for (ref htlc_output, source_option) in $htlcs { if Some(input.previous_output.vout) == htlc_output.transaction_output_index { if let Some(ref source) = source_option {",
         "scan_commitment!: the spent output index selects the HTLC"),
        ("payment_data = Some(((*source).clone(), htlc_output.payment_hash, htlc_output.amount_msat));", "scan_commitment!: payment_data = (source, payment_hash, amount_msat) of that HTLC"),
        ("let accepted_preimage_claim = htlc_claim == Some(HTLCClaim::AcceptedPreimage);", "accepted_preimage_claim"),
        ("let offered_preimage_claim = htlc_claim == Some(HTLCClaim::OfferedPreimage);", "offered_preimage_claim"),
        ("'outer_loop: for input in &tx.input {", "one pass per input"),
    ]:
        if frag not in body: raise TranslateError("is_resolving_htlc_output: %s — expected fragment missing" % what)
    # ---- the tail: what is done with payment_data ---------------------------------------------------------------
    k = body.find("if let Some((source, payment_hash, amount_msat)) = payment_data {")
    if k < 0: raise TranslateError("is_resolving_htlc_output: `if let Some((source, payment_hash, amount_msat)) = payment_data` not found")
    open_at = body.index('{', k)
    tail = body[open_at + 1: match_brace(body, open_at) - 1].strip()
    if not tail.startswith("if accepted_preimage_claim {"): raise TranslateError("is_resolving_htlc_output: tail does not start with `if accepted_preimage_claim`")
    a_open = tail.index('{')
    a_end = match_brace(tail, a_open)
    acc = tail[a_open + 1: a_end - 1].strip()
    rest = tail[a_end:].strip()
    if not rest.startswith("else if offered_preimage_claim {"): raise TranslateError("is_resolving_htlc_output: no `else if offered_preimage_claim` arm")
    o_open = rest.index('{')
    o_end = match_brace(rest, o_open)
    off = rest[o_open + 1: o_end - 1].strip()
    if not rest[o_end:].strip().startswith("else {"): raise TranslateError("is_resolving_htlc_output: no timeout (`else`) arm")
    keys = {}
    for name, text in (('accepted', acc), ('offered', off)):
        key, blk, after = arm_parts(text, name + '_preimage_claim')
        if after: raise TranslateError("is_resolving_htlc_output: statements after the de-duplicated block of the %s arm: %r" % (name, after[:60]))
        # what the arm records (order of struct fields differs between the arms: compare as sets of statements)
        for frag in ["self.onchain_events_awaiting_threshold_conf.push(OnchainEventEntry {",
                     "event: OnchainEvent::HTLCSpendConfirmation { commitment_tx_output_idx: input.previous_output.vout, preimage: Some(payment_preimage), on_to_local_output_csv: None, },",
                     "self.counterparty_fulfilled_htlcs.insert(SentHTLCId::from_source(&source), payment_preimage);",
                     "self.pending_monitor_events.push(MonitorEvent::HTLCEvent(HTLCUpdate { source, payment_preimage: Some(payment_preimage), payment_hash, htlc_value_satoshis: amount_msat / 1000, }));"]:
            if frag not in blk: raise TranslateError("is_resolving_htlc_output: %s arm no longer contains `%s`" % (name, frag[:70]))
        if blk.count(';') != 3: raise TranslateError("is_resolving_htlc_output: %s arm has %d statements, expected 3" % (name, blk.count(';')))
        try:
            lean = Emitter(env={'upd': 'upd', 'source': 'source', 'payment_hash': 'payment_hash', 'amount_msat': 'amount_msat'}).e(parse_expr(key))
        except TranslateError as ex:
            raise TranslateError("is_resolving_htlc_output: cannot translate the de-duplication key `%s` of the %s arm: %s" % (key, name, ex))
        keys[name] = (key, lean)
    val = Emitter(env={'amount_msat': 'amount_msat'}).e(parse_expr('amount_msat / 1000'))

    L = ['/- GENERATED by tools/gen_chainclaim.py from lightning/src/chain/channelmonitor.rs — do not edit. -/',
         'namespace Ldk.ChainClaimGen', '',
         '/-- `HTLCUpdate` as queued in `pending_monitor_events` (`source` = identity of the HTLC, i.e. of the inbound HTLC to resolve) -/',
         'structure HtlcEv where', '  source : Nat', '  payment_hash : Nat', '  preimage : Option Nat', '  htlc_value_satoshis : Nat', '  deriving DecidableEq, Repr', '']
    for name in ('accepted', 'offered'):
        key, lean = keys[name]
        L += ['/-- is_resolving_htlc_output, `%s_preimage_claim` arm: an already queued `MonitorEvent::HTLCEvent(upd)` makes the claim a' % name,
              '    duplicate iff (translated) `%s` -/' % key,
              'def %sPreimageDup (upd : HtlcEv) (source payment_hash amount_msat : Nat) : Bool :=' % name, '  ' + lean, '']
    L += ['/-- `htlc_value_satoshis` of the queued event (translated) -/', 'def eventValueSat (amount_msat : Nat) : Nat :=', '  ' + val, '',
          'end Ldk.ChainClaimGen']
    text = '\n'.join(L) + '\n'
    old = open(out_path).read() if os.path.exists(out_path) else None
    if old != text: open(out_path, 'w').write(text)

if __name__ == '__main__':
    try:
        main(sys.argv[1] if len(sys.argv) > 1 else os.path.join(os.path.dirname(__file__), '..', 'lean', 'LdkModel', 'Generated', 'ChainClaim.lean'))
    except TranslateError as ex:
        print("TRANSLATE-ERROR gen_chainclaim: %s" % ex)
        sys.exit(2)
