#!/usr/bin/env python3
"""Regenerate lean/LdkModel/Generated/OnionBlame.lean (C14): the sender's BLAME POLICY — what process_onion_failure_inner
concludes from an authenticated failure code, translated from the Rust text that exists in /repo now:

  * the flag constants BADONION / PERM / NODE / UPDATE, the predicates is_temporary / is_permanent / is_badonion / is_node
    (`self.failure_code() & F == F`) and is_recipient_failure (the "only the final node may send" list; variants are resolved
    to their numeric code through failure_code(), and must be in the From<u16> list so that `*self == Variant` is a
    statement about the received code);
  * `let payment_failed = …;`, the if / else-if chain on the code (BADONION, NODE, PERM, UPDATE, payment_failed, else) with
    the NetworkUpdate / short_channel_id each branch yields, the `FinalIncorrectCLTVExpiry | FinalIncorrectHTLCAmount` arm,
    and `payment_failed_permanently: …` of the FailureLearnings, condition by condition.

Conditions are conjunctions / negations of a small vocabulary; anything else is a TRANSLATE-ERROR (exit 2).
"""
import re, sys, os
sys.path.insert(0, os.path.dirname(__file__))
from rs2lean import TranslateError, strip_comments, find_fn

REPO = os.environ.get('VERIF_REPO', '/repo')
def rd(p): return open(os.path.join(REPO, p)).read()

def norm(s):
    s = ' '.join(strip_comments(s).split())
    s = re.sub(r',\s*\)', ')', s); s = re.sub(r',\s*\}', ' }', s)
    s = re.sub(r'\(\s+', '(', s); s = re.sub(r'\s+\)', ')', s)
    s = re.sub(r'\s+\.(?=[a-z_])', '.', s)
    return s

ATOMS = {'error_code.is_recipient_failure()': 'isRecipientFailure c', 'error_code.is_permanent()': 'isPermanent c',
         'error_code.is_badonion()': 'isBadonion c', 'error_code.is_node()': 'isNode c', 'error_code.is_temporary()': 'isTemporary c',
         'is_from_final_non_blinded_node': 'is_final', 'payment_failed': 'payment_failed', 'true': 'true', 'false': 'false'}

def cond(e, what):
    """`a && !b && c` over the vocabulary -> Lean Bool term"""
    out = []
    for t in e.split('&&'):
        t = t.strip(); neg = t.startswith('!'); t = t.lstrip('!').strip()
        if t not in ATOMS: raise TranslateError("%s: unknown condition `%s`" % (what, t))
        out.append(('!' if neg else '') + ('(%s)' % ATOMS[t] if ' ' in ATOMS[t] else ATOMS[t]))
    return ' && '.join(out)

def main(out_path):
    ou = rd('lightning/src/ln/onion_utils.rs'); src = norm(ou)
    consts = {}
    for name in ('BADONION', 'PERM', 'NODE', 'UPDATE'):
        m = re.search(r'const %s: u16 = (0x[0-9a-fA-F]+|\d+);' % name, ou)
        if not m: raise TranslateError("const %s not found" % name)
        consts[name] = int(m.group(1), 0)
    preds = {}
    for fn, lean in (('is_temporary', 'isTemporary'), ('is_permanent', 'isPermanent'), ('is_badonion', 'isBadonion'), ('is_node', 'isNode')):
        m = re.search(r'fn %s\(&self\) -> bool \{ self\.failure_code\(\) & ([A-Z]+) == ([A-Z]+) \}' % fn, src)
        if not m or m.group(1) != m.group(2) or m.group(1) not in consts: raise TranslateError("fn %s is not `self.failure_code() & F == F`" % fn)
        preds[lean] = m.group(1)
    # failure_code table: variant -> numeric code
    _, _, fc = find_fn(ou, 'failure_code')
    codes = {}
    for m in re.finditer(r'((?:Self::\w+\s*\|?\s*)+)=>\s*([A-Z0-9 |]+),', strip_comments(fc)):
        val = 0
        for x in m.group(2).split('|'):
            x = x.strip(); val |= consts[x] if x in consts else int(x, 0)
        for v in re.findall(r'Self::(\w+)', m.group(1)): codes[v] = val
    if 'Self::UnknownFailureCode { code } => *code' not in norm(fc): raise TranslateError("failure_code: UnknownFailureCode arm changed")
    m = re.search(r'impl_from_u16_for_htlc_reason!\(LocalHTLCFailureReason, \[([\w, ]+)\]\);', src)
    if not m: raise TranslateError("impl_from_u16_for_htlc_reason! list not found")
    from_list = [x.strip() for x in m.group(1).split(',') if x.strip()]
    seen = {}
    for v in from_list:
        if v not in codes: raise TranslateError("From<u16> variant %s has no failure_code" % v)
        if codes[v] in seen: raise TranslateError("From<u16>: %s and %s share code %d" % (v, seen[codes[v]], codes[v]))
        seen[codes[v]] = v
    def eq_variant(v, what):
        if v not in from_list: raise TranslateError("%s compares with %s, which From<u16> never yields" % (what, v))
        return codes[v]
    # is_recipient_failure
    m = re.search(r'fn is_recipient_failure\(&self\) -> bool \{ (.*?) \}', src)
    if not m: raise TranslateError("fn is_recipient_failure not found")
    terms = []
    for t in m.group(1).split('||'):
        t = t.strip()
        a = re.fullmatch(r'self\.failure_code\(\) == LocalHTLCFailureReason::(\w+)\.failure_code\(\)', t)
        b = re.fullmatch(r'\*self == LocalHTLCFailureReason::(\w+)', t)
        if a:
            if a.group(1) not in codes: raise TranslateError("is_recipient_failure: unknown variant %s" % a.group(1))
            terms.append((a.group(1), codes[a.group(1)]))
        elif b: terms.append((b.group(1), eq_variant(b.group(1), 'is_recipient_failure')))
        else: raise TranslateError("is_recipient_failure: unknown term `%s`" % t)
    # the chain
    _, _, body = find_fn(ou, 'process_onion_failure_inner'); b = norm(body)
    m = re.search(r'let payment_failed = ([^;]+);', b)
    if not m: raise TranslateError("`let payment_failed = …;` not found")
    payment_failed = cond(m.group(1), 'payment_failed')
    CH = r'if let ErrorHop::RouteHop\(failing_route_hop\) = failing_route_hop \{ network_update = Some\(NetworkUpdate::ChannelFailure \{ short_channel_id: failing_route_hop\.short_channel_id, is_permanent: (true|false) \}\); \}'
    ND = r'network_update = Some\(NetworkUpdate::NodeFailure \{ node_id: \*route_hop\.pubkey\(\), is_permanent: ([^}]+?) \}\);'
    pat = (r'let mut network_update = None; let mut short_channel_id = None; '
           r'if (?P<c1>[^{]+?) \{ ' + CH.replace('(true|false)', '(?P<p1>true|false)') + r' \} '
           r'else if (?P<c2>[^{]+?) \{ ' + ND.replace('([^}]+?)', '(?P<p2>[^}]+?)') + r' short_channel_id = route_hop\.short_channel_id\(\); \} '
           r'else if (?P<c3>[^{]+?) \{ if (?P<c3b>[^{]+?) \{ ' + CH.replace('(true|false)', '(?P<p3>true|false)') + r' short_channel_id = failing_route_hop\.short_channel_id\(\); \} \} '
           r'else if (?P<c4>[^{]+?) \{ if let Some\(update_len_slice\) = err_packet\.failuremsg\.get\(debug_field_size \+ 2\.\.debug_field_size \+ 4\) \{ let update_len = u16::from_be_bytes\(update_len_slice\.try_into\(\)\.expect\("len is 2"\)\) as usize; '
           r'if err_packet\.failuremsg\.get\(debug_field_size \+ 4\.\.debug_field_size \+ 4 \+ update_len\)\.is_some\(\) \{ ' + CH.replace('(true|false)', '(?P<p4>true|false)') + r' short_channel_id = failing_route_hop\.short_channel_id\(\); \} \} '
           r'if network_update\.is_none\(\) \{ ' + ND.replace('([^}]+?)', '(?P<p4n>[^}]+?)') + r' \} if short_channel_id\.is_none\(\) \{ short_channel_id = route_hop\.short_channel_id\(\); \} \} '
           r'else if (?P<c5>[^{]+?) \{ short_channel_id = match error_code \{ (?P<arm>[\w:| ]+) => route_hop\.short_channel_id\(\), _ => None \}; \} '
           r'else \{ ' + ND.replace('([^}]+?)', '(?P<p6>[^}]+?)') + r' short_channel_id = route_hop\.short_channel_id\(\) \} '
           r'res = Some\(FailureLearnings \{ network_update, short_channel_id, payment_failed_permanently: (?P<pfp>[^,]+), failed_within_blinded_path: false \}\);')
    m = re.search(pat, b)
    if not m: raise TranslateError("process_onion_failure_inner: the blame chain (BADONION / NODE / PERM / UPDATE / payment_failed / else) has an unknown form")
    g = m.groupdict()
    arm = [eq_variant(x.strip().replace('LocalHTLCFailureReason::', ''), 'the short_channel_id match of the payment_failed branch') for x in g['arm'].split('|')]
    C = lambda k: cond(g[k], 'blame chain')
    L = ['/- GENERATED by tools/gen_onion_blame.py from lightning/src/ln/onion_utils.rs (failure-code flags and predicates,',
         '   is_recipient_failure, the blame chain of process_onion_failure_inner) — do not edit.  Regenerated on every check. -/',
         'set_option linter.unusedVariables false', 'namespace Ldk.Onion', '']
    for k in ('BADONION', 'PERM', 'NODE', 'UPDATE'):
        L += ['def FLAG_%s : Nat := %d' % (k, consts[k])]
    L += ['']
    for lean, f in preds.items():
        L += ['/-- `self.failure_code() & %s == %s` -/' % (f, f), 'def %s (c : Nat) : Bool := (c &&& FLAG_%s) == FLAG_%s' % (lean, f, f)]
    L += ['', '/-- is_recipient_failure, the codes only the final node may send: %s -/' % ', '.join('%s = %d' % t for t in terms),
          'def isRecipientFailure (c : Nat) : Bool := ' + ' || '.join('c == %d' % t[1] for t in terms), '',
          '/-- NetworkUpdate: ChannelFailure names `failing_route_hop`\'s channel, NodeFailure names `route_hop`\'s node -/',
          'inductive BlameUpdate | channelFailure (is_permanent : Bool) | nodeFailure (is_permanent : Bool)', '  deriving DecidableEq, Repr', '',
          '/-- which channel `short_channel_id` names: the authenticated hop\'s own (`route_hop`) or the failing one (`failing_route_hop`:',
          '    the same for the final hop, else the NEXT hop\'s) -/',
          'inductive BlameScid | routeHop | failingHop', '  deriving DecidableEq, Repr', '',
          'structure Blame where', '  network_update : Option BlameUpdate', '  short_channel_id : Option BlameScid', '  payment_failed_permanently : Bool', '  deriving DecidableEq, Repr', '',
          '/-- the blame chain of process_onion_failure_inner for a failure with a readable code `c` authenticated by a hop;',
          '    `is_final` = is_from_final_non_blinded_node, `failing_is_route_hop` = `failing_route_hop` is an ErrorHop::RouteHop (not a',
          '    trampoline hop), `update_ok` = the failure data carry a well-framed channel_update (the two `.get(..)` tests) -/',
          'def blameDecision (c : Nat) (is_final failing_is_route_hop update_ok : Bool) : Blame :=',
          '  let payment_failed := %s' % payment_failed,
          '  let chan := fun (p : Bool) => if failing_is_route_hop then some (BlameUpdate.channelFailure p) else none',
          '  let fscid : Option BlameScid := if failing_is_route_hop then some .failingHop else none',
          '  let pfp := %s' % cond(g['pfp'], 'payment_failed_permanently'),
          '  if %s then ⟨chan %s, none, pfp⟩' % (C('c1'), g['p1']),
          '  else if %s then ⟨some (.nodeFailure (%s)), some .routeHop, pfp⟩' % (C('c2'), cond(g['p2'], 'NodeFailure.is_permanent')),
          '  else if %s then (if %s then ⟨chan %s, fscid, pfp⟩ else ⟨none, none, pfp⟩)' % (C('c3'), C('c3b'), g['p3']),
          '  else if %s then' % C('c4'),
          '    (if update_ok then ⟨(chan %s).orElse fun _ => some (.nodeFailure (%s)), fscid.orElse fun _ => some .routeHop, pfp⟩' % (g['p4'], cond(g['p4n'], 'NodeFailure.is_permanent')),
          '     else ⟨some (.nodeFailure (%s)), some .routeHop, pfp⟩)' % cond(g['p4n'], 'NodeFailure.is_permanent'),
          '  else if %s then ⟨none, if %s then some .routeHop else none, pfp⟩' % (C('c5'), ' || '.join('c == %d' % x for x in arm)),
          '  else ⟨some (.nodeFailure (%s)), some .routeHop, pfp⟩' % cond(g['p6'], 'NodeFailure.is_permanent'), '',
          'end Ldk.Onion']
    text = '\n'.join(L) + '\n'
    old = open(out_path).read() if os.path.exists(out_path) else None
    if old != text:
        os.makedirs(os.path.dirname(out_path), exist_ok=True)
        open(out_path, 'w').write(text)

if __name__ == '__main__':
    try:
        main(sys.argv[1] if len(sys.argv) > 1 else os.path.join(os.path.dirname(os.path.abspath(__file__)), '..', 'lean', 'LdkModel', 'Generated', 'OnionBlame.lean'))
    except TranslateError as ex:
        print("TRANSLATE-ERROR gen_onion_blame: %s" % ex)
        sys.exit(2)
    except (ValueError, AssertionError, AttributeError, KeyError) as ex:
        print("TRANSLATE-ERROR gen_onion_blame: source structure changed (%s: %s)" % (type(ex).__name__, ex))
        sys.exit(2)
