#!/usr/bin/env python3
"""Regenerate lean/LdkModel/Generated/C18Readers.lean from /repo (C18, round 6): WHICH record types the
BOLT-12 parsers admit, as decided by the chain of `tlv_stream!` range readers behind
`ParsedMessage::<T>::try_from` (offers/parse.rs: all readers of the tuple `T` in order, then the cursor
must be exhausted).

  offers/{payer,offer,invoice_request,invoice,merkle}.rs   every `tlv_stream!(Name, NameRef, RANGE, { (TYPE, field: ..), .. })`
        of the non-test build -> Reader { name, lo, hi (exclusive), known types }
  offers/{offer,invoice_request,invoice,static_invoice,refund}.rs   `type XTlvStream = ( .. )` + `impl CursorReadable for X`
        (the ORDER OF THE `CursorReadable::read(r)?` STATEMENTS, each typed by the position of its variable in the
        returned tuple) -> the reader chains offerChain, invreqChain, invreqPartialChain, invoiceChain,
        invoicePartialChain, staticInvoiceChain, refundChain
  offers/parse.rs    ParsedMessage::try_from: read, then `cursor.position() < len => Err(InvalidValue)`  (pinned)
  util/ser_macros.rs _decode_tlv_stream_range: out-of-range type => rewind + break; `typ.0 <= t` => InvalidValue;
        unknown even => UnknownRequiredFeature (pinned; the loop itself is mirrored by Model/OfferReaders.lean)

Anything of another shape is a TRANSLATE-ERROR (exit 2).
"""
import os, re, sys
sys.path.insert(0, os.path.dirname(os.path.abspath(__file__)))
from rs2lean import TranslateError, strip_comments, match_brace

REPO = os.environ.get('VERIF_REPO', '/repo')
ROOT = os.path.dirname(os.path.dirname(os.path.abspath(__file__)))
OUT = os.path.join(ROOT, 'lean', 'LdkModel', 'Generated', 'C18Readers.lean')

class TErr(Exception):
    pass

def ws(s): return ' '.join(s.split())
def num(s): return int(s.replace('_', ''))

def rd(rel):
    p = os.path.join(REPO, rel)
    if not os.path.exists(p): raise TErr('missing file %s' % rel)
    return strip_comments(open(p).read())

def match_paren(s, k):
    assert s[k] == '('
    d = 0
    for i in range(k, len(s)):
        if s[i] in '([{': d += 1
        elif s[i] in ')]}':
            d -= 1
            if d == 0: return i + 1
    raise TErr('unbalanced parenthesis')

def split_top(s):
    out, d, cur = [], 0, ''
    for ch in s:
        if ch in '([{<': d += 1
        elif ch in ')]}>': d -= 1
        if ch == ',' and d == 0:
            out.append(cur); cur = ''
        else: cur += ch
    if cur.strip(): out.append(cur)
    return [x.strip() for x in out]

def main():
    files = {n: rd('lightning/src/offers/%s.rs' % n) for n in ['payer', 'offer', 'invoice_request', 'invoice', 'merkle', 'static_invoice', 'refund', 'parse']}
    # ---- constants
    u64c, ranges = {}, {}
    for n, src in files.items():
        for m in re.finditer(r'const (\w+): u64 =\s*([\d_]+);', src): u64c[m.group(1)] = num(m.group(2))
    def ev(x, what):
        x = x.strip()
        if re.fullmatch(r'[\d_]+', x): return num(x)
        q = re.fullmatch(r'([A-Z_]+)\.(start|end)', x)
        if q and q.group(1) in ranges: return ranges[q.group(1)][0 if q.group(2) == 'start' else 1]
        if x in u64c: return u64c[x]
        raise TErr('%s: cannot evaluate `%s`' % (what, x))
    for n in ['offer', 'invoice_request', 'invoice', 'merkle']:
        for m in re.finditer(r'const (\w+): core::ops::(Range|RangeInclusive)<u64> =\s*([^;]+);', files[n]):
            e = ws(m.group(3))
            if m.group(2) == 'RangeInclusive':
                a, b = e.split('..='); ranges[m.group(1)] = (ev(a, m.group(1)), ev(b, m.group(1)) + 1)
            else:
                a, b = e.split('..'); ranges[m.group(1)] = (ev(a, m.group(1)), ev(b, m.group(1)))
    def rng(x, what):
        x = ws(x)
        if x in ranges: return ranges[x]
        if '..=' in x:
            a, b = x.split('..='); return (ev(a, what), ev(b, what) + 1)
        if '..' in x:
            a, b = x.split('..')
            if not a.strip() or not b.strip(): raise TErr('%s: open range `%s`' % (what, x))
            return (ev(a, what), ev(b, what))
        raise TErr('%s: unrecognised range `%s`' % (what, x))
    # ---- tlv_stream! readers of the non-test build
    readers = {}
    for n in ['payer', 'offer', 'invoice_request', 'invoice', 'merkle']:
        src = files[n]
        for m in re.finditer(r'tlv_stream!\s*\(', src):
            pre = src[:m.start()].rstrip()
            if pre.endswith('#[cfg(test)]'): continue
            if pre.endswith(']') and not pre.endswith('#[cfg(not(test))]'):
                raise TErr('%s.rs: tlv_stream! under an attribute that is not cfg(test) / cfg(not(test)): `%s`' % (n, pre[-40:]))
            k = m.end() - 1
            inner = src[k + 1:match_paren(src, k) - 1]
            parts = split_top(inner)
            if len(parts) != 4 or not parts[3].startswith('{'): raise TErr('%s.rs: tlv_stream! with %d arguments' % (n, len(parts)))
            name = parts[0]
            lo, hi = rng(parts[2], 'tlv_stream!(%s)' % name)
            known = []
            for ent in split_top(parts[3].strip()[1:-1]):
                if not ent: continue
                if not ent.startswith('('): raise TErr('tlv_stream!(%s): unrecognised entry `%s`' % (name, ent[:40]))
                t = ev(split_top(ent[1:-1])[0], 'tlv_stream!(%s) entry' % name)
                if not (lo <= t < hi): raise TErr('tlv_stream!(%s): field type %d outside its range %d..%d' % (name, t, lo, hi))
                known.append(t)
            if known != sorted(set(known)): raise TErr('tlv_stream!(%s): field types not strictly ascending' % name)
            if name in readers: raise TErr('tlv_stream! %s defined twice in the non-test build' % name)
            readers[name] = (lo, hi, known)
    # ---- the loop of one reader (pinned shape; mirrored by Model/OfferReaders.lean::readOne)
    sm = ws(rd('lightning/src/util/ser_macros.rs'))
    for rx, what in [(r'Ok\(t\) => if core::ops::RangeBounds::contains\(&\$range, &t\.0\) \{ t \} else \{ drop\(tracking_reader\); use \$crate::util::ser::Writeable; let bytes_read = t\.serialized_length\(\); \$rewind\(stream_ref, bytes_read\); break \'tlv_read; \}', 'out-of-range type => rewind + break'),
                     (r'match last_seen_type \{ Some\(t\) if typ\.0 <= t => \{ return Err\(DecodeError::InvalidValue\); \}, _ => \{\}, \}', 'types strictly increasing (`typ.0 <= t` => InvalidValue)'),
                     (r'if t % 2 == 0 \{ return Err\(DecodeError::UnknownRequiredFeature\); \}', 'unknown even type => UnknownRequiredFeature'),
                     (r'let mut last_seen_type: Option<u64> = None;', 'last_seen_type starts at None in every reader')]:
        if not re.search(rx, sm): raise TErr('_decode_tlv_stream_range: shape changed (%s)' % what)
    pm = ws(files['parse'])
    if not re.search(r'let mut cursor = io::Cursor::new\(bytes\); let tlv_stream: T = CursorReadable::read\(&mut cursor\)\?; if cursor\.position\(\) < cursor\.get_ref\(\)\.len\(\) as u64 \{ return Err\(DecodeError::InvalidValue\); \}', pm):
        raise TErr('ParsedMessage::try_from: `read, then position < len => Err(InvalidValue)` not found')
    # ---- chains
    def alias(src, name, what):
        m = re.search(r'type %s =\s*\(' % name, src)
        if not m: raise TErr('%s: cannot find `type %s = (..)`' % (what, name))
        k = m.end() - 1
        tys = [x for x in split_top(src[k + 1:match_paren(src, k) - 1]) if x]
        for t in tys:
            if t not in readers: raise TErr('%s: %s contains `%s`, which is not a translated tlv_stream!' % (what, name, t))
        return tys
    def read_order(src, name, tys, what):
        """order of the `CursorReadable::read(r)?` statements, typed through the returned tuple"""
        m = re.search(r'impl CursorReadable for %s \{' % name, src)
        if not m: return None
        b = ws(src[m.end() - 1:match_brace(src, m.end() - 1)])
        lets = re.findall(r'let (\w+) = CursorReadable::read\(r\)\?;', b)
        if len(re.findall(r'CursorReadable::read', b)) != len(lets): raise TErr('%s: impl CursorReadable for %s has reads of another shape' % (what, name))
        mo = re.search(r'Ok\(\(([^()]*)\)\)', b)
        if not mo: raise TErr('%s: impl CursorReadable for %s: returned tuple not found' % (what, name))
        ret = [x for x in split_top(mo.group(1)) if x]
        if sorted(ret) != sorted(lets) or len(ret) != len(tys) or len(set(lets)) != len(lets):
            raise TErr('%s: impl CursorReadable for %s: variables read %s, returned %s, tuple of %d' % (what, name, lets, ret, len(tys)))
        return [tys[ret.index(v)] for v in lets]
    chains = {}
    impls = []
    for lean, fn, name in [('offerChain', 'offer', 'FullOfferTlvStream'), ('invreqChain', 'invoice_request', 'FullInvoiceRequestTlvStream'),
                           ('invoiceChain', 'invoice', 'FullInvoiceTlvStream'), ('invoicePartialChain', 'invoice', 'PartialInvoiceTlvStream'),
                           ('staticInvoiceChain', 'static_invoice', 'FullInvoiceTlvStream'), ('refundChain', 'refund', 'RefundTlvStream')]:
        tys = alias(files[fn], name, fn + '.rs')
        order = read_order(files[fn], name, tys, fn + '.rs')
        if order is None: raise TErr('%s.rs: no impl CursorReadable for %s' % (fn, name))
        chains[lean] = order; impls.append((tuple(tys), order))
    # PartialInvoiceRequestTlvStream has no impl of its own: it is the SAME tuple type as another alias that has one
    tys = alias(files['invoice_request'], 'PartialInvoiceRequestTlvStream', 'invoice_request.rs')
    if re.search(r'impl CursorReadable for PartialInvoiceRequestTlvStream', files['invoice_request']):
        chains['invreqPartialChain'] = read_order(files['invoice_request'], 'PartialInvoiceRequestTlvStream', tys, 'invoice_request.rs')
    else:
        same = [o for t, o in impls if t == tuple(tys)]
        if len(same) != 1: raise TErr('PartialInvoiceRequestTlvStream: expected exactly one CursorReadable impl for the same tuple type (found %d)' % len(same))
        chains['invreqPartialChain'] = same[0]
    for fn, rx in [('invoice_request', r'impl TryFrom<Vec<u8>> for UnsignedInvoiceRequest \{[^}]*?ParsedMessage::<PartialInvoiceRequestTlvStream>::try_from\(bytes\)\?'),
                   ('invoice_request', r'impl TryFrom<Vec<u8>> for InvoiceRequest \{[^}]*?ParsedMessage::<FullInvoiceRequestTlvStream>::try_from\(bytes\)\?'),
                   ('invoice', r'impl TryFrom<Vec<u8>> for UnsignedBolt12Invoice \{[^}]*?ParsedMessage::<PartialInvoiceTlvStream>::try_from\(bytes\)\?'),
                   ('invoice', r'impl TryFrom<Vec<u8>> for Bolt12Invoice \{[^}]*?ParsedMessage::<FullInvoiceTlvStream>::try_from\(bytes\)\?'),
                   ('offer', r'impl TryFrom<Vec<u8>> for Offer \{[^}]*?ParsedMessage::<FullOfferTlvStream>::try_from\(bytes\)\?'),
                   ('static_invoice', r'impl TryFrom<Vec<u8>> for StaticInvoice \{[^}]*?ParsedMessage::<FullInvoiceTlvStream>::try_from\(bytes\)\?'),
                   ('refund', r'impl TryFrom<Vec<u8>> for Refund \{[^}]*?ParsedMessage::<RefundTlvStream>::try_from\(bytes\)\?')]:
        if not re.search(rx, ws(files[fn])): raise TErr('%s.rs: `%s` not found (which tuple a message is parsed with)' % (fn, rx[:60]))

    L = ['/- GENERATED by tools/gen_c18_readers.py from /repo (offers/*.rs tlv_stream! ranges + field types, the CursorReadable',
         '   read order of every message tuple) — do not edit. -/',
         'namespace Ldk.C18Readers', '',
         '/-- one `tlv_stream!` reader: record types `lo ≤ t < hi`, the types it has a field for -/',
         'structure Reader where', '  name : String', '  lo : Nat', '  hi : Nat', '  known : List Nat', '  deriving DecidableEq, Repr', '']
    for name in sorted(readers):
        lo, hi, known = readers[name]
        L.append('def r%s : Reader := ⟨"%s", %d, %d, [%s]⟩' % (name, name, lo, hi, ', '.join(str(x) for x in known)))
    L.append('')
    doc = {'offerChain': 'Offer::try_from (FullOfferTlvStream)', 'invreqChain': 'InvoiceRequest::try_from (FullInvoiceRequestTlvStream)',
           'invreqPartialChain': 'UnsignedInvoiceRequest::try_from (PartialInvoiceRequestTlvStream)', 'invoiceChain': 'Bolt12Invoice::try_from (FullInvoiceTlvStream)',
           'invoicePartialChain': 'UnsignedBolt12Invoice::try_from (PartialInvoiceTlvStream)', 'staticInvoiceChain': 'StaticInvoice::try_from (static_invoice.rs FullInvoiceTlvStream)',
           'refundChain': 'Refund::try_from (RefundTlvStream)'}
    for c in ['offerChain', 'invreqChain', 'invreqPartialChain', 'invoiceChain', 'invoicePartialChain', 'staticInvoiceChain', 'refundChain']:
        L.append('/-- %s: the readers in the order they are run -/' % doc[c])
        L.append('def %s : List Reader := [%s]' % (c, ', '.join('r' + t for t in chains[c])))
    L += ['', 'end Ldk.C18Readers', '']
    text = '\n'.join(L)
    if not os.path.exists(OUT) or open(OUT).read() != text:
        open(OUT, 'w').write(text)
    print('gen_c18_readers: ok (%d readers, %d chains, %d known field types)' % (len(readers), len(chains), sum(len(k) for _, _, k in readers.values())))

if __name__ == '__main__':
    try:
        main()
    except (TErr, TranslateError) as e:
        print('TRANSLATE-ERROR gen_c18_readers.py: %s' % e)
        sys.exit(2)
