#!/usr/bin/env python3
"""Regenerate lean/LdkModel/Generated/Justice.lean (C06): the HEIGHT bookkeeping of justice claims, translated from
the Rust text that exists in /repo *now*:

  chain/channelmonitor.rs
    check_spend_counterparty_transaction  the `outpoint_confirmation_height` argument of RevokedOutput::build /
                                          RevokedHTLCOutput::build and the `counterparty_spendable_height` argument of
                                          the PackageTemplate::build_package that wraps each
    check_spend_counterparty_htlc         the same two arguments for the second-stage justice claim
    transactions_confirmed                both are called with the block's own `height`
    best_block_updated / blocks_disconnected / OnchainTxHandler::transaction_unconfirmed
                                          the height handed to OnchainTxHandler::blocks_disconnected
    filter_block / spends_watched_output   which transactions of a block reach the spend checks (`matches` translated; the
                                          watch registrations in transactions_confirmed / check_spend_counterparty_htlc / block_confirmed pinned)
  chain/package.rs
    RevokedOutput::build, RevokedHTLCOutput::build   what is stored as `outpoint_confirmation_height`
    PackageSolvingData::input_confirmation_height    what `outpoints_and_creation_heights` reads back
    PackageTemplate::build_package                   `counterparty_spendable_height` is stored as given
  chain/onchaintx.rs
    update_claims_view_from_requests      `creation_height` registered in `claimable_outpoints`
    update_claims_view_from_matched_txn   when a pending request is re-issued (`cur_height >= request.timer()`)
    blocks_disconnected                   which `claimable_outpoints` entries / awaiting events are dropped
    OnchainEventEntry::{confirmation_threshold, has_reached_confirmation_threshold}

Arguments are found BY PARAMETER NAME (position of `outpoint_confirmation_height` / `counterparty_spendable_height`
in the callee's signature), identifiers bound by a `let` in the calling function are inlined, and the resulting
expression is translated by rs2lean.  Any other shape is a TRANSLATE-ERROR (exit 2), never silently skipped.
"""
import re, sys, os
sys.path.insert(0, os.path.dirname(__file__))
from rs2lean import (parse_expr, Emitter, TranslateError, strip_comments, find_fn, match_brace, parse_params)

REPO = os.environ.get('VERIF_REPO', '/repo')
def rd(p): return open(os.path.join(REPO, p)).read()
def one(s): return ' '.join(s.split())

def split_args(text):
    """top-level comma split of a call's argument text"""
    out, d, cur = [], 0, ''
    for c in text:
        if c in '([{': d += 1
        if c in ')]}': d -= 1
        if c == ',' and d == 0:
            out.append(cur.strip()); cur = ''
        else:
            cur += c
    if cur.strip(): out.append(cur.strip())
    return out

def calls_of(body, callee):
    """[(start index, [argument texts])] of every `callee(` call in body"""
    res = []
    for m in re.finditer(re.escape(callee) + r'\s*\(', body):
        i = m.end() - 1
        d, j = 0, i
        while True:
            if body[j] == '(': d += 1
            elif body[j] == ')':
                d -= 1
                if d == 0: break
            j += 1
        res.append((m.start(), split_args(body[i + 1:j])))
    return res

def param_index(src, impl_head, fn, param):
    i = src.find(impl_head)
    if i < 0: raise TranslateError("%r not found" % impl_head)
    params, ret, body = find_fn(src[i:], fn)
    names = [n for n, t in parse_params(params)]
    if param not in names: raise TranslateError("%s::%s has no parameter %s (has %s)" % (impl_head, fn, param, names))
    return names.index(param), names, body

def find_fn_where(src, name, needle):
    """the `fn name` whose parameter text contains `needle` (several impls define the same method name)"""
    for m in re.finditer(r'\bfn\s+' + re.escape(name) + r'\b', src):
        try:
            params, ret, body = find_fn(src[m.start():], name)
        except TranslateError:
            continue
        if needle in params: return params, ret, body
    raise TranslateError("fn %s with %r in its parameters not found" % (name, needle))

def inline_lets(expr, body, upto, depth=0):
    """replace identifiers bound by `let x = e;` (the last such binding before `upto`) by `(e)`; parameters stay"""
    if depth > 4: raise TranslateError("let-chain too deep while resolving %r" % expr)
    def repl(m):
        name = m.group(0)
        if m.start() > 0 and expr[m.start() - 1] in '.:': return name        # field / path segment
        bind = None
        for b in re.finditer(r'\blet\s+(?:mut\s+)?' + re.escape(name) + r'\s*(?::[^=;]+)?=\s*', body[:upto]):
            bind = b
        if bind is None: return name
        # the bound expression runs to the `;` at depth 0
        j, d = bind.end(), 0
        while True:
            c = body[j]
            if c in '([{': d += 1
            elif c in ')]}': d -= 1
            elif c == ';' and d == 0: break
            j += 1
        return '(' + inline_lets(body[bind.end():j].strip(), body, bind.start(), depth + 1) + ')'
    return re.sub(r'\b[a-z_][a-z0-9_]*\b', repl, expr)

EM = dict(fields={'on_counterparty_tx_csv': lambda r: 'on_counterparty_tx_csv', 'on_holder_tx_csv': lambda r: 'on_holder_tx_csv', 'offered': lambda r: 'offered',
                  'cltv_expiry': lambda r: 'cltv_expiry'})

def tr(expr, allowed):
    """translate a Rust expression; every free lower-case identifier must be one of `allowed`"""
    lean = Emitter(**EM).e(parse_expr(expr))
    for name in set(re.findall(r'\b[a-z_][a-z0-9_]*\b', lean)):
        if name in ('if', 'then', 'else', 'decide', 'some', 'none', 'true', 'false', 'fun'): continue
        if name not in allowed and not re.search(r'\b(Nat|Option)\.' + name + r'\b', lean):
            raise TranslateError("expression %r mentions %r, which is none of %s" % (one(expr), name, sorted(allowed)))
    return lean

def main(out_path):
    cm = strip_comments(rd('lightning/src/chain/channelmonitor.rs'))
    pk = strip_comments(rd('lightning/src/chain/package.rs'))
    oc = strip_comments(rd('lightning/src/chain/onchaintx.rs'))
    L = ['/- GENERATED by tools/gen_justice.py from lightning/src/chain/{channelmonitor,package,onchaintx}.rs — do not edit. -/',
         'import LdkModel.Generated.Consts', 'set_option linter.unusedVariables false', 'namespace Ldk.JusticeGen', 'open Ldk', '']

    # ---- callee signatures -----------------------------------------------------------------------------
    ro_idx, ro_names, ro_body = param_index(pk, 'impl RevokedOutput', 'build', 'outpoint_confirmation_height')
    rh_idx, rh_names, rh_body = param_index(pk, 'impl RevokedHTLCOutput', 'build', 'outpoint_confirmation_height')
    bp_idx, bp_names, bp_body = param_index(pk, 'impl PackageTemplate', 'build_package', 'counterparty_spendable_height')
    for what, body in (('RevokedOutput::build', ro_body), ('RevokedHTLCOutput::build', rh_body)):
        m = re.search(r'\boutpoint_confirmation_height\s*:\s*([^,}]+)', body)
        if not m: raise TranslateError("%s: field outpoint_confirmation_height is not initialised explicitly" % what)
        lean = tr(m.group(1).strip(), {'outpoint_confirmation_height'})
        name = 'revokedOutputStored' if what.startswith('RevokedOutput') else 'revokedHtlcOutputStored'
        L.append('/-- package.rs %s: `outpoint_confirmation_height: %s` -/' % (what, one(m.group(1))))
        L.append('def %s (outpoint_confirmation_height : Nat) : Option Nat := %s' % (name, lean))
        L.append('')
    if not re.search(r'PackageTemplate\s*\{[^}]*\bcounterparty_spendable_height\s*,', bp_body):
        raise TranslateError("build_package does not store `counterparty_spendable_height` as given")
    # what the OnchainTxHandler reads back
    params, ret, body = find_fn(pk, 'input_confirmation_height')
    m = re.search(r'PackageSolvingData::RevokedOutput\(RevokedOutput\s*\{\s*outpoint_confirmation_height\s*,\s*\.\.\s*\}\)\s*\|\s*'
                  r'PackageSolvingData::RevokedHTLCOutput\(RevokedHTLCOutput\s*\{\s*outpoint_confirmation_height\s*,\s*\.\.\s*\}\)', body)
    m2 = re.search(r'=>\s*\*outpoint_confirmation_height\s*,', body)
    if not m or not m2 or m2.start() < m.end():
        raise TranslateError("input_confirmation_height: the RevokedOutput / RevokedHTLCOutput arms do not return `*outpoint_confirmation_height`")
    params, ret, body = find_fn(pk, 'outpoints_and_creation_heights')
    if one(body) != '{ self.inputs.iter().map(|(o, p)| (o, p.input_confirmation_height())) }':
        raise TranslateError("outpoints_and_creation_heights changed: %s" % one(body))

    # ---- channelmonitor.rs: the call sites ---------------------------------------------------------------
    def site(fn_name, builder, builder_idx, variant, nth=0):
        params, ret, body = find_fn(cm, fn_name)
        pnames = [n for n, t in parse_params(params)]
        if 'height' not in pnames: raise TranslateError("%s has no `height` parameter" % fn_name)
        cs = calls_of(body, builder)
        if len(cs) != 1: raise TranslateError("%s: expected exactly one %s call, found %d" % (fn_name, builder, len(cs)))
        pos, args = cs[0]
        want = len(ro_names) if builder.startswith('RevokedOutput') else len(rh_names)
        if len(args) != want: raise TranslateError("%s: %s called with %d arguments" % (fn_name, builder, len(args)))
        creation = inline_lets(args[builder_idx], body, pos)
        # the build_package call that wraps this solving data
        bps = [(p, a) for p, a in calls_of(body, 'PackageTemplate::build_package') if p > pos and variant in ' '.join(a)]
        if not bps: raise TranslateError("%s: no PackageTemplate::build_package(.., %s(..), ..) after %s" % (fn_name, variant, builder))
        p2, a2 = bps[0]
        if len(a2) != len(bp_names): raise TranslateError("%s: build_package called with %d arguments" % (fn_name, len(a2)))
        spendable = inline_lets(a2[bp_idx], body, p2)
        return creation, spendable, one(args[builder_idx]), one(a2[bp_idx])
    # (`on_holder_tx_csv` — the delay on OUR outputs — is a translatable name too, as a trailing defaulted parameter: a call site that picks the
    # wrong one of the two delays is then refuted by Props/C06 `revoked_to_local_deadline_is_counterparty_csv` instead of stopping the translator)
    csv = {'height', 'on_counterparty_tx_csv', 'on_holder_tx_csv'}
    htl = {'height', 'offered', 'cltv_expiry', 'on_counterparty_tx_csv', 'on_holder_tx_csv'}
    for (lean_name, fn_name, builder, idx, variant, allowed, sig, doc) in [
        ('toLocal', 'check_spend_counterparty_transaction', 'RevokedOutput::build', ro_idx, 'PackageSolvingData::RevokedOutput', csv,
         '(height on_counterparty_tx_csv : Nat) (on_holder_tx_csv : Nat := 0)', 'the revoked commitment\'s to_local output'),
        ('htlc', 'check_spend_counterparty_transaction', 'RevokedHTLCOutput::build', rh_idx, 'PackageSolvingData::RevokedHTLCOutput', htl,
         '(height on_counterparty_tx_csv : Nat) (offered : Bool) (cltv_expiry : Nat) (on_holder_tx_csv : Nat := 0)', 'an HTLC output of the revoked commitment'),
        ('secondStage', 'check_spend_counterparty_htlc', 'RevokedOutput::build', ro_idx, 'PackageSolvingData::RevokedOutput', csv,
         '(height on_counterparty_tx_csv : Nat) (on_holder_tx_csv : Nat := 0)', 'the output of a revoked second-stage (HTLC-success / HTLC-timeout) transaction'),
    ]:
        creation, spendable, raw_c, raw_s = site(fn_name, builder, idx, variant)
        L.append('/-- channelmonitor.rs %s, %s: the `outpoint_confirmation_height` argument of %s is `%s`' % (fn_name, doc, builder, raw_c))
        L.append('    (`height` = the height of the block that confirms the PARENT transaction) -/')
        L.append('def %sCreationHeight %s : Nat := %s' % (lean_name, sig, tr(creation, allowed)))
        L.append('/-- … and the `counterparty_spendable_height` argument of the wrapping PackageTemplate::build_package is `%s` -/' % raw_s)
        L.append('def %sSpendableHeight %s : Nat := %s' % (lean_name, sig, tr(spendable, allowed)))
        L.append('')
    # both functions are called with the confirming block's own height
    params, ret, body = find_fn_where(cm, 'transactions_confirmed', '&mut self')
    if 'height' not in [n for n, t in parse_params(params)]: raise TranslateError("transactions_confirmed has no `height` parameter")
    for callee, want in (('self.check_spend_counterparty_transaction', 'check_spend_counterparty_transaction'), ('self.check_spend_counterparty_htlc', 'check_spend_counterparty_htlc')):
        cs = calls_of(body, callee)
        if len(cs) != 1: raise TranslateError("transactions_confirmed: expected one %s call, found %d" % (want, len(cs)))
        pp, _, _ = find_fn(cm, want)
        names = [n for n, t in parse_params(pp)]
        if one(cs[0][1][names.index('height')]) != 'height':
            raise TranslateError("transactions_confirmed passes %r as `height` to %s" % (cs[0][1][names.index('height')], want))
        if re.search(r'\blet\s+(mut\s+)?height\b', body[:cs[0][0]]): raise TranslateError("transactions_confirmed rebinds `height`")

    # ---- onchaintx.rs ---------------------------------------------------------------------------------------
    params, ret, body = find_fn(oc, 'update_claims_view_from_requests')
    m = re.search(r'for \(k, outpoint_confirmation_height\) in req\.outpoints_and_creation_heights\(\) \{\s*let creation_height = ([^;]+);', body)
    if not m: raise TranslateError("update_claims_view_from_requests: registration loop not in the expected shape")
    if not re.search(r'self\.claimable_outpoints\.insert\(k\.clone\(\), \(claim_id, creation_height\)\);', body[m.end():]):
        raise TranslateError("update_claims_view_from_requests: `claimable_outpoints.insert(k.clone(), (claim_id, creation_height))` missing")
    L.append('/-- onchaintx.rs update_claims_view_from_requests: `let creation_height = %s;` registered in `claimable_outpoints`' % one(m.group(1)))
    L.append('    (`conf_height` = height of the block being processed) -/')
    L.append('def registeredCreationHeight (outpoint_confirmation_height : Option Nat) (conf_height : Nat) : Nat := ' + tr(m.group(1), {'outpoint_confirmation_height', 'conf_height'}))
    L.append('')
    if not re.search(r'claimable_outpoints: HashMap<BitcoinOutPoint, \(ClaimId, u32\)>', oc):
        raise TranslateError("claimable_outpoints is no longer HashMap<BitcoinOutPoint, (ClaimId, u32)>")
    params, ret, body = find_fn(oc, 'blocks_disconnected')
    if [n for n, t in parse_params(params)][0] != 'new_best_height': raise TranslateError("blocks_disconnected: first parameter is not new_best_height")
    m = re.search(r'self\.claimable_outpoints\.retain\(\|_, ref v\|\s*if ([^{]+)\{\s*remove_request\.push\(v\.0\.clone\(\)\);\s*false\s*\} else \{ true \}\);'
                  r'\s*for req in remove_request \{\s*self\.pending_claim_requests\.remove\(&req\);\s*\}', body)
    if not m: raise TranslateError("blocks_disconnected: the claimable_outpoints.retain / pending_claim_requests.remove tail is not in the expected shape")
    cond = m.group(1).strip()
    if not re.search(r'\bv\.1\b', cond): raise TranslateError("blocks_disconnected: retain condition %r does not read the creation height `v.1`" % cond)
    L.append('/-- onchaintx.rs blocks_disconnected: a `claimable_outpoints` entry `(claim_id, creation_height)` is removed — with its whole')
    L.append('    pending claim request — iff `%s` (`v.1` = creation_height) -/' % one(cond))
    L.append('def claimDropped (creation_height new_best_height : Nat) : Bool := ' + tr(re.sub(r'\bv\.1\b', 'creation_height', cond), {'creation_height', 'new_best_height'}))
    m = re.search(r'for entry in onchain_events_awaiting_threshold_conf \{\s*if ([^{]+)\{', body)
    if not m: raise TranslateError("blocks_disconnected: loop over onchain_events_awaiting_threshold_conf not found")
    L.append('/-- onchaintx.rs blocks_disconnected: an awaiting `Claim` / `ContentiousOutpoint` event is undone iff `%s` -/' % one(m.group(1)))
    L.append('def awaitingDropped (entry_height new_best_height : Nat) : Bool := ' + tr(m.group(1).strip().replace('entry.height', 'entry_height'), {'entry_height', 'new_best_height'}))
    L.append('')
    params, ret, body = find_fn(oc, 'update_claims_view_from_matched_txn')
    m = re.search(r'for \(claim_id, request\) in self\.pending_claim_requests\.iter\(\) \{\s*if ([^{]+)\{\s*bump_candidates\.insert\(\*claim_id, request\.clone\(\)\);', body)
    if not m: raise TranslateError("update_claims_view_from_matched_txn: the 'must be rescheduled' loop over pending_claim_requests is not in the expected shape")
    L.append('/-- onchaintx.rs update_claims_view_from_matched_txn: a pending request is re-issued (ForceBump) in the block at `cur_height` iff `%s` -/' % one(m.group(1)))
    L.append('def timerExpired (cur_height timer : Nat) : Bool := ' + tr(m.group(1).strip().replace('request.timer()', 'timer'), {'cur_height', 'timer'}))
    L.append('')
    i = oc.find('impl OnchainEventEntry')
    if i < 0: raise TranslateError("impl OnchainEventEntry not found in onchaintx.rs")
    params, ret, body = find_fn(oc[i:], 'confirmation_threshold')
    L.append('/-- onchaintx.rs OnchainEventEntry::confirmation_threshold: `%s` -/' % one(body))
    L.append('def handlerConfirmationThreshold (entry_height : Nat) : Nat := ' + tr(body.strip()[1:-1].strip().replace('self.height', 'entry_height'), {'entry_height'}))
    params, ret, body = find_fn(oc[i:], 'has_reached_confirmation_threshold')
    if [n for n, t in parse_params(params)] != ['height']: raise TranslateError("has_reached_confirmation_threshold signature changed")
    L.append('/-- onchaintx.rs OnchainEventEntry::has_reached_confirmation_threshold: `%s` -/' % one(body))
    if one(find_fn(oc[i:], 'confirmation_threshold')[2]) != '{ self.height + ANTI_REORG_DELAY - 1 }':
        raise TranslateError("confirmation_threshold is no longer `self.height + ANTI_REORG_DELAY - 1`")
    reached = body.strip()[1:-1].strip().replace('self.confirmation_threshold()', '(entry_height + ANTI_REORG_DELAY - 1)')
    L.append('def handlerThresholdReached (entry_height height : Nat) : Bool := ' + tr(reached, {'entry_height', 'height'}))
    L.append('')
    # ---- which height reaches OnchainTxHandler::blocks_disconnected ---------------------------------------------
    params, ret, body = find_fn(oc, 'transaction_unconfirmed')
    cs = calls_of(body, 'self.blocks_disconnected')
    if len(cs) != 1: raise TranslateError("OnchainTxHandler::transaction_unconfirmed: expected one blocks_disconnected call")
    L.append('/-- onchaintx.rs transaction_unconfirmed (`height` = height of the awaiting event of the unconfirmed txid): `blocks_disconnected(%s, ..)` -/' % one(cs[0][1][0]))
    L.append('def unconfirmedNewBest (height : Nat) : Nat := ' + tr(cs[0][1][0], {'height'}))
    params, ret, body = find_fn_where(cm, 'best_block_updated', '&mut self')
    cs = calls_of(body, 'self.onchain_tx_handler.blocks_disconnected')
    if len(cs) != 1 or one(cs[0][1][0]) != 'height':
        raise TranslateError("ChannelMonitorImpl::best_block_updated no longer calls onchain_tx_handler.blocks_disconnected(height, ..) in its re-org branch")
    if not re.search(r'if height > self\.best_block\.height \{.*?\} else if block_hash != self\.best_block\.block_hash \{', body, re.S):
        raise TranslateError("ChannelMonitorImpl::best_block_updated: new-tip / re-org branch structure changed")
    params, ret, body = find_fn_where(cm, 'blocks_disconnected', '&mut self')
    cs = calls_of(body, 'self.onchain_tx_handler.blocks_disconnected')
    if len(cs) != 1 or one(cs[0][1][0]) != 'new_height' or not re.search(r'let new_height = fork_point\.height;', body):
        raise TranslateError("ChannelMonitorImpl::blocks_disconnected no longer calls onchain_tx_handler.blocks_disconnected(fork_point.height, ..)")
    L.append('/-- channelmonitor.rs: ChannelMonitorImpl::blocks_disconnected(fork_point) and the re-org branch of best_block_updated(header, height)')
    L.append('    both call `onchain_tx_handler.blocks_disconnected(<new best height>, ..)` (pinned by text) -/')
    L.append('def monitorDisconnectNewBest (new_best_height : Nat) : Nat := new_best_height')
    L.append('')
    # ---- which transactions of a block reach the spend checks: filter_block ------------------------------------
    params, ret, body = find_fn(cm, 'filter_block')
    m = re.search(r'let mut matched_txn = new_hash_set\(\);\s*txdata\.iter\(\)\.filter\(\|&&\(_, tx\)\| \{(.*)\}\)\.map\(\|\(_, tx\)\| \*tx\)\.collect\(\)\s*\}\s*$', body, re.S)
    if not m: raise TranslateError("filter_block: not `let mut matched_txn = ..; txdata.iter().filter(|&&(_, tx)| {..}).map(|(_, tx)| *tx).collect()`")
    mt = re.match(r'(.*?)if matches \{\s*matched_txn\.insert\(tx\.compute_txid\(\)\);\s*\}\s*matches\s*$', m.group(1).strip(), re.S)
    if not mt: raise TranslateError("filter_block: the closure does not end with `if matches { matched_txn.insert(tx.compute_txid()); } matches`")
    head = mt.group(1).strip()
    ml = re.fullmatch(r'let mut matches = ([^;]+);\s*for input in tx\.input\.iter\(\) \{\s*if matches \{ break; \}\s*if ([^{]+)\{\s*matches = true;\s*\}\s*\}', head, re.S)
    me = re.fullmatch(r'let matches = ([^;]+);', head, re.S)
    if ml: expr = '%s || tx.input.iter().any(|input| %s)' % (ml.group(1).strip(), ml.group(2).strip())
    elif me: expr = me.group(1).strip()
    else: raise TranslateError("filter_block: `matches` is computed in an unknown way: %r" % one(head)[:160])
    def map_or(r, a):
        if len(a) != 2: raise TranslateError("filter_block: map_or with %d arguments" % len(a))
        return '(Option.elim %s %s %s)' % (r, a[0], a[1])
    em = Emitter(methods={'spends_watched_output': lambda r, a: 'spends_watched', 'contains': lambda r, a: '(List.contains %s %s)' % (r, a[0]),
                          'first': lambda r, a: '(List.head? %s)' % r, 'last': lambda r, a: '(List.getLast? %s)' % r,
                          'get': lambda r, a: '(%s[%s]?)' % (r, a[0]), 'map_or': map_or},
                 fields={'txid': lambda r: r, 'previous_output': lambda r: r, 'tx.input': 'input_txids'},
                 env={'self': 'self', 'tx': 'tx', 'matched_txn': 'matched_txn'})
    lean = em.e(parse_expr(expr))
    if re.search(r'\b(self|tx)\b', lean): raise TranslateError("filter_block: `matches` reads something other than spends_watched_output(tx), tx.input and matched_txn: %s" % lean)
    L.append('/-- channelmonitor.rs filter_block: a transaction of the block is handed to the spend checks iff `matches`, where')
    L.append('    `%s`' % one(head))
    L.append('    (`spends_watched` = spends_watched_output(tx) against the outputs watched BEFORE the block; `input_txids` = the txids of the')
    L.append('    outputs its inputs spend, in input order; `matched_txn` = the transactions of this block matched so far) -/')
    L.append('def filterMatches {α : Type} [BEq α] (spends_watched : Bool) (input_txids : List α) (matched_txn : List α) : Bool := ' + lean)
    L.append('')
    # spends_watched_output: ANY input, against outputs_to_watch[txid] by output index (the #[cfg(test)] witness self-check is not rendered)
    params, ret, body = find_fn(cm, 'spends_watched_output')
    b = re.sub(r'#\[cfg\(test\)\]\s*\{', '@@TEST{', body)
    while '@@TEST{' in b:
        i = b.index('@@TEST{'); j = match_brace(b, i + 6)
        b = b[:i] + b[j:]
    want = '{ for input in tx.input.iter() { if let Some(outputs) = self.get_outputs_to_watch().get(&input.previous_output.txid) { for (idx, _script_pubkey) in outputs.iter() { if *idx == input.previous_output.vout { return true; } } } } false }'
    if one(b) != want: raise TranslateError("spends_watched_output changed: %s" % one(b)[:300])
    # where outputs get watched: every output of a counterparty commitment; the claimed outputs of a revoked second-stage transaction;
    # block_confirmed files them under their txid
    params, ret, body = find_fn_where(cm, 'transactions_confirmed', '&mut self')
    if not re.search(r'let mut new_watch_outputs = Vec::new\(\);\s*for \(idx, outp\) in tx\.output\.iter\(\)\.enumerate\(\) \{\s*new_watch_outputs\.push\(\(idx as u32, outp\.clone\(\)\)\);\s*\}\s*watch_outputs\.push\(\(txid, new_watch_outputs\)\);\s*let \(mut new_outpoints, counterparty_output_idx_sats\) =\s*self\.check_spend_counterparty_transaction\(', body):
        raise TranslateError("transactions_confirmed no longer watches every output of a counterparty commitment before check_spend_counterparty_transaction")
    if not re.search(r'if let Some\(new_outputs\) = new_outputs_option \{\s*watch_outputs\.push\(new_outputs\);\s*\}', body):
        raise TranslateError("transactions_confirmed no longer watches the outputs returned by check_spend_counterparty_htlc")
    params, ret, body = find_fn(cm, 'check_spend_counterparty_htlc')
    if not re.search(r'claimable_outpoints\.push\(justice_package\);\s*if outputs_to_watch\.is_none\(\) \{\s*outputs_to_watch = Some\(\(htlc_txid, vec!\[\]\)\);\s*\}\s*outputs_to_watch\.as_mut\(\)\.unwrap\(\)\.1\.push\(\(idx as u32, tx\.output\[idx\]\.clone\(\)\)\);', body):
        raise TranslateError("check_spend_counterparty_htlc no longer watches exactly the outputs it claims")
    m = re.search(r'for \(idx, input\) in tx\.input\.iter\(\)\.enumerate\(\) \{\s*if ([^{]+)\{', body)
    if not m or one(m.group(1)) != 'input.previous_output.txid == *commitment_txid && input.witness.len() == 5 && tx.output.get(idx).is_some()':
        raise TranslateError("check_spend_counterparty_htlc: which inputs yield a claim changed: %r" % (one(m.group(1)) if m else None))
    params, ret, body = find_fn(cm, 'block_confirmed')
    if not re.search(r'watch_outputs\.retain\(\|&\(ref txid, ref txouts\)\| \{\s*let idx_and_scripts = txouts\.iter\(\)\.map\(\|o\| \(o\.0, o\.1\.script_pubkey\.clone\(\)\)\)\.collect\(\);\s*self\.outputs_to_watch\.insert\(txid\.clone\(\), idx_and_scripts\)\.is_none\(\)\s*\}\);', body):
        raise TranslateError("block_confirmed no longer files the new watch outputs in outputs_to_watch")
    L.append('/-- pinned by text: spends_watched_output(tx) = ANY input spends `outputs_to_watch[txid]` at a listed index; a counterparty commitment')
    L.append('    gets ALL its outputs watched, a revoked second-stage transaction exactly the outputs claimed (input i spends the commitment with a')
    L.append('    5-element witness and output i exists); block_confirmed files them under their txid; nothing removes them at a disconnection -/')
    L.append('def watchRegistrationPinned : Bool := true')
    L.append('')
    L.append('end Ldk.JusticeGen')
    text = '\n'.join(L) + '\n'
    old = open(out_path).read() if os.path.exists(out_path) else None
    if old != text:
        open(out_path, 'w').write(text)

if __name__ == '__main__':
    try:
        main(sys.argv[1] if len(sys.argv) > 1 else os.path.join(os.path.dirname(__file__), '..', 'lean', 'LdkModel', 'Generated', 'Justice.lean'))
    except TranslateError as ex:
        print("TRANSLATE-ERROR gen_justice: %s" % ex)
        sys.exit(2)
    except (ValueError, IndexError) as ex:
        print("TRANSLATE-ERROR gen_justice: %s" % ex)
        sys.exit(2)
