#!/usr/bin/env python3
"""Regenerate lean/LdkModel/Generated/PeerWrite.lean from /repo (C15, OUTBOUND path): the decisive
expressions of lightning/src/ln/peer_handler.rs `do_attempt_write_data` and of what feeds it.

Boolean / arithmetic expressions are TRANSLATED operator-for-operator by a small recursive-descent
translator over a fixed vocabulary of atoms (so a flipped comparison, a dropped conjunct, `=` instead of
`+=`, a changed constant all change the generated Lean and break the theorems of Props/C15.lean that use
these definitions); the statements AROUND them are PINNED by whitespace-normalised shape, so a
restructured function is a TRANSLATE-ERROR (exit 2), never silently accepted.

  consts   OUTBOUND_BUFFER_LIMIT_READ_PAUSE, BUFFER_DRAIN_MSGS_PER_TICK, OUTBOUND_BUFFER_SIZE_LIMIT_DROP_GOSSIP,
           MAX_BUFFER_DRAIN_TICK_INTERVALS_PER_PEER
  Peer::   should_read, should_buffer_gossip_backfill, should_buffer_onion_message,
           should_buffer_gossip_broadcast, buffer_full_drop_gossip_broadcast
  PeerManager::  do_attempt_write_data (entry force rule, loop condition, the four refill blocks in order,
           extra-ping threshold, the empty-queue arm, slice offered, offset update, pop test, else arm),
           write_buffer_space_avail, enqueue_message, maybe_send_extra_ping, the Pong arm,
           `received_message_since_timer_tick = true`, timer_tick_occurred (the ping / disconnect ladder),
           forward_broadcast_msg (the three `buffer_full_drop_gossip_broadcast() && !allow_large_buffer`
           guards and the `from_encoded` pushes)
"""
import os, re, sys
sys.path.insert(0, os.path.dirname(os.path.abspath(__file__)))
from gen_peer_sizes import TErr, read, block_after, fn_body, lit
from gen_peer_sizes import norm as _norm


def norm(s):
    """whitespace-normalised text, also no space around `.` (rustfmt breaks method chains)"""
    return re.sub(r'\s*\.\s*', '.', _norm(s))


def pin(text, expected, what):
    if norm(text) != norm(expected):
        raise TErr('%s changed shape:\n   found    %s\n   expected %s' % (what, norm(text)[:400], norm(expected)[:400]))

ROOT = os.path.dirname(os.path.dirname(os.path.abspath(__file__)))
OUT = os.path.join(ROOT, 'lean', 'LdkModel', 'Generated', 'PeerWrite.lean')

# ---------------------------------------------------------------------------------------------------
# expression translator: atoms (Rust text, whitespace-free) -> (Lean text, type)
TOK = re.compile(r'\s*(\|\||&&|==|!=|<=|>=|<|>|!|\(|\)|\+|\*|-)')
CMP = {'<': '<', '<=': '≤', '>': '>', '>=': '≥', '==': '=', '!=': '≠'}


class Tr:
    def __init__(self, src, atoms, what):
        self.s, self.i, self.atoms, self.what = src.strip(), 0, atoms, what

    def fail(self, msg):
        raise TErr('%s: %s at %r in %r' % (self.what, msg, self.s[self.i:self.i + 40], self.s))

    def peek_op(self):
        m = TOK.match(self.s, self.i)
        return m.group(1) if m else None

    def take_op(self):
        m = TOK.match(self.s, self.i)
        self.i = m.end()
        return m.group(1)

    def atom(self):
        while self.i < len(self.s) and self.s[self.i].isspace():
            self.i += 1
        rest = self.s[self.i:]
        best = None
        for a in self.atoms:                       # longest atom that matches modulo whitespace
            pat = r'\s*'.join(re.escape(ch) for ch in a.replace(' ', ''))
            m = re.match(pat, rest)
            if m and (best is None or m.end() > best[0]):
                best = (m.end(), self.atoms[a])
        m = re.match(r'(0x[0-9a-fA-F_]+|\d[\d_]*)(?:u8|u16|u32|u64|usize|i8|i64)?', rest)
        if m and (best is None or m.end() > best[0]):
            best = (m.end(), (str(lit(m.group(0)) if not m.group(0).endswith(('i8', 'i64')) else int(re.match(r'\d+', m.group(0)).group(0))), 'num'))
        if best is None:
            self.fail('unknown atom')
        self.i += best[0]
        # `as u64` / `as usize` casts directly after an atom
        m = re.match(r'\s*as\s+(u64|usize)\b', self.s[self.i:])
        txt, ty = best[1]
        if m:
            self.i += m.end()
            if ty == 'int':
                txt, ty = 'asU64 %s' % paren(txt), 'num'
        return txt, ty

    def unary(self):
        op = self.peek_op()
        if op == '!':
            self.take_op()
            t, ty = self.unary()
            if ty != 'bool':
                self.fail('`!` on a non-boolean')
            return '!' + paren(t), 'bool'
        if op == '(':
            self.take_op()
            t, ty = self.expr()
            if self.take_op() != ')':
                self.fail('expected )')
            return '(' + t + ')', ty
        return self.atom()

    def arith(self):
        t, ty = self.unary()
        while self.peek_op() in ('+', '*', '-'):
            op = self.take_op()
            u, uy = self.unary()
            if ty == 'bool' or uy == 'bool':
                self.fail('arithmetic on a boolean')
            t, ty = '%s %s %s' % (t, op, u), ('int' if 'int' in (ty, uy) else 'num')
        return t, ty

    def cmp(self):
        t, ty = self.arith()
        op = self.peek_op()
        if op in CMP:
            self.take_op()
            u, uy = self.arith()
            if ty == 'bool' and uy == 'bool':
                if op not in ('==', '!='):
                    self.fail('ordering of booleans')
                return '(%s %s %s)' % (t, op, u), 'bool'
            if ty == 'bool' or uy == 'bool':
                self.fail('comparison of a boolean with a number')
            return 'decide (%s %s %s)' % (t, CMP[op], u), 'bool'
        return t, ty

    def conj(self):
        t, ty = self.cmp()
        while self.peek_op() == '&&':
            self.take_op()
            u, uy = self.cmp()
            if ty != 'bool' or uy != 'bool':
                self.fail('&& on non-booleans')
            t = '%s && %s' % (t, u)
        return t, ty

    def expr(self):
        t, ty = self.conj()
        while self.peek_op() == '||':
            self.take_op()
            u, uy = self.conj()
            if ty != 'bool' or uy != 'bool':
                self.fail('|| on non-booleans')
            t = '%s || %s' % (t, u)
        return t, ty

    def run(self, want='bool'):
        t, ty = self.expr()
        if self.s[self.i:].strip():
            self.fail('trailing text')
        if ty != want:
            self.fail('expected a %s expression' % want)
        return t


def paren(t):
    return t if re.fullmatch(r'[\w.]+|\(.*\)', t) else '(' + t + ')'


def tr(src, atoms, what, want='bool'):
    return Tr(src, atoms, what).run(want), re.sub(r'\s+', ' ', src).strip()


def const(src, name, ty):
    m = re.findall(r'\bconst\s+%s\s*:\s*%s\s*=\s*([^;]+);' % (name, ty), src)
    if len(m) != 1:
        raise TErr('const %s: %s: expected exactly one definition, found %d' % (name, ty, len(m)))
    e = m[0].strip()
    if not re.fullmatch(r'[\d_\s*+]+', e):
        raise TErr('const %s: unexpected initialiser %r' % (name, e))
    return eval(e.replace('_', '')), e


def single_expr_body(src, name, prefix=''):
    """body of `fn name` = optional pinned prefix statement(s), then ONE tail expression"""
    b = fn_body(src, name).strip()
    if prefix:
        if not norm(b).startswith(norm(prefix)):
            raise TErr('fn %s: head changed shape: %s' % (name, norm(b)[:200]))
        # cut the prefix text (statement-wise)
        k = b.index(';', b.index('=')) + 1 if 'let' in prefix and 'if' not in prefix else None
        if k is None:
            depth = 0
            for j, ch in enumerate(b):
                depth += {'{': 1, '}': -1}.get(ch, 0)
                if ch == '}' and depth == 0:
                    k = j + 1
                    break
        b = b[k:].strip()
    if ';' in b:
        raise TErr('fn %s: body is no longer a single tail expression: %s' % (name, norm(b)[:200]))
    return b


def main():
    ph = read('lightning/src/ln/peer_handler.rs')
    C = {}
    for name, ty in (('OUTBOUND_BUFFER_LIMIT_READ_PAUSE', 'usize'), ('BUFFER_DRAIN_MSGS_PER_TICK', 'usize'),
                     ('OUTBOUND_BUFFER_SIZE_LIMIT_DROP_GOSSIP', 'usize'), ('MAX_BUFFER_DRAIN_TICK_INTERVALS_PER_PEER', 'i8')):
        C[name] = const(ph, name, ty)
    catoms = {k: (k, 'num') for k in C}
    peer_atoms = dict(catoms)
    peer_atoms.update({
        'self.pending_outbound_buffer.len()': ('outLen', 'num'),
        'self.pending_outbound_buffer.is_empty()': ('decide (outLen = 0)', 'bool'),
        'self.gossip_broadcast_buffer.is_empty()': ('decide (gossipLen = 0)', 'bool'),
        'self.msgs_sent_since_pong': ('msgs', 'num'),
        'self.handshake_complete()': ('hs', 'bool'),
        'gossip_processing_backlogged': ('backlogged', 'bool'),
        'self.received_channel_announce_since_backlogged': ('annSince', 'bool'),
        'total_outbound_buffered': ('total', 'num'),
    })
    d = {}
    # ---- Peer::should_read & friends
    d['should_read'], d['should_read_src'] = tr(single_expr_body(
        ph, 'should_read', 'if !gossip_processing_backlogged { self.received_channel_announce_since_backlogged = false; }'),
        peer_atoms, 'Peer::should_read')
    for fn in ('should_buffer_gossip_backfill', 'should_buffer_onion_message', 'should_buffer_gossip_broadcast'):
        d[fn], d[fn + '_src'] = tr(single_expr_body(ph, fn), peer_atoms, 'Peer::' + fn)
    d['buffer_full'], d['buffer_full_src'] = tr(single_expr_body(
        ph, 'buffer_full_drop_gossip_broadcast',
        '''let total_outbound_buffered: usize = self.gossip_broadcast_buffer.iter().map(|m| m.capacity()).sum::<usize>()
           + self.pending_outbound_buffer.iter().map(|m| m.capacity()).sum::<usize>();'''), peer_atoms,
        'Peer::buffer_full_drop_gossip_broadcast')
    pin(fn_body(ph, 'should_read_from'), 'peer.should_read(self.gossip_processing_backlogged.load(Ordering::Relaxed))', 'should_read_from')

    # ---- do_attempt_write_data
    w = fn_body(ph, 'do_attempt_write_data')
    m = re.match(r'\s*force_one_write\s*(\|=|=)\s*([^;]+);\s*while\s+([^{]+)\{', w)
    if not m:
        raise TErr('do_attempt_write_data: head is not `force_one_write |= ..; while .. {`')
    watoms = {
        'force_one_write': ('force', 'bool'), 'self.should_read_from(peer)': ('shouldRead', 'bool'),
        'peer.sent_pause_read': ('sentPause', 'bool'), 'peer.awaiting_write_event': ('awaiting', 'bool'),
        'peer.msgs_sent_since_pong': ('msgs', 'num'), 'should_read': ('shouldRead', 'bool'),
        'peer.pending_outbound_buffer_first_msg_offset': ('off', 'num'), 'data_sent': ('sent', 'num'),
        'next_buff.len()': ('bufLen', 'num'),
    }
    watoms.update(catoms)
    rhs, d['force_src'] = tr(m.group(2), watoms, 'do_attempt_write_data entry force rule')
    d['force'] = ('force || %s' % paren(rhs)) if m.group(1) == '|=' else rhs
    d['force_src'] = 'force_one_write %s %s' % (m.group(1), d['force_src'])
    d['loop'], d['loop_src'] = tr(m.group(3), watoms, 'do_attempt_write_data loop condition')
    loop = block_after(w, r'while\s+[^{]+\{', 'do_attempt_write_data while')
    # the refill blocks, in order, then the ping threshold, then the write
    order = [mm.group(1) for mm in re.finditer(r'if\s+peer\.(should_buffer_\w+)\(\)\s*\{', loop)]
    if order != ['should_buffer_onion_message', 'should_buffer_gossip_broadcast', 'should_buffer_gossip_backfill']:
        raise TErr('do_attempt_write_data: refill blocks changed order / number: %s' % order)
    pin(block_after(loop, r'if\s+peer\.should_buffer_onion_message\(\)\s*\{', 'onion refill'),
        '''if let Some((peer_node_id, _)) = peer.their_node_id { let handler = &self.message_handler.onion_message_handler;
           if let Some(next_onion_message) = handler.next_onion_message_for_peer(peer_node_id) {
           let msg = Message::OnionMessage(next_onion_message); let _ = self.enqueue_message(peer, msg); } }''', 'onion refill block')
    pin(block_after(loop, r'if\s+peer\.should_buffer_gossip_broadcast\(\)\s*\{', 'gossip refill'),
        '''if let Some(msg) = peer.gossip_broadcast_buffer.pop_front() { peer.msgs_sent_since_pong += 1;
           peer.pending_outbound_buffer.push_back(peer.channel_encryptor.encrypt_buffer(msg)); }''', 'gossip-broadcast refill block')
    bf = block_after(loop, r'if\s+peer\.should_buffer_gossip_backfill\(\)\s*\{', 'backfill refill')
    if not norm(bf).replace(' ', '').startswith('matchpeer.sync_status{InitSyncTracker::NoSyncRequested=>{},') or \
            len(re.findall(r'let _ = self\.enqueue_message\(peer, msg\);', bf)) != 5 or 'pending_outbound_buffer' in bf:
        raise TErr('do_attempt_write_data: gossip backfill block changed shape')
    tail = loop[loop.index(bf) + len(bf):]
    m = re.match(r'\s*\}\s*if\s+([^{]+)\{\s*self\.maybe_send_extra_ping\(peer\);\s*\}(.*)$', tail, re.S)
    if not m:
        raise TErr('do_attempt_write_data: extra-ping statement changed shape')
    d['ping_due'], d['ping_due_src'] = tr(m.group(1), watoms, 'extra-ping threshold')
    rest = m.group(2)
    m = re.match(r'''\s*let\s+should_read\s*=\s*self\.should_read_from\(peer\);
        \s*let\s+next_buff\s*=\s*match\s+peer\.pending_outbound_buffer\.front\(\)\s*\{
        \s*None\s*=>\s*\{\s*if\s+force_one_write\s*\{
        \s*let\s+data_sent\s*=\s*descriptor\.send_data\(&\[\],\s*should_read\);
        \s*debug_assert_eq!\(data_sent,\s*0,\s*"[^"]*"\);
        \s*peer\.sent_pause_read\s*=\s*([^;]+);\s*\}\s*return;\s*\},
        \s*Some\(buff\)\s*=>\s*buff,\s*\};
        \s*force_one_write\s*=\s*false;
        \s*let\s+pending\s*=\s*&next_buff\[peer\.pending_outbound_buffer_first_msg_offset\.\.\];
        \s*let\s+data_sent\s*=\s*descriptor\.send_data\(pending,\s*should_read\);
        \s*peer\.sent_pause_read\s*=\s*([^;]+);
        (?:\s*peer\.pending_outbound_buffer_first_msg_offset\s*(\+=|=|-=)\s*([^;]+);)?
        \s*if\s+([^{]+)\{
        \s*peer\.pending_outbound_buffer_first_msg_offset\s*=\s*(\w+);
        \s*peer\.pending_outbound_buffer\.pop_front\(\);(.*?)\}\s*else\s*\{
        (?:\s*peer\.pending_outbound_buffer_first_msg_offset\s*(\+=|=|-=)\s*([^;]+);)?
        \s*peer\.awaiting_write_event\s*=\s*(\w+);\s*\}\s*$''', rest, re.S | re.X)
    if not m:
        raise TErr('do_attempt_write_data: the write part of the loop changed shape: %s' % norm(rest)[:500])
    d['pause_empty'], _ = tr(m.group(1), watoms, 'sent_pause_read (empty queue)')
    d['pause'], d['pause_src'] = tr(m.group(2), watoms, 'sent_pause_read')
    if d['pause_empty'] != d['pause']:
        raise TErr('do_attempt_write_data: the two sent_pause_read assignments differ')
    def upd(op, rhs_src, what):
        if op is None:
            return 'off', '(no statement)'
        rhs, src = tr(rhs_src, watoms, what, 'num')
        return ({'+=': 'off + %s' % paren(rhs), '=': rhs, '-=': 'off - %s' % paren(rhs)}[op],
                'peer.pending_outbound_buffer_first_msg_offset %s %s' % (op, src))
    watoms['pending.len()'] = ('pendingLen', 'num')
    d['advance'], d['advance_src'] = upd(m.group(3), m.group(4), 'offset update')
    d['partial'], d['partial_src'] = upd(m.group(8), m.group(9), 'offset update in the else arm')
    d['done'], d['done_src'] = tr(m.group(5), watoms, 'buffer-finished test')
    d['reset_off'] = lit(m.group(6))
    if 'pending_outbound_buffer_first_msg_offset' in m.group(7) or 'push' in m.group(7) or 'awaiting_write_event' in m.group(7):
        raise TErr('do_attempt_write_data: the shrink_to_fit block now touches the queue state')
    if m.group(10) != 'true':
        raise TErr('do_attempt_write_data: else arm no longer sets awaiting_write_event = true')

    # ---- write_buffer_space_avail, enqueue_message, maybe_send_extra_ping, Pong arm, received flag
    wb = fn_body(ph, 'write_buffer_space_avail')
    if not re.search(r'let mut peer = peer_mutex\.lock\(\)\.unwrap\(\);\s*peer\.awaiting_write_event = false;\s*self\.do_attempt_write_data\(descriptor, &mut peer, true\);', wb):
        raise TErr('write_buffer_space_avail changed shape')
    eq = fn_body(ph, 'enqueue_message')
    m = re.search(r'peer\.msgs_sent_since_pong \+= (\d+);\s*let msg_ty = message\.type_id\(\);\s*match peer\.channel_encryptor\.encrypt_message\(message\) \{\s*Ok\(encrypted_msg\) => \{\s*peer\.pending_outbound_buffer\.push_back\(encrypted_msg\);\s*Ok\(\(\)\)\s*\},', eq)
    if not m or 'buffer_full' in eq or 'OUTBOUND_BUFFER' in eq or eq.count('pending_outbound_buffer') != 1:
        raise TErr('enqueue_message changed shape (count, push_back, or it now consults a buffer limit)')
    d['enq_inc'] = int(m.group(1))
    pin(fn_body(ph, 'maybe_send_extra_ping'),
        '''if peer.awaiting_pong_timer_tick_intervals == 0 { peer.awaiting_pong_timer_tick_intervals = -1;
           let ping = msgs::Ping { ponglen: 0, byteslen: 64 }; let msg: Message<CMH::CustomMessage> = Message::Ping(ping);
           let _ = self.enqueue_message(peer, msg); }''', 'maybe_send_extra_ping')
    if not re.search(r'Message::Pong\(_msg\) => \{\s*let mut peer_lock = peer_mutex\.lock\(\)\.unwrap\(\);\s*peer_lock\.awaiting_pong_timer_tick_intervals = 0;\s*peer_lock\.msgs_sent_since_pong = 0;\s*\},', ph):
        raise TErr('the Message::Pong arm changed shape')
    if not re.match(r'\s*peer_lock\.received_message_since_timer_tick = true;', fn_body(ph, 'do_handle_message_holding_peer_lock')):
        raise TErr('do_handle_message_holding_peer_lock no longer starts with received_message_since_timer_tick = true')

    # ---- timer_tick_occurred: the ladder inside `loop { .. }`
    tt = block_after(ph, r'pub fn timer_tick_occurred\(&self\)\s*\{', 'pub fn timer_tick_occurred')
    lad = block_after(tt, r'\bloop\s*\{', 'timer_tick_occurred loop')
    tatoms = {'peer.awaiting_pong_timer_tick_intervals': ('t', 'int'), 'peer.received_message_since_timer_tick': ('recv', 'bool'),
              'peers_lock.len()': ('npeers', 'num'), 'not_recently_active': ('notRecentlyActive', 'bool'),
              'reached_threshold_intervals': ('reachedThreshold', 'bool'),
              'MAX_BUFFER_DRAIN_TICK_INTERVALS_PER_PEER': ('MAX_BUFFER_DRAIN_TICK_INTERVALS_PER_PEER', 'num')}
    m = re.match(r'''\s*if\s+([^{]+)\{\s*peer\.awaiting_pong_timer_tick_intervals\s*=\s*1;
        \s*peer\.received_message_since_timer_tick\s*=\s*false;\s*break;\s*\}
        \s*let\s+not_recently_active\s*=\s*([^;]+);
        \s*let\s+reached_threshold_intervals\s*=\s*([^;]+);
        \s*if\s+([^{]+)\{\s*descriptors_needing_disconnect\.push\(descriptor\.clone\(\)\);\s*break;\s*\}
        \s*peer\.received_message_since_timer_tick\s*=\s*false;
        \s*if\s+([^{]+)\{\s*peer\.awaiting_pong_timer_tick_intervals\s*\+=\s*1;\s*break;\s*\}
        \s*peer\.awaiting_pong_timer_tick_intervals\s*=\s*1;
        \s*let\s+ping\s*=\s*msgs::Ping\s*\{\s*ponglen:\s*0,\s*byteslen:\s*64\s*\};
        \s*let\s+msg\s*=\s*Message::Ping\(ping\);
        \s*let\s+_\s*=\s*self\.enqueue_message\(&mut\s+\*peer,\s*msg\);\s*break;\s*$''', lad, re.S | re.X)
    if not m:
        raise TErr('timer_tick_occurred: the ping / disconnect ladder changed shape: %s' % norm(lad)[:400])
    d['t_magic'], d['t_magic_src'] = tr(m.group(1).replace('-1', '(0 - 1)'), tatoms, 'timer magic value')
    d['t_nra'], d['t_nra_src'] = tr(m.group(2), tatoms, 'not_recently_active')
    d['t_thr'], d['t_thr_src'] = tr(m.group(3), tatoms, 'reached_threshold_intervals')
    d['t_disc'], d['t_disc_src'] = tr(m.group(4), tatoms, 'timer disconnect rule')
    d['t_wait'], d['t_wait_src'] = tr(m.group(5), tatoms, 'timer still-waiting rule')
    if not re.search(r'break;\s*\}\s*self\.do_attempt_write_data\(\s*&mut \(descriptor\.clone\(\)\),\s*&mut \*peer,\s*flush_read_disabled,?\s*\);', tt):
        raise TErr('timer_tick_occurred: the ladder is no longer followed by do_attempt_write_data(.., flush_read_disabled)')

    # ---- forward_broadcast_msg: the buffer-limit guards are the only place a limit drops a message
    fb = fn_body(ph, 'forward_broadcast_msg')
    guards = re.findall(r'if\s+([^{]*buffer_full_drop_gossip_broadcast[^{]*)\{', fb)
    if len(guards) != 3 or len(set(norm(g) for g in guards)) != 1:
        raise TErr('forward_broadcast_msg: expected three identical buffer-limit guards, found %s' % [norm(g) for g in guards])
    fatoms = {'peer.buffer_full_drop_gossip_broadcast()': ('bufferFull', 'bool'), 'allow_large_buffer': ('allowLarge', 'bool')}
    d['bc_skip'], d['bc_skip_src'] = tr(guards[0], fatoms, 'forward_broadcast_msg guard')
    if len(re.findall(r'if let Ok\(encoded_message\) = MessageBuf::from_encoded\(&encoded_msg\) \{\s*peer\.gossip_broadcast_buffer\.push_back\(encoded_message\);\s*\}', fb)) != 3:
        raise TErr('forward_broadcast_msg: the three from_encoded pushes changed shape')
    uses = re.findall(r'buffer_full_drop_gossip_broadcast\(\)', ph.split('pub fn verif_outbound_state')[0])  # the read-only verif hook also reports it
    if len(uses) != 3:
        raise TErr('buffer_full_drop_gossip_broadcast is now consulted in %d places (expected the 3 guards of forward_broadcast_msg)' % len(uses))

    out = '''/- GENERATED by tools/gen_peer_write.py from lightning/src/ln/peer_handler.rs — do not edit.
   Decisive expressions of the OUTBOUND path (do_attempt_write_data and what feeds it), translated
   operator-for-operator; the statements around them are pinned by shape. -/
namespace Ldk.PeerWriteGen
/-- `const OUTBOUND_BUFFER_LIMIT_READ_PAUSE: usize = %(c0s)s;` -/
def OUTBOUND_BUFFER_LIMIT_READ_PAUSE : Nat := %(c0)d
/-- `const BUFFER_DRAIN_MSGS_PER_TICK: usize = %(c1s)s;` -/
def BUFFER_DRAIN_MSGS_PER_TICK : Nat := %(c1)d
/-- `const OUTBOUND_BUFFER_SIZE_LIMIT_DROP_GOSSIP: usize = %(c2s)s;` -/
def OUTBOUND_BUFFER_SIZE_LIMIT_DROP_GOSSIP : Nat := %(c2)d
/-- `const MAX_BUFFER_DRAIN_TICK_INTERVALS_PER_PEER: i8 = %(c3s)s;` -/
def MAX_BUFFER_DRAIN_TICK_INTERVALS_PER_PEER : Nat := %(c3)d
/-- `x as u64` of an `i64` -/
def asU64 (t : Int) : Nat := if t < 0 then (t + 18446744073709551616).toNat else t.toNat
/-- Peer::should_read (after the reset of the flag): `%(should_read_src)s` -/
def shouldRead (outLen : Nat) (backlogged annSince : Bool) : Bool := %(should_read)s
/-- Peer::should_buffer_gossip_backfill: `%(should_buffer_gossip_backfill_src)s` -/
def shouldBufferGossipBackfill (outLen gossipLen msgs : Nat) (hs : Bool) : Bool := %(should_buffer_gossip_backfill)s
/-- Peer::should_buffer_onion_message: `%(should_buffer_onion_message_src)s` -/
def shouldBufferOnionMessage (outLen msgs : Nat) (hs : Bool) : Bool := %(should_buffer_onion_message)s
/-- Peer::should_buffer_gossip_broadcast: `%(should_buffer_gossip_broadcast_src)s` -/
def shouldBufferGossipBroadcast (outLen msgs : Nat) (hs : Bool) : Bool := %(should_buffer_gossip_broadcast)s
/-- Peer::buffer_full_drop_gossip_broadcast, `total` = sum of the capacities of both queues: `%(buffer_full_src)s` -/
def bufferFullDropGossip (total : Nat) : Bool := %(buffer_full)s
/-- forward_broadcast_msg (all three arms): skip the peer `if %(bc_skip_src)s` -/
def broadcastSkips (bufferFull allowLarge : Bool) : Bool := %(bc_skip)s
/-- do_attempt_write_data entry: `%(force_src)s` -/
def forceOnEntry (force shouldRead sentPause : Bool) : Bool := %(force)s
/-- do_attempt_write_data: `while %(loop_src)s` -/
def loopCond (force awaiting : Bool) : Bool := %(loop)s
/-- do_attempt_write_data: `if %(ping_due_src)s { self.maybe_send_extra_ping(peer) }` -/
def extraPingDue (msgs : Nat) : Bool := %(ping_due)s
/-- do_attempt_write_data (both send_data sites): `peer.sent_pause_read = %(pause_src)s` -/
def sentPauseAfter (shouldRead : Bool) : Bool := %(pause)s
/-- do_attempt_write_data, after `send_data`: `%(advance_src)s` -/
def advanceOffset (off sent : Nat) : Nat := %(advance)s
/-- do_attempt_write_data: `if %(done_src)s { offset = %(reset_off)d; pop_front() } else { ..; awaiting_write_event = true }`
    (`off` = the offset after the statement above, `pendingLen` = `pending.len()`) -/
def bufferDone (off bufLen sent pendingLen : Nat) : Bool := %(done)s
/-- do_attempt_write_data, else arm: `%(partial_src)s` -/
def partialOffset (off sent : Nat) : Nat := %(partial)s
def OFFSET_AFTER_POP : Nat := %(reset_off)d
/-- enqueue_message: `peer.msgs_sent_since_pong += %(enq_inc)d` -/
def ENQUEUE_COUNT : Nat := %(enq_inc)d
/-- timer_tick_occurred: `if %(t_magic_src)s { t = 1; recv = false; break }` -/
def timerMagic (t : Int) : Bool := %(t_magic)s
/-- timer_tick_occurred: `let not_recently_active = %(t_nra_src)s` -/
def notRecentlyActive (t : Int) (recv : Bool) : Bool := %(t_nra)s
/-- timer_tick_occurred: `let reached_threshold_intervals = %(t_thr_src)s` -/
def reachedThreshold (t : Int) (npeers : Nat) : Bool := %(t_thr)s
/-- timer_tick_occurred: `if %(t_disc_src)s { disconnect }` -/
def timerDisconnects (notRecentlyActive reachedThreshold : Bool) : Bool := %(t_disc)s
/-- timer_tick_occurred: `if %(t_wait_src)s { t += 1; break }` (otherwise t = 1 and a ping is enqueued) -/
def timerStillWaiting (t : Int) : Bool := %(t_wait)s
end Ldk.PeerWriteGen
''' % dict(d, c0=C['OUTBOUND_BUFFER_LIMIT_READ_PAUSE'][0], c0s=C['OUTBOUND_BUFFER_LIMIT_READ_PAUSE'][1],
           c1=C['BUFFER_DRAIN_MSGS_PER_TICK'][0], c1s=C['BUFFER_DRAIN_MSGS_PER_TICK'][1],
           c2=C['OUTBOUND_BUFFER_SIZE_LIMIT_DROP_GOSSIP'][0], c2s=C['OUTBOUND_BUFFER_SIZE_LIMIT_DROP_GOSSIP'][1],
           c3=C['MAX_BUFFER_DRAIN_TICK_INTERVALS_PER_PEER'][0], c3s=C['MAX_BUFFER_DRAIN_TICK_INTERVALS_PER_PEER'][1])
    old = open(OUT).read() if os.path.exists(OUT) else None
    if old != out:
        with open(OUT, 'w') as f:
            f.write(out)
        print('wrote', OUT)
    else:
        print('unchanged', OUT)


if __name__ == '__main__':
    try:
        main()
    except TErr as e:
        print('TRANSLATE-ERROR gen_peer_write.py:', e)
        sys.exit(2)
