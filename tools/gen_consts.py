#!/usr/bin/env python3
"""Regenerate lean/LdkModel/Generated/Consts.lean from /repo's current Rust sources.

For every whitelisted constant: find `const NAME: ty = expr;` in the named file, honour the
`#[cfg(..)]` attribute directly above it (the harness builds with features _test_utils +
grind_signatures, cfg(test)/cfg(fuzzing) off), evaluate `expr` over already-read constants, and
emit `def NAME : Nat := <value>`.  The defining expression is evaluated, not copied, so Lean
proofs see the numeric value the compiled code uses.  Also translates the `const _: () =
assert!(..)` static assertions of channelmanager.rs / channelmonitor.rs into Lean `theorem`s
proved by `decide` (they are *re-proved*, not trusted).
"""
import re, sys, os, json
sys.path.insert(0, os.path.dirname(__file__))
from rs2lean import parse_expr, Emitter, TranslateError, strip_comments

REPO = os.environ.get('VERIF_REPO', '/repo')

WANT = [
    ('lightning/src/chain/channelmonitor.rs', [
        'COUNTERPARTY_CLAIMABLE_WITHIN_BLOCKS_PINNABLE', 'MAX_BLOCKS_FOR_CONF', 'CLTV_CLAIM_BUFFER',
        'LATENCY_GRACE_PERIOD_BLOCKS', 'ANTI_REORG_DELAY', 'ARCHIVAL_DELAY_BLOCKS', 'HTLC_FAIL_BACK_BUFFER']),
    ('lightning/src/ln/channelmanager.rs', [
        'BREAKDOWN_TIMEOUT', 'MAX_LOCAL_BREAKDOWN_TIMEOUT', 'MIN_CLTV_EXPIRY_DELTA', 'CLTV_FAR_FAR_AWAY',
        'MIN_FINAL_CLTV_EXPIRY_DELTA', '_ASSUMED_COUNTERPARTY_CLTV_CLAIM_BUFFER', 'MPP_TIMEOUT_TICKS']),
    ('lightning/src/ln/outbound_payment.rs', ['IDEMPOTENCY_TIMEOUT_TICKS']),
    ('lightning/src/chain/package.rs', [
        'LOW_FREQUENCY_BUMP_INTERVAL', 'MIDDLE_FREQUENCY_BUMP_INTERVAL', 'HIGH_FREQUENCY_BUMP_INTERVAL',
        'WEIGHT_REVOKED_OUTPUT']),
    ('lightning/src/ln/chan_utils.rs', [
        'COMMITMENT_TX_WEIGHT_PER_HTLC', 'COMMITMENT_TX_BASE_WEIGHT', 'COMMITMENT_TX_BASE_ANCHOR_WEIGHT',
        'HTLC_SUCCESS_TX_WEIGHT', 'HTLC_SUCCESS_ANCHOR_TX_WEIGHT', 'HTLC_TIMEOUT_TX_WEIGHT',
        'HTLC_TIMEOUT_ANCHOR_TX_WEIGHT', 'P2A_MAX_VALUE', 'ANCHOR_INPUT_WITNESS_WEIGHT',
        'EMPTY_WITNESS_WEIGHT', 'TRUC_CHILD_MAX_WEIGHT']),
    ('lightning/src/ln/channel.rs', [
        'INITIAL_COMMITMENT_NUMBER', 'ANCHOR_OUTPUT_VALUE_SATOSHI', 'FEE_SPIKE_BUFFER_FEE_INCREASE_MULTIPLE',
        'CONCURRENT_INBOUND_HTLC_FEE_BUFFER', 'MIN_AFFORDABLE_HTLC_COUNT', 'TOTAL_BITCOIN_SUPPLY_SATOSHIS',
        'MIN_CHAN_DUST_LIMIT_SATOSHIS', 'MAX_CHAN_DUST_LIMIT_SATOSHIS', 'MAX_STD_OUTPUT_DUST_LIMIT_SATOSHIS',
        'MIN_THEIR_CHAN_RESERVE_SATOSHIS', 'DEFAULT_MAX_HTLCS']),
    ('lightning/src/ln/onion_utils.rs', ['ONION_DATA_LEN', 'HOLD_TIME_LEN', 'MAX_HOPS', 'HMAC_LEN', 'HMAC_COUNT',
                                         'DEFAULT_MIN_FAILURE_PACKET_LEN']),
    ('lightning/src/ln/peer_channel_encryptor.rs', ['LN_MAX_MSG_LEN']),
    ('lightning/src/ln/msgs.rs', ['MAX_VALUE_MSAT']),
    ('lightning/src/routing/gossip.rs', ['STALE_CHANNEL_UPDATE_AGE_LIMIT_SECS', 'REMOVED_ENTRIES_TRACKING_AGE_LIMIT_SECS',
                                         'MAX_EXCESS_BYTES_FOR_RELAY', 'MAX_SCIDS_PER_REPLY']),
    ('lightning-block-sync/src/lib.rs', ['HEADER_CACHE_LIMIT']),
    ('lightning/src/chain/chaininterface.rs', ['INCREMENTAL_RELAY_FEE_SAT_PER_1000_WEIGHT', 'FEERATE_FLOOR_SATS_PER_KW']),
]

BUILTIN = {'WITNESS_SCALE_FACTOR': 4, 'u16::MAX': 65535, 'u32::MAX': 2**32 - 1, 'u64::MAX': 2**64 - 1,
           'u8::MAX': 255, 'core::u16::MAX': 65535}

ACTIVE = {'feature = "_test_utils"': True, 'feature = "grind_signatures"': True, 'feature = "std"': True,
          'test': False, 'fuzzing': False, 'ldk_bench': False, 'feature = "verif_hooks"': True,
          'c_bindings': False, 'debug_assertions': True}

def eval_cfg(s):
    s = s.strip()
    m = re.fullmatch(r'(not|any|all)\((.*)\)', s, re.S)
    if m:
        parts, d, cur = [], 0, ''
        for c in m.group(2):
            if c == '(': d += 1
            if c == ')': d -= 1
            if c == ',' and d == 0:
                parts.append(cur); cur = ''
            else:
                cur += c
        if cur.strip(): parts.append(cur)
        vals = [eval_cfg(p) for p in parts]
        return {'not': lambda: not vals[0], 'any': lambda: any(vals), 'all': lambda: all(vals)}[m.group(1)]()
    s = re.sub(r'\s+', ' ', s)
    if s in ACTIVE:
        return ACTIVE[s]
    raise TranslateError("unknown cfg predicate %r" % s)

def pyeval(ast, env):
    k = ast[0]
    if k == 'num': return ast[1]
    if k == 'var':
        n = ast[1]
        if n in env: return env[n]
        b = n.split('::')[-1]
        if n in BUILTIN: return BUILTIN[n]
        if b in env: return env[b]
        if b in BUILTIN: return BUILTIN[b]
        raise TranslateError("constant expression uses unknown name %s" % n)
    if k == 'cast': return pyeval(ast[1], env)
    if k == 'bin':
        a, b = pyeval(ast[2], env), pyeval(ast[3], env)
        op = ast[1]
        return {'+': lambda: a + b, '-': lambda: a - b, '*': lambda: a * b, '/': lambda: a // b,
                '<<': lambda: a << b, '>>': lambda: a >> b, '%': lambda: a % b}[op]()
    raise TranslateError("constant expression outside subset: %s" % (ast,))

CONST_RE = re.compile(r'^(?P<ind>[ \t]*)(?:pub(?:\([a-z]+\))?\s+)?const\s+(?P<name>[A-Za-z_][A-Za-z0-9_]*)\s*:\s*(?P<ty>[a-z0-9]+)\s*=\s*(?P<expr>[^;]*);', re.M)

def read_consts(path, names, env, prod):
    src = open(os.path.join(REPO, path)).read()
    lines = src.split('\n')
    found = {}
    pending = []
    for m in CONST_RE.finditer(src):
        name = m.group('name')
        if name not in names:
            continue
        # cfg attributes directly above (skipping doc comments)
        ln = src.count('\n', 0, m.start())
        j = ln - 1
        cfgs = []
        while j >= 0 and (lines[j].strip().startswith('///') or lines[j].strip().startswith('#[') or lines[j].strip().startswith('//')):
            t = lines[j].strip()
            mm = re.fullmatch(r'#\[cfg\((.*)\)\]', t)
            if mm: cfgs.append(mm.group(1))
            j -= 1
        active = all(eval_cfg(c) for c in cfgs)
        expr = strip_comments(m.group('expr'))
        pending.append((name, active, expr, ln))
    # constants may be defined in any order: iterate to a fixed point
    progress = True
    while pending and progress:
        progress = False
        for item in list(pending):
            name, active, expr, ln = item
            try:
                val = pyeval(parse_expr(expr), env)
            except TranslateError as ex:
                if 'unknown name' in str(ex):
                    continue
                raise
            pending.remove(item)
            progress = True
            if active:
                if name in found:
                    raise TranslateError("%s: two active definitions in %s" % (name, path))
                found[name] = (val, ' '.join(expr.split()), ln + 1)
                env[name] = val
            else:
                prod[name] = val
    if pending:
        raise TranslateError("could not evaluate %s in %s" % ([p[0] for p in pending], path))
    for n in names:
        if n not in found:
            raise TranslateError("constant %s not found (active cfg) in %s" % (n, path))
        env[n] = found[n][0]
    return found

ASSERT_RE = re.compile(r'const\s+(_[A-Z_]*|_)\s*:\s*\(\)\s*=\s*assert!\((?P<e>.*?)\);', re.S)

def main(out_path):
    env, prod = {}, {}
    out = ['/- GENERATED by tools/gen_consts.py from the Rust sources — do not edit.  Regenerated on every check. -/',
           'namespace Ldk', '']
    meta = {}
    for path, names in WANT:
        found = read_consts(path, set(names), env, prod)
        out.append('-- %s' % path)
        for n in names:
            v, ex, ln = found[n]
            out.append('/-- `%s` (line %d) -/' % (ex.replace('/-', '/ -'), ln))
            out.append('def %s : Nat := %d' % (n, v))
            meta[n] = {'value': v, 'expr': ex, 'file': path, 'line': ln}
        out.append('')
    # production-only values that differ (recorded, not exercised)
    for n, v in sorted(prod.items()):
        if n in env and env[n] != v:
            out.append('/-- production (non-_test_utils) value of %s; not exercised by the harness -/' % n)
            out.append('def %s_prod : Nat := %d' % (n, v))
    out.append('')
    out.append('/-- unfold every generated constant (so that `omega`/`decide` see numerals) -/')
    out.append('macro "unfold_consts" : tactic => `(tactic| try simp only [%s] at *)' % ', '.join(list(meta.keys())))
    out.append('/-- bring `NAME = value` facts for every generated constant into the context (for `omega`) -/')
    out.append('macro "consts_facts" : tactic => `(tactic| (' + '; '.join('have : %s = %d := rfl' % (n, meta[n]['value']) for n in meta) + '))')
    out.append('')
    # static assertions
    em = Emitter()
    k = 0
    for path in ('lightning/src/chain/channelmonitor.rs', 'lightning/src/ln/channelmanager.rs'):
        src = strip_comments(open(os.path.join(REPO, path)).read())
        for m in ASSERT_RE.finditer(src):
            e = ' '.join(m.group('e').split())
            lean = em.e(parse_expr(e))
            k += 1
            out.append('/-- static assertion in %s: `%s` -/' % (path, e))
            out.append('theorem static_assert_%d : %s = true := by decide' % (k, lean))
    if k < 4:
        raise TranslateError("expected at least 4 static assertions, found %d" % k)
    out.append('')
    out.append('end Ldk')
    text = '\n'.join(out) + '\n'
    old = open(out_path).read() if os.path.exists(out_path) else None
    if old != text:
        os.makedirs(os.path.dirname(out_path), exist_ok=True)
        open(out_path, 'w').write(text)
    json.dump(meta, open(os.path.join(os.path.dirname(out_path), 'consts.json'), 'w'), indent=1, sort_keys=True)

if __name__ == '__main__':
    try:
        main(sys.argv[1] if len(sys.argv) > 1 else os.path.join(os.path.dirname(__file__), '..', 'lean', 'LdkModel', 'Generated', 'Consts.lean'))
    except TranslateError as ex:
        print("TRANSLATE-ERROR gen_consts: %s" % ex)
        sys.exit(2)
