#!/bin/bash
# Regression of every seeded change against the CURRENT /verif, each in an isolated sandbox (tools/mut_sandbox.sh):
#   tools/regress_seeded.sh [seed-id ...]        (default: all of /verif/seeded/*/patch.diff)
# Appends one line per seed to /verif/seeded/REGRESSION.tsv: seed, property, verdict (VIOLATION / MISSED / ERROR), failing-input?, first evidence line
cd /verif
ids=("$@"); if [ ${#ids[@]} -eq 0 ]; then ids=($(ls seeded | grep -E '^C[0-9]{2}-')); fi
for sid in "${ids[@]}"; do
  pid=${sid%%-*}; n=rg_$(echo $sid | tr 'A-Z-' 'a-z_')
  if ! tools/mut_sandbox.sh new $n /verif/seeded/$sid/patch.diff > /tmp/rg_$sid.new.log 2>&1; then printf "%s\t%s\tERROR\t-\tpatch does not apply on /repo HEAD\n" $sid $pid >> seeded/REGRESSION.tsv; tools/mut_sandbox.sh rm $n; continue; fi
  tools/mut_sandbox.sh check $n $pid > /tmp/rg_$sid.log 2>&1; rc=$?
  v=MISSED; grep -q '^VIOLATION' /tmp/rg_$sid.log && v=VIOLATION
  fi_=no; grep -q '^FAILING-INPUT' /tmp/rg_$sid.log && fi_=yes
  first=$(grep -E '^(BROKEN|FAILING-INPUT)' /tmp/rg_$sid.log | head -1 | cut -c1-220 | tr '\t' ' ')
  printf "%s\t%s\t%s\t%s\t%s\n" $sid $pid $v $fi_ "$first" >> seeded/REGRESSION.tsv
  tools/mut_sandbox.sh rm $n
done
