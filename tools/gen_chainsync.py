#!/usr/bin/env python3
"""Regenerate lean/LdkModel/Generated/{ChainSyncConsts,ChainSync}.lean from /repo's lightning-block-sync (C20).

Generated/ChainSync.lean holds the DECISION EXPRESSIONS of lib.rs / poll.rs / init.rs, translated with
tools/rs2lean.py from the Rust text on every run; Model/ChainSync.lean CALLS them (it has no comparison of
its own), so a changed comparison changes the model and the theorems of Props/C20.lean are re-checked
against it:

  poll.rs   poll_chain_tip           Common test, Better test (chainwork)
            check_builds_on          prev-hash, height+1, chainwork arithmetic, and the Network::Bitcoin arm
                                     (retarget height, 4x transition window, equal bits) — whole body, in order
            look_up_previous_header  genesis test
            Validate for BlockHeaderData / BlockData   PoW first, then `hash != requested`, then (full block
                                     only) merkle root and witness commitment — both bodies, in order
  lib.rs    find_difference_from_header   loop exit and the two walk conditions (whole loop body pinned)
            synchronize_listener     disconnect test;  update_chain_tip  partial-advance guard
            HeaderCache              block_connected / insert_during_diff cutoff + retain, blocks_disconnected retain
            find_difference_from_best_block   locator height_diff index and the checked_sub
  init.rs   synchronize_listeners    disconnect test, longest-list test, per-listener delivery test,
                                     MAX_BLOCKS_AT_ONCE (evaluated) and the truncate that consumes a batch

What is NOT an expression (statement order: fetch-then-notify-then-cache, `?` positions, drain(..).rev()) stays
pinned as text (ANCHORS) and is tied by the differential run.  Exit 2 with TRANSLATE-ERROR when a shape changed.
"""
import re, sys, os
sys.path.insert(0, os.path.dirname(os.path.abspath(__file__)))
from rs2lean import parse_expr, Emitter, TranslateError, strip_comments, find_fn

REPO = os.environ.get('VERIF_REPO', '/repo')
GEN = os.path.join(os.path.dirname(os.path.abspath(__file__)), '..', 'lean', 'LdkModel', 'Generated')

# statement-order anchors (not expressions): still pinned as text
ANCHORS = [
    ('lightning-block-sync/src/poll.rs', r'let\s+chain_tip\s*=\s*self\.block_source\.get_header\(&block_hash,\s*height\)\.await\?\.validate\(block_hash\)\?;', 'poll_chain_tip: the tip header is fetched and validated against the best-block hash'),
    ('lightning-block-sync/src/poll.rs', r'\.get_header\(previous_hash,\s*Some\(height\)\)\s*\.await\?\s*\.validate\(\*previous_hash\)\?;\s*header\.check_builds_on\(&previous_header,\s*self\.network\)\?;', 'look_up_previous_header: validate against prev_blockhash, then check_builds_on'),
    ('lightning-block-sync/src/poll.rs', r'async move \{ self\.block_source\.get_block\(&header\.block_hash\)\.await\?\.validate\(header\.block_hash\) \}', 'fetch_block: validate against the header hash'),
    ('lightning-block-sync/src/lib.rs', r'for\s+header\s+in\s+connected_blocks\.drain\(\.\.\)\.rev\(\)', 'connect_blocks: oldest first'),
    ('lightning-block-sync/src/lib.rs', r'\.map_err\(\|e\|\s*\(e,\s*Some\(new_tip\)\)\)\?', 'connect_blocks: fetch error reports new_tip'),
    ('lightning-block-sync/src/lib.rs', r'self\.header_cache\.block_connected\(header\.block_hash,\s*header\);\s*new_tip\s*=\s*header;', 'connect_blocks: cache and advance after notifying'),
    ('lightning-block-sync/src/lib.rs', r'match\s+self\.header_cache\.look_up\(&header\.header\.prev_blockhash\)\s*\{\s*Some\(prev_header\)\s*=>\s*Ok\(\*prev_header\),\s*None\s*=>\s*chain_poller\.look_up_previous_header\(header\)\.await,', 'ChainNotifier::look_up_previous_header: cache first'),
    ('lightning-block-sync/src/lib.rs', r'Ok\(_\)\s*=>\s*\{\s*self\.chain_tip\s*=\s*best_chain_tip;\s*true\s*\},', 'update_chain_tip: Ok arm'),
    ('lightning-block-sync/src/lib.rs', r'ChainTip::Common\s*=>\s*false,\s*ChainTip::Better\(chain_tip\)\s*=>\s*\{.*?self\.update_chain_tip\(chain_tip\)\.await\s*\},\s*ChainTip::Worse\(chain_tip\)\s*=>\s*\{.*?false\s*\},', 'poll_best_tip: only Better updates'),
    ('lightning-block-sync/src/init.rs', r'for\s+header\s+in\s+most_connected_blocks\.iter\(\)\.rev\(\)\.take\(MAX_BLOCKS_AT_ONCE\)', 'synchronize_listeners: batch = oldest MAX_BLOCKS_AT_ONCE'),
    ('lightning-block-sync/src/init.rs', r'let\s+block\s*=\s*block_res\?;\s*header_cache\.block_connected\(header\.block_hash,\s*\*header\);', 'synchronize_listeners: a failed fetch returns before the batch is delivered'),
]

class Bad(Exception): pass
def fail(msg):
    print('TRANSLATE-ERROR gen_chainsync.py: ' + msg)
    sys.exit(2)
def norm(s): return ' '.join(s.split())

# Rust field paths of ValidatedBlockHeader / BlockHeaderData -> fields of the Lean `Hdr`
RENAMES = [
    (r'\.header\.block_hash\(\)', '.hash'), (r'\.header\.prev_blockhash', '.parent'), (r'\.header\.bits', '.bits'),
    (r'\.block_hash\b', '.hash'), (r'\.chainwork\b', '.work'), (r'\bself\.', 'self_.'), (r'\*self\b', 'self_'),
]
def tr(expr, extra=(), methods=None):
    e = expr
    for a, b in list(extra) + RENAMES: e = re.sub(a, b, e)
    try:
        return Emitter(narrow=lambda t: False, methods=methods or {}).e(parse_expr(e))
    except TranslateError as ex:
        raise Bad('cannot translate `%s`: %s' % (expr, ex))

def body_of(src, fn, after=None):
    try:
        _, _, b = find_fn(src, fn, after=after)
    except (TranslateError, ValueError) as ex:
        raise Bad('fn %s not found (%s)' % (fn, ex))
    return norm(strip_comments(b))

def must(pat, text, what):
    m = re.fullmatch(pat, text, re.S) if pat.startswith('^FULL:') is False and False else None
    return m

def full(pat, text, what):
    m = re.fullmatch(pat, text, re.S)
    if not m: raise Bad('%s: the body no longer has the expected shape' % what)
    return m
def one(pat, text, what):
    ms = re.findall(pat, text, re.S)
    if len(ms) != 1: raise Bad('%s: expected exactly one occurrence, found %d' % (what, len(ms)))
    return ms[0]

ERR = r'return Err\(BlockSourceError::persistent\("([^"]*)"\)\);'

def gen(srcs):
    poll, lib, init = (srcs['lightning-block-sync/src/' + f] for f in ('poll.rs', 'lib.rs', 'init.rs'))
    D = []   # (doc, lean definition)
    def d(doc, text): D.append('/-- %s -/\n%s\n' % (doc, text))

    # ---- poll.rs poll_chain_tip ----------------------------------------------------------------
    k = poll.index('for ChainPoller<B, T>')
    b = body_of(poll, 'poll_chain_tip', after='for ChainPoller<B, T>')
    m = full(r'\{ async move \{ let \(block_hash, height\) = self\.block_source\.get_best_block\(\)\.await\?; if (.+?) \{ return Ok\(ChainTip::Common\); \} '
             r'let chain_tip = self\.block_source\.get_header\(&block_hash, height\)\.await\?\.validate\(block_hash\)\?; '
             r'if (.+?) \{ Ok\(ChainTip::Better\(chain_tip\)\) \} else \{ Ok\(ChainTip::Worse\(chain_tip\)\) \} \} \}', b, 'poll_chain_tip')
    d('poll.rs poll_chain_tip: `if %s { return Ok(ChainTip::Common) }`' % m.group(1),
      'def tipIsCommon (block_hash : Nat) (best_known_chain_tip : Hdr) : Bool :=\n  ' + tr(m.group(1)))
    d('poll.rs poll_chain_tip: `if %s { Better } else { Worse }`' % m.group(2),
      'def tipIsBetter (chain_tip best_known_chain_tip : Hdr) : Bool :=\n  ' + tr(m.group(2)))

    # ---- poll.rs check_builds_on ----------------------------------------------------------------
    b = body_of(poll, 'check_builds_on')
    m = full(r'\{ if (.+?) \{ ' + ERR + r' \} if (.+?) \{ ' + ERR + r' \} let work = self\.header\.work\(\); if (.+?) \{ ' + ERR + r' \} '
             r'if let Network::Bitcoin = network \{ if (.+?) \{ let target = self\.header\.target\(\); let previous_target = previous_header\.header\.target\(\); '
             r'let min_target = previous_target\.min_transition_threshold\(\); let max_target = previous_target\.max_transition_threshold_unchecked\(\); '
             r'if (.+?) \{ ' + ERR + r' \} \} else if (.+?) \{ ' + ERR + r' \} \} Ok\(\(\)\) \}', b, 'check_builds_on')
    c1, e1, c2, e2, c3, e3, c4, c5, e5, c6, e6 = m.groups()
    d('poll.rs check_builds_on: `if %s` ⇒ "%s"' % (c1, e1), 'def buildsOnBadPrevHash (self_ previous_header : Hdr) : Bool :=\n  ' + tr(c1))
    d('poll.rs check_builds_on: `if %s` ⇒ "%s"' % (c2, e2), 'def buildsOnBadHeight (self_ previous_header : Hdr) : Bool :=\n  ' + tr(c2))
    d('poll.rs check_builds_on: `let work = self.header.work(); if %s` ⇒ "%s"' % (c3, e3),
      'def buildsOnBadChainwork (self_ previous_header : Hdr) (work : Nat) : Bool :=\n  ' + tr(c3))
    d('poll.rs check_builds_on (Network::Bitcoin): `if %s` — a retarget height' % c4, 'def isRetargetHeight (self_ : Hdr) : Bool :=\n  ' + tr(c4))
    d('poll.rs check_builds_on (Network::Bitcoin, retarget height): `if %s` ⇒ "%s"' % (c5, e5),
      'def badTransition (target min_target max_target : Nat) : Bool :=\n  ' + tr(c5))
    d('poll.rs check_builds_on (Network::Bitcoin, other heights): `if %s` ⇒ "%s"' % (c6, e6),
      'def badDifficulty (self_ previous_header : Hdr) : Bool :=\n  ' + tr(c6))
    d('poll.rs ValidatedBlockHeader::check_builds_on, assembled in source order (`bitcoin` = `network` is Network::Bitcoin; `target`s '
      'through the hand-mirrored rust-bitcoin `targetOf` / transition thresholds). `none` = Ok(())',
      'def checkBuildsOnErr (bitcoin : Bool) (self_ previous_header : Hdr) : Option String :=\n'
      '  if buildsOnBadPrevHash self_ previous_header then some "%s"\n'
      '  else if buildsOnBadHeight self_ previous_header then some "%s"\n'
      '  else if buildsOnBadChainwork self_ previous_header self_.bwork then some "%s"\n'
      '  else if bitcoin then\n'
      '    (if isRetargetHeight self_ then\n'
      '      (if badTransition (targetOf self_.bits) (minTransitionThreshold (targetOf previous_header.bits))\n'
      '            (maxTransitionThresholdUnchecked (targetOf previous_header.bits)) then some "%s" else none)\n'
      '    else if badDifficulty self_ previous_header then some "%s" else none)\n'
      '  else none' % (e1, e2, e3, e5, e6))

    # ---- poll.rs look_up_previous_header ----------------------------------------------------------
    b = body_of(poll, 'look_up_previous_header', after='for ChainPoller<B, T>')
    m = full(r'\{ async move \{ if (.+?) \{ ' + ERR + r' \} let previous_hash = &header\.header\.prev_blockhash; let height = header\.height - 1; '
             r'let previous_header = self \.block_source \.get_header\(previous_hash, Some\(height\)\) \.await\? \.validate\(\*previous_hash\)\?; '
             r'header\.check_builds_on\(&previous_header, self\.network\)\?; Ok\(previous_header\) \} \}', b, 'ChainPoller::look_up_previous_header')
    d('poll.rs ChainPoller::look_up_previous_header: `if %s` ⇒ "%s"' % (m.group(1), m.group(2)), 'def isGenesisHeader (header : Hdr) : Bool :=\n  ' + tr(m.group(1)))

    # ---- poll.rs Validate impls -------------------------------------------------------------------
    vh = body_of(poll, 'validate', after='impl Validate for BlockHeaderData')
    m = full(r'\{ let pow_valid_block_hash = self\.header\.validate_pow\(self\.header\.target\(\)\)\.map_err\(BlockSourceError::persistent\)\?; '
             r'if (.+?) \{ ' + ERR + r' \} Ok\(ValidatedBlockHeader \{ block_hash, inner: self \}\) \}', vh, 'Validate for BlockHeaderData')
    hc = m.group(1)
    vb = body_of(poll, 'validate', after='impl Validate for BlockData')
    m2 = full(r'\{ let header = match &self \{ BlockData::FullBlock\(block\) => &block\.header, BlockData::HeaderOnly\(header\) => header, \}; '
              r'let pow_valid_block_hash = header\.validate_pow\(header\.target\(\)\)\.map_err\(BlockSourceError::persistent\)\?; '
              r'if (.+?) \{ ' + ERR + r' \} if let BlockData::FullBlock\(block\) = &self \{ if (.+?) \{ ' + ERR + r' \} if (.+?) \{ ' + ERR + r' \} \} '
              r'Ok\(ValidatedBlock \{ block_hash, inner: self \}\) \}', vb, 'Validate for BlockData')
    bc, _, mk, _, wc, _ = m2.groups()
    noren = [(r'\bblock_hash\b', 'requested_hash')]
    d('poll.rs `impl Validate for BlockHeaderData`: after the PoW check, `if %s` ⇒ "invalid block hash"' % hc,
      'def headerHashBad (pow_valid_block_hash requested_hash : Nat) : Bool :=\n  ' + tr(hc, noren))
    d('poll.rs `impl Validate for BlockData`: after the PoW check, `if %s` ⇒ "invalid block hash" (both arms: full block and header-only)' % bc,
      'def blockHashBad (pow_valid_block_hash requested_hash : Nat) : Bool :=\n  ' + tr(bc, noren))
    meth = {'check_merkle_root': lambda r, a: 'raw.merkleOk', 'check_witness_commitment': lambda r, a: 'raw.witnessOk'}
    d('poll.rs `impl Validate for BlockData`, FullBlock only: `if %s` ⇒ "invalid merkle root"' % mk, 'def blockMerkleBad (raw : RawBlk) : Bool :=\n  ' + tr(mk, methods=meth))
    d('poll.rs `impl Validate for BlockData`, FullBlock only: `if %s` ⇒ "invalid witness commitment"' % wc, 'def blockWitnessBad (raw : RawBlk) : Bool :=\n  ' + tr(wc, methods=meth))
    d('`BlockHeaderData::validate(block_hash)`, assembled in source order: PoW (`validate_pow(..)?`), then the hash binding; the validated '
      'header keeps the source\'s CLAIMED height and chainwork',
      'def validateHeader (raw : RawHdr) (requested_hash : Nat) : Option Hdr :=\n'
      '  if !raw.powOk then none else if headerHashBad raw.hash requested_hash then none else some raw.toHdr')
    d('`BlockData::validate(block_hash)`, assembled in source order: PoW, hash binding, then for a FullBlock merkle root and witness commitment',
      'def validateBlock (raw : RawBlk) (requested_hash : Nat) : Bool :=\n'
      '  if !raw.powOk then false else if blockHashBad raw.hash requested_hash then false\n'
      '  else if raw.full then (if blockMerkleBad raw then false else if blockWitnessBad raw then false else true) else true')

    # ---- lib.rs find_difference_from_header --------------------------------------------------------
    b = body_of(lib, 'find_difference_from_header')
    m = full(r'\{ let mut connected_blocks = Vec::new\(\); let mut current = current_header; let mut previous = \*prev_header; loop \{ if (.+?) \{ break; \} '
             r'let current_height = current\.height; let previous_height = previous\.height; if (.+?) \{ previous = self\.look_up_previous_header\(chain_poller, &previous\)\.await\?; \} '
             r'if (.+?) \{ connected_blocks\.push\(current\); current = self\.look_up_previous_header\(chain_poller, &current\)\.await\?; \} \} '
             r'let common_ancestor = current; Ok\(ChainDifference \{ common_ancestor, connected_blocks \}\) \}', b, 'find_difference_from_header')
    d('lib.rs find_difference_from_header: `if %s { break }`' % m.group(1), 'def fdFound (current previous : Hdr) : Bool :=\n  ' + tr(m.group(1)))
    d('lib.rs find_difference_from_header: `if %s` ⇒ walk `previous` back' % m.group(2), 'def fdWalkPrevious (current_height previous_height : Nat) : Bool :=\n  ' + tr(m.group(2)))
    d('lib.rs find_difference_from_header: `if %s` ⇒ push `current` and walk it back' % m.group(3), 'def fdWalkCurrent (current_height previous_height : Nat) : Bool :=\n  ' + tr(m.group(3)))

    # ---- lib.rs synchronize_listener / update_chain_tip ----------------------------------------------
    b = body_of(lib, 'synchronize_listener')
    c = one(r'if (difference\.common_ancestor [!=]= \*old_header) \{ self\.disconnect_blocks\(difference\.common_ancestor\); \} self\.connect_blocks\(', b, 'synchronize_listener: disconnect test')
    d('lib.rs synchronize_listener: `if %s { disconnect_blocks(common_ancestor) }`' % c,
      'def syncDisconnects (common_ancestor old_header : Hdr) : Bool :=\n  ' + tr(c, [(r'difference\.common_ancestor', 'common_ancestor')]))
    b = body_of(lib, 'update_chain_tip')
    c = one(r'Err\(\(_, Some\(chain_tip\)\)\) if (.+?) => \{ self\.chain_tip = chain_tip; true \},? Err\(_\) => false', b, 'update_chain_tip: partial-advance arm')
    d('lib.rs update_chain_tip: `Err((_, Some(chain_tip))) if %s => { self.chain_tip = chain_tip; true }`' % c,
      'def partialAdvance (chain_tip self_chain_tip : Hdr) : Bool :=\n  ' + tr(c, [(r'self\.chain_tip', 'self_chain_tip')]))

    # ---- lib.rs HeaderCache ---------------------------------------------------------------------------
    b = body_of(lib, 'block_connected', after='impl HeaderCache')
    m = full(r'\{ self\.headers\.insert\(block_hash, block_header\); let cutoff_height = (.+?); self\.headers\.retain\(\|_, header\| (.+?)\); \}', b, 'HeaderCache::block_connected')
    d('lib.rs HeaderCache::block_connected: `let cutoff_height = %s`' % m.group(1), 'def cacheCutoff (block_header : Hdr) : Nat :=\n  ' + tr(m.group(1)))
    d('lib.rs HeaderCache::block_connected: `retain(|_, header| %s)`' % m.group(2), 'def cacheKeeps (header : Hdr) (cutoff_height : Nat) : Bool :=\n  ' + tr(m.group(2)))
    b = body_of(lib, 'insert_during_diff')
    m = full(r'\{ self\.headers\.insert\(block_hash, block_header\); let best_height = self\.headers\.iter\(\)\.map\(\|\(_, header\)\| header\.height\)\.max\(\)\.unwrap_or\((\d+)\); '
             r'let cutoff_height = (.+?); self\.headers\.retain\(\|_, header\| (.+?)\); \}', b, 'HeaderCache::insert_during_diff')
    d('lib.rs HeaderCache::insert_during_diff: `best_height = max of the cached heights, unwrap_or(%s)`; `let cutoff_height = %s`' % (m.group(1), m.group(2)),
      'def diffCutoff (best_height : Nat) : Nat :=\n  ' + tr(m.group(2)) + '\ndef diffBestHeightDefault : Nat := ' + m.group(1))
    d('lib.rs HeaderCache::insert_during_diff: `retain(|_, header| %s)`' % m.group(3), 'def diffKeeps (header : Hdr) (cutoff_height : Nat) : Bool :=\n  ' + tr(m.group(3)))
    b = body_of(lib, 'blocks_disconnected', after='impl HeaderCache')
    m = full(r'\{ if !self\.retain_on_disconnect \{ self\.headers\.retain\(\|_, block_info\| (.+?)\); \} \}', b, 'HeaderCache::blocks_disconnected')
    d('lib.rs HeaderCache::blocks_disconnected: `if !self.retain_on_disconnect { retain(|_, block_info| %s) }`' % m.group(1),
      'def disconnectKeeps (block_info fork_point : Hdr) : Bool :=\n  ' + tr(m.group(1)))

    # ---- lib.rs find_difference_from_best_block (locator resolution) ------------------------------------
    b = body_of(lib, 'find_difference_from_best_block')
    c = one(r'if let Some\(block_hash\) = hash_opt \{ Some\(\((.+?), block_hash\)\) \} else \{ None \}', b, 'find_difference_from_best_block: previous_blocks index')
    d('lib.rs find_difference_from_best_block: candidate `height_diff` of `previous_blocks[idx]`: `%s`' % c, 'def locatorHeightDiff (idx : Nat) : Nat :=\n  ' + tr(c))
    if 'let cur_tip = core::iter::once((0, &prev_best_block.block_hash));' not in b or 'for (height_diff, block_hash) in cur_tip.chain(prev_tips)' not in b:
        raise Bad('find_difference_from_best_block: candidate order changed')
    c = one(r'let height = (prev_best_block\.height\.checked_sub\(height_diff\))\.ok_or\( BlockSourceError::persistent\( "BlockLocator had more previous_blocks than its height", \), \)\?;', b, 'find_difference_from_best_block: checked_sub')
    d('lib.rs find_difference_from_best_block: `%s` (None ⇒ "BlockLocator had more previous_blocks than its height")' % c,
      'def locatorHeight (prev_best_block_height height_diff : Nat) : Option Nat :=\n  ' + tr(c, [(r'prev_best_block\.height', 'prev_best_block_height')]))
    if not re.search(r'if let Some\(header\) = self\.header_cache\.look_up\(block_hash\) \{ found_header = Some\(\*header\); break; \} let height = ', b) or \
       not re.search(r'if let Ok\(header\) = chain_poller\.get_header\(block_hash, Some\(height\)\)\.await \{ found_header = Some\(header\); self\.header_cache\.insert_during_diff\(\*block_hash, header\); break; \}', b):
        raise Bad('find_difference_from_best_block: resolution loop changed')

    # ---- init.rs synchronize_listeners ---------------------------------------------------------------------
    b = body_of(init, 'synchronize_listeners')
    c = one(r'if (difference\.common_ancestor\.block_hash [!=]= old_best_block\.block_hash) \{ chain_notifier\.disconnect_blocks\(difference\.common_ancestor\); \}', b, 'synchronize_listeners: disconnect test')
    d('init.rs synchronize_listeners: `if %s { disconnect_blocks(common_ancestor) }`' % c,
      'def initDisconnects (common_ancestor : Hdr) (old_best_block_hash : Nat) : Bool :=\n  ' + tr(c, [(r'difference\.common_ancestor', 'common_ancestor'), (r'old_best_block\.block_hash', 'old_best_block_hash')]))
    c = one(r'if (connected_blocks\.len\(\) [<>=]+ most_connected_blocks\.len\(\)) \{ most_connected_blocks = connected_blocks; \}', b, 'synchronize_listeners: longest list')
    d('init.rs synchronize_listeners: `if %s { most_connected_blocks = connected_blocks }`' % c,
      'def initTakesLonger (connected_blocks most_connected_blocks : List Hdr) : Bool :=\n  ' + tr(c))
    c = one(r'for \(height, block_data\) in fetched_blocks\.iter\(\)\.flatten\(\) \{ if (.+?) \{ match', b, 'synchronize_listeners: per-listener filter')
    d('init.rs synchronize_listeners: a fetched block is delivered to a listener `if %s` (listener_height = height of its common ancestor)' % c,
      'def initDelivers (height listener_height : Nat) : Bool :=\n  ' + tr(c))
    if 'chain_listeners_at_height.push((common_ancestor.height, chain_listener));' not in b: raise Bad('synchronize_listeners: listener height is no longer the common ancestor\'s height')
    one(r'most_connected_blocks \.truncate\(most_connected_blocks\.len\(\)\.saturating_sub\(MAX_BLOCKS_AT_ONCE\)\); \}', b, 'synchronize_listeners: a batch consumes the oldest MAX_BLOCKS_AT_ONCE')
    m = re.search(r'#\[cfg\(not\(test\)\)\] const MAX_BLOCKS_AT_ONCE: usize = ([0-9_ *+]+);', b)
    if not m: raise Bad('init.rs: #[cfg(not(test))] const MAX_BLOCKS_AT_ONCE not found')
    expr = m.group(1).replace('_', '').strip()
    val = eval(expr, {'__builtins__': {}})
    return D, expr, val

def write(path, text):
    path = os.path.normpath(path)
    if not os.path.exists(path) or open(path).read() != text:
        open(path, 'w').write(text); print('wrote', path)
    else:
        print('unchanged', path)

def main():
    srcs = {}
    for f in ('poll.rs', 'lib.rs', 'init.rs'):
        p = os.path.join(REPO, 'lightning-block-sync/src', f)
        if not os.path.exists(p): fail('missing ' + p)
        srcs['lightning-block-sync/src/' + f] = open(p).read()
    for f, pat, what in ANCHORS:
        if not re.search(pat, norm(strip_comments(srcs[f])), re.S):
            fail('%s: expected shape not found: %s' % (f, what))
    try:
        D, expr, val = gen(srcs)
    except Bad as ex:
        fail(str(ex))
    except ValueError as ex:
        fail('anchor text not found: %s' % ex)
    consts = ('/- GENERATED by tools/gen_chainsync.py from lightning-block-sync/src/init.rs — do not edit.  Regenerated on every check. -/\n'
              'namespace Ldk.ChainSync\n\n'
              '/-- init.rs synchronize_listeners: `#[cfg(not(test))] const MAX_BLOCKS_AT_ONCE: usize = %s` -/\n'
              'def MAX_BLOCKS_AT_ONCE : Nat := %d\n\n'
              '/-- statement-order anchors checked in the Rust text by the generator: %d; decision expressions translated: %d -/\n'
              'def shapeAnchorsChecked : Nat := %d\n\n'
              'end Ldk.ChainSync\n') % (expr, val, len(ANCHORS), len(D), len(ANCHORS))
    write(os.path.join(GEN, 'ChainSyncConsts.lean'), consts)
    text = ('/- GENERATED by tools/gen_chainsync.py from lightning-block-sync/src/{poll,lib,init}.rs — do not edit.\n'
            '   Decision expressions translated by tools/rs2lean.py; Model/ChainSync.lean calls them. Regenerated on every check. -/\n'
            'import LdkModel.Prim.Arith\nimport LdkModel.Generated.ChainSyncConsts\nimport LdkModel.Model.ChainSyncTypes\nnamespace Ldk.ChainSync\nopen Ldk\n\n' + '\n'.join(D) + '\nend Ldk.ChainSync\n')
    write(os.path.join(GEN, 'ChainSync.lean'), text)

if __name__ == '__main__':
    main()
