#!/usr/bin/env python3
"""Regenerate lean/LdkModel/Generated/{ChainSyncConsts,ChainSync}.lean from /repo's lightning-block-sync (C20).

Generated/ChainSync.lean holds the DECISION EXPRESSIONS of lib.rs / poll.rs / init.rs, translated with
tools/rs2lean.py from the Rust text on every run; Model/ChainSync.lean CALLS them (it has no comparison of
its own), so a changed comparison changes the model and the theorems of Props/C20.lean are re-checked
against it:

  poll.rs   poll_chain_tip           Common test, Better test (chainwork)
            check_builds_on          prev-hash, height+1, chainwork arithmetic, and the Network::Bitcoin arm
                                     (retarget height, 4x transition window, equal bits) — whole body, in order
            look_up_previous_header  genesis test
            Validate for BlockHeaderData / BlockData   PoW first, then `hash != requested`, then (full block
                                     only) merkle root and witness commitment — both bodies, in order
  lib.rs    find_difference_from_header   loop exit and the two walk conditions (whole loop body pinned)
            synchronize_listener     disconnect test;  update_chain_tip  partial-advance guard
            HeaderCache              block_connected / insert_during_diff cutoff + retain, blocks_disconnected retain
            find_difference_from_best_block   locator height_diff index and the checked_sub
  init.rs   synchronize_listeners    the WHOLE per-listener body of the first loop (statement translator: if / continue /
                                     disconnect_blocks / chain_listeners_at_height.push / most_connected_blocks =), per-listener delivery test,
                                     MAX_BLOCKS_AT_ONCE (evaluated) and the truncate that consumes a batch

What is NOT an expression (statement order: fetch-then-notify-then-cache, `?` positions, drain(..).rev()) stays
pinned as text (ANCHORS) and is tied by the differential run.  Exit 2 with TRANSLATE-ERROR when a shape changed.
"""
import re, sys, os
sys.path.insert(0, os.path.dirname(os.path.abspath(__file__)))
from rs2lean import parse_expr, Emitter, TranslateError, strip_comments, find_fn

REPO = os.environ.get('VERIF_REPO', '/repo')
GEN = os.path.join(os.path.dirname(os.path.abspath(__file__)), '..', 'lean', 'LdkModel', 'Generated')

# statement-order anchors (not expressions): still pinned as text
ANCHORS = [
    ('lightning-block-sync/src/poll.rs', r'let\s+chain_tip\s*=\s*self\.block_source\.get_header\(&block_hash,\s*height\)\.await\?\.validate\(block_hash\)\?;', 'poll_chain_tip: the tip header is fetched and validated against the best-block hash'),
    ('lightning-block-sync/src/poll.rs', r'\.get_header\(previous_hash,\s*Some\(height\)\)\s*\.await\?\s*\.validate\(\*previous_hash\)\?;\s*header\.check_builds_on\(&previous_header,\s*self\.network\)\?;', 'look_up_previous_header: validate against prev_blockhash, then check_builds_on'),
    ('lightning-block-sync/src/poll.rs', r'async move \{ self\.block_source\.get_block\(&header\.block_hash\)\.await\?\.validate\(header\.block_hash\) \}', 'fetch_block: validate against the header hash'),
    ('lightning-block-sync/src/lib.rs', r'\.map_err\(\|e\|\s*\(e,\s*Some\(new_tip\)\)\)\?', 'connect_blocks: fetch error reports new_tip'),
    ('lightning-block-sync/src/lib.rs', r'match\s+self\.header_cache\.look_up\(&header\.header\.prev_blockhash\)\s*\{\s*Some\(prev_header\)\s*=>\s*Ok\(\*prev_header\),\s*None\s*=>\s*chain_poller\.look_up_previous_header\(header\)\.await,', 'ChainNotifier::look_up_previous_header: cache first'),
    ('lightning-block-sync/src/lib.rs', r'Ok\(_\)\s*=>\s*\{\s*self\.chain_tip\s*=\s*best_chain_tip;\s*true\s*\},', 'update_chain_tip: Ok arm'),
    ('lightning-block-sync/src/lib.rs', r'ChainTip::Common\s*=>\s*false,\s*ChainTip::Better\(chain_tip\)\s*=>\s*\{.*?self\.update_chain_tip\(chain_tip\)\.await\s*\},\s*ChainTip::Worse\(chain_tip\)\s*=>\s*\{.*?false\s*\},', 'poll_best_tip: only Better updates'),
    ('lightning-block-sync/src/init.rs', r'let\s+block\s*=\s*block_res\?;\s*header_cache\.block_connected\(header\.block_hash,\s*\*header\);', 'synchronize_listeners: a failed fetch returns before the batch is delivered'),
]

class Bad(Exception): pass
def fail(msg):
    print('TRANSLATE-ERROR gen_chainsync.py: ' + msg)
    sys.exit(2)
def norm(s): return ' '.join(s.split())

# Rust field paths of ValidatedBlockHeader / BlockHeaderData -> fields of the Lean `Hdr`
RENAMES = [
    (r'\.header\.block_hash\(\)', '.hash'), (r'\.header\.prev_blockhash', '.parent'), (r'\.header\.bits', '.bits'),
    (r'\.block_hash\b', '.hash'), (r'\.chainwork\b', '.work'), (r'\bself\.', 'self_.'), (r'\*self\b', 'self_'),
]
def tr(expr, extra=(), methods=None):
    e = expr
    for a, b in list(extra) + RENAMES: e = re.sub(a, b, e)
    try:
        return Emitter(narrow=lambda t: False, methods=methods or {}).e(parse_expr(e))
    except TranslateError as ex:
        raise Bad('cannot translate `%s`: %s' % (expr, ex))

def body_of(src, fn, after=None):
    try:
        _, _, b = find_fn(src, fn, after=after)
    except (TranslateError, ValueError) as ex:
        raise Bad('fn %s not found (%s)' % (fn, ex))
    return norm(strip_comments(b))

def must(pat, text, what):
    m = re.fullmatch(pat, text, re.S) if pat.startswith('^FULL:') is False and False else None
    return m

def full(pat, text, what):
    m = re.fullmatch(pat, text, re.S)
    if not m: raise Bad('%s: the body no longer has the expected shape' % what)
    return m
def one(pat, text, what):
    ms = re.findall(pat, text, re.S)
    if len(ms) != 1: raise Bad('%s: expected exactly one occurrence, found %d' % (what, len(ms)))
    return ms[0]


# ---- init.rs synchronize_listeners: statement translator for the per-listener loop body ------------------------
STEP_PREFIX = ('let chain_listener = &DynamicChainListener(chain_listener); '
               'let mut chain_notifier = ChainNotifier { header_cache: &mut header_cache, chain_listener }; '
               'let difference = chain_notifier .find_difference_from_best_block(best_header, old_best_block, &mut chain_poller) .await?;')
STEP_RENAMES = [(r'\bdifference\.common_ancestor\b', 'difference_common_ancestor'), (r'\bdifference\.connected_blocks\b', 'difference_connected_blocks'),
                (r'\bold_best_block\.block_hash\b', 'old_best_block_hash'), (r'\bold_best_block\.height\b', 'old_best_block_height'),
                (r'\bmost_connected_blocks\b', 'st.most')]

def _match_brace(t, i):
    """t[i] == '{' -> index just after the matching '}'"""
    depth = 0
    for j in range(i, len(t)):
        if t[j] == '{': depth += 1
        elif t[j] == '}':
            depth -= 1
            if depth == 0: return j + 1
    raise Bad('synchronize_listeners: unbalanced braces in the listener loop')

def _parse_stmts(t):
    """statements of a block: ('if', cond, then, else) | ('continue',) | ('disc', e) | ('recd', e) | ('most', e); anything else is refused"""
    out = []; t = t.strip()
    while t:
        if t.startswith('if '):
            i = t.index('{'); j = _match_brace(t, i)
            cond = t[3:i].strip(); then = _parse_stmts(t[i + 1:j - 1]); els = []
            t = t[j:].strip()
            if t.startswith('else'):
                t = t[4:].strip()
                if not t.startswith('{'): raise Bad('synchronize_listeners listener loop: `else if` is not supported by the statement translator')
                j = _match_brace(t, 0); els = _parse_stmts(t[1:j - 1]); t = t[j:].strip()
            out.append(('if', cond, then, els)); continue
        k = t.find(';')
        if k < 0: raise Bad('synchronize_listeners listener loop: trailing text `%s`' % t)
        st, t = t[:k].strip(), t[k + 1:].strip()
        m = re.fullmatch(r'chain_notifier\.disconnect_blocks\((.+)\)', st)
        if m: out.append(('disc', m.group(1))); continue
        m = re.fullmatch(r'chain_listeners_at_height\.push\(\((.+), chain_listener(?:\.0)?\)\)', st)
        if m: out.append(('recd', m.group(1))); continue
        m = re.fullmatch(r'most_connected_blocks = (.+)', st)
        if m: out.append(('most', m.group(1))); continue
        if st == 'continue': out.append(('continue',)); continue
        raise Bad('synchronize_listeners listener loop: statement `%s` is not one the translator knows' % st)
    return out

def _has_continue(stmts):
    return any(s[0] == 'continue' or (s[0] == 'if' and (_has_continue(s[2]) or _has_continue(s[3]))) for s in stmts)

def _emit(stmts, rest):
    """Lean term of type InitStep with `st` in scope: run `stmts`, then `rest` (unless a `continue` ends the iteration)"""
    if not stmts: return rest
    s, tail = stmts[0], stmts[1:]
    trs = lambda e: tr(e, STEP_RENAMES)
    if s[0] == 'continue': return 'st'
    if s[0] == 'disc': return 'let st : InitStep := { st with disc := st.disc ++ [%s] }; %s' % (trs(s[1]), _emit(tail, rest))
    if s[0] == 'recd': return 'let st : InitStep := { st with recd := st.recd ++ [%s] }; %s' % (trs(s[1]), _emit(tail, rest))
    if s[0] == 'most': return 'let st : InitStep := { st with most := %s }; %s' % (trs(s[1]), _emit(tail, rest))
    cond = trs(s[1])
    if not _has_continue(s[2]) and not _has_continue(s[3]):
        return 'let st : InitStep := (if %s then (%s) else (%s)); %s' % (cond, _emit(s[2], 'st'), _emit(s[3], 'st'), _emit(tail, rest))
    after = _emit(tail, rest)
    return '(if %s then (%s) else (%s))' % (cond, _emit(s[2], after), _emit(s[3], after))

def translate_listener_step(b):
    k = b.find('for (old_best_block, chain_listener) in chain_listeners.drain(..) {')
    if k < 0: raise Bad('synchronize_listeners: first loop header changed')
    i = b.index('{', k); j = _match_brace(b, i)
    body = b[i + 1:j - 1].strip()
    head = 'let (common_ancestor, connected_blocks) = {'
    if not body.startswith(head): raise Bad('synchronize_listeners: the listener loop no longer starts with the difference block')
    i = len(head) - 1; j = _match_brace(body, i)
    inner = body[i + 1:j - 1].strip(); outer = body[j:].strip()
    if not outer.startswith(';'): raise Bad('synchronize_listeners: difference block shape changed')
    outer = outer[1:]
    if not inner.startswith(STEP_PREFIX): raise Bad('synchronize_listeners: the find_difference_from_best_block call (arguments, `?`) changed')
    inner = inner[len(STEP_PREFIX):].strip()
    m = re.fullmatch(r'(.*?)\(([^(),]+), ([^(),]+)\)', inner, re.S)
    if not m: raise Bad('synchronize_listeners: the difference block no longer ends in a (common_ancestor, connected_blocks) pair')
    inner_stmts = _parse_stmts(m.group(1)); outer_stmts = _parse_stmts(outer)
    rest = 'let common_ancestor : Hdr := %s; let connected_blocks : List Hdr := %s; %s' % (
        tr(m.group(2), STEP_RENAMES), tr(m.group(3), STEP_RENAMES), _emit(outer_stmts, 'st'))
    term = _emit(inner_stmts, rest)
    return ('def initListenerStep (best_header : Hdr) (old_best_block_hash old_best_block_height : Nat) (difference_common_ancestor : Hdr)\n'
            '    (difference_connected_blocks most_connected_blocks : List Hdr) : InitStep :=\n'
            '  let st : InitStep := ⟨[], [], most_connected_blocks⟩;\n  ' + term)


# ---- whole-body pins: the literal statement sequence of a function, `«»` = a hole holding a translated expression ----------
def pin(body, template, what):
    parts = [re.escape(x) for x in norm(template).split('«»')]
    m = re.fullmatch('(.+?)'.join(parts), body, re.S)
    if not m: raise Bad('%s: the statement sequence of the body changed (whole-body pin)' % what)
    return m.groups()

ERR = r'return Err\(BlockSourceError::persistent\("([^"]*)"\)\);'
ERRK = r'return Err\(BlockSourceError::(\w+)\("([^"]*)"\)\);'
def kind_of(k, what):
    """BlockSourceError constructor name -> Lean Bool `kind() == Transient`"""
    k = k.strip()
    if k == 'persistent': return 'false'
    if k == 'transient': return 'true'
    raise Bad('%s: `BlockSourceError::%s` is neither persistent nor transient' % (what, k))

def gen(srcs):
    poll, lib, init = (srcs['lightning-block-sync/src/' + f] for f in ('poll.rs', 'lib.rs', 'init.rs'))
    D = []   # (doc, lean definition)
    def d(doc, text): D.append('/-- %s -/\n%s\n' % (doc, text))

    # ---- poll.rs poll_chain_tip ----------------------------------------------------------------
    k = poll.index('for ChainPoller<B, T>')
    b = body_of(poll, 'poll_chain_tip', after='for ChainPoller<B, T>')
    m = full(r'\{ async move \{ let \(block_hash, height\) = self\.block_source\.get_best_block\(\)\.await\?; if (.+?) \{ return Ok\(ChainTip::Common\); \} '
             r'let chain_tip = self\.block_source\.get_header\(&block_hash, height\)\.await\?\.validate\(block_hash\)\?; '
             r'if (.+?) \{ Ok\(ChainTip::Better\(chain_tip\)\) \} else \{ Ok\(ChainTip::Worse\(chain_tip\)\) \} \} \}', b, 'poll_chain_tip')
    d('poll.rs poll_chain_tip: `if %s { return Ok(ChainTip::Common) }`' % m.group(1),
      'def tipIsCommon (block_hash : Nat) (best_known_chain_tip : Hdr) : Bool :=\n  ' + tr(m.group(1)))
    d('poll.rs poll_chain_tip: `if %s { Better } else { Worse }`' % m.group(2),
      'def tipIsBetter (chain_tip best_known_chain_tip : Hdr) : Bool :=\n  ' + tr(m.group(2)))

    # ---- poll.rs check_builds_on ----------------------------------------------------------------
    b = body_of(poll, 'check_builds_on')
    m = full(r'\{ if (.+?) \{ ' + ERR + r' \} if (.+?) \{ ' + ERR + r' \} let work = self\.header\.work\(\); if (.+?) \{ ' + ERR + r' \} '
             r'if let Network::Bitcoin = network \{ if (.+?) \{ let target = self\.header\.target\(\); let previous_target = previous_header\.header\.target\(\); '
             r'let min_target = previous_target\.min_transition_threshold\(\); let max_target = previous_target\.max_transition_threshold_unchecked\(\); '
             r'if (.+?) \{ ' + ERR + r' \} \} else if (.+?) \{ ' + ERR + r' \} \} Ok\(\(\)\) \}', b, 'check_builds_on')
    c1, e1, c2, e2, c3, e3, c4, c5, e5, c6, e6 = m.groups()
    d('poll.rs check_builds_on: `if %s` ⇒ "%s"' % (c1, e1), 'def buildsOnBadPrevHash (self_ previous_header : Hdr) : Bool :=\n  ' + tr(c1))
    d('poll.rs check_builds_on: `if %s` ⇒ "%s"' % (c2, e2), 'def buildsOnBadHeight (self_ previous_header : Hdr) : Bool :=\n  ' + tr(c2))
    d('poll.rs check_builds_on: `let work = self.header.work(); if %s` ⇒ "%s"' % (c3, e3),
      'def buildsOnBadChainwork (self_ previous_header : Hdr) (work : Nat) : Bool :=\n  ' + tr(c3))
    d('poll.rs check_builds_on (Network::Bitcoin): `if %s` — a retarget height' % c4, 'def isRetargetHeight (self_ : Hdr) : Bool :=\n  ' + tr(c4))
    d('poll.rs check_builds_on (Network::Bitcoin, retarget height): `if %s` ⇒ "%s"' % (c5, e5),
      'def badTransition (target min_target max_target : Nat) : Bool :=\n  ' + tr(c5))
    d('poll.rs check_builds_on (Network::Bitcoin, other heights): `if %s` ⇒ "%s"' % (c6, e6),
      'def badDifficulty (self_ previous_header : Hdr) : Bool :=\n  ' + tr(c6))
    d('poll.rs ValidatedBlockHeader::check_builds_on, assembled in source order (`bitcoin` = `network` is Network::Bitcoin; `target`s '
      'through the hand-mirrored rust-bitcoin `targetOf` / transition thresholds). `none` = Ok(())',
      'def checkBuildsOnErr (bitcoin : Bool) (self_ previous_header : Hdr) : Option String :=\n'
      '  if buildsOnBadPrevHash self_ previous_header then some "%s"\n'
      '  else if buildsOnBadHeight self_ previous_header then some "%s"\n'
      '  else if buildsOnBadChainwork self_ previous_header self_.bwork then some "%s"\n'
      '  else if bitcoin then\n'
      '    (if isRetargetHeight self_ then\n'
      '      (if badTransition (targetOf self_.bits) (minTransitionThreshold (targetOf previous_header.bits))\n'
      '            (maxTransitionThresholdUnchecked (targetOf previous_header.bits)) then some "%s" else none)\n'
      '    else if badDifficulty self_ previous_header then some "%s" else none)\n'
      '  else none' % (e1, e2, e3, e5, e6))

    # ---- poll.rs look_up_previous_header ----------------------------------------------------------
    b = body_of(poll, 'look_up_previous_header', after='for ChainPoller<B, T>')
    m = full(r'\{ async move \{ if (.+?) \{ ' + ERRK + r' \} let previous_hash = &header\.header\.prev_blockhash; let height = header\.height - 1; '
             r'let previous_header = self \.block_source \.get_header\(previous_hash, Some\(height\)\) \.await\? \.validate\(\*previous_hash\)\?; '
             r'header\.check_builds_on\(&previous_header, self\.network\)\?; Ok\(previous_header\) \} \}', b, 'ChainPoller::look_up_previous_header')
    d('poll.rs ChainPoller::look_up_previous_header: `if %s` ⇒ "%s"' % (m.group(1), m.group(3)), 'def isGenesisHeader (header : Hdr) : Bool :=\n  ' + tr(m.group(1)))
    d('poll.rs ChainPoller::look_up_previous_header: the error of the genesis test is `BlockSourceError::%s("%s")` ; the value below is `kind() == BlockSourceErrorKind::Transient`' % (m.group(2), m.group(3)),
      'def genesisErrTransient : Bool := ' + kind_of(m.group(2), 'look_up_previous_header: genesis error'))

    # ---- poll.rs Validate impls -------------------------------------------------------------------
    vh = body_of(poll, 'validate', after='impl Validate for BlockHeaderData')
    m = full(r'\{ let pow_valid_block_hash = self\.header\.validate_pow\(self\.header\.target\(\)\)\.map_err\(BlockSourceError::persistent\)\?; '
             r'if (.+?) \{ ' + ERR + r' \} Ok\(ValidatedBlockHeader \{ block_hash, inner: self \}\) \}', vh, 'Validate for BlockHeaderData')
    hc = m.group(1)
    vb = body_of(poll, 'validate', after='impl Validate for BlockData')
    m2 = full(r'\{ let header = match &self \{ BlockData::FullBlock\(block\) => &block\.header, BlockData::HeaderOnly\(header\) => header, \}; '
              r'let pow_valid_block_hash = header\.validate_pow\(header\.target\(\)\)\.map_err\(BlockSourceError::persistent\)\?; '
              r'if (.+?) \{ ' + ERR + r' \} if let BlockData::FullBlock\(block\) = &self \{ if (.+?) \{ ' + ERR + r' \} if (.+?) \{ ' + ERR + r' \} \} '
              r'Ok\(ValidatedBlock \{ block_hash, inner: self \}\) \}', vb, 'Validate for BlockData')
    bc, _, mk, _, wc, _ = m2.groups()
    noren = [(r'\bblock_hash\b', 'requested_hash')]
    d('poll.rs `impl Validate for BlockHeaderData`: after the PoW check, `if %s` ⇒ "invalid block hash"' % hc,
      'def headerHashBad (pow_valid_block_hash requested_hash : Nat) : Bool :=\n  ' + tr(hc, noren))
    d('poll.rs `impl Validate for BlockData`: after the PoW check, `if %s` ⇒ "invalid block hash" (both arms: full block and header-only)' % bc,
      'def blockHashBad (pow_valid_block_hash requested_hash : Nat) : Bool :=\n  ' + tr(bc, noren))
    meth = {'check_merkle_root': lambda r, a: 'raw.merkleOk', 'check_witness_commitment': lambda r, a: 'raw.witnessOk'}
    d('poll.rs `impl Validate for BlockData`, FullBlock only: `if %s` ⇒ "invalid merkle root"' % mk, 'def blockMerkleBad (raw : RawBlk) : Bool :=\n  ' + tr(mk, methods=meth))
    d('poll.rs `impl Validate for BlockData`, FullBlock only: `if %s` ⇒ "invalid witness commitment"' % wc, 'def blockWitnessBad (raw : RawBlk) : Bool :=\n  ' + tr(wc, methods=meth))
    d('`BlockHeaderData::validate(block_hash)`, assembled in source order: PoW (`validate_pow(..)?`), then the hash binding; the validated '
      'header keeps the source\'s CLAIMED height and chainwork',
      'def validateHeader (raw : RawHdr) (requested_hash : Nat) : Option Hdr :=\n'
      '  if !raw.powOk then none else if headerHashBad raw.hash requested_hash then none else some raw.toHdr')
    d('`BlockData::validate(block_hash)`, assembled in source order: PoW, hash binding, then for a FullBlock merkle root and witness commitment',
      'def validateBlock (raw : RawBlk) (requested_hash : Nat) : Bool :=\n'
      '  if !raw.powOk then false else if blockHashBad raw.hash requested_hash then false\n'
      '  else if raw.full then (if blockMerkleBad raw then false else if blockWitnessBad raw then false else true) else true')

    # ---- lib.rs find_difference_from_header --------------------------------------------------------
    b = body_of(lib, 'find_difference_from_header')
    m = full(r'\{ let mut connected_blocks = Vec::new\(\); let mut current = current_header; let mut previous = \*prev_header; loop \{ if (.+?) \{ break; \} '
             r'let current_height = current\.height; let previous_height = previous\.height; if (.+?) \{ previous = self\.look_up_previous_header\(chain_poller, &previous\)\.await\?; \} '
             r'if (.+?) \{ connected_blocks\.push\(current\); current = self\.look_up_previous_header\(chain_poller, &current\)\.await\?; \} \} '
             r'let common_ancestor = current; Ok\(ChainDifference \{ common_ancestor, connected_blocks \}\) \}', b, 'find_difference_from_header')
    d('lib.rs find_difference_from_header: `if %s { break }`' % m.group(1), 'def fdFound (current previous : Hdr) : Bool :=\n  ' + tr(m.group(1)))
    d('lib.rs find_difference_from_header: `if %s` ⇒ walk `previous` back' % m.group(2), 'def fdWalkPrevious (current_height previous_height : Nat) : Bool :=\n  ' + tr(m.group(2)))
    d('lib.rs find_difference_from_header: `if %s` ⇒ push `current` and walk it back' % m.group(3), 'def fdWalkCurrent (current_height previous_height : Nat) : Bool :=\n  ' + tr(m.group(3)))

    # ---- lib.rs synchronize_listener / update_chain_tip ----------------------------------------------
    b = body_of(lib, 'synchronize_listener')
    c = one(r'if (difference\.common_ancestor [!=]= \*old_header) \{ self\.disconnect_blocks\(difference\.common_ancestor\); \} self\.connect_blocks\(', b, 'synchronize_listener: disconnect test')
    d('lib.rs synchronize_listener: `if %s { disconnect_blocks(common_ancestor) }`' % c,
      'def syncDisconnects (common_ancestor old_header : Hdr) : Bool :=\n  ' + tr(c, [(r'difference\.common_ancestor', 'common_ancestor')]))
    b = body_of(lib, 'update_chain_tip')
    c = one(r'Err\(\(_, Some\(chain_tip\)\)\) if (.+?) => \{ self\.chain_tip = chain_tip; true \},? Err\(_\) => false', b, 'update_chain_tip: partial-advance arm')
    d('lib.rs update_chain_tip: `Err((_, Some(chain_tip))) if %s => { self.chain_tip = chain_tip; true }`' % c,
      'def partialAdvance (chain_tip self_chain_tip : Hdr) : Bool :=\n  ' + tr(c, [(r'self\.chain_tip', 'self_chain_tip')]))

    # ---- lib.rs HeaderCache ---------------------------------------------------------------------------
    b = body_of(lib, 'block_connected', after='impl HeaderCache')
    m = full(r'\{ self\.headers\.insert\(block_hash, block_header\); let cutoff_height = (.+?); self\.headers\.retain\(\|_, header\| (.+?)\); \}', b, 'HeaderCache::block_connected')
    d('lib.rs HeaderCache::block_connected: `let cutoff_height = %s`' % m.group(1), 'def cacheCutoff (block_header : Hdr) : Nat :=\n  ' + tr(m.group(1)))
    d('lib.rs HeaderCache::block_connected: `retain(|_, header| %s)`' % m.group(2), 'def cacheKeeps (header : Hdr) (cutoff_height : Nat) : Bool :=\n  ' + tr(m.group(2)))
    b = body_of(lib, 'insert_during_diff')
    m = full(r'\{ self\.headers\.insert\(block_hash, block_header\); let best_height = self\.headers\.iter\(\)\.map\(\|\(_, header\)\| header\.height\)\.max\(\)\.unwrap_or\((\d+)\); '
             r'let cutoff_height = (.+?); self\.headers\.retain\(\|_, header\| (.+?)\); \}', b, 'HeaderCache::insert_during_diff')
    d('lib.rs HeaderCache::insert_during_diff: `best_height = max of the cached heights, unwrap_or(%s)`; `let cutoff_height = %s`' % (m.group(1), m.group(2)),
      'def diffCutoff (best_height : Nat) : Nat :=\n  ' + tr(m.group(2)) + '\ndef diffBestHeightDefault : Nat := ' + m.group(1))
    d('lib.rs HeaderCache::insert_during_diff: `retain(|_, header| %s)`' % m.group(3), 'def diffKeeps (header : Hdr) (cutoff_height : Nat) : Bool :=\n  ' + tr(m.group(3)))
    b = body_of(lib, 'blocks_disconnected', after='impl HeaderCache')
    m = full(r'\{ if !self\.retain_on_disconnect \{ self\.headers\.retain\(\|_, block_info\| (.+?)\); \} \}', b, 'HeaderCache::blocks_disconnected')
    d('lib.rs HeaderCache::blocks_disconnected: `if !self.retain_on_disconnect { retain(|_, block_info| %s) }`' % m.group(1),
      'def disconnectKeeps (block_info fork_point : Hdr) : Bool :=\n  ' + tr(m.group(1)))

    # ---- lib.rs find_difference_from_best_block (locator resolution) ------------------------------------
    b = body_of(lib, 'find_difference_from_best_block')
    c = one(r'if let Some\(block_hash\) = hash_opt \{ Some\(\((.+?), block_hash\)\) \} else \{ None \}', b, 'find_difference_from_best_block: previous_blocks index')
    d('lib.rs find_difference_from_best_block: candidate `height_diff` of `previous_blocks[idx]`: `%s`' % c, 'def locatorHeightDiff (idx : Nat) : Nat :=\n  ' + tr(c))
    if 'let cur_tip = core::iter::once((0, &prev_best_block.block_hash));' not in b or 'for (height_diff, block_hash) in cur_tip.chain(prev_tips)' not in b:
        raise Bad('find_difference_from_best_block: candidate order changed')
    c = one(r'let height = (prev_best_block\.height\.checked_sub\(height_diff\))\.ok_or\( BlockSourceError::\w+\( "BlockLocator had more previous_blocks than its height", \), \)\?;', b, 'find_difference_from_best_block: checked_sub')
    d('lib.rs find_difference_from_best_block: `%s` (None ⇒ "BlockLocator had more previous_blocks than its height")' % c,
      'def locatorHeight (prev_best_block_height height_diff : Nat) : Option Nat :=\n  ' + tr(c, [(r'prev_best_block\.height', 'prev_best_block_height')]))
    if not re.search(r'if let Some\(header\) = self\.header_cache\.look_up\(block_hash\) \{ found_header = Some\(\*header\); break; \} let height = ', b) or \
       not re.search(r'if let Ok\(header\) = chain_poller\.get_header\(block_hash, Some\(height\)\)\.await \{ found_header = Some\(header\); self\.header_cache\.insert_during_diff\(\*block_hash, header\); break; \}', b):
        raise Bad('find_difference_from_best_block: resolution loop changed')

    # ---- init.rs synchronize_listeners ---------------------------------------------------------------------
    b = body_of(init, 'synchronize_listeners')
    # the whole per-listener body of the first loop, statement by statement (see translate_listener_step)
    d('init.rs synchronize_listeners, first loop: the WHOLE per-listener body after `find_difference_from_best_block(..).await?`, '
      'translated statement by statement in source order (`if`, `continue`, `disconnect_blocks(x)` → `disc`, '
      '`chain_listeners_at_height.push((h, _))` → `recd`, `most_connected_blocks = x` → `most`). `disc` = the fork points the listener is told '
      'to disconnect to, `recd` = the heights recorded for it (the second loop delivers every fetched block above a recorded height)',
      translate_listener_step(b))
    c = one(r'for \(height, block_data\) in fetched_blocks\.iter\(\)\.flatten\(\) \{ if (.+?) \{ match', b, 'synchronize_listeners: per-listener filter')
    d('init.rs synchronize_listeners: a fetched block is delivered to a listener `if %s` (listener_height = height of its common ancestor)' % c,
      'def initDelivers (height listener_height : Nat) : Bool :=\n  ' + tr(c))
    one(r'most_connected_blocks \.truncate\(most_connected_blocks\.len\(\)\.saturating_sub\(MAX_BLOCKS_AT_ONCE\)\); \}', b, 'synchronize_listeners: a batch consumes the oldest MAX_BLOCKS_AT_ONCE')
    # ---- whole-body pins of the hand-mirrored control flow (an inserted / dropped / moved statement is a TRANSLATE-ERROR) ----
    pin(body_of(lib, 'synchronize_listener'),
        '{ let difference = self .find_difference_from_header(new_header, old_header, chain_poller) .await .map_err(|e| (e, None))?; '
        'if «» { self.disconnect_blocks(difference.common_ancestor); } '
        'self.connect_blocks(difference.common_ancestor, difference.connected_blocks, chain_poller) .await }', 'lib.rs synchronize_listener')
    pin(body_of(lib, 'update_chain_tip'),
        '{ let mut chain_notifier = ChainNotifier { header_cache: &mut self.header_cache, chain_listener: &*self.chain_listener, }; '
        'match chain_notifier .synchronize_listener(best_chain_tip, &self.chain_tip, &mut self.chain_poller) .await { '
        'Ok(_) => { self.chain_tip = best_chain_tip; true }, Err((_, Some(chain_tip))) if «» => { self.chain_tip = chain_tip; true }, Err(_) => false, } }',
        'lib.rs update_chain_tip')
    pin(body_of(lib, 'poll_best_tip'),
        '{ let chain_tip = self.chain_poller.poll_chain_tip(self.chain_tip).await?; let blocks_connected = match chain_tip { ChainTip::Common => false, '
        'ChainTip::Better(chain_tip) => { debug_assert_ne!(chain_tip.block_hash, self.chain_tip.block_hash); debug_assert!(chain_tip.chainwork > self.chain_tip.chainwork); '
        'self.update_chain_tip(chain_tip).await }, ChainTip::Worse(chain_tip) => { debug_assert_ne!(chain_tip.block_hash, self.chain_tip.block_hash); '
        'debug_assert!(chain_tip.chainwork <= self.chain_tip.chainwork); false }, }; Ok((chain_tip, blocks_connected)) }', 'lib.rs poll_best_tip')
    def order_of(expr, var, what):
        """iteration order of a Vec stored tip-first: `.rev()` = oldest first"""
        e = expr.replace(' ', '')
        if e in (var + '.drain(..).rev()', var + '.iter().rev()'): return '(List.reverse %s)' % var
        if e in (var + '.drain(..)', var + '.iter()'): return var
        raise Bad('%s: iteration `%s` is not one the translator knows' % (what, expr))
    o1, hgt, nt = pin(body_of(lib, 'connect_blocks'),
        '{ for header in «» { let height = «»; '
        'let block_data = chain_poller.fetch_block(&header).await.map_err(|e| (e, Some(new_tip)))?; debug_assert_eq!(block_data.block_hash, header.block_hash); '
        'match block_data.deref() { BlockData::FullBlock(block) => { self.chain_listener.block_connected(block, height); }, '
        'BlockData::HeaderOnly(header) => { self.chain_listener.filtered_block_connected(header, &[], height); }, } '
        'self.header_cache.block_connected(header.block_hash, header); new_tip = «»; } Ok(()) }', 'lib.rs connect_blocks')
    d('lib.rs connect_blocks: `for header in %s` — connected_blocks is stored tip first; the order in which the blocks are fetched and connected' % o1,
      'abbrev connectOrder (connected_blocks : List Hdr) : List Hdr :=\n  ' + order_of(o1, 'connected_blocks', 'connect_blocks'))
    d('lib.rs connect_blocks: `let height = %s` — the height handed to block_connected / filtered_block_connected with each block' % hgt,
      'abbrev connectHeight (header : Hdr) : Nat :=\n  ' + tr(hgt))
    d('lib.rs connect_blocks: after notifying and caching, `new_tip = %s` (what a later fetch error reports as `Err((_, Some(new_tip)))`)' % nt,
      'abbrev connectNewTip (header : Hdr) : Hdr :=\n  ' + tr(nt))
    h1, h2 = pin(body_of(lib, 'disconnect_blocks'),
        '{ self.header_cache.blocks_disconnected(&fork_point); let best_block = BlockLocator::new(«», «»); self.chain_listener.blocks_disconnected(best_block); }',
        'lib.rs disconnect_blocks')
    d('lib.rs ChainNotifier::disconnect_blocks: the listener is told `blocks_disconnected(BlockLocator::new(%s, %s))` (whole body pinned: cache first, then the listener)' % (h1, h2),
      'def disconnectLocator (fork_point : Hdr) : Nat × Nat :=\n  (%s, %s)' % (tr(h1), tr(h2)))
    _ld, _lh, klh, knl = pin(body_of(lib, 'find_difference_from_best_block'),
        '{ let cur_tip = core::iter::once((0, &prev_best_block.block_hash)); let prev_tips = prev_best_block.previous_blocks.iter().enumerate().filter_map(|(idx, hash_opt)| { '
        'if let Some(block_hash) = hash_opt { Some((«», block_hash)) } else { None } }); let mut found_header = None; '
        'for (height_diff, block_hash) in cur_tip.chain(prev_tips) { if let Some(header) = self.header_cache.look_up(block_hash) { found_header = Some(*header); break; } '
        'let height = «».ok_or( BlockSourceError::«»( "BlockLocator had more previous_blocks than its height", ), )?; '
        'if let Ok(header) = chain_poller.get_header(block_hash, Some(height)).await { found_header = Some(header); self.header_cache.insert_during_diff(*block_hash, header); break; } } '
        'let found_header = found_header.ok_or_else(|| { BlockSourceError::«»("could not resolve any block from BlockLocator") })?; '
        'self.find_difference_from_header(current_header, &found_header, chain_poller).await }', 'lib.rs find_difference_from_best_block')
    d('lib.rs find_difference_from_best_block: the checked_sub failure is `BlockSourceError::%s("BlockLocator had more previous_blocks than its height")` ; the value below is `kind() == BlockSourceErrorKind::Transient`' % klh.strip(),
      'def locatorHeightErrTransient : Bool := ' + kind_of(klh, 'find_difference_from_best_block: checked_sub error'))
    d('lib.rs find_difference_from_best_block: no candidate resolved is `BlockSourceError::%s("could not resolve any block from BlockLocator")` ; the value below is `kind() == BlockSourceErrorKind::Transient`' % knl.strip(),
      'def noLocatorErrTransient : Bool := ' + kind_of(knl, 'find_difference_from_best_block: unresolved locator error'))
    pin(body_of(lib, 'look_up_previous_header', after="impl<'a, L: chain::Listen + ?Sized> ChainNotifier<'a, L>"),
        '{ match self.header_cache.look_up(&header.header.prev_blockhash) { Some(prev_header) => Ok(*prev_header), None => chain_poller.look_up_previous_header(header).await, } }',
        'lib.rs ChainNotifier::look_up_previous_header')
    pin(body_of(init, 'validate_best_block_header'),
        '{ let (best_block_hash, best_block_height) = block_source.get_best_block().await?; '
        'block_source.get_header(&best_block_hash, best_block_height).await?.validate(best_block_hash) }', 'init.rs validate_best_block_header')
    k1 = b.find('for (old_best_block, chain_listener) in chain_listeners.drain(..) {')
    k2 = _match_brace(b, b.index('{', k1))
    _c1, _c2, o2, bh, _dl = pin(b[:k1] + '<LISTENER-LOOP>' + b[k2:],
        '{ let best_header = validate_best_block_header(&*block_source).await?; let mut chain_poller = ChainPoller::new(block_source, network); '
        'let mut chain_listeners_at_height = Vec::new(); let mut most_connected_blocks = Vec::new(); let mut header_cache = HeaderCache::new(); '
        'header_cache.retain_on_disconnect = true; <LISTENER-LOOP> while !most_connected_blocks.is_empty() { '
        '#[cfg(not(test))] const MAX_BLOCKS_AT_ONCE: usize = «»; #[cfg(test)] const MAX_BLOCKS_AT_ONCE: usize = «»; '
        'let mut fetch_block_futures = Vec::with_capacity(core::cmp::min(MAX_BLOCKS_AT_ONCE, most_connected_blocks.len())); '
        'for header in «».take(MAX_BLOCKS_AT_ONCE) { let fetch_future = chain_poller.fetch_block(header); '
        'fetch_block_futures .push(ResultFuture::Pending(Box::pin(async move { (header, fetch_future.await) }))); } '
        'let results = MultiResultFuturePoller::new(fetch_block_futures).await.into_iter(); const NO_BLOCK: Option<(u32, crate::poll::ValidatedBlock)> = None; '
        'let mut fetched_blocks = [NO_BLOCK; MAX_BLOCKS_AT_ONCE]; for ((header, block_res), result) in results.into_iter().zip(fetched_blocks.iter_mut()) { '
        'let block = block_res?; header_cache.block_connected(header.block_hash, *header); *result = Some((«», block)); } '
        'debug_assert!(fetched_blocks.iter().take(most_connected_blocks.len()).all(|r| r.is_some())); '
        'debug_assert!(fetched_blocks.windows(2).all(|blocks| { if let (Some(a), Some(b)) = (&blocks[0], &blocks[1]) { a.0 < b.0 } else { blocks[1].is_none() } })); '
        'for (listener_height, listener) in chain_listeners_at_height.iter() { for (height, block_data) in fetched_blocks.iter().flatten() { if «» { '
        'match &**block_data { BlockData::FullBlock(block) => { listener.block_connected(&block, *height); }, '
        'BlockData::HeaderOnly(header_data) => { listener.filtered_block_connected(&header_data, &[], *height); }, } } } } '
        'most_connected_blocks .truncate(most_connected_blocks.len().saturating_sub(MAX_BLOCKS_AT_ONCE)); } header_cache.retain_on_disconnect = false; '
        'Ok((header_cache, best_header)) }', 'init.rs synchronize_listeners (everything around the translated listener loop)')
    d('init.rs synchronize_listeners, second loop: `for header in %s.take(MAX_BLOCKS_AT_ONCE)` — most_connected_blocks is stored tip first; the order in which batches are cut, fetched and delivered' % o2,
      'abbrev batchOrder (most_connected_blocks : List Hdr) : List Hdr :=\n  ' + order_of(o2, 'most_connected_blocks', 'synchronize_listeners batch loop'))
    d('init.rs synchronize_listeners, second loop: `*result = Some((%s, block))` — the height compared with the listener height and handed to block_connected' % bh,
      'abbrev batchHeight (header : Hdr) : Nat :=\n  ' + tr(bh))
    pin(body_of(poll, 'fetch_block', after='for ChainPoller<B, T>'),
        '{ async move { self.block_source.get_block(&header.block_hash).await?.validate(header.block_hash) } }', 'poll.rs ChainPoller::fetch_block')
    pin(body_of(poll, 'get_header', after='impl<B: Deref<Target = T> + Sized + Send + Sync, T: BlockSource + ?Sized> ChainPoller'),
        '{ Box::pin(async move { self.block_source.get_header(block_hash, height_hint).await?.validate(*block_hash) }) }', 'poll.rs ChainPoller::get_header')
    # ---- lightning/src/chain/mod.rs `impl Listen for (T, U)`: the tuple adapter the block-sync docs recommend ----------------
    cm = norm(strip_comments(srcs['lightning/src/chain/mod.rs']))
    m = re.search(r'Listen for \(T, U\) where T::Target: Listen, U::Target: Listen, \{ '
                  r'fn filtered_block_connected\(&self, header: &Header, txdata: &TransactionData, height: u32\) \{ '
                  r'self\.(\d)\.filtered_block_connected\(header, txdata, height\); self\.(\d)\.filtered_block_connected\(header, txdata, height\); \} '
                  r'fn blocks_disconnected\(&self, fork_point: BlockLocator\) \{ self\.(\d)\.blocks_disconnected\(fork_point\); self\.(\d)\.blocks_disconnected\(fork_point\); \} \}', cm)
    if not m: raise Bad('chain/mod.rs: `impl Listen for (T, U)` no longer forwards each notification once to each component (whole impl pinned)')
    d('chain/mod.rs `impl Listen for (T, U)`: components in the order filtered_block_connected (and block_connected through the trait default) reaches them',
      'def tupleConnectOrder : List Nat := [%s, %s]' % (m.group(1), m.group(2)))
    d('chain/mod.rs `impl Listen for (T, U)`: components in the order blocks_disconnected reaches them',
      'def tupleDisconnectOrder : List Nat := [%s, %s]' % (m.group(3), m.group(4)))
    m = re.search(r'#\[cfg\(not\(test\)\)\] const MAX_BLOCKS_AT_ONCE: usize = ([0-9_ *+]+);', b)
    if not m: raise Bad('init.rs: #[cfg(not(test))] const MAX_BLOCKS_AT_ONCE not found')
    expr = m.group(1).replace('_', '').strip()
    val = eval(expr, {'__builtins__': {}})
    return D, expr, val

def write(path, text):
    path = os.path.normpath(path)
    if not os.path.exists(path) or open(path).read() != text:
        open(path, 'w').write(text); print('wrote', path)
    else:
        print('unchanged', path)

def main():
    srcs = {}
    for f in ('poll.rs', 'lib.rs', 'init.rs'):
        p = os.path.join(REPO, 'lightning-block-sync/src', f)
        if not os.path.exists(p): fail('missing ' + p)
        srcs['lightning-block-sync/src/' + f] = open(p).read()
    for f, pat, what in ANCHORS:
        if not re.search(pat, norm(strip_comments(srcs[f])), re.S):
            fail('%s: expected shape not found: %s' % (f, what))
    p = os.path.join(REPO, 'lightning/src/chain/mod.rs')
    if not os.path.exists(p): fail('missing ' + p)
    srcs['lightning/src/chain/mod.rs'] = open(p).read()
    try:
        D, expr, val = gen(srcs)
    except Bad as ex:
        fail(str(ex))
    except ValueError as ex:
        fail('anchor text not found: %s' % ex)
    consts = ('/- GENERATED by tools/gen_chainsync.py from lightning-block-sync/src/init.rs — do not edit.  Regenerated on every check. -/\n'
              'namespace Ldk.ChainSync\n\n'
              '/-- init.rs synchronize_listeners: `#[cfg(not(test))] const MAX_BLOCKS_AT_ONCE: usize = %s` -/\n'
              'def MAX_BLOCKS_AT_ONCE : Nat := %d\n\n'
              '/-- statement-order anchors checked in the Rust text by the generator: %d; decision expressions translated: %d -/\n'
              'def shapeAnchorsChecked : Nat := %d\n\n'
              'end Ldk.ChainSync\n') % (expr, val, len(ANCHORS), len(D), len(ANCHORS))
    write(os.path.join(GEN, 'ChainSyncConsts.lean'), consts)
    text = ('/- GENERATED by tools/gen_chainsync.py from lightning-block-sync/src/{poll,lib,init}.rs — do not edit.\n'
            '   Decision expressions translated by tools/rs2lean.py; Model/ChainSync.lean calls them. Regenerated on every check. -/\n'
            'import LdkModel.Prim.Arith\nimport LdkModel.Generated.ChainSyncConsts\nimport LdkModel.Model.ChainSyncTypes\nset_option linter.unusedVariables false\nnamespace Ldk.ChainSync\nopen Ldk\n\n' + '\n'.join(D) + '\nend Ldk.ChainSync\n')
    write(os.path.join(GEN, 'ChainSync.lean'), text)

if __name__ == '__main__':
    main()
