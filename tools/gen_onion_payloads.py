#!/usr/bin/env python3
"""Regenerate lean/LdkModel/Generated/OnionPayloads.lean (C14): the per-hop payload ENCODERS
(`impl Writeable for OutboundOnionPayload` / `OutboundTrampolinePayload`, every arm that exists outside
cfg(test)) and the receiving side's view of them (`InboundOnionPayload::read`: known TLV types, the custom-TLV
closure, the kind decision), extracted from lightning/src/ln/msgs.rs on every run:

  * per writer arm: the TLV records it emits, in the order the source lists them, with their kind
    (required / option / required_vec) and the statements that prepare the extra (custom) TLVs — the synthetic
    invoice_request / keysend records, the `chain`, and the ORDERING step `sort_unstable_by_key` — each
    translated into one Lean `let` (a statement outside the table is a TRANSLATE-ERROR);
  * `RecipientCustomTlvs::new` (outbound_payment.rs): the validation every user-supplied custom TLV set went
    through (sort, >= 2^16, reserved types, strictly increasing), conditions through rs2lean;
  * the reader: the known types of `decode_tlv_stream_with_custom_tlv_decode!`, the custom closure's threshold,
    and the `InvalidValue` conditions / required fields of every branch of the kind decision, through rs2lean.

The TLV stream macros themselves (`_encode_tlv_stream!`, `_encode_tlv!`, `_check_encoded_tlv_order!`,
`_encode_varint_length_prefixed_tlv!`, `_decode_tlv_stream_range!`) have hand-written record-level mirrors in
Model/OnionPayload.lean; their text is pinned (tools/cfg/C14_payload_pins.txt).
"""
import re, sys, os, hashlib
sys.path.insert(0, os.path.dirname(__file__))
from rs2lean import parse_expr, Emitter, TranslateError, strip_comments, find_fn, match_brace

REPO = os.environ.get('VERIF_REPO', '/repo')
def rd(p): return open(os.path.join(REPO, p)).read()

def norm(s):
    s = ' '.join(strip_comments(s).split())
    s = re.sub(r',\s*\)', ')', s); s = re.sub(r',\s*\}', ' }', s)
    s = re.sub(r'\(\s+', '(', s); s = re.sub(r'\s+\)', ')', s)
    s = re.sub(r'\s+\.(?=[a-z_])', '.', s)      # rustfmt method chains
    return s

def split_top(s, sep=','):
    out, cur, d = [], '', 0
    for c in s:
        if c in '([{': d += 1
        if c in ')]}': d -= 1
        if c == sep and d == 0:
            out.append(cur); cur = ''
        else: cur += c
    if cur.strip(): out.append(cur)
    return [x.strip() for x in out]

def split_stmts(body):
    src = strip_comments(body).strip()
    assert src[0] == '{' and src[-1] == '}'
    src = src[1:-1]
    out, cur, d = [], '', 0
    for c in src:
        if c in '([{': d += 1
        if c in ')]}': d -= 1
        cur += c
        if d == 0 and c == ';':
            out.append(norm(cur)); cur = ''
    if cur.strip(): out.append(norm(cur))
    return out

def num(s): return int(s.replace('_', ''))
def lc(n): return n[0].lower() + n[1:]

# ---------------------------------------------------------------------------------------------
# writers

def arms_of(src, impl_head):
    i = src.find(impl_head)
    if i < 0: raise TranslateError("%s not found" % impl_head)
    _, _, body = find_fn(src[i:], 'write')
    m = re.search(r'match self \{', body)
    if not m: raise TranslateError("%s: `match self` not found" % impl_head)
    mb = body[m.end() - 1: match_brace(body, m.end() - 1)]
    inner = mb[1:-1]
    arms, pos = [], 0
    base_line = src[:i].count('\n') + 1
    while True:
        mm = re.compile(r'\s*((?:#\[[^\]]*\]\s*)*)Self::(\w+)\s*\{').match(inner, pos)
        if not mm:
            if inner[pos:].strip(): raise TranslateError("%s: unparsed text in match: %r" % (impl_head, inner[pos:pos + 60]))
            break
        attrs, name = mm.group(1), mm.group(2)
        pend = match_brace(inner, mm.end() - 1)
        pat = inner[mm.end():pend - 1]
        m2 = re.compile(r'\s*=>\s*\{').match(inner, pend)
        if not m2: raise TranslateError("%s::%s: arm body not found" % (impl_head, name))
        bend = match_brace(inner, m2.end() - 1)
        abody = inner[m2.end() - 1:bend]
        pos = bend
        m3 = re.compile(r'\s*,').match(inner, pos)
        if m3: pos = m3.end()
        fields = [re.sub(r'^(ref|mut)\s+', '', f.strip()).strip() for f in strip_comments(pat).split(',') if f.strip()]
        fields = [f for f in fields if f != '..']
        test_only = 'cfg(test)' in attrs.replace(' ', '')
        if attrs.strip() and not test_only: raise TranslateError("%s::%s: unknown attribute %s" % (impl_head, name, attrs.strip()))
        arms.append((name, fields, abody, test_only))
    return arms

ENTRY = re.compile(r'\((\d[\d_]*), (.*), (required|option|required_vec)\)$')

def enum_field_types(msgs, enum):
    """variant -> {field: declared type} of `enum <enum><'a> { Variant { field: Type, .. }, .. }`"""
    m = re.search(r'enum %s(?:<[^>]*>)? \{' % enum, msgs)
    if not m: raise TranslateError("enum %s not found" % enum)
    body = strip_comments(msgs[m.end() - 1: match_brace(msgs, m.end() - 1)])[1:-1]
    out, pos = {}, 0
    while True:
        mm = re.compile(r'\s*((?:#\[[^\]]*\]\s*)*)(\w+)\s*\{').match(body, pos)
        if not mm:
            if body[pos:].strip(): raise TranslateError("enum %s: unparsed text %r" % (enum, body[pos:pos + 60]))
            break
        end = match_brace(body, mm.end() - 1)
        fs = {}
        for part in split_top(body[mm.end():end - 1]):
            if not part: continue
            k, t = part.split(':', 1)
            fs[k.strip()] = ' '.join(t.split())
        out[mm.group(2)] = fs
        pos = end
        m3 = re.compile(r'\s*,').match(body, pos)
        if m3: pos = m3.end()
    return out

def check_final_onion_hop_data(msgs):
    w = re.search(r'impl Writeable for FinalOnionHopData \{(.*?)\n\}', msgs, re.S)
    r = re.search(r'impl Readable for FinalOnionHopData \{(.*?)\n\}', msgs, re.S)
    if not w or 'self.payment_secret.0.write(w)?; HighZeroBytesDroppedBigSize(self.total_msat).write(w)' not in norm(w.group(1)):
        raise TranslateError("impl Writeable for FinalOnionHopData changed (expected [u8; 32] secret then HighZeroBytesDroppedBigSize(total_msat))")
    if not r or 'let secret: [u8; 32] = Readable::read(r)?; let amt: HighZeroBytesDroppedBigSize<u64> = Readable::read(r)?; Ok(Self { payment_secret: PaymentSecret(secret), total_msat: amt.0 })' not in norm(r.group(1)):
        raise TranslateError("impl Readable for FinalOnionHopData changed")

def check_hzbd(ser):
    """HighZeroBytesDroppedBigSize write / read shape (util/ser.rs) and the widths it is instantiated with"""
    b = norm(ser)
    if 'writer.write_all(&self.0.to_be_bytes()[(self.0.leading_zeros() / 8) as usize..$len])' not in b:
        raise TranslateError("HighZeroBytesDroppedBigSize::write changed")
    if 'if total_read_len == 0 || buf[$len] != 0 { let first_byte = $len - ($len - total_read_len); let mut bytes = [0; $len]; bytes.copy_from_slice(&buf[first_byte..first_byte + $len]); Ok(HighZeroBytesDroppedBigSize(<$val_type>::from_be_bytes(bytes))) } else { Err(DecodeError::InvalidValue) }' not in b:
        raise TranslateError("HighZeroBytesDroppedBigSize::read changed")
    w = {}
    for t, n in re.findall(r'impl_writeable_primitive!\((\w+), (\d+)\);', ser): w[t] = int(n)
    if w.get('u64') != 8 or w.get('u32') != 4: raise TranslateError("impl_writeable_primitive! widths changed: %s" % w)
    return w

INT_W = {'u64': 8, 'u32': 4, 'u16': 2}
def bare_type_enc(t, what):
    t = re.sub(r"&'a ", '', t)
    m = re.fullmatch(r'Option<(.*)>', t)
    if m: t = m.group(1)
    t = re.sub(r"&'a ", '', t)
    if t in INT_W: return '.be %d' % INT_W[t]
    if t == 'FinalOnionHopData': return '.secretTotal'
    if t == 'PublicKey': return '.fixed 33'
    if t == 'PaymentPreimage': return '.fixed 32'
    if t in ('TrampolineOnionPacket', 'InvoiceRequest', 'WithoutLength<Vec<u8>>', 'Vec<u8>'): return '.raw'
    raise TranslateError("%s: no value encoding known for type %s" % (what, t))

def writer_enc(ex, f, ftypes, what):
    t = ftypes.get(f)
    if t is None: raise TranslateError("%s: field %s has no declared type" % (what, f))
    m = re.fullmatch(r'HighZeroBytesDroppedBigSize\(\*?(\w+)\)', ex)
    if m:
        if t not in INT_W: raise TranslateError("%s: HighZeroBytesDroppedBigSize of a %s" % (what, t))
        return '.hzbd %d' % INT_W[t]
    if re.fullmatch(r'\w+(\.as_ref\(\))?\.map\(\|m\| WithoutLength\(m\)\)', ex) or re.fullmatch(r'WithoutLength\(\w+\)', ex): return '.raw'
    if ex == '*' + f and 'Vec<u8>' in t: return '.raw'
    if ex == f: return bare_type_enc(t, what)
    raise TranslateError("%s: value expression `%s` not understood" % (what, ex))

def translate_arm(enum, short, name, fields, body, L, meta, ftypes):
    stmts = split_stmts(body)
    lets, kinds = [], {}          # kinds: field -> 'req' | 'opt' | 'tlvs'
    extra_name, encode, sorted_seen = None, None, False
    tlv_lets = {}
    for s in stmts:
        m = re.fullmatch(r'let (\w+_tlv) = (\w+)\.map\(\|(\w+)\| \((\d[\d_]*), \3\.encode\(\)\)\);', s)
        if m:
            v, f, t = m.group(1), m.group(2), num(m.group(4))
            if f not in fields: raise TranslateError("%s::%s: %s is not a field" % (enum, name, f))
            kinds[f] = 'opt'; tlv_lets[v] = (f, t)
            lets.append('  let %s : Option Rec := %s.map (fun %s => (%d, %s))' % (v, f, m.group(3), t, m.group(3)))
            continue
        m = re.fullmatch(r'let (?:mut )?custom_tlvs: Vec<&\(u64, Vec<u8>\)> = custom_tlvs\.iter\(\)((?:\.chain\(\w+\.iter\(\)\))*)\.collect\(\);', s)
        if m:
            chained = re.findall(r'\.chain\((\w+)\.iter\(\)\)', m.group(1))
            for c in chained:
                if c not in tlv_lets: raise TranslateError("%s::%s: chained %s is not a synthetic TLV" % (enum, name, c))
            lets.append('  let custom_tlvs : List Rec := custom_tlvs' + ''.join(' ++ %s.toList' % c for c in chained))
            continue
        if re.fullmatch(r'custom_tlvs\.sort_unstable_by_key\(\|\(typ, _\)\| \*typ\);', s):
            lets.append('  let custom_tlvs := sortByType custom_tlvs'); sorted_seen = True
            continue
        m = re.fullmatch(r'_encode_varint_length_prefixed_tlv!\(w, \{ (.*) \}(?:, (\w+)\.iter\(\))?\);', s)
        if m:
            if encode is not None: raise TranslateError("%s::%s: two encode statements" % (enum, name))
            encode = split_top(m.group(1)); extra_name = m.group(2)
            continue
        # value computations (no TLV record is created or ordered here)
        if re.match(r'let (mut )?(blinded_path_serialization|serialization_length)\b', s) and not re.search(r'custom_tlvs|_tlv\b|sort', s):
            continue
        raise TranslateError("%s::%s: statement outside the translated subset: `%s`" % (enum, name, s[:140]))
    if encode is None: raise TranslateError("%s::%s: no _encode_varint_length_prefixed_tlv!" % (enum, name))
    recs, tys = [], []
    for e in encode:
        m = ENTRY.fullmatch(e)
        if not m: raise TranslateError("%s::%s: TLV entry not understood: %s" % (enum, name, e))
        t, ex, ty = num(m.group(1)), m.group(2), m.group(3)
        used = [f for f in fields if re.search(r'\b%s\b' % re.escape(f), ex)]
        if name == 'LegacyBlindedPathEntry' and 'blinded_path_serialization' in ex: used = ['payment_paths']
        if len(used) != 1: raise TranslateError("%s::%s: TLV %d value `%s` does not name exactly one field" % (enum, name, t, ex))
        f = used[0]
        if ty == 'option':
            kinds[f] = 'opt'; recs.append('(%d, %s)' % (t, f))
        else:
            kinds.setdefault(f, 'req'); recs.append('(%d, some %s)' % (t, f))
        tys.append((t, f, ty, ex))
    if extra_name:
        if extra_name != 'custom_tlvs': raise TranslateError("%s::%s: extra TLVs come from %s" % (enum, name, extra_name))
        kinds['custom_tlvs'] = 'tlvs'
    for f in fields:
        if f not in kinds: raise TranslateError("%s::%s: field %s is never written" % (enum, name, f))
    ctor = short + name
    params = ' '.join('(%s : %s)' % (f, {'req': 'Bytes', 'opt': 'Option Bytes', 'tlvs': 'List Rec'}[kinds[f]]) for f in fields)
    L += ['/-- `%s::%s` (msgs.rs): records %s%s -/' % (enum, name, ', '.join('%d %s `%s`' % (t, ty, ex.replace('/-', '/ -')) for t, f, ty, ex in tys),
                                                   '; then the extra TLVs `custom_tlvs`' if extra_name else ''),
          'def write%s %s : TlvOut :=' % (ctor, params)] + lets + \
         ['  ⟨[%s], %s⟩' % (', '.join(recs), 'custom_tlvs' if extra_name else '[]'), '']
    what = '%s::%s' % (enum, name)
    encs = [(t, writer_enc(ex, f, ftypes, what)) for t, f, ty, ex in tys] + [(t, bare_type_enc(ftypes[f], what)) for f, t in tlv_lets.values()]
    encs.sort()
    L += ['/-- value encodings of the records `%s` writes (from the value expressions and the declared field types) -/' % what,
          'def writeEnc%s : List (Nat × ValEnc) := [%s]' % (ctor, ', '.join('(%d, %s)' % e for e in encs)), '']
    meta.append((ctor, '%s.%s' % (short.lower(), name), fields, kinds, [t for t, _, _, _ in tys], dict((v[0], v[1]) for v in tlv_lets.values()), bool(extra_name), sorted_seen))

def writers(L, msgs):
    meta = []
    for enum, head, short in [('OutboundOnionPayload', "impl<'a> Writeable for OutboundOnionPayload<'a>", 'Onion'),
                              ('OutboundTrampolinePayload', "impl<'a> Writeable for OutboundTrampolinePayload<'a>", 'Trampoline')]:
        arms = arms_of(msgs, head)
        ftypes_all = enum_field_types(msgs, enum)
        seen = [a[0] for a in arms if not a[3]]
        want = {'Onion': ['Forward', 'TrampolineEntrypoint', 'Receive', 'BlindedForward', 'BlindedReceive'],
                'Trampoline': ['Forward', 'LegacyBlindedPathEntry', 'BlindedForward', 'BlindedReceive']}[short]
        if seen != want: raise TranslateError("%s: variants written outside cfg(test) changed: %s (expected %s)" % (enum, seen, want))
        for name, fields, body, test_only in arms:
            if test_only: continue
            translate_arm(enum, short, name, fields, body, L, meta, ftypes_all.get(name, {}))
    # the sum type of everything a sender can write
    L.append('/-- every hop payload a sender can write (outside cfg(test)); field values are their serialized bytes -/')
    L.append('inductive OutPayload where')
    for ctor, tag, fields, kinds, _, _, _, _ in meta:
        L.append('  | %s %s' % (lc(ctor), ' '.join('(%s : %s)' % (f, {'req': 'Bytes', 'opt': 'Option Bytes', 'tlvs': 'List Rec'}[kinds[f]]) for f in fields)))
    L += ['', '/-- what the payload hands to `_encode_varint_length_prefixed_tlv!` -/', 'def OutPayload.out : OutPayload → TlvOut']
    for ctor, tag, fields, kinds, _, _, _, _ in meta:
        L.append('  | .%s %s => write%s %s' % (lc(ctor), ' '.join(fields), ctor, ' '.join(fields)))
    L += ['', '/-- the TLV records of the payload, in the order they are written -/', 'def OutPayload.records (p : OutPayload) : List Rec := p.out.records']
    L += ['', '/-- the user-supplied custom TLVs (validated by `RecipientCustomTlvs::new`) -/', 'def OutPayload.customTlvs : OutPayload → List Rec']
    for ctor, tag, fields, kinds, _, _, has_extra, _ in meta:
        L.append('  | .%s %s => %s' % (lc(ctor), ' '.join(f if f == 'custom_tlvs' else '_' for f in fields), 'custom_tlvs' if has_extra else '[]'))
    L += ['', '/-- the records written from typed fields (incl. the synthetic invoice_request / keysend records) -/', 'def OutPayload.typedRecs : OutPayload → List Rec']
    for ctor, tag, fields, kinds, types, synth, _, _ in meta:
        # (type, field) pairs: from the encode list and the synthetic lets
        L.append('  | .%s %s => tlvRecords typed_%s_PLACEHOLDER []' % (lc(ctor), ' '.join(fields), ctor))
    L += ['', '/-- written into the OUTER onion (read back by `InboundOnionPayload::read`); the others go into a trampoline onion -/', 'def OutPayload.outerOnion : OutPayload → Bool']
    for ctor, tag, fields, kinds, _, _, _, _ in meta:
        L.append('  | .%s %s => %s' % (lc(ctor), ' '.join('_' for _ in fields), 'true' if ctor.startswith('Onion') else 'false'))
    L += ['', 'def OutPayload.name : OutPayload → String']
    for ctor, tag, fields, kinds, _, _, _, _ in meta:
        L.append('  | .%s %s => "%s"' % (lc(ctor), ' '.join('_' for _ in fields), tag))
    L += ['', '/-- build a payload from named serialized field values (driver) -/',
          'def OutPayload.ofFields (variant : String) (f : String → Option Bytes) (custom_tlvs : List Rec) : Option OutPayload :=',
          '  match variant with']
    for ctor, tag, fields, kinds, _, _, _, _ in meta:
        args = ' '.join('custom_tlvs' if kinds[x] == 'tlvs' else ('(f "%s")' % x if kinds[x] == 'opt' else '((f "%s").getD ([] : Bytes))' % x) for x in fields)
        L.append('  | "%s" => some (.%s %s)' % (tag, lc(ctor), args))
    L += ['  | _ => none', '']
    return meta

def fix_typed(L, meta, msgs_entries):
    """replace the typedRecs placeholders: typed records sorted by type (the decoder's view)"""
    for i, line in enumerate(L):
        m = re.search(r'typed_(\w+)_PLACEHOLDER', line)
        if m:
            ctor = m.group(1)
            ent = msgs_entries[ctor]
            L[i] = line.replace('typed_%s_PLACEHOLDER' % ctor, '[%s]' % ', '.join(ent))

# ---------------------------------------------------------------------------------------------
# RecipientCustomTlvs::new

def custom_tlvs_new(L, op):
    i = op.find('impl RecipientCustomTlvs {')
    if i < 0: raise TranslateError("impl RecipientCustomTlvs not found")
    _, _, body = find_fn(op[i:], 'new')
    b = norm(body)
    m = re.fullmatch(r'\{ tlvs\.sort_unstable_by_key\(\|\(typ, _\)\| \*typ\); let mut prev_type = None; for \(typ, _\) in tlvs\.iter\(\) \{ (.*) match prev_type \{ Some\(prev\) if (.*?) => return Err\(\(\)\), _ => \{\} \} prev_type = Some\(\*typ\); \} Ok\(Self\(tlvs\)\) \}', b)
    if not m: raise TranslateError("RecipientCustomTlvs::new changed shape: %s" % b[:200])
    conds = re.findall(r'if (.*?) \{ return Err\(\(\)\); \}', m.group(1))
    rest = re.sub(r'if (.*?) \{ return Err\(\(\)\); \}', '', m.group(1)).strip()
    if rest or not conds: raise TranslateError("RecipientCustomTlvs::new: unexpected statements in the loop: %s" % rest)
    em = Emitter(env={'typ': 'typ', 'prev': 'prev'})
    L += ['/-- `RecipientCustomTlvs::new` (outbound_payment.rs), per-type rejections: %s -/' % '; '.join('`%s`' % c for c in conds),
          'def customTlvTypeRejected (typ : Nat) : Bool :=', '  ' + ' || '.join(em.e(parse_expr(c)) for c in conds), '',
          '/-- ... and the order test against the previous (sorted) type: `%s` -/' % m.group(2),
          'def customTlvOrderRejected (prev typ : Nat) : Bool :=', '  ' + em.e(parse_expr(m.group(2))), '',
          '/-- mirrors `RecipientCustomTlvs::new`: sort by type, reject reserved / low / repeated types -/',
          'def recipientCustomTlvsNew (tlvs : List Rec) : Option (List Rec) :=',
          '  let tlvs := sortByType tlvs',
          '  if tlvs.any (fun r => customTlvTypeRejected r.1) || adjacentAny customTlvOrderRejected (tlvs.map (·.1)) then none else some tlvs', '']

# ---------------------------------------------------------------------------------------------
# reader

def reader(L, msgs):
    i = msgs.find('impl<NS: NodeSigner> ReadableArgs<(Option<PublicKey>, NS)> for InboundOnionPayload')
    if i < 0: raise TranslateError("InboundOnionPayload reader not found")
    _, _, body = find_fn(msgs[i:], 'read')
    b = strip_comments(body)
    m = re.search(r'decode_tlv_stream_with_custom_tlv_decode!\(&mut rd, \{(.*?)\}, \|msg_type: u64, msg_reader: &mut FixedLengthReader<_>\| -> Result<bool, DecodeError> \{(.*?)\}\);', b, re.S)
    if not m: raise TranslateError("InboundOnionPayload::read: decode macro call not found")
    known, rencs = [], []
    decl = dict((n, ' '.join(t.split())) for n, t in re.findall(r'let mut (\w+): ([^=;]+?) = None;', b))
    undecl = set(re.findall(r'let mut (\w+) = None;', b))
    for e in split_top(' '.join(m.group(1).split())):
        mm = re.match(r'\((\d[\d_]*), (\w+), ', e)
        if not mm: raise TranslateError("InboundOnionPayload::read: TLV entry not understood: %s" % e)
        t, n = num(mm.group(1)), mm.group(2)
        known.append((t, n))
        m2 = re.fullmatch(r'\(\d[\d_]*, \w+, \(option, encoding: \((u64|u32|u16), HighZeroBytesDroppedBigSize\)\)\)', e)
        if m2: rencs.append((t, '.hzbd %d' % INT_W[m2.group(1)]))
        elif re.fullmatch(r'\(\d[\d_]*, \w+, option\)', e):
            if n in decl: rencs.append((t, bare_type_enc(decl[n], 'InboundOnionPayload::read field %s' % n)))
            elif n == 'outer_onion_path_key' and n in undecl and 'outer_onion_path_key.or(update_add_blinding_point)' in b and 'ReadableArgs<(Option<PublicKey>, NS)> for InboundOnionPayload' in msgs:
                rencs.append((t, '.fixed 33'))      # Option<PublicKey>, inferred from `.or(update_add_blinding_point)`
            else: raise TranslateError("InboundOnionPayload::read: type of field %s not found" % n)
        else: raise TranslateError("InboundOnionPayload::read: TLV entry kind not understood: %s" % e)
    clo = norm(m.group(2))
    mm = re.fullmatch(r'if msg_type < (.*?) \{ return Ok\(false\) \} let mut value = Vec::new\(\); msg_reader\.read_to_limit\(&mut value, u64::MAX\)\?; custom_tlvs\.push\(\(msg_type, value\)\); Ok\(true\)', clo)
    if not mm: raise TranslateError("InboundOnionPayload::read: custom TLV closure changed: %s" % clo)
    em0 = Emitter()
    L += ['/-- TLV types `InboundOnionPayload::read` decodes into typed fields: %s -/' % ', '.join('%d %s' % k for k in known),
          'def inboundKnownTypes : List Nat := [%s]' % ', '.join(str(k[0]) for k in known), '',
          '/-- how `InboundOnionPayload::read` decodes the VALUE of each typed record (macro entry `encoding:` / the declared field type) -/',
          'def inboundEnc : List (Nat × ValEnc) := [%s]' % ', '.join('(%d, %s)' % e for e in rencs), '',
          '/-- the custom-TLV closure keeps a record of unknown type iff NOT `msg_type < %s` -/' % mm.group(1),
          'def customTlvMin : Nat := %s' % em0.e(parse_expr(mm.group(1))), '',
          '/-- which typed fields a decoded stream filled -/', 'structure InboundPresence where']
    for t, n in known: L.append('  %s : Bool' % n)
    L += ['', 'def presenceOf (recs : List Rec) : InboundPresence :=', '  ⟨%s⟩' % ', '.join('recs.any (fun r => r.1 == %d)' % t for t, n in known), '']
    # ---- the kind decision -------------------------------------------------------------------
    tail = b[m.end():]
    names = [n for _, n in known]
    em = Emitter(env=dict([(n, 'p.' + n) for n in names] + [('update_add_blinding_point', 'update_add_blinding_point')]),
                 methods={'is_some': lambda r, a: r, 'is_none': lambda r, a: '(!%s)' % r})
    def conds_in(seg, what, drop_aad=True):
        out = []
        for c in re.findall(r'if ([^{}]*?)\{\s*return Err\(DecodeError::InvalidValue\);\s*\}', seg, re.S):
            c = ' '.join(c.split())
            if 'unwrap_or(0) >' in c or 'data.total_msat >' in c: continue          # value ranges (MAX_VALUE_MSAT): not record-level
            if c.startswith('used_aad'): continue                                   # AEAD associated data of the encrypted_tlvs: blinded-path crypto, trusted
            c = re.sub(r'\|\| used_aad [!=]= TriPolyAADUsed::None', '', c).strip()
            out.append(c)
        return out
    def req_in(seg):
        return re.findall(r'(\w+)\.ok_or\(DecodeError::InvalidValue\)\?', seg)
    def cut(a, z, frm=0):
        i0 = tail.find(a, frm)
        i1 = tail.find(z, i0 + 1) if z else len(tail)
        if i0 < 0 or i1 < 0: raise TranslateError("InboundOnionPayload::read: anchor not found: %s .. %s" % (a, z))
        return tail[i0:i1], i0
    seg_pre, _ = cut('', 'if let Some(trampoline_onion_packet) = trampoline_onion_packet')
    seg_tr, _ = cut('if let Some(trampoline_onion_packet) = trampoline_onion_packet', 'if let Some(blinding_point) = outer_onion_path_key.or(update_add_blinding_point)')
    seg_bl, _ = cut('if let Some(blinding_point) = outer_onion_path_key.or(update_add_blinding_point)', 'match ChaChaTriPolyReadAdapter::read')
    seg_bf, _ = cut('BlindedPaymentTlvs::Forward(ForwardTlvs', 'BlindedPaymentTlvs::Dummy(DummyTlvs')
    seg_du, _ = cut('BlindedPaymentTlvs::Dummy(DummyTlvs', 'BlindedPaymentTlvs::Receive(receive_tlvs)')
    seg_br, _ = cut('BlindedPaymentTlvs::Receive(receive_tlvs)', 'else if let Some(short_channel_id) = short_id')
    seg_fw, _ = cut('else if let Some(short_channel_id) = short_id', 'Ok(Self::Receive(InboundOnionReceivePayload')
    seg_rc, _ = cut('Ok(Self::Receive(InboundOnionReceivePayload', None)
    # the Receive branch's conditions sit between the end of the Forward block and Ok(Self::Receive
    i_else = tail.rfind('} else {', 0, tail.find('Ok(Self::Receive(InboundOnionReceivePayload'))
    seg_rc_conds = tail[i_else:tail.find('Ok(Self::Receive(InboundOnionReceivePayload')]
    seg_fw_only = tail[tail.find('else if let Some(short_channel_id) = short_id'):i_else]
    def bor(cs): return ' || '.join('(%s)' % em.e(parse_expr(c)) for c in cs) if cs else 'false'
    def band_req(rs): return ' && '.join('p.%s' % r for r in rs) if rs else 'true'
    pre = conds_in(seg_pre, 'pre')
    tr_c = conds_in(seg_tr, 'tr'); tr_r = req_in(seg_tr)
    bl_c = conds_in(seg_bl, 'bl'); bl_r = req_in(seg_bl)
    bf_c = conds_in(seg_bf, 'bf'); du_c = conds_in(seg_du, 'du'); br_c = conds_in(seg_br, 'br'); br_r = req_in(seg_br)
    fw_c = conds_in(seg_fw_only, 'fw'); fw_r = req_in(seg_fw_only)
    rc_c = conds_in(seg_rc_conds, 'rc'); rc_r = [r for r in req_in(seg_rc)]
    if not (len(pre) == 1 and len(tr_c) == 2 and len(bl_c) == 1 and len(bf_c) == 1 and len(du_c) == 1 and len(fw_c) == 1 and len(rc_c) == 1):
        raise TranslateError("InboundOnionPayload::read: the InvalidValue conditions of the kind decision changed: %s" % [pre, tr_c, bl_c, bf_c, du_c, br_c, fw_c, rc_c])
    if bl_r != ['encrypted_tlvs_opt']: raise TranslateError("InboundOnionPayload::read: blinded branch requires %s" % bl_r)
    L += ['inductive InKind | trampolineEntrypoint | blindedForward | dummy | blindedReceive | forward | receive',
          '  deriving DecidableEq, Repr', '',
          '/-- what the `encrypted_tlvs` of a blinded hop decrypt to (blinded-path crypto is trusted; with the matching AEAD associated data) -/',
          'inductive BlindedInner | forward | dummy | receive', '  deriving DecidableEq, Repr', '',
          '/-- mirrors the kind decision of `InboundOnionPayload::read` after the TLV stream was decoded (translated conditions;',
          '    `none` = `Err(DecodeError::InvalidValue)`; value-range checks against MAX_VALUE_MSAT are not record-level) -/',
          'def classifyInbound (p : InboundPresence) (update_add_blinding_point : Bool) (inner : BlindedInner) : Option InKind :=',
          '  if %s then none else' % bor(pre),
          '  if p.trampoline_onion_packet then',
          '    (if %s then none else if %s then some .trampolineEntrypoint else none) else' % (bor(tr_c), band_req(tr_r)),
          '  if p.outer_onion_path_key || update_add_blinding_point then',
          '    (if %s then none else if !p.encrypted_tlvs_opt then none else' % bor(bl_c),
          '     match inner with',
          '     | .forward => if %s then none else some .blindedForward' % bor(bf_c),
          '     | .dummy => if %s then none else some .dummy' % bor(du_c),
          '     | .receive => if %s then none else if %s then some .blindedReceive else none) else' % (bor(br_c), band_req(br_r)),
          '  if p.short_id then',
          '    (if %s then none else if %s then some .forward else none) else' % (bor(fw_c), band_req(fw_r)),
          '  (if %s then none else if %s then some .receive else none)' % (bor(rc_c), band_req(rc_r)), '']
    return known

# ---------------------------------------------------------------------------------------------
# pins

PIN_FILE = os.path.join(os.path.dirname(os.path.abspath(__file__)), 'cfg', 'C14_payload_pins.txt')

def macro_text(src, name):
    m = re.search(r'macro_rules! ' + re.escape(name) + r'\s*\{', src)
    if not m: raise TranslateError("macro %s not found" % name)
    return norm(src[m.end() - 1: match_brace(src, m.end() - 1)])

def pins(L, sm):
    got = {}
    for name, mirror in [('_encode_tlv_stream', 'tlvRecords (typed records in source order, then the extra TLVs)'),
                         ('_encode_tlv', 'tlvRecords (option: written iff Some; required / required_vec: always)'),
                         ('_check_encoded_tlv_order', 'StrictInc (the debug-build order assertion)'),
                         ('_encode_varint_length_prefixed_tlv', 'encodePayload (BigSize total length, then the stream)'),
                         ('_decode_tlv_stream_range', 'decodeRecords (order check, typed dispatch, custom closure, even/odd rule)')]:
        got[name] = (macro_text(sm, name), mirror)
    want = {}
    if os.path.exists(PIN_FILE):
        for line in open(PIN_FILE):
            line = line.strip()
            if line and not line.startswith('#'):
                h, n = line.split(' ', 1); want[n] = h
    if os.environ.get('C14_REPIN') == '1':
        with open(PIN_FILE, 'w') as f:
            f.write('# sha256[:16] of the comment-stripped, whitespace-normalised text of the TLV stream macros (util/ser_macros.rs) that have\n'
                    '# hand-written record-level mirrors in lean/LdkModel/Model/OnionPayload.lean (C14_REPIN=1 tools/gen_onion_payloads.py)\n')
            for n in sorted(got): f.write('%s %s\n' % (hashlib.sha256(got[n][0].encode()).hexdigest()[:16], n))
        want = {n: hashlib.sha256(got[n][0].encode()).hexdigest()[:16] for n in got}
    errs = []
    L.append('/-! pinned macro text (hand-written mirrors in Model/OnionPayload.lean):')
    for n in sorted(got):
        h = hashlib.sha256(got[n][0].encode()).hexdigest()[:16]
        if n not in want: errs.append("no pin recorded for macro %s" % n)
        elif want[n] != h: errs.append("pinned macro %s! changed shape (sha256 %s, pinned %s): the mirror %s must be re-validated" % (n, h, want[n], got[n][1]))
        L.append('   %s  %s!  ↔ %s' % (want.get(n, '?'), n, got[n][1]))
    L += ['-/', '']
    return errs

def main(out_path):
    msgs = rd('lightning/src/ln/msgs.rs'); op = rd('lightning/src/ln/outbound_payment.rs'); sm = rd('lightning/src/util/ser_macros.rs')
    L = ['/- GENERATED by tools/gen_onion_payloads.py from lightning/src/ln/msgs.rs, ln/outbound_payment.rs, util/ser_macros.rs — do not edit.',
         '   Regenerated on every check.  Hop payload encoders (every arm of the two `Writeable` impls outside cfg(test)),',
         '   RecipientCustomTlvs::new, and the reader\'s known types / custom closure / kind decision. -/',
         'import LdkModel.Model.OnionPayload', 'set_option linter.unusedVariables false', 'namespace Ldk.OnionPayload', 'open Ldk.Onion (Bytes)', '']
    check_final_onion_hop_data(msgs); check_hzbd(rd('lightning/src/util/ser.rs'))
    meta = writers(L, msgs)
    ent = {}
    for ctor, tag, fields, kinds, types, synth, has_extra, _ in meta:
        # reconstruct (type, value) list for the typed view: encode-list entries + synthetic records, by ascending type
        pass
    # typed view: parse back from the generated write defs
    text = '\n'.join(L)
    for ctor, tag, fields, kinds, types, synth, has_extra, _ in meta:
        m = re.search(r'def write%s .*?  ⟨\[(.*?)\], ' % ctor, text, re.S)
        items = split_top(m.group(1)) if m.group(1).strip() else []
        pairs = []
        for it in items:
            mm = re.fullmatch(r'\((\d+), (.*)\)', it)
            pairs.append((int(mm.group(1)), mm.group(2)))
        for f, t in synth.items(): pairs.append((t, f))
        pairs.sort()
        ent[ctor] = ['(%d, %s)' % p for p in pairs]
    fix_typed(L, meta, ent)
    custom_tlvs_new(L, op)
    reader(L, msgs)
    errs = pins(L, sm)
    L.append('end Ldk.OnionPayload')
    text = '\n'.join(L) + '\n'
    old = open(out_path).read() if os.path.exists(out_path) else None
    if old != text:
        os.makedirs(os.path.dirname(out_path), exist_ok=True)
        open(out_path, 'w').write(text)
    if errs: raise TranslateError('; '.join(errs))

if __name__ == '__main__':
    try:
        main(sys.argv[1] if len(sys.argv) > 1 else os.path.join(os.path.dirname(os.path.abspath(__file__)), '..', 'lean', 'LdkModel', 'Generated', 'OnionPayloads.lean'))
    except TranslateError as ex:
        print("TRANSLATE-ERROR gen_onion_payloads: %s" % ex)
        sys.exit(2)
    except (ValueError, AssertionError, AttributeError) as ex:
        print("TRANSLATE-ERROR gen_onion_payloads: source structure changed (%s: %s)" % (type(ex).__name__, ex))
        sys.exit(2)
