#!/usr/bin/env python3
"""Regenerate lean/LdkModel/Generated/RaaRewrites.lean from /repo's channel.rs: the state rewrites of
FundedChannel::revoke_and_ack (C01 census row `revoke_and_ack`): which inbound / outbound HTLC states are REMOVED by the two
retain passes and which of them change value_to_self_msat (with the sign of the `+=` / `-=`), the promotions of the two
iter_mut passes (inbound AwaitingRemoteRevokeToAnnounce -> AwaitingAnnouncedRemoteRevoke -> Committed, outbound LocalAnnounced ->
Committed, AwaitingRemoteRevokeToRemove -> AwaitingRemovedRemoteRevoke), the ORDER retain-before-promote (an HTLC promoted to
AwaitingRemovedRemoteRevoke by this revoke_and_ack is not removed by it), the i64 application of value_to_self_msat_diff and the
per-FeeUpdateState promotion of pending_update_fee. State names, signs and arm contents are taken from the source text; an
unknown shape is a TRANSLATE-ERROR. Model/ChanRaa.lean applies the tables to the model node (Node.onRaaG);
Props/C01Raa.lean proves Node.onRaaG = Node.onRaa (the hand mirror every protocol theorem is about) for ALL nodes."""
import re, sys, os
sys.path.insert(0, os.path.dirname(__file__))
from rs2lean import TranslateError, strip_comments, find_fn
from gen_htlc_tables import strip_logs
REPO = os.environ.get('VERIF_REPO', '/repo')
# Lean patterns / constructors of Generated/HtlcTables.lean
IN_PAT = {'RemoteAnnounced': '.remoteAnnounced', 'AwaitingRemoteRevokeToAnnounce': '.awaitingRemoteRevokeToAnnounce',
          'AwaitingAnnouncedRemoteRevoke': '.awaitingAnnouncedRemoteRevoke', 'Committed': '.committed', 'LocalRemoved': '.localRemoved %s'}
OUT_PAT = {'LocalAnnounced': '.localAnnounced', 'Committed': '.committed', 'RemoteRemoved': '.remoteRemoved %s',
           'AwaitingRemoteRevokeToRemove': '.awaitingRemoteRevokeToRemove %s', 'AwaitingRemovedRemoteRevoke': '.awaitingRemovedRemoteRevoke %s'}
FEE_CODE = {'RemoteAnnounced': 0, 'AwaitingRemoteRevokeToAnnounce': 1, 'Outbound': 2}   # = FeeState.code (Model/ChanPersist.lean)
def pat(tab, name, arg='_'):
    if name not in tab: raise TranslateError('unknown HTLC state %s' % name)
    p = tab[name]
    return p % arg if '%s' in p else p
def one(rx, txt, what):
    ms = list(re.finditer(rx, txt))
    if len(ms) != 1: raise TranslateError('%s: expected exactly one match, found %d' % (what, len(ms)))
    return ms[0]
def main(out):
    src = open(os.path.join(REPO, 'lightning/src/ln/channel.rs')).read()
    b = ' '.join(strip_logs(strip_comments(find_fn(src, 'revoke_and_ack')[2])).split())
    if 'if !self.context.channel_state.is_awaiting_remote_revoke() { return Err(ChannelError::close("Received an unexpected revoke_and_ack".to_owned())); }' not in b:
        raise TranslateError('the AwaitingRemoteRevoke guard of revoke_and_ack changed')
    if 'self.context.channel_state.clear_awaiting_remote_revoke();' not in b: raise TranslateError('revoke_and_ack no longer clears AwaitingRemoteRevoke')
    one(r'let mut value_to_self_msat_diff: i64 = 0;', b, 'value_to_self_msat_diff initialisation')
    if len(re.findall(r'value_to_self_msat_diff', b)) != 4: raise TranslateError('value_to_self_msat_diff is no longer used exactly 4 times (init, inbound, outbound, application)')
    # 1. inbound retain
    m1 = one(r'pending_inbound_htlcs\.retain\(\|htlc\| \{ if let &InboundHTLCState::(\w+)\(ref reason\) = &htlc\.state \{ if let &InboundHTLCRemovalReason::(\w+) \{ \.\. \} = reason \{ value_to_self_msat_diff (\+=|-=) htlc\.amount_msat as i64; \} \*expecting_peer_commitment_signed = true; false \} else \{ true \} \}\);', b, 'inbound retain pass')
    in_removed, in_reason, in_sign = m1.group(1), m1.group(2), m1.group(3)[0]
    if in_removed != 'LocalRemoved' or in_reason not in ('Fulfill', 'FailRelay', 'FailMalformed'): raise TranslateError('inbound retain pass removes %s / credits reason %s' % (in_removed, in_reason))
    in_credit_arg = 'true' if in_reason == 'Fulfill' else 'false'
    # 2. outbound retain
    m2 = one(r'pending_outbound_htlcs\.retain\(\|htlc\| \{ if let &OutboundHTLCState::(\w+)\(ref outcome\) = &htlc\.state \{ match outcome\.clone\(\) \{ OutboundHTLCOutcome::Failure\(mut reason\) => \{(.*?)\}, OutboundHTLCOutcome::Success \{ attribution_data, \.\. \} => \{(.*?)\}, \} false \} else \{ true \} \}\);', b, 'outbound retain pass')
    out_removed, fail_arm, succ_arm = m2.group(1), m2.group(2), m2.group(3)
    ds = re.findall(r'value_to_self_msat_diff (\+=|-=) htlc\.amount_msat as i64;', succ_arm)
    df = re.findall(r'value_to_self_msat_diff', fail_arm)
    if len(ds) + len(df) != 1: raise TranslateError('outbound retain pass: value_to_self_msat_diff must change in exactly one outcome arm')
    if ds: out_sign, out_debit_arg = ds[0][0], 'true'
    else:
        dd = re.findall(r'value_to_self_msat_diff (\+=|-=) htlc\.amount_msat as i64;', fail_arm)
        if len(dd) != 1: raise TranslateError('outbound retain pass: unexpected use of value_to_self_msat_diff in the Failure arm')
        out_sign, out_debit_arg = dd[0][0], 'false'
    # 3. inbound promotions
    m3 = one(r'for htlc in pending_inbound_htlcs\.iter_mut\(\) \{ let swap = if let &InboundHTLCState::(\w+)\(_\) = &htlc\.state \{ true \} else if let &InboundHTLCState::(\w+)\(_\) = &htlc\.state \{ true \} else \{ false \}; if swap \{ let mut state = InboundHTLCState::Committed \{ update_add_htlc: InboundUpdateAdd::Legacy \}; mem::swap\(&mut state, &mut htlc\.state\); if let InboundHTLCState::(\w+)\(resolution\) = state \{ htlc\.state = InboundHTLCState::(\w+)\(resolution\); require_commitment = true; \} else if let InboundHTLCState::(\w+)\(resolution\) = state \{ match resolution \{', b, 'inbound promotion pass')
    s1, s2, a1, t1, a2 = m3.groups()
    if {s1, s2} != {a1, a2} or a1 == a2: raise TranslateError('inbound promotion pass: swap condition %s/%s does not match the arms %s/%s' % (s1, s2, a1, a2))
    m3b = one(r'InboundHTLCResolution::Pending \{ update_add_htlc \} => \{ pending_update_adds\.push\(update_add_htlc\.clone\(\)\); htlc\.state = InboundHTLCState::(\w+) \{ update_add_htlc: InboundUpdateAdd::WithOnion \{ update_add_htlc, \}, \}; \}', b[m3.end():], 'inbound AwaitingAnnouncedRemoteRevoke (Pending resolution) arm')
    t2 = m3b.group(1)
    # 4. outbound promotions
    m4 = one(r'if let OutboundHTLCState::(\w+)\(_\) = htlc\.state \{ htlc\.state = OutboundHTLCState::(\w+); \*expecting_peer_commitment_signed = true; \}', b, 'outbound LocalAnnounced promotion')
    m5 = one(r'if let &mut OutboundHTLCState::(\w+)\(ref mut outcome\) = &mut htlc\.state \{ let mut reason = OutboundHTLCOutcome::Success \{ preimage: PaymentPreimage\(\[0u8; 32\]\), attribution_data: None, \}; mem::swap\(outcome, &mut reason\); htlc\.state = OutboundHTLCState::(\w+)\(reason\); require_commitment = true; \}', b, 'outbound removal promotion')
    o1, ot1, o2, ot2 = m4.group(1), m4.group(2), m5.group(1), m5.group(2)
    if len({in_removed, a1, a2}) != 3 or len({out_removed, o1, o2}) != 3: raise TranslateError('a state is handled by two passes of revoke_and_ack')
    # 5. order: both retain passes before both promotion passes (what this revoke_and_ack promotes it does not remove)
    if not (m1.start() < m2.start() < m3.start() < m4.start() < m5.start()): raise TranslateError('the retain / promotion passes of revoke_and_ack changed order')
    # 6. application of the diff
    m6 = one(r'funding\.value_to_self_msat = \(funding\.value_to_self_msat as i64 ([+-]) value_to_self_msat_diff\) as u64;', b, 'application of value_to_self_msat_diff')
    if not m5.end() < m6.start(): raise TranslateError('value_to_self_msat_diff is applied before the passes that compute it')
    app = m6.group(1)
    # 7. pending_update_fee
    m7 = one(r'if let Some\(\(feerate, update_state\)\) = self\.context\.pending_update_fee \{ match update_state \{ FeeUpdateState::(\w+) => \{(.*?)\}, FeeUpdateState::(\w+) => \{(.*?)\}, FeeUpdateState::(\w+) => \{(.*?)\}, \} \}', b, 'pending_update_fee promotion')
    fee = {}
    for k in (0, 2, 4):
        st, arm = m7.groups()[k], m7.groups()[k + 1]
        if st not in FEE_CODE or st in fee: raise TranslateError('unexpected FeeUpdateState arm %s' % st)
        sets = 'self.context.feerate_per_kw = feerate;' in arm; clears = 'self.context.pending_update_fee = None;' in arm
        if sets != clears: raise TranslateError('FeeUpdateState::%s arm of revoke_and_ack sets the feerate xor clears pending_update_fee' % st)
        if not sets and ('feerate_per_kw' in arm or 'pending_update_fee' in arm): raise TranslateError('FeeUpdateState::%s arm of revoke_and_ack: unexpected statement' % st)
        fee[st] = sets
    def sg(s): return '+' if s == '+' else '-'
    # the effective sign of an amount = sign of its `op=` times the sign the diff is applied with
    def eff(s): return '+' if (s == '+') == (app == '+') else '-'
    L = ['/- GENERATED by tools/gen_raa.py from lightning/src/ln/channel.rs (FundedChannel::revoke_and_ack) — do not edit. -/',
         'import LdkModel.Generated.HtlcTables', 'namespace Ldk.Chan', '',
         '/-- inbound HTLC on revoke_and_ack: `none` = removed by the retain pass; the promotions of the iter_mut pass (which runs AFTER the retain pass) -/',
         'def InState.onRaa : InState → Option InState',
         '  | %s => none' % pat(IN_PAT, in_removed),
         '  | %s => some %s' % (pat(IN_PAT, a1), pat(IN_PAT, t1)),
         '  | %s => some %s' % (pat(IN_PAT, a2), pat(IN_PAT, t2)),
         '  | s => some s', '',
         '/-- is the amount of this removed inbound HTLC added to value_to_self_msat_diff (`%s=`, removal reason %s)? -/' % (in_sign, in_reason),
         'def InState.raaCounted : InState → Bool', '  | %s => true' % pat(IN_PAT, in_removed, in_credit_arg), '  | _ => false', '',
         '/-- outbound HTLC on revoke_and_ack: `none` = removed by the retain pass; promotions of the iter_mut pass (AFTER the retain pass) -/',
         'def OutState.onRaa : OutState → Option OutState',
         '  | %s => none' % pat(OUT_PAT, out_removed),
         '  | %s => some %s' % (pat(OUT_PAT, o1), pat(OUT_PAT, ot1, 'ok')),
         '  | %s => some %s' % (pat(OUT_PAT, o2, 'ok'), '(' + pat(OUT_PAT, ot2, 'ok') + ')'),
         '  | s => some s', '',
         '/-- is the amount of this removed outbound HTLC added to value_to_self_msat_diff (`%s=`, outcome %s)? -/' % (out_sign, 'Success' if out_debit_arg == 'true' else 'Failure'),
         'def OutState.raaCounted : OutState → Bool', '  | %s => true' % pat(OUT_PAT, out_removed, out_debit_arg), '  | _ => false', '',
         '/-- `(funding.value_to_self_msat as i64 %s value_to_self_msat_diff) as u64` with diff = `%s` inbound counted `%s` outbound counted (over Int as the i64 source) -/' % (app, in_sign, out_sign),
         'def raaValueToSelf (value_to_self_msat inbound_counted_msat outbound_counted_msat : Nat) : Nat :=',
         '  Int.toNat ((value_to_self_msat : Int) %s (inbound_counted_msat : Int) %s (outbound_counted_msat : Int))' % (eff(in_sign), eff(out_sign)), '',
         '/-- does revoke_and_ack make a pending_update_fee in this FeeUpdateState the committed feerate (and clear it)? codes: 0 RemoteAnnounced, 1 AwaitingRemoteRevokeToAnnounce, 2 Outbound -/',
         'def raaFeePromoted : Nat → Bool'] + \
        ['  | %d => %s' % (FEE_CODE[st], 'true' if fee[st] else 'false') for st in sorted(fee, key=lambda s: FEE_CODE[s])] + \
        ['  | _ => false', '', 'end Ldk.Chan', '']
    text = '\n'.join(L)
    if not os.path.exists(out) or open(out).read() != text: open(out, 'w').write(text)
if __name__ == '__main__':
    out = sys.argv[1] if len(sys.argv) > 1 else os.path.join(os.path.dirname(__file__), '..', 'lean', 'LdkModel', 'Generated', 'RaaRewrites.lean')
    try: main(out)
    except TranslateError as e:
        print('TRANSLATE-ERROR gen_raa.py: %s' % e); sys.exit(2)
