#!/usr/bin/env python3
"""Regenerate lean/LdkModel/Generated/C18Meta.lean from /repo (C18): the three decisions of
lightning/src/offers/signer.rs::verify_metadata (the shared tail of verify_recipient_metadata and
verify_payer_metadata_inner), translated from the Rust text that exists NOW:

  derivesKeys   `metadata.len() == Nonce::LENGTH`                         (which branch)
  keysEq        `fixed_time_eq(&signing_pubkey.serialize(), &derived_keys.public_key().serialize())`
                WHICH REPRESENTATION of the two keys is compared is part of the translation: a
                `PublicKey::serialize()` operand becomes `PublicKey.serialize` (33 bytes, parity byte
                included), an `x_only_public_key().0.serialize()` operand (also through `let (x, _) = ..`)
                becomes `PublicKey.xOnlySerialize` (32 bytes, parity forgotten).  Props/C18.lean
                (`metadata_key_comparison_is_full_key`, `metadata_verify_keys_iff`,
                `metadata_verify_refuses_parity_flip`) holds only for the full-key comparison.
  hmacOk        `metadata.len() == Nonce::LENGTH + Sha256::LEN && fixed_time_eq(&metadata[Nonce::LENGTH..], &hmac.to_byte_array())`

Plus (C18 round 6, repair of KF-C18-1) WHICH RECORDS of an offer the stateless check covers, from
lightning/src/offers/offer.rs::OfferContents::verify and signer.rs::Metadata::derives_recipient_keys:

  offerRecordCovered   the arms of the `.filter(|record| match record.r#type { .. })` over
                       `TlvStream::new(bytes).range(OFFER_TYPES)`, one `if ty = CONST` per named arm in source
                       order (the CONSTs are translated from offer.rs too); an arm is a boolean expression over
                       `true` / `false` / `matches!(metadata, Metadata::RecipientData(_))` (-> recipient_data) /
                       `metadata.derives_recipient_keys()` (-> derives_recipient_keys).  Model/OfferMeta.lean::
                       offerCovered filters with THIS definition; Props/C18.lean `offer_covered_complete` /
                       `offer_recipient_data_covers_all_but_issuer_id` hold only when the metadata record is
                       covered in recipient-data mode.
  derivesRecipientKeys the `Metadata::Bytes` / `Metadata::RecipientData` arms of derives_recipient_keys (the two
                       variants that reach verify: verify_using_metadata hands over the parsed `self.metadata`,
                       verify_using_recipient_data builds `Metadata::RecipientData(nonce)`; both callers and their
                       IV constants are pinned).

The statement shape around the three expressions (the `Keypair::from_secret_key` of the HMAC, the
`#[cfg(fuzzing)]` overrides, the `if ok { Ok(..) } else { Err(()) }` tails) is pinned by a regex;
anything else is a TRANSLATE-ERROR (exit 2), never silently OK.
"""
import os, re, sys
sys.path.insert(0, os.path.dirname(os.path.abspath(__file__)))
from rs2lean import parse_expr, Emitter, TranslateError, strip_comments, find_fn

REPO = os.environ.get('VERIF_REPO', '/repo')
ROOT = os.path.dirname(os.path.dirname(os.path.abspath(__file__)))
OUT = os.path.join(ROOT, 'lean', 'LdkModel', 'Generated', 'C18Meta.lean')

class TErr(Exception):
    pass

def ws(s): return ' '.join(s.split())

# ---- the little language of key expressions ------------------------------------------------------
STEP = re.compile(r'\.\s*(?:([a-z_]+)\s*\(\s*\)|(0))')

def key_expr(text, env, what):
    """text: `base(.method() | .0)*`; env: name -> (type, lean term).  Returns (type, lean term)."""
    t = text.strip()
    m = re.match(r'[a-z_][a-z0-9_]*', t)
    if not m or m.group(0) not in env:
        raise TErr('%s: unknown base of key expression `%s`' % (what, text))
    ty, term = env[m.group(0)]
    pos = m.end()
    while pos < len(t):
        s = STEP.match(t, pos)
        if not s: raise TErr('%s: cannot translate key expression `%s` at `%s`' % (what, text, t[pos:]))
        pos = s.end()
        meth = s.group(1) or '.0'
        if meth == 'public_key' and ty == 'Keypair': ty = 'PublicKey'
        elif meth == 'x_only_public_key' and ty in ('Keypair', 'PublicKey'): ty = 'XOnlyPair'
        elif meth == '.0' and ty == 'XOnlyPair': ty = 'XOnly'
        elif meth == 'serialize' and ty == 'PublicKey': ty, term = 'Bytes', '(PublicKey.serialize %s)' % term
        elif meth == 'serialize' and ty == 'XOnly': ty, term = 'Bytes', '(PublicKey.xOnlySerialize %s)' % term
        else: raise TErr('%s: `.%s` on a %s is outside the translated subset (`%s`)' % (what, meth, ty, text))
    return ty, term

def operand(text, env, what):
    t = text.strip()
    if not t.startswith('&'): raise TErr('%s: operand `%s` of fixed_time_eq is not a reference' % (what, text))
    ty, term = key_expr(t[1:], env, what)
    if ty != 'Bytes': raise TErr('%s: operand `%s` of fixed_time_eq is a %s, not a serialisation' % (what, text, ty))
    return term


# ---- offer.rs::OfferContents::verify: which records are covered ----------------------------------
def squeeze(s):
    """one-space whitespace, method chains joined (`x .range(` -> `x.range(`)"""
    return re.sub(r'\s+\.(?!\.)', '.', ws(s))

def bool_expr(rust, what):
    """boolean expression over the metadata mode -> Lean Bool term over recipient_data / derives_recipient_keys"""
    t = rust
    t = re.sub(r'matches!\(\s*metadata\s*,\s*Metadata::RecipientData\(_\)\s*\)', 'recipient_data', t)
    t = re.sub(r'matches!\(\s*metadata\s*,\s*Metadata::Bytes\(_\)\s*\)', '(!recipient_data)', t)
    if 'matches!' in t or 'Metadata::' in t:
        raise TErr('%s: `%s` tests a Metadata variant outside the translated subset (Bytes / RecipientData reach verify)' % (what, rust))
    def drk(recv, args):
        if recv.replace(' ', '') == 'metadata' and not args: return 'derives_recipient_keys'
        raise TranslateError('unexpected receiver %s of derives_recipient_keys' % recv)
    try:
        out = Emitter(env={'recipient_data': 'recipient_data'}, methods={'derives_recipient_keys': drk}).e(parse_expr(t))
    except TranslateError as e:
        raise TErr('%s: cannot translate `%s`: %s' % (what, rust, e))
    for w in re.findall(r'[A-Za-z_][A-Za-z0-9_]*', out):
        if w not in ('true', 'false', 'recipient_data', 'derives_recipient_keys'):
            raise TErr('%s: `%s` reads `%s`, which is not part of the metadata mode' % (what, rust, w))
    return out

def coverage(L):
    p = os.path.join(REPO, 'lightning/src/offers/offer.rs')
    if not os.path.exists(p): raise TErr('missing file lightning/src/offers/offer.rs')
    src = strip_comments(open(p).read())
    if 'impl OfferContents {' not in src: raise TErr('offer.rs: `impl OfferContents {` not found')
    def fn(name):
        try:
            params, _, body = find_fn(src, name, after='impl OfferContents {')
        except (TranslateError, ValueError) as e:
            raise TErr('OfferContents::%s: %s' % (name, e))
        return squeeze(params), squeeze(body)
    # the two callers: which Metadata value and which IV reach verify
    _, b1 = fn('verify_using_metadata')
    if b1 != '{ self.verify(bytes, self.metadata.as_ref(), key, IV_BYTES_WITH_METADATA, secp_ctx) }':
        raise TErr('OfferContents::verify_using_metadata no longer has the expected shape: %s' % b1[:300])
    _, b2 = fn('verify_using_recipient_data')
    if b2 != '{ let metadata = Metadata::RecipientData(nonce); self.verify(bytes, Some(&metadata), key, IV_BYTES_WITHOUT_METADATA, secp_ctx) }':
        raise TErr('OfferContents::verify_using_recipient_data no longer has the expected shape: %s' % b2[:300])
    params, body = fn('verify')
    if [x.split(':')[0].strip() for x in params.split(',') if x.strip()] != ['&self', 'bytes', 'metadata', 'key', 'iv_bytes', 'secp_ctx']:
        raise TErr('OfferContents::verify parameters changed: %s' % params)
    m = re.fullmatch(
        r'\{ match metadata \{ Some\(metadata\) => \{ '
        r'let tlv_stream = TlvStream::new\(bytes\)\.range\(OFFER_TYPES\)\.filter\(\|record\| match record\.r#type \{ (.+?),? \}\)'
        r'\.chain\(TlvStream::new\(bytes\)\.range\(EXPERIMENTAL_OFFER_TYPES\)\); '
        r'let signing_pubkey = match self\.issuer_signing_pubkey\(\) \{ Some\(signing_pubkey\) => signing_pubkey, None => return Err\(\(\)\), \}; '
        r'let keys = signer::verify_recipient_metadata\( ?metadata\.as_ref\(\), key, iv_bytes, signing_pubkey, tlv_stream, secp_ctx,? ?\)\?; '
        r'let offer_id = OfferId::from_valid_bolt12_tlv_stream\(bytes\); Ok\(\(offer_id, keys\)\) \},? None => Err\(\(\)\),? \} \}', body, re.S)
    if not m: raise TErr('OfferContents::verify no longer has the expected shape: %s' % body[:500])
    arms_txt = m.group(1)
    # protect the comma inside matches!(..) before splitting the arms
    prot = re.sub(r'matches!\(\s*metadata\s*,', 'matches!(metadata;', arms_txt)
    arms = []
    for a in [x.strip() for x in prot.split(',') if x.strip()]:
        ma = re.fullmatch(r'([A-Z][A-Z0-9_]*|_) => (.+)', a)
        if not ma: raise TErr('OfferContents::verify: filter arm `%s` is outside the translated subset' % a)
        arms.append((ma.group(1), ma.group(2).replace('matches!(metadata;', 'matches!(metadata,')))
    if len(arms) < 2 or arms[-1][0] != '_' or any(n == '_' for n, _ in arms[:-1]) or len(set(n for n, _ in arms)) != len(arms):
        raise TErr('OfferContents::verify: the record filter `%s` is not `CONST => .., .., _ => ..`' % arms_txt)
    for name, _ in arms[:-1]:
        mc = re.search(r'\bconst %s\s*:\s*u64\s*=\s*(\d+)\s*;' % name, src)
        if not mc: raise TErr('offer.rs: `const %s: u64 = <n>;` not found' % name)
        L += ['def %s : Nat := %s  -- offer.rs' % (name, mc.group(1))]
    L += ['', '/-- offer.rs OfferContents::verify: a record of `TlvStream::new(bytes).range(OFFER_TYPES)` is fed to the HMAC iff',
          '    `match record.r#type { %s }`; `recipient_data` = the metadata is `Metadata::RecipientData(_)`' % arms_txt,
          '    (verify_using_recipient_data), `derives_recipient_keys` = `metadata.derives_recipient_keys()`; the records of',
          '    `.range(EXPERIMENTAL_OFFER_TYPES)` are chained unfiltered -/',
          'def offerRecordCovered (recipient_data derives_recipient_keys : Bool) (ty : Nat) : Bool :=']
    for name, e in arms[:-1]:
        L += ['  if ty = %s then %s else' % (name, bool_expr(e, 'OfferContents::verify filter arm %s' % name))]
    L += ['  %s' % bool_expr(arms[-1][1], 'OfferContents::verify filter arm _'), '']
    # signer.rs::Metadata::derives_recipient_keys, the two variants that reach verify
    sp = strip_comments(open(os.path.join(REPO, 'lightning/src/offers/signer.rs')).read())
    try:
        _, _, db = find_fn(sp, 'derives_recipient_keys')
    except (TranslateError, ValueError) as e:
        raise TErr('Metadata::derives_recipient_keys: %s' % e)
    db = squeeze(db)
    md = re.fullmatch(r'\{ match self \{ Metadata::Bytes\(bytes\) => (.+?), Metadata::RecipientData\(_\) => (true|false), '
                      r'Metadata::Derived\(_\) => (?:true|false), Metadata::DerivedSigningPubkey\(_\) => (?:true|false),? \} \}', db)
    if not md: raise TErr('Metadata::derives_recipient_keys no longer has the expected shape: %s' % db[:300])
    def len_b(recv, args):
        if recv.replace(' ', '') == 'bytes': return 'metadata_len'
        raise TranslateError('unexpected .len() receiver %s' % recv)
    try:
        be = Emitter(env={'Nonce::LENGTH': 'NONCE_LENGTH'}, methods={'len': len_b}).e(parse_expr(md.group(1)))
    except TranslateError as e:
        raise TErr('Metadata::derives_recipient_keys: cannot translate `%s`: %s' % (md.group(1), e))
    L += ['/-- signer.rs Metadata::derives_recipient_keys for the two variants that reach OfferContents::verify:',
          '    `Metadata::Bytes(bytes) => %s`, `Metadata::RecipientData(_) => %s` -/' % (md.group(1), md.group(2)),
          'def derivesRecipientKeys (recipient_data : Bool) (metadata_len : Nat) : Bool :=',
          '  if recipient_data then %s else %s' % (md.group(2), be), '']

def main():
    p = os.path.join(REPO, 'lightning/src/offers/signer.rs')
    if not os.path.exists(p): raise TErr('missing file lightning/src/offers/signer.rs')
    src = strip_comments(open(p).read())
    try:
        params, _, body = find_fn(src, "verify_metadata")
    except (TranslateError, ValueError) as e:
        raise TErr('verify_metadata: %s' % e)
    if [x.split(':')[0].strip() for x in ws(params).split(',') if x.strip()] != ['metadata', 'hmac', 'signing_pubkey', 'secp_ctx']:
        raise TErr('verify_metadata parameters changed: %s' % ws(params))
    if not re.search(r'signing_pubkey\s*:\s*PublicKey', params): raise TErr('verify_metadata: signing_pubkey is no longer a PublicKey')
    b = ws(body)
    m = re.fullmatch(
        r'\{ if (.+?) \{ let derived_keys = Keypair::from_secret_key\( secp_ctx, &SecretKey::from_slice\(hmac\.as_byte_array\(\)\)\.unwrap\(\), \); '
        r'((?:let [^;]+; )*?)'
        r'#\[allow\(unused_mut\)\] let mut ok = fixed_time_eq\((.+?)\); '
        r'#\[cfg\(fuzzing\)\] if metadata\[0\] & 1 == 0 \{ ok = true; \} '
        r'if ok \{ Ok\(Some\(derived_keys\)\) \} else \{ Err\(\(\)\) \} \} else \{ '
        r'#\[allow\(unused_mut\)\] let mut ok = (.+?); '
        r'#\[cfg\(fuzzing\)\] if metadata\.is_empty\(\) \|\| metadata\[0\] & 1 == 0 \{ ok = true; \} '
        r'if ok \{ Ok\(None\) \} else \{ Err\(\(\)\) \} \} \}', b, re.S)
    if not m: raise TErr('verify_metadata no longer has the expected shape: %s' % b[:400])
    cond, lets, cmp_args, cond2 = m.group(1), m.group(2), m.group(3), m.group(4)

    consts = {'Nonce::LENGTH': 'NONCE_LENGTH', 'Sha256::LEN': 'SHA256_LEN'}
    def nat_expr(rust, what):
        def len_m(recv, args):
            if recv.replace(' ', '') == 'metadata': return 'metadata_len'
            raise TranslateError('unexpected .len() receiver %s' % recv)
        try:
            return Emitter(env=consts, methods={'len': len_m}).e(parse_expr(rust))
        except TranslateError as e:
            raise TErr('%s: cannot translate `%s`: %s' % (what, rust, e))

    L = ['/- GENERATED by tools/gen_c18_meta.py from /repo (lightning/src/offers/signer.rs::verify_metadata, Metadata::derives_recipient_keys; offers/offer.rs::OfferContents::verify) — do not edit. -/',
         'import LdkModel.Model.SecpKey', 'import LdkModel.Generated.C18Consts', 'namespace Ldk.C18Meta',
         'open Ldk.SecpKey Ldk.C18Consts', '']
    # 1 branch condition
    L += ['/-- signer.rs verify_metadata: the key-deriving branch is taken iff `%s` -/' % cond,
          'def derivesKeys (metadata_len : Nat) : Bool := %s' % nat_expr(cond, 'verify_metadata branch condition'), '']
    # 2 key comparison
    env = {'signing_pubkey': ('PublicKey', 'signing_pubkey'), 'derived_keys': ('Keypair', 'derived_keys')}
    for st in [s.strip() for s in lets.split(';') if s.strip()]:
        mt = re.fullmatch(r'let \(([a-z_][a-z0-9_]*), _\) = (.+)', st)
        ml = re.fullmatch(r'let ([a-z_][a-z0-9_]*) = (.+)', st)
        if mt:
            ty, term = key_expr(mt.group(2), env, 'verify_metadata `%s`' % st)
            if ty != 'XOnlyPair': raise TErr('verify_metadata: `%s` destructures a %s' % (st, ty))
            env[mt.group(1)] = ('XOnly', term)
        elif ml:
            env[ml.group(1)] = key_expr(ml.group(2), env, 'verify_metadata `%s`' % st)
        else:
            raise TErr('verify_metadata: statement `%s` before the key comparison is outside the translated subset' % st)
    parts = [x.strip() for x in cmp_args.split(',') if x.strip()]
    if len(parts) != 2: raise TErr('verify_metadata: fixed_time_eq(%s) does not have two operands' % cmp_args)
    a = operand(parts[0], env, 'verify_metadata key comparison')
    c = operand(parts[1], env, 'verify_metadata key comparison')
    if 'signing_pubkey' not in a + c or 'derived_keys' not in a + c:
        raise TErr('verify_metadata: fixed_time_eq(%s) does not compare the signing pubkey with the derived keys' % cmp_args)
    L += ['/-- signer.rs verify_metadata, key-deriving branch: `%sfixed_time_eq(%s)` (a key value is its 33-byte compressed' % (lets, cmp_args),
          '    encoding; `derived_keys` stands for the public key of `Keypair::from_secret_key(hmac)`) -/',
          'def keysEq (signing_pubkey derived_keys : PublicKey) : Bool := fixedTimeEq %s %s' % (a, c), '']
    # 3 plain-metadata branch
    m2 = re.fullmatch(r'(.+?) && fixed_time_eq\(&metadata\[(.+?)\.\.\], &hmac\.to_byte_array\(\)\)', cond2)
    if not m2: raise TErr('verify_metadata: the HMAC comparison `%s` no longer has the expected shape' % cond2)
    L += ['/-- signer.rs verify_metadata, other branch: `%s` -/' % cond2,
          'def hmacOk (metadata hmac : List UInt8) : Bool :=',
          '  let metadata_len := metadata.length',
          '  %s && fixedTimeEq (metadata.drop %s) hmac' % (nat_expr(m2.group(1), 'verify_metadata length check'), nat_expr(m2.group(2), 'verify_metadata slice start')), '']
    coverage(L)
    L += ['end Ldk.C18Meta', '']
    text = '\n'.join(L)
    if not os.path.exists(OUT) or open(OUT).read() != text:
        open(OUT, 'w').write(text)
    print('gen_c18_meta: ok (5 definitions)')

if __name__ == '__main__':
    try:
        main()
    except TErr as e:
        print('TRANSLATE-ERROR gen_c18_meta.py: %s' % e)
        sys.exit(2)
    except TranslateError as e:
        print('TRANSLATE-ERROR gen_c18_meta.py: %s' % e)
        sys.exit(2)
