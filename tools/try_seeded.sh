#!/bin/bash
# usage: tools/try_seeded.sh <seeded-id> <PROP> [check args]   -- apply seeded/<id>/patch.diff to /repo, run ./check, undo
set -u
sid=$1; pid=$2; shift 2
cd /verif
if [ -n "$(git -C /repo status --porcelain)" ]; then echo "/repo not clean"; exit 3; fi
git -C /repo apply /verif/seeded/$sid/patch.diff || { echo "patch does not apply"; exit 3; }
./check $pid "$@" > /tmp/seeded_$sid.log 2>&1; rc=$?
git -C /repo checkout -- .
echo "== $sid $pid rc=$rc"; grep -E "^(VIOLATION|OK |KNOWN|TRANSLATE|BROKEN|proof|lean)" /tmp/seeded_$sid.log | cut -c1-400 | head -8
