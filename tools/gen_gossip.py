#!/usr/bin/env python3
"""Regenerate lean/LdkModel/Generated/Gossip.lean (C17): the DECISION expressions and error classes of
lightning/src/routing/gossip.rs, translated from the Rust text that exists in /repo *now*.

What is translated (each Rust condition goes through tools/rs2lean.py; the surrounding statement shape
-- which error it guards, order of the checks, which field is read / written in which branch -- is pinned
by regular expressions over the comment-stripped, whitespace-normalised function body and raises
TRANSLATE-ERROR when it no longer matches):

  * the `LightningError` texts of the gossip handlers and the `ErrorAction` attached to each (`Reject`)
  * update_node_from_announcement / update_node_from_announcement_intern: duplicate pre-check, older / same
  * pre_channel_announcement_validation_check: sortedness, same bitcoin keys, chain hash, known channel tests
  * add_channel_from_partial_announcement: sortedness
  * update_channel_from_unsigned_announcement_intern: the tombstone test (scid, node_id_1, node_id_2)
  * add_channel_between_nodes: replace-vs-reject of an occupied entry
  * P2PGossipSync::handle_channel_update: dont_forward bit
  * update_channel_internal: enabled bit, chain hash, htlc_maximum vs MAX_VALUE_MSAT, capacity test, direction
    selection at its three sites (freshness check, signer, store), older / same
  * node_failed_permanent: which endpoint is "the other node"
  * remove_stale_channels_and_tracking_with_time: range tests, min_time, per-direction staleness, missing
    direction, announcement age, should_keep_tracking
  * rapid-gossip-sync processing.rs: backdating of latest_seen_timestamp, the skip-if-newer test of an update,
    the incremental test, the node-announcement gate
Model/Gossip.lean CALLS these definitions; Proofs/GossipRefine.lean proves them equal to the hand-written
specification the 1700 lines of proofs are about (by `decide` / `omega` / `simp`), so a flipped comparison
or a wrong field in the Rust text breaks a theorem (or this translator) on the next run.
"""
import re, sys, os
sys.path.insert(0, os.path.dirname(__file__))
from rs2lean import (parse_expr, Emitter, TranslateError, strip_comments, find_fn)

REPO = os.environ.get('VERIF_REPO', '/repo')
def rd(p): return open(os.path.join(REPO, p)).read()

class Em(Emitter):
    """rs2lean emitter + bitwise and/or on Nat"""
    def e(self, a):
        if a[0] == 'bin' and a[1] in ('&', '|'):
            return '(%s %s %s)' % (self.e(a[2]), {'&': '&&&', '|': '|||'}[a[1]], self.e(a[3]))
        return Emitter.e(self, a)

def norm(s): return ' '.join(strip_comments(s).split())

def need(cond, what):
    if not cond: raise TranslateError(what)

def rx(pat, text, what):
    m = re.search(pat, text)
    if not m: raise TranslateError("shape changed: %s (pattern %r not found)" % (what, pat))
    return m

# error texts of the handlers -> constructor of `Reject`
ERRS = [
    ('nodeIdsNotSorted', 'NodeIdsNotSorted', 'node_ids in channel_announcements must be sorted'),
    ('selfChannel', 'SelfChannel', 'Channel announcement node had a channel with itself'),
    ('wrongChain', 'WrongChain', 'chain hash does not match genesis hash'),
    ('dupChainValidated', 'DupChainValidated', 'Already have chain-validated channel'),
    ('dupNonChainValidated', 'DupNonChainValidated', 'Already have non-chain-validated channel'),
    ('badSig', 'BadSig', 'Invalid signature on {} message'),
    ('recentlyRemoved', 'RecentlyRemoved', 'was removed from our network graph recently'),
    ('utxoUnknownTx', 'UtxoUnknownTx', 'Channel announced without corresponding UTXO entry'),
    ('alreadyKnown', 'AlreadyKnown', 'Already have knowledge of channel'),
    ('dontForward', 'DontForward', 'Ignoring channel_update with dont_forward bit set'),
    ('htlcMaxTooLarge', 'HtlcMaxTooLarge', 'htlc_maximum_msat is larger than maximum possible msats'),
    ('unknownChannel', 'UnknownChannel', "Couldn't find channel for update"),
    ('htlcMaxAboveCapacity', 'HtlcMaxAboveCapacity', 'htlc_maximum_msat is larger than channel capacity or capacity is bogus'),
    ('older', 'Older', 'Update older than last processed update'),
    ('sameTimestamp', 'SameTimestamp', 'Update had same timestamp as last processed update'),
    ('noChannelsForNode', 'NoChannelsForNode', 'No existing channels for node_announcement'),
    ('rgsStale', 'RgsStale', 'Rapid Gossip Sync data is more than two weeks old'),
    # asynchronous UTXO lookups (utxo.rs)
    ('alreadyChecking', 'AlreadyChecking', 'Channel announcement is already being checked'),
    ('checkingAsync', 'CheckingAsync', 'Channel being checked async'),
    ('awaitingChanUpd', 'AwaitingChanUpd', 'Awaiting channel_announcement validation to accept channel_update'),
    ('awaitingNodeAnn', 'AwaitingNodeAnn', 'Awaiting channel_announcement validation to accept node_announcement'),
]
# the node-announcement variant of the same-timestamp text (same class)
ALT = {'sameTimestamp': ['Update had the same timestamp as last processed update']}

def err_actions(src, extra):
    """for every error text: the set of ErrorAction variants attached to it in the non-test source"""
    out = {}
    for ctor, _, text in ERRS:
        acts = set()
        for t in [text] + ALT.get(ctor, []):
            for s in [src] + extra:
                for m in re.finditer(re.escape(t), s):
                    tail = s[m.end(): m.end() + 200]
                    m2 = re.search(r'action:\s*ErrorAction::([A-Za-z]+)', tail)
                    if m2: acts.add(m2.group(1))
        need(acts, "error text %r no longer in the gossip sources" % text)
        need(len(acts) == 1, "error text %r has several actions: %s" % (text, sorted(acts)))
        out[ctor] = acts.pop()
    return out

def guard_of(body, text, what, nth=0):
    """condition of the `if` / `else if` whose block is exactly `return Err(LightningError { err: <text>…`.
    Returns (condition, is_else_if, position)."""
    b = body
    idxs = [m.start() for m in re.finditer(re.escape(text), b)]
    need(len(idxs) > nth, "%s: error text %r not found (occurrence %d)" % (what, text, nth))
    idx = idxs[nth]
    ifs = list(re.finditer(r'(\belse\s+)?\bif\s+((?:(?!\blet\b)[^{};])*?)\s*\{', b[:idx]))
    need(ifs, "%s: no guarding if before %r" % (what, text))
    m = ifs[-1]
    between = b[m.end():idx]
    need(re.fullmatch(r'\s*return Err\(\s*LightningError\s*\{\s*err:\s*(format!\()?"[^"]*', between) is not None,
         "%s: the guard of %r is no longer a plain `if … { return Err(LightningError{…}) }` (%r)" % (what, text, between[-60:]))
    return m.group(2).strip(), bool(m.group(1)), m.start()

FIELDS = lambda names: {n: (lambda r, n=n: n) for n in names}

def main(out_path):
    src_all = rd('lightning/src/routing/gossip.rs')
    cut = src_all.find('#[cfg(test)]\npub(crate) mod tests')
    need(cut > 0, "test module marker of gossip.rs not found")
    src = src_all[:cut]
    L = ['/- GENERATED by tools/gen_gossip.py from lightning/src/routing/gossip.rs and',
         '   lightning-rapid-gossip-sync/src/processing.rs — do not edit. Regenerated on every check. -/',
         'import LdkModel.Generated.Consts', 'namespace Ldk.Gossip', '']

    # ------------------------------------------------------------------ error classes
    acts = err_actions(src, [rd('lightning/src/routing/utxo.rs'), rd('lightning-rapid-gossip-sync/src/processing.rs')])
    L.append('/-- the `LightningError`s of the gossip handlers, by their `err` text -/')
    L.append('inductive Reject')
    L.append('  | ' + ' | '.join(c for c, _, _ in ERRS))
    L.append('  deriving DecidableEq, Repr')
    L.append('')
    L.append('def Reject.name : Reject → String')
    for c, n, _ in ERRS: L.append('  | .%s => "%s"' % (c, n))
    L.append('')
    L.append('/-- the `ErrorAction` attached to each error text in gossip.rs -/')
    L.append('def Reject.action : Reject → String')
    for c, _, t in ERRS: L.append('  | .%s => "%s"   -- %s' % (c, acts[c], t))
    L.append('')
    L.append('namespace Gen')
    L.append('')

    def emit(name, sig, ret, cond, em, doc):
        L.append('/-- %s: `%s` -/' % (doc, ' '.join(cond.split())))
        L.append('def %s %s : %s :=' % (name, sig, ret))
        L.append('  ' + em.e(parse_expr(cond)))
        L.append('')

    # ------------------------------------------------------------------ node_announcement
    _, _, body = find_fn(src, 'update_node_from_announcement')
    b = norm(body)
    em = Em(methods={'last_update': lambda r, a: 'last_update'}, fields=FIELDS(['timestamp']))
    c, _, p0 = guard_of(b, ALT['sameTimestamp'][0], 'update_node_from_announcement')
    emit('nodeAnnPreDup', '(last_update timestamp : Nat)', 'Bool', c, em, 'update_node_from_announcement, duplicate pre-check')
    rx(r'if let Some\(node\) = self\.nodes\.read\(\)\.unwrap\(\)\.get\(&msg\.contents\.node_id\) \{ if let Some\(node_info\) = node\.announcement_info\.as_ref\(\) \{ if ', b, 'pre-check of update_node_from_announcement')
    p1 = b.find('verify_node_announcement(msg, &self.secp_ctx)?;')
    p2 = b.find('self.update_node_from_announcement_intern(&msg.contents, Some(&msg))')
    need(0 < p0 < p1 < p2, "update_node_from_announcement: order pre-check / verify / intern changed")

    _, _, body = find_fn(src, 'update_node_from_announcement_intern')
    b = norm(body)
    c1, e1, q1 = guard_of(b, 'Update older than last processed update', 'update_node_from_announcement_intern')
    c2, e2, q2 = guard_of(b, ALT['sameTimestamp'][0], 'update_node_from_announcement_intern')
    need(not e1 and e2 and q1 < q2, "update_node_from_announcement_intern: older / same chain changed")
    emit('nodeAnnOlder', '(last_update timestamp : Nat)', 'Bool', c1, em, 'update_node_from_announcement_intern')
    emit('nodeAnnSame', '(last_update timestamp : Nat)', 'Bool', c2, em, 'update_node_from_announcement_intern')
    rx(r'match nodes\.get_mut\(&msg\.node_id\) \{ None => \{', b, 'node lookup of update_node_from_announcement_intern')
    rx(r'Some\(node\) => \{ if let Some\(node_info\) = node\.announcement_info\.as_ref\(\) \{ if ', b, 'Some arm of update_node_from_announcement_intern')
    q3 = b.find('node.announcement_info = if let (Some(signed_announcement), true) = (full_msg, should_relay) { Some(NodeAnnouncementInfo::Relayed(signed_announcement.clone())) } else { Some(NodeAnnouncementInfo::Local(NodeAnnouncementDetails {')
    need(q3 > q2, "update_node_from_announcement_intern: store statement changed or moved before the checks")
    for f, v in [('features', 'msg.features.clone()'), ('last_update', 'msg.timestamp'), ('rgb', 'msg.rgb'), ('alias', 'msg.alias'), ('addresses', 'msg.addresses.clone()')]:
        need('%s: %s,' % (f, v) in b[q3:], "NodeAnnouncementDetails.%s is no longer %s" % (f, v))
    m = rx(r'let should_relay = (.*?);', b, 'should_relay of update_node_from_announcement_intern')
    em_r = Em(env={'msg.excess_data.len()': 'x'}, methods={'len': lambda r, a: r},
              fields={'excess_data': lambda r: 'excess_data_len', 'excess_address_data': lambda r: 'excess_address_data_len'})
    emit('nodeAnnShouldRelay', '(excess_data_len excess_address_data_len : Nat)', 'Bool', m.group(1), em_r, 'update_node_from_announcement_intern should_relay')

    # ------------------------------------------------------------------ channel_announcement
    _, _, body = find_fn(src, 'pre_channel_announcement_validation_check')
    b = norm(body)
    ema = Em(fields=FIELDS(['node_id_1', 'node_id_2', 'bitcoin_key_1', 'bitcoin_key_2', 'node_one', 'node_two', 'capacity_sats']),
             env={'utxo_lookup': 'utxo_lookup'})
    ema.fields['chain_hash'] = lambda r: 'msg_chain_hash' if r == 'msg' else 'self_chain_hash'
    g1 = guard_of(b, ERRS[0][2], 'pre_channel_announcement_validation_check')
    g2 = guard_of(b, ERRS[1][2], 'pre_channel_announcement_validation_check')
    g3 = guard_of(b, 'Channel announcement chain hash does not match genesis hash', 'pre_channel_announcement_validation_check')
    g4 = guard_of(b, ERRS[3][2], 'pre_channel_announcement_validation_check')
    g5 = guard_of(b, ERRS[4][2], 'pre_channel_announcement_validation_check')
    need(g1[2] < g2[2] < g3[2] < g4[2] < g5[2] and not (g1[1] or g2[1] or g3[1] or g4[1]) and g5[1], "pre_channel_announcement_validation_check: order of the checks changed")
    emit('annIdsUnsorted', '(node_id_1 node_id_2 : Nat)', 'Bool', g1[0], ema, 'pre_channel_announcement_validation_check')
    emit('annSameBitcoinKeys', '(bitcoin_key_1 bitcoin_key_2 : Nat)', 'Bool', g2[0], ema, 'pre_channel_announcement_validation_check')
    emit('annChainMismatch', '(msg_chain_hash self_chain_hash : Nat)', 'Bool', g3[0], ema, 'pre_channel_announcement_validation_check')
    m = rx(r'if let Some\(chan\) = channels\.get\(&msg\.short_channel_id\) \{ if (chan\.capacity_sats\.is_some\(\)) \{ if ', b, 'known-channel test of pre_channel_announcement_validation_check')
    emit('annKnownValidated', '(capacity_sats : Option Nat)', 'Bool', m.group(1), ema, 'pre_channel_announcement_validation_check')
    emit('annSameNodes', '(node_id_1 node_id_2 node_one node_two : Nat)', 'Bool', g4[0], ema, 'pre_channel_announcement_validation_check')
    emit('annNoLookup', '(utxo_lookup : Option Nat)', 'Bool', g5[0], ema, 'pre_channel_announcement_validation_check')
    need(b.rstrip().endswith('} Ok(()) }'), "pre_channel_announcement_validation_check no longer ends in Ok(())")

    _, _, body = find_fn(src, 'add_channel_from_partial_announcement')
    b = norm(body)
    g = guard_of(b, ERRS[0][2], 'add_channel_from_partial_announcement')
    emit('partialIdsUnsorted', '(node_id_1 node_id_2 : Nat)', 'Bool', g[0], Em(), 'add_channel_from_partial_announcement')
    for f, v in [('node_one', 'node_id_1'), ('one_to_two', 'None'), ('node_two', 'node_id_2'), ('two_to_one', 'None'), ('announcement_message', 'None'), ('announcement_received_time', 'timestamp')]:
        need('%s: %s,' % (f, v) in b, "add_channel_from_partial_announcement: ChannelInfo.%s is no longer %s" % (f, v))
    need(' capacity_sats,' in b, "add_channel_from_partial_announcement: capacity_sats no longer passed through")
    need('self.add_channel_between_nodes(short_channel_id, channel_info, None)' in b, "add_channel_from_partial_announcement no longer calls add_channel_between_nodes(.., None)")

    _, _, body = find_fn(src, 'update_channel_from_unsigned_announcement_intern')
    b = norm(body)
    m = rx(r'if (removed_channels\.contains_key\([^{]*?) \{ return Err\(LightningError ?\{ ?err: format!\("Channel with SCID \{\} or one of its nodes was removed from our network graph recently"', b, 'tombstone test of update_channel_from_unsigned_announcement_intern')
    emt = Em(methods={'contains_key': lambda r, a: '(%s %s)' % (r, a[0])}, fields=FIELDS(['short_channel_id', 'node_id_1', 'node_id_2']),
             env={'removed_channels': 'removed_channels', 'removed_nodes': 'removed_nodes'})
    emit('annRecentlyRemoved', '(removed_channels removed_nodes : Nat → Bool) (short_channel_id node_id_1 node_id_2 : Nat)', 'Bool', m.group(1), emt,
         'update_channel_from_unsigned_announcement_intern, tombstones')
    p_t = m.start()
    p_u = b.find('let utxo_value = self.pending_checks.check_channel_announcement(utxo_lookup, msg, full_msg)?;')
    p_a = b.find('self.add_channel_between_nodes(msg.short_channel_id, chan_info, utxo_value)?;')
    need(0 <= p_t < p_u < p_a, "update_channel_from_unsigned_announcement_intern: order tombstones / utxo / add changed")
    for f, v in [('node_one', 'msg.node_id_1'), ('one_to_two', 'None'), ('node_two', 'msg.node_id_2'), ('two_to_one', 'None'),
                 ('capacity_sats', 'utxo_value.map(|a| a.to_sat())')]:
        need('%s: %s,' % (f, v) in b, "update_channel_from_unsigned_announcement_intern: ChannelInfo.%s is no longer %s" % (f, v))
    need(' announcement_received_time,' in b and 'announcement_received_time = SystemTime::now()' in b, "announcement_received_time is no longer the wall clock at receipt")
    m = rx(r'announcement_message: if (msg\.excess_data\.len\(\) <= MAX_EXCESS_BYTES_FOR_RELAY) \{ full_msg\.cloned\(\) \} else \{ None \},', b, 'announcement_message of update_channel_from_unsigned_announcement_intern')
    emit('annKeepMessage', '(excess_data_len : Nat)', 'Bool', m.group(1), em_r, 'update_channel_from_unsigned_announcement_intern: keep the signed message')

    _, _, body = find_fn(src, 'add_channel_between_nodes')
    b = norm(body)
    m = rx(r'IndexedMapEntry::Occupied\(mut entry\) => \{ if (utxo_value\.is_some\(\)) \{ self\.remove_channel_in_nodes\(&mut nodes, &entry\.get\(\), short_channel_id\); \*entry\.get_mut\(\) = channel_info; entry\.into_mut\(\) \} else \{ return Err\(LightningError \{ err: "Already have knowledge of channel"', b,
           'occupied arm of add_channel_between_nodes (replace: remove the OLD entry from its nodes, then overwrite)')
    emit('replaceExisting', '(utxo_value : Option Nat)', 'Bool', m.group(1), Em(env={'utxo_value': 'utxo_value'}), 'add_channel_between_nodes, occupied entry')
    rx(r'IndexedMapEntry::Vacant\(entry\) => entry\.insert\(channel_info\),', b, 'vacant arm of add_channel_between_nodes')
    rx(r'\(&mut channel_info\.node_one_counter, node_id_a\), \(&mut channel_info\.node_two_counter, node_id_b\),', b, 'endpoint loop of add_channel_between_nodes')
    need('let node_id_a = channel_info.node_one.clone(); let node_id_b = channel_info.node_two.clone();' in b, "add_channel_between_nodes: node_id_a/b")
    rx(r'IndexedMapEntry::Occupied\(node_entry\) => \{ let node = node_entry\.into_mut\(\); node\.channels\.push\(short_channel_id\);', b, 'existing node arm of add_channel_between_nodes')
    rx(r'node_entry\.insert\(NodeInfo \{ channels: vec!\[short_channel_id\], announcement_info: None,', b, 'new node arm of add_channel_between_nodes')

    # ------------------------------------------------------------------ channel_update
    _, _, body = find_fn(src, 'handle_channel_update')
    b = norm(body)
    g = guard_of(b, ERRS[9][2], 'handle_channel_update')
    emit('updDontForward', '(message_flags : Nat)', 'Bool', g[0], Em(fields=FIELDS(['message_flags'])), 'P2PGossipSync::handle_channel_update')
    need(g[2] < b.find('self.network_graph.update_channel(msg)'), "handle_channel_update: dont_forward test no longer precedes update_channel")

    _, _, body = find_fn(src, 'update_channel_internal')
    b = norm(body)
    emu = Em(fields=FIELDS(['channel_flags', 'timestamp', 'htlc_maximum_msat', 'last_update']), env={'capacity_sats': 'capacity_sats'})
    emu.fields['chain_hash'] = lambda r: 'msg_chain_hash' if r == 'msg' else 'self_chain_hash'
    m = rx(r'^\{ let chan_enabled = (.*?);', b, 'chan_enabled of update_channel_internal')
    emit('updChanEnabled', '(channel_flags : Nat)', 'Bool', m.group(1), emu, 'update_channel_internal chan_enabled')
    g_chain = guard_of(b, 'Channel update chain hash does not match genesis hash', 'update_channel_internal')
    emit('updChainMismatch', '(msg_chain_hash self_chain_hash : Nat)', 'Bool', g_chain[0], emu, 'update_channel_internal')
    need('#[cfg(all(feature = "std", not(test), not(feature = "_test_utils"), not(fuzzing)))]' in b, "update_channel_internal: the wall-clock freshness block is no longer compiled out under _test_utils")
    g_max = guard_of(b, ERRS[10][2], 'update_channel_internal')
    emit('updHtlcMaxTooLarge', '(htlc_maximum_msat : Nat)', 'Bool', g_max[0], emu, 'update_channel_internal')
    m_cl = rx(r'let check_update_latest = \|target: &Option<ChannelUpdateInfo>\| -> Result<\(\), LightningError> \{ if let Some\(existing_chan_info\) = target \{ if ', b, 'closure check_update_latest')
    g_old = guard_of(b, ERRS[13][2], 'check_update_latest')
    g_same = guard_of(b, ERRS[14][2], 'check_update_latest')
    need(m_cl.start() < g_old[2] < g_same[2] and not g_old[1] and g_same[1], "check_update_latest: older / same chain changed")
    emul = Em(fields={'last_update': (lambda r: 'last_update'), 'timestamp': (lambda r: 'timestamp')})
    emit('updOlder', '(last_update timestamp : Nat)', 'Bool', g_old[0], emul, 'update_channel_internal check_update_latest')
    emit('updSame', '(last_update timestamp : Nat)', 'Bool', g_same[0], emul, 'update_channel_internal check_update_latest')
    m_san = rx(r'let check_msg_sanity = \|channel: &ChannelInfo\| -> Result<\(\), LightningError> \{ if let Some\(capacity_sats\) = channel\.capacity_sats \{ if ', b, 'closure check_msg_sanity')
    g_cap = guard_of(b, ERRS[12][2], 'check_msg_sanity')
    need(m_san.start() < g_cap[2], "check_msg_sanity: capacity test moved")
    emit('updCapacityBad', '(capacity_sats htlc_maximum_msat : Nat)', 'Bool', g_cap[0], emu, 'update_channel_internal check_msg_sanity')
    def dirsel(m, a, bb, two, one, what):
        """cond selecting `two` in the then-branch (else `one`): emitted so that true = two_to_one / node_two"""
        if a == two and bb == one: return m
        if a == one and bb == two: return '!(%s)' % m
        raise TranslateError("%s: branches are %s / %s" % (what, a, bb))
    m = rx(r'if (msg\.channel_flags[^{]*?) \{ check_update_latest\(&channel\.(\w+)\) \} else \{ check_update_latest\(&channel\.(\w+)\) \} \};', b[g_cap[2]:], 'direction selection of check_msg_sanity')
    emit('updDirCheck', '(channel_flags : Nat)', 'Bool', dirsel(m.group(1), m.group(2), m.group(3), 'two_to_one', 'one_to_two', 'check_msg_sanity'), emu,
         'true = the freshness check looks at two_to_one')
    m_look = rx(r'match channels\.get\(&msg\.short_channel_id\) \{ None => \{ core::mem::drop\(channels\); self\.pending_checks\.check_hold_pending_channel_update\(msg, full_msg\)\?; return Err\(LightningError \{ err: "Couldn\'t find channel for update"', b, 'unknown-channel arm of update_channel_internal')
    m = rx(r'Some\(channel\) => \{ check_msg_sanity\(channel\)\?; let node_id = if (msg\.channel_flags[^{]*?) \{ channel\.(\w+)\.as_slice\(\) \} else \{ channel\.(\w+)\.as_slice\(\) \};', b, 'signer selection of update_channel_internal')
    emit('updDirSigner', '(channel_flags : Nat)', 'Bool', dirsel(m.group(1), m.group(2), m.group(3), 'node_two', 'node_one', 'signer selection'), emu,
         'true = the signature is checked against node_two')
    p_sig = b.find('secp_verify_sig!(self.secp_ctx, &msg_hash, &sig, &node_pubkey, "channel_update");')
    p_only = b.find('if only_verify { return Ok(None); }')
    m_w = rx(r'let mut channels = self\.channels\.write\(\)\.unwrap\(\); if let Some\(channel\) = channels\.get_mut\(&msg\.short_channel_id\) \{ check_msg_sanity\(channel\)\?;', b, 're-check under the write lock of update_channel_internal')
    m = rx(r'if (msg\.channel_flags[^{]*?) \{ channel\.(\w+) = new_channel_info; \} else \{ channel\.(\w+) = new_channel_info; \}', b, 'store of update_channel_internal')
    emit('updDirStore', '(channel_flags : Nat)', 'Bool', dirsel(m.group(1), m.group(2), m.group(3), 'two_to_one', 'one_to_two', 'store'), emu,
         'true = the update is stored in two_to_one')
    need(g_chain[2] < g_max[2] < m_cl.start() < m_san.start() < m_look.start() < p_sig < p_only < m_w.start() < m.start(),
         "update_channel_internal: order of chain / htlc_max / lookup / sanity / signature / store changed")
    for f, v in [('enabled', 'chan_enabled'), ('last_update', 'msg.timestamp'), ('cltv_expiry_delta', 'msg.cltv_expiry_delta'), ('htlc_minimum_msat', 'msg.htlc_minimum_msat'),
                 ('htlc_maximum_msat', 'msg.htlc_maximum_msat'), ('base_msat', 'msg.fee_base_msat'), ('proportional_millionths', 'msg.fee_proportional_millionths')]:
        need('%s: %s,' % (f, v) in b[m_w.start():], "ChannelUpdateInfo.%s is no longer %s" % (f, v))
    m = rx(r'let last_update_message = if (msg\.excess_data\.len\(\) <= MAX_EXCESS_BYTES_FOR_RELAY) \{ full_msg\.cloned\(\) \} else \{ None \};', b, 'last_update_message of update_channel_internal')
    emit('updKeepMessage', '(excess_data_len : Nat)', 'Bool', m.group(1), em_r, 'update_channel_internal: keep the signed message')

    # ------------------------------------------------------------------ permanent failures
    _, _, body = find_fn(src, 'channel_failed_permanent_with_time')
    b = norm(body)
    rx(r'if let Some\(chan\) = channels\.remove\(&short_channel_id\) \{ let mut nodes = self\.nodes\.write\(\)\.unwrap\(\); self\.removed_channels\.lock\(\)\.unwrap\(\)\.insert\(short_channel_id, current_time_unix\); self\.remove_channel_in_nodes\(&mut nodes, &chan, short_channel_id\); \}', b, 'channel_failed_permanent_with_time')
    _, _, body = find_fn(src, 'node_failed_permanent')
    b = norm(body)
    m = rx(r'if let Some\(node\) = nodes\.remove\(&node_id\) \{ .*?for scid in node\.channels\.iter\(\) \{ if let Some\(chan_info\) = channels\.remove\(scid\) \{ let other_node_id = if (node_id == chan_info\.node_one) \{ chan_info\.(\w+) \} else \{ chan_info\.(\w+) \};', b, 'node_failed_permanent loop')
    need((m.group(2), m.group(3)) == ('node_two', 'node_one'), "node_failed_permanent: other_node_id branches are %s / %s" % (m.group(2), m.group(3)))
    L.append('/-- node_failed_permanent other_node_id: `if %s { node_two } else { node_one }` -/' % m.group(1))
    L.append('def failOtherNode (node_id node_one node_two : Nat) : Nat :=')
    L.append('  if %s then node_two else node_one' % Em(fields=FIELDS(['node_one'])).e(parse_expr(m.group(1))))
    L.append('')
    rx(r'other_node_entry\.get_mut\(\)\.channels\.retain\(\|chan_id\| \*scid != \*chan_id\); if other_node_entry\.get\(\)\.channels\.is_empty\(\) \{ removed_node_counters\.push\(other_node_entry\.get\(\)\.node_counter\); other_node_entry\.remove_entry\(\); \}', b, 'other-node clean-up of node_failed_permanent')
    need('removed_channels.insert(*scid, current_time_unix);' in b and 'removed_nodes.insert(node_id, current_time_unix);' in b, "node_failed_permanent: tombstones")
    i0, i1 = src.find('fn remove_channel_in_nodes_callback<'), src.find('fn remove_channel_in_nodes(')
    need(0 < i0 < i1, "remove_channel_in_nodes_callback / remove_channel_in_nodes not found")
    b = norm(src[i0:i1])
    rx(r'if let IndexedMapEntry::Occupied\(mut entry\) = nodes\.entry\(\$node_id\) \{ entry\.get_mut\(\)\.channels\.retain\(\|chan_id\| short_channel_id != \*chan_id\); if entry\.get\(\)\.channels\.is_empty\(\) \{ .*? remove_node\(entry\); \}', b, 'remove_from_node!')
    need('remove_from_node!(chan.node_one); remove_from_node!(chan.node_two);' in b, "remove_channel_in_nodes_callback: endpoints")

    # ------------------------------------------------------------------ pruning
    _, _, body = find_fn(src, 'remove_stale_channels_and_tracking_with_time')
    b = norm(body)
    emp = Em(env={'u32::MAX': '4294967295', 'current_time_unix': 'current_time_unix', 'min_time_unix': 'min_time_unix',
                  'announcement_received_timestamp': 'announcement_received_time', 'time': 'time'},
             fields={'one_to_two': (lambda r: 'one_to_two'), 'two_to_one': (lambda r: 'two_to_one'), 'last_update': (lambda r: r)})
    m1 = rx(r'if (current_time_unix > u32::MAX as u64) \{ return; \}', b, 'upper range test of remove_stale_channels_and_tracking_with_time')
    m2 = rx(r'if (current_time_unix < STALE_CHANNEL_UPDATE_AGE_LIMIT_SECS) \{ return; \}', b, 'lower range test')
    m3 = rx(r'let min_time_unix: u32 = (\(current_time_unix - STALE_CHANNEL_UPDATE_AGE_LIMIT_SECS\) as u32);', b, 'min_time_unix')
    need(m1.start() < m2.start() < m3.start(), "prune: order of the range tests changed")
    emit('pruneTimeTooLarge', '(current_time_unix : Nat)', 'Bool', m1.group(1), emp, 'remove_stale_channels_and_tracking_with_time')
    emit('pruneTimeTooSmall', '(current_time_unix : Nat)', 'Bool', m2.group(1), emp, 'remove_stale_channels_and_tracking_with_time')
    emit('pruneMinTime', '(current_time_unix : Nat)', 'Nat', m3.group(1), emp, 'remove_stale_channels_and_tracking_with_time min_time_unix')
    m4 = rx(r'for \(scid, info\) in channels\.unordered_iter_mut\(\) \{ if (info\.one_to_two\.is_some\(\) && [^{]*?) \{ info\.one_to_two = None; \} if (info\.two_to_one\.is_some\(\) && [^{]*?) \{ info\.two_to_one = None; \} if (info\.one_to_two\.is_none\(\) \|\| info\.two_to_one\.is_none\(\)) \{ let announcement_received_timestamp = info\.announcement_received_time; if (announcement_received_timestamp < min_time_unix as u64) \{ scids_to_remove\.insert\(\*scid\); \} \} \}',
             re.sub(r'log_gossip!\(.*?\); ', '', b), 'channel loop of remove_stale_channels_and_tracking_with_time')
    emit('pruneDir12Stale', '(one_to_two : Option Nat) (min_time_unix : Nat)', 'Bool', m4.group(1), emp, 'prune: clear one_to_two (argument = its last_update)')
    emit('pruneDir21Stale', '(two_to_one : Option Nat) (min_time_unix : Nat)', 'Bool', m4.group(2), emp, 'prune: clear two_to_one (argument = its last_update)')
    emit('pruneDirMissing', '(one_to_two two_to_one : Option Nat)', 'Bool', m4.group(3), emp, 'prune: a direction is missing after clearing')
    emit('pruneAnnOld', '(announcement_received_time min_time_unix : Nat)', 'Bool', m4.group(4), emp, 'prune: the announcement is old enough to drop the channel')
    rx(r'for \(scid, info\) in channels_removed_bulk \{ self\.remove_channel_in_nodes_callback\(&mut nodes, &info, scid, \|e\| \{ nodes_to_remove\.insert\(\*e\.key\(\)\); \}\); removed_channels_lck\.insert\(scid, Some\(current_time_unix\)\); \} nodes\.remove_bulk\(&nodes_to_remove\);', b, 'bulk removal of remove_stale_channels_and_tracking_with_time')
    m5 = rx(r'let should_keep_tracking = \|time: &mut Option<u64>\| \{ if let Some\(time\) = time \{ (current_time_unix\.saturating_sub\(\*time\) < REMOVED_ENTRIES_TRACKING_AGE_LIMIT_SECS) \} else \{', b, 'should_keep_tracking')
    emit('pruneKeepTracking', '(current_time_unix time : Nat)', 'Bool', m5.group(1), emp, 'should_keep_tracking')
    need('self.removed_channels.lock().unwrap().retain(|_, time| should_keep_tracking(time)); self.removed_nodes.lock().unwrap().retain(|_, time| should_keep_tracking(time));' in b, "prune: retain calls")

    # ------------------------------------------------------------------ rapid gossip sync
    rgs = rd('lightning-rapid-gossip-sync/src/processing.rs')
    cut = rgs.find('#[cfg(test)]\nmod tests')
    need(cut > 0, "test module marker of processing.rs not found")
    _, _, body = find_fn(rgs[:cut], 'update_network_graph_from_byte_stream_no_std')
    b = norm(body)
    b = re.sub(r'\b0b_?([01_]+)\b', lambda m: str(int(m.group(1).replace('_', ''), 2)), b)
    b = re.sub(r'log_(gossip|trace|debug|warn|given_level)!\(.*?\); ', '', b)
    emr = Em(env={'latest_seen_timestamp': 'latest_seen_timestamp', 'time': 'time', 'node_detail_flag': 'node_detail_flag', 'channel_flags': 'channel_flags',
                  'is_reminder': '(rgsNodeIsReminder node_detail_flag)', 'has_address_details': '(rgsNodeHasAddresses node_detail_flag)',
                  'feature_detail_marker': '(rgsNodeFeatureMarker node_detail_flag)'})
    mc = rx(r'const STALE_RGS_UPDATE_AGE_LIMIT_SECS: u64 = ([0-9* ]+);', rgs, 'STALE_RGS_UPDATE_AGE_LIMIT_SECS')
    L.append('def STALE_RGS_UPDATE_AGE_LIMIT_SECS : Nat := %s' % mc.group(1).strip())
    L.append('')
    m0 = rx(r'if let Some\(time\) = current_time_unix \{ if (\(latest_seen_timestamp as u64\) < time\.saturating_sub\(STALE_RGS_UPDATE_AGE_LIMIT_SECS\)) \{ return Err\(LightningError \{ err: "Rapid Gossip Sync data is more than two weeks old"', b, 'rgs staleness test')
    emit('rgsSnapshotStale', '(latest_seen_timestamp time : Nat)', 'Bool', m0.group(1), emr, 'processing.rs: snapshot refused as stale')
    m1 = rx(r'let backdated_timestamp = (latest_seen_timestamp\.saturating_sub\([^;]*?\));', b, 'rgs backdated_timestamp')
    emit('rgsBackdated', '(latest_seen_timestamp : Nat)', 'Nat', m1.group(1), emr, 'processing.rs backdated_timestamp')
    # node details (version 2)
    ma = rx(r'let has_address_details = (\(node_detail_flag & \(1 << 2\)\) > 0); let feature_detail_marker = (\(node_detail_flag & \(7 << 3\)\) >> 3); let is_reminder = (\(node_detail_flag & \(1 << 6\)\) > 0); let has_additional_data = (\(node_detail_flag & \(1 << 7\)\) > 0); let key_parity = (node_detail_flag & 3);', b, 'rgs node_detail_flag bits')
    emit('rgsNodeHasAddresses', '(node_detail_flag : Nat)', 'Bool', ma.group(1), emr, 'processing.rs node flag')
    emit('rgsNodeFeatureMarker', '(node_detail_flag : Nat)', 'Nat', ma.group(2), emr, 'processing.rs node flag')
    emit('rgsNodeIsReminder', '(node_detail_flag : Nat)', 'Bool', ma.group(3), emr, 'processing.rs node flag')
    emit('rgsNodeHasExtra', '(node_detail_flag : Nat)', 'Bool', ma.group(4), emr, 'processing.rs node flag')
    emit('rgsNodeKeyParity', '(node_detail_flag : Nat)', 'Nat', ma.group(5), emr, 'processing.rs node flag')
    mn = rx(r'if (is_reminder \|\| has_address_details \|\| feature_detail_marker > 0) \{ let mut synthetic_node_announcement = UnsignedNodeAnnouncement \{ features: NodeFeatures::empty\(\), timestamp: backdated_timestamp, node_id: current_node_id, rgb: \[0, 0, 0\], alias: NodeAlias\(\[0u8; 32\]\),', b, 'rgs synthetic node announcement')
    emit('rgsNodeModified', '(node_detail_flag : Nat)', 'Bool', mn.group(1), emr, 'processing.rs: the node entry gets a synthetic node announcement')
    rx(r'\.and_then\(\|node\| node\.announcement_info\.as_ref\(\)\) \.map\(\|info\| \{ synthetic_node_announcement\.features = info\.features\(\)\.clone\(\); synthetic_node_announcement\.rgb\.clone_from\(&info\.rgb\(\)\); synthetic_node_announcement\.alias = info\.alias\(\)\.clone\(\); synthetic_node_announcement\.addresses = info\.addresses\(\)\.to_vec\(\); \}\);', b, 'rgs node announcement keeps the stored payload')
    need(ma.start() < mn.start() < b.find('node_modifications.push(synthetic_node_announcement);'), "rgs: node modification order")
    # announcements
    m_ann = rx(r'let announcement_result = network_graph\.add_channel_from_partial_announcement\( short_channel_id, funding_sats, backdated_timestamp as u64, features, node_id_1, node_id_2, \); if let Err\(lightning_error\) = announcement_result \{ if let ErrorAction::IgnoreDuplicateGossip = lightning_error\.action \{ \} else \{ return Err\(lightning_error\.into\(\)\); \} \}', b, 'rgs announcement application (duplicate ignored, other errors abort)')
    m_nm = rx(r'for modification in node_modifications \{ match network_graph\.update_node_from_unsigned_announcement\(&modification\) \{ Ok\(_\) => \{\}, Err\(LightningError \{ action: ErrorAction::IgnoreDuplicateGossip, \.\. \}\) => \{\}, Err\(LightningError \{ action: ErrorAction::IgnoreAndLog\(level\), err \}\) => \{ \}, Err\(LightningError \{ action: ErrorAction::IgnoreError, err \}\) => \{ \}, Err\(e\) => return Err\(e\.into\(\)\), \} \}', b, 'rgs node modification application')
    m_z = rx(r'if update_count == 0 \{ return Ok\(latest_seen_timestamp\); \}', b, 'rgs early return without updates (no pruning then)')
    # updates
    m_std = rx(r'let standard_channel_flags = (channel_flags & 3);', b, 'rgs standard_channel_flags')
    emit('rgsStdFlags', '(channel_flags : Nat)', 'Nat', m_std.group(1), emr, 'processing.rs standard_channel_flags')
    rx(r'let mut synthetic_update = UnsignedChannelUpdate \{ chain_hash, short_channel_id, timestamp: backdated_timestamp, message_flags: 1, channel_flags: standard_channel_flags, cltv_expiry_delta: default_cltv_expiry_delta, htlc_minimum_msat: default_htlc_minimum_msat, htlc_maximum_msat: default_htlc_maximum_msat, fee_base_msat: default_fee_base_msat, fee_proportional_millionths: default_fee_proportional_millionths, excess_data: Vec::new\(\), \};', b, 'rgs synthetic_update')
    m_inc = rx(r'if (\(channel_flags & 128\) != 0) \{ let read_only_network_graph = network_graph\.read_only\(\); if let Some\(directional_info\) = read_only_network_graph \.channels\(\) \.get\(&short_channel_id\) \.and_then\(\|channel\| channel\.get_directional_info\(channel_flags\)\) \{ synthetic_update\.cltv_expiry_delta = directional_info\.cltv_expiry_delta; synthetic_update\.htlc_minimum_msat = directional_info\.htlc_minimum_msat; synthetic_update\.htlc_maximum_msat = directional_info\.htlc_maximum_msat; synthetic_update\.fee_base_msat = directional_info\.fees\.base_msat; synthetic_update\.fee_proportional_millionths = directional_info\.fees\.proportional_millionths; \} else \{ skip_update_for_unknown_channel = true; \} \};', b, 'rgs incremental update')
    emit('rgsIncremental', '(channel_flags : Nat)', 'Bool', m_inc.group(1), emr, 'processing.rs: incremental update (fields default to the stored ones)')
    prev = m_inc.end()
    for bit, fld, nm in [(64, 'cltv_expiry_delta', 'rgsHasCltv'), (32, 'htlc_minimum_msat', 'rgsHasHtlcMin'), (16, 'fee_base_msat', 'rgsHasFeeBase'), (8, 'fee_proportional_millionths', 'rgsHasFeeProp'), (4, 'htlc_maximum_msat', 'rgsHasHtlcMax')]:
        m = rx(r'if (channel_flags & %d > 0) \{ let %s: u\d+ = Readable::read\(read_cursor\)\?; synthetic_update\.%s = %s; \}' % (bit, fld, fld, fld), b, 'rgs field flag of ' + fld)
        need(m.start() >= prev, "rgs: field order changed at " + fld)
        prev = m.end()
        emit(nm, '(channel_flags : Nat)', 'Bool', m.group(1), emr, 'processing.rs: field %s present' % fld)
    m_skip = rx(r'if skip_update_for_unknown_channel \{ continue; \}', b, 'rgs skip')
    m_app = rx(r'match network_graph\.update_channel_unsigned\(&synthetic_update\) \{ Ok\(_\) => \{\}, Err\(LightningError \{ action: ErrorAction::IgnoreDuplicateGossip, \.\. \}\) => \{\}, Err\(LightningError \{ action: ErrorAction::IgnoreAndLog\(level\), err \}\) => \{ \}, Err\(LightningError \{ action: ErrorAction::IgnoreError, \.\. \}\) => \{\}, Err\(e\) => return Err\(e\.into\(\)\), \}', b, 'rgs update application')
    m_end = rx(r'self\.network_graph\.set_last_rapid_gossip_sync_timestamp\(latest_seen_timestamp\); if let Some\(time\) = current_time_unix \{ self\.network_graph\.remove_stale_channels_and_tracking_with_time\(time\) \}', b, 'rgs epilogue (prune with the given time)')
    need(m0.start() < m1.start() < ma.start() < m_ann.start() < m_nm.start() < m_z.start() < m_std.start() < m_inc.start() < m_skip.start() < m_app.start() < m_end.start(), "rgs: order of the phases changed")
    # ChannelInfo::get_directional_info
    _, _, body = find_fn(src, 'get_directional_info')
    bd = norm(body)
    m = rx(r'^\{ let direction = (channel_flags & 1u8); if (direction == 0) \{ self\.(\w+)\.as_ref\(\) \} else \{ self\.(\w+)\.as_ref\(\) \} \}$', bd, 'get_directional_info')
    need((m.group(3), m.group(4)) == ('one_to_two', 'two_to_one'), "get_directional_info: branches are %s / %s" % (m.group(3), m.group(4)))
    L.append('/-- ChannelInfo::get_directional_info: true = two_to_one (`let direction = %s; if %s { one_to_two } else { two_to_one }`) -/' % (m.group(1), m.group(2)))
    L.append('def dirInfoIsTwoToOne (channel_flags : Nat) : Bool :=')
    L.append('  let direction := %s' % emr.e(parse_expr(m.group(1))))
    L.append('  !%s' % Em(env={'direction': 'direction'}).e(parse_expr(m.group(2))))
    L.append('')
    # ------------------------------------------------------------------ asynchronous UTXO lookups (utxo.rs)
    utxo_all = rd('lightning/src/routing/utxo.rs')
    cut = utxo_all.find('#[cfg(test)]\nmod tests')
    need(cut > 0, "test module marker of utxo.rs not found")
    utxo = utxo_all[:cut]
    # -- which entry points verify signatures BEFORE a message can be parked
    _, _, body = find_fn(src, 'update_channel_internal')
    b = norm(body)
    p_hold = b.find('self.pending_checks.check_hold_pending_channel_update(msg, full_msg)?;')
    p_sig = b.find('secp_verify_sig!(self.secp_ctx, &msg_hash, &sig, &node_pubkey, "channel_update");')
    need(p_hold > 0 and p_sig > 0 and b.count('check_hold_pending_channel_update') == 1 and b.count('secp_verify_sig!') == 1, "update_channel_internal: hold / signature check sites")
    L.append('/-- update_channel_internal: is the signature of a channel_update checked BEFORE it can be parked by')
    L.append('    check_hold_pending_channel_update? (position of secp_verify_sig! < position of the hold call) -/')
    L.append('def holdUpdAfterSigCheck : Bool := %s' % ('true' if p_sig < p_hold else 'false'))
    L.append('')
    _, _, body = find_fn(src, 'update_node_from_announcement')
    b = norm(body)
    p_v = b.find('verify_node_announcement(msg, &self.secp_ctx)?;')
    p_i = b.find('self.update_node_from_announcement_intern(&msg.contents, Some(&msg))')
    need(p_v > 0 and p_i > 0, "update_node_from_announcement: verify / intern calls")
    _, _, body = find_fn(src, 'update_node_from_announcement_intern')
    bi = norm(body)
    rx(r'match nodes\.get_mut\(&msg\.node_id\) \{ None => \{ core::mem::drop\(nodes\); self\.pending_checks\.check_hold_pending_node_announcement\(msg, full_msg\)\?; Err\(LightningError \{ err: "No existing channels for node_announcement"', bi,
       'unknown-node arm of update_node_from_announcement_intern (the only hold site)')
    need(bi.count('check_hold_pending_node_announcement') == 1 and 'check_hold_pending_node_announcement' not in b, "node announcement hold site moved")
    L.append('/-- update_node_from_announcement: verify_node_announcement precedes update_node_from_announcement_intern, whose')
    L.append('    unknown-node arm is the only place that parks a node_announcement -/')
    L.append('def holdNodeAnnAfterSigCheck : Bool := %s' % ('true' if p_v < p_i else 'false'))
    L.append('')
    _, _, body = find_fn(src, 'update_channel_from_announcement')
    b = norm(body)
    p_pre = b.find('self.pre_channel_announcement_validation_check(&msg.contents, utxo_lookup)?;')
    p_v = b.find('verify_channel_announcement(msg, &self.secp_ctx)?;')
    p_i = b.find('self.update_channel_from_unsigned_announcement_intern(&msg.contents, Some(msg), utxo_lookup)')
    need(0 < p_pre < p_v and p_i > 0, "update_channel_from_announcement: pre-check / verify / intern")
    L.append('/-- update_channel_from_announcement: verify_channel_announcement precedes ..._intern (which calls')
    L.append('    check_channel_announcement, the only place that parks a channel_announcement) -/')
    L.append('def parkChanAnnAfterSigCheck : Bool := %s' % ('true' if p_v < p_i else 'false'))
    L.append('')
    _, _, body = find_fn(src, 'update_channel_from_unsigned_announcement')
    b = norm(body)
    need(b.find('self.pre_channel_announcement_validation_check(&msg, utxo_lookup)?;') > 0 and b.find('self.update_channel_from_unsigned_announcement_intern(msg, None, utxo_lookup)') > 0, "update_channel_from_unsigned_announcement")
    # -- the public signed / unsigned update entry points
    _, _, body = find_fn(src, 'update_channel')
    m = rx(r'^\{ self\.update_channel_internal\(&msg\.contents, Some\(&msg\), (Some\(&msg\.signature\)|None), (true|false)\) \}$', norm(body), 'NetworkGraph::update_channel')
    upd_channel = (m.group(1) != 'None', m.group(2) == 'false')
    _, _, body = find_fn(src, 'update_channel_unsigned')
    rx(r'^\{ self\.update_channel_internal\(msg, None, None, false\) \}$', norm(body), 'NetworkGraph::update_channel_unsigned')
    L.append('/-- NetworkGraph::update_channel passes the signature (`Some(&msg.signature)`) to update_channel_internal -/')
    L.append('def updateChannelVerifies : Bool := %s' % ('true' if upd_channel[0] else 'false'))
    L.append('')
    # -- check_hold_pending_channel_update
    _, _, body = find_fn(utxo, 'check_hold_pending_channel_update')
    b = norm(body)
    emh = Em(env={'latest_update': 'latest_update', 'latest_announce': 'latest_announce', 'node_id_1': 'node_id_1'},
             methods={'timestamp': lambda r, a: r, 'node_id_1': lambda r, a: 'node_id_1'},
             fields=FIELDS(['channel_flags', 'timestamp', 'node_id']))
    m = rx(r'if let hash_map::Entry::Occupied\(e\) = pending_checks\.channels\.entry\(msg\.short_channel_id\) \{ let is_from_a = (.*?); match Weak::upgrade\(e\.get\(\)\) \{ Some\(msgs_ref\) => \{ let mut messages = msgs_ref\.lock\(\)\.unwrap\(\); let latest_update = if is_from_a \{ &mut messages\.latest_channel_update_a \} else \{ &mut messages\.latest_channel_update_b \}; if (.*?) \{ \*latest_update = Some\(if let Some\(msg\) = full_msg \{ ChannelUpdate::Full\(msg\.clone\(\)\) \} else \{ ChannelUpdate::Unsigned\(msg\.clone\(\)\) \}\); \} return Err\(LightningError \{ err: "Awaiting channel_announcement validation to accept channel_update"', b,
           'check_hold_pending_channel_update')
    emit('holdUpdIsA', '(channel_flags : Nat)', 'Bool', m.group(1), emh, 'check_hold_pending_channel_update: slot latest_channel_update_a')
    emit('holdUpdReplaces', '(latest_update : Option Nat) (timestamp : Nat)', 'Bool', m.group(2), emh, 'check_hold_pending_channel_update: the parked update is (re)placed (argument = timestamp of the parked one)')
    need(b.rstrip().endswith('None => { e.remove(); }, } } Ok(()) }'), "check_hold_pending_channel_update: tail changed")
    # -- check_hold_pending_node_announcement
    _, _, body = find_fn(utxo, 'check_hold_pending_node_announcement')
    b = norm(body)
    m = rx(r'if let hash_map::Entry::Occupied\(mut e\) = pending_checks\.nodes\.entry\(msg\.node_id\) \{ let mut found_at_least_one_chan = false; e\.get_mut\(\)\.retain\(\|node_msgs\| match Weak::upgrade\(&node_msgs\) \{ Some\(chan_mtx\) => \{ let mut chan_msgs = chan_mtx\.lock\(\)\.unwrap\(\); if let Some\(chan_announce\) = &chan_msgs\.channel_announce \{ let latest_announce = if (.*?) \{ &mut chan_msgs\.latest_node_announce_a \} else \{ &mut chan_msgs\.latest_node_announce_b \}; if (.*?) \{ \*latest_announce = Some\(if let Some\(msg\) = full_msg \{ NodeAnnouncement::Full\(msg\.clone\(\)\) \} else \{ NodeAnnouncement::Unsigned\(msg\.clone\(\)\) \}\); \} found_at_least_one_chan = true; true \}', b,
           'check_hold_pending_node_announcement')
    emit('holdNodeIsA', '(node_id_1 node_id : Nat)', 'Bool', m.group(1).replace('*chan_announce.node_id_1()', 'node_id_1'), emh, 'check_hold_pending_node_announcement: slot latest_node_announce_a')
    emit('holdNodeReplaces', '(latest_announce : Option Nat) (timestamp : Nat)', 'Bool', m.group(2), emh, 'check_hold_pending_node_announcement: the parked announcement is (re)placed')
    rx(r'if found_at_least_one_chan \{ return Err\(LightningError \{ err: "Awaiting channel_announcement validation to accept node_announcement"', b, 'check_hold_pending_node_announcement: result')
    # -- pending_channel_announcement_matches / check_channel_announcement
    _, _, body = find_fn(utxo, 'pending_channel_announcement_matches')
    rx(r'match &pending_state\.channel_announce \{ Some\(ChannelAnnouncement::Full\(pending_msg\)\) => Some\(pending_msg\) == full_msg, Some\(ChannelAnnouncement::Unsigned\(pending_msg\)\) => pending_msg == msg, None => \{', norm(body), 'pending_channel_announcement_matches')
    _, _, body = find_fn(utxo, 'check_channel_announcement')
    b = norm(body)
    p1 = b.find('Self::check_replace_previous_entry( msg, full_msg, None, &mut self.internal.lock().unwrap().channels, )?;')
    p2 = b.find('match utxo_lookup { &None => { Ok(None) }, &Some(ref utxo_lookup) => {')
    p3 = b.find('UtxoResult::Sync(res) => handle_result(res), UtxoResult::Async(future) => {')
    p4 = b.find('if let Some(res) = async_messages.complete.take() { handle_result(res) } else {')
    p5 = b.find('pending_states.push(Arc::clone(&future.state));')
    p6 = b.find('Self::check_replace_previous_entry( msg, full_msg, Some((&future.state, &async_messages)), &mut pending_checks.channels, )?; async_messages.channel_announce = Some(if let Some(msg) = full_msg { ChannelAnnouncement::Full(msg.clone()) } else { ChannelAnnouncement::Unsigned(msg.clone()) }); pending_checks .nodes .entry(msg.node_id_1) .or_default() .push(Arc::downgrade(&future.state)); pending_checks .nodes .entry(msg.node_id_2) .or_default() .push(Arc::downgrade(&future.state)); Err(LightningError { err: "Channel being checked async"')
    need(0 < p1 < p2 < p3 < p4 < p5 < p6, "check_channel_announcement: shape / order changed (%s)" % [p1, p2, p3, p4, p5, p6])
    _, _, body = find_fn(utxo, 'check_replace_previous_entry')
    b = norm(body)
    rx(r'if pending_matches \{ return Err\(LightningError \{ err: "Channel announcement is already being checked"\.to_owned\(\), action: ErrorAction::IgnoreDuplicateGossip, \}\); \} else \{ if let Some\(item\) = replacement_state \{ \*e\.get_mut\(\) = Arc::downgrade\(item\); \} \}', b, 'check_replace_previous_entry: same message refused, different message replaces the SCID entry')
    rx(r'hash_map::Entry::Vacant\(v\) => \{ if let Some\(item\) = replacement_state \{ v\.insert\(Arc::downgrade\(item\)\); \} \},', b, 'check_replace_previous_entry: vacant arm')
    # -- too_many_checks_pending
    mc = rx(r'const MAX_PENDING_LOOKUPS: usize = (\d+);', utxo, 'MAX_PENDING_LOOKUPS')
    L.append('def MAX_PENDING_LOOKUPS : Nat := %s' % mc.group(1))
    L.append('')
    _, _, body = find_fn(utxo, 'too_many_checks_pending')
    b = norm(body)
    m = rx(r'^\{ let mut pending_checks = self\.internal\.lock\(\)\.unwrap\(\); if (pending_checks\.channels\.len\(\) [<>=!]+ Self::MAX_PENDING_LOOKUPS) \{ pending_checks\.channels\.retain\(.*?\); pending_checks\.nodes\.retain\(.*?\); (pending_checks\.channels\.len\(\) [<>=!]+ Self::MAX_PENDING_LOOKUPS) \} else \{ false \} \}$', b, 'too_many_checks_pending')
    need(m.group(1) == m.group(2), "too_many_checks_pending: the two tests differ")
    emit('tooManyChecks', '(channels_len : Nat)', 'Bool', m.group(1).replace('pending_checks.channels.len()', 'channels_len'), Em(env={'channels_len': 'channels_len'}),
         'too_many_checks_pending (argument = number of SCIDs with a live pending lookup)')
    # -- resolve_single_future: what is replayed, in which order, THROUGH WHICH ENTRY POINT
    _, _, body = find_fn(utxo, 'resolve_single_future')
    b = norm(body)
    q0 = rx(r'announcement = if let Some\(announcement\) = state\.channel_announce\.take\(\) \{ announcement \} else \{ return; \}; result = if let Some\(result\) = state\.complete\.take\(\) \{ result \} else \{ debug_assert!\(false, "Future should have been resolved"\); return; \}; announce_a = state\.latest_node_announce_a\.take\(\); announce_b = state\.latest_node_announce_b\.take\(\); update_a = state\.latest_channel_update_a\.take\(\); update_b = state\.latest_channel_update_b\.take\(\); \} let resolver = UtxoResolver\(result\);', b, 'resolve_single_future: taking the parked state')
    q1 = rx(r'match announcement \{ ChannelAnnouncement::Full\(signed_msg\) => \{ if graph\.update_channel_from_announcement\(&signed_msg, &Some\(&resolver\)\)\.is_ok\(\) \{ new_messages\.push\(MessageSendEvent::BroadcastChannelAnnouncement \{ msg: signed_msg, update_msg: None, \}\); \} \}, ChannelAnnouncement::Unsigned\(msg\) => \{ let _ = graph\.update_channel_from_unsigned_announcement\(&msg, &Some\(&resolver\)\); \}, \}', b,
            'resolve_single_future: the announcement is replayed through update_channel_from_announcement / ..._unsigned_announcement with the resolved lookup')
    q2 = rx(r'for announce in \[announce_a, announce_b\] \{ match announce \{ Some\(NodeAnnouncement::Full\(signed_msg\)\) => \{ if graph\.update_node_from_announcement\(&signed_msg\)\.is_ok\(\) \{ new_messages \.push\(MessageSendEvent::BroadcastNodeAnnouncement \{ msg: signed_msg \}\); \} \}, Some\(NodeAnnouncement::Unsigned\(msg\)\) => \{ let _ = graph\.update_node_from_unsigned_announcement\(&msg\); \}, None => \{\}, \} \}', b,
            'resolve_single_future: parked node announcements are replayed through update_node_from_announcement / ..._unsigned_announcement')
    q3 = rx(r'for update in \[update_a, update_b\] \{ match update \{ Some\(ChannelUpdate::Full\(signed_msg\)\) => \{ (.*?) new_messages\.push\(MessageSendEvent::BroadcastChannelUpdate \{ msg: signed_msg, node_id_1, node_id_2, \}\); \} \}, Some\(ChannelUpdate::Unsigned\(msg\)\) => \{ let _ = graph\.update_channel_unsigned\(&msg\); \}, None => \{\}, \} \}', b,
            'resolve_single_future: parked channel updates')
    need(q0.start() < q1.start() < q2.start() < q3.start(), "resolve_single_future: replay order announcement / node announcements / updates changed")
    full_arm = q3.group(1).strip()
    m_a = re.fullmatch(r'if graph\.update_channel\(&signed_msg\)\.is_ok\(\) \{', full_arm)
    m_b = re.fullmatch(r'let res = graph\.update_channel_internal\( ?&signed_msg\.contents, Some\(&signed_msg\), (Some\(&signed_msg\.signature\)|None), (true|false), ?\); if res\.is_ok\(\) \{', full_arm) \
        or re.fullmatch(r'if graph\.update_channel_internal\( ?&signed_msg\.contents, Some\(&signed_msg\), (Some\(&signed_msg\.signature\)|None), (true|false),? ?\)\.is_ok\(\) \{', full_arm)
    if m_a: replay = upd_channel
    elif m_b: replay = (m_b.group(1) != 'None', m_b.group(2) == 'false')
    else: raise TranslateError("resolve_single_future: the entry point replaying a parked signed channel_update is not recognised: %r" % full_arm)
    L.append('/-- resolve_single_future, parked SIGNED channel_update: does the entry point it is replayed through check the')
    L.append('    signature? Rust: `%s` -/' % full_arm)
    L.append('def replayFullUpdVerifies : Bool := %s' % ('true' if replay[0] else 'false'))
    L.append('/-- … and does it store the update (only_verify = false)? -/')
    L.append('def replayFullUpdStores : Bool := %s' % ('true' if replay[1] else 'false'))
    L.append('')
    # -- check_resolved_futures: completed states are first removed from all three collections, then replayed in order
    _, _, body = find_fn(utxo, 'check_resolved_futures')
    b = norm(body)
    r1 = rx(r'lck\.pending_states\.retain\(\|state\| \{ if state\.lock\(\)\.unwrap\(\)\.complete\.is_some\(\) \{ completed_states\.push\(Arc::clone\(&state\)\); false \} else \{ if Arc::strong_count\(state\) == 1 \{ false \} else \{ true \} \} \}\);', b, 'check_resolved_futures: pending_states')
    r2 = rx(r'lck\.channels\.retain\(\|_, state\| \{ if let Some\(state\) = state\.upgrade\(\) \{ if state\.lock\(\)\.unwrap\(\)\.complete\.is_some\(\) \{ completed_states\.push\(state\); false \} else \{ true \} \} else \{ false \} \}\);', b, 'check_resolved_futures: channels')
    r3 = rx(r'lck\.nodes\.retain\(\|_, lookups\| \{ lookups\.retain\(\|state\| \{ if let Some\(state\) = state\.upgrade\(\) \{ if state\.lock\(\)\.unwrap\(\)\.complete\.is_some\(\) \{ completed_states\.push\(state\); false \} else \{ true \} \} else \{ false \} \}\); !lookups\.is_empty\(\) \}\);', b, 'check_resolved_futures: nodes')
    r4 = rx(r'for state in completed_states \{ self\.resolve_single_future\(graph, state, &mut res\); \} res \}$', b, 'check_resolved_futures: replay loop')
    need(r1.start() < r2.start() < r3.start() < r4.start(), "check_resolved_futures: order changed")
    _, _, body = find_fn(utxo, 'resolve')
    rx(r'^\{ let mut state = self\.state\.lock\(\)\.unwrap\(\); state\.complete = Some\(result\); state\.notifier\.notify\(\); \}$', norm(body), 'UtxoFuture::resolve')
    _, _, body = find_fn(src, 'process_completed_checks')
    rx(r'^\{ let msgs = self\.network_graph\.pending_checks\.check_resolved_futures\(&\*self\.network_graph\);', norm(body), 'P2PGossipSync::process_completed_checks')

    # ------------------------------------------------------------------ persistence (impl Writeable / Readable)
    def tlv_entries(block, what):
        """entries `(N, expr, kind)` of a write_tlv_fields!/read_tlv_fields! body (comments already stripped)"""
        out, i, n = [], 0, len(block)
        while i < n:
            if block[i] == '(':
                d, j = 0, i
                while True:
                    if block[j] == '(': d += 1
                    if block[j] == ')':
                        d -= 1
                        if d == 0: break
                    j += 1
                ent = block[i + 1:j]
                m = re.match(r'\s*(\d+)\s*,\s*(.*)\s*,\s*(\(.*\)|\w+)\s*$', ent, re.S)
                need(m, "%s: TLV entry %r not understood" % (what, ent))
                out.append((int(m.group(1)), ' '.join(m.group(2).split()), ' '.join(m.group(3).split())))
                i = j + 1
            else:
                i += 1
        return out
    def impl_body(kind, ty):
        m = re.search(r'impl(?:<[^>]*>)? %s(?:<[^>]*>)? for %s(?:<[^>]*>)? \{' % (kind, ty), src)
        need(m, "impl %s for %s not found" % (kind, ty))
        from rs2lean import match_brace
        return norm(src[m.end() - 1: match_brace(src, m.end() - 1)])
    def macro_block(body, macro, what):
        m = re.search(re.escape(macro) + r'\((?:writer|reader), \{(.*?)\}\);', body)
        need(m, "%s: %s not found" % (what, macro))
        return m.group(1)
    persisted = []   # (block, type, member expression, kind)
    for ty in ['ChannelUpdateInfo', 'ChannelInfo', 'NodeAnnouncementInfo', 'NodeInfo', 'NetworkGraph']:
        wb = impl_body('Writeable', ty)
        for (t, e, k) in tlv_entries(macro_block(wb, 'write_tlv_fields!', ty + '::write'), ty + '::write'):
            persisted.append((ty + '.write', t, e, k))
        rb = impl_body('ReadableArgs' if ty == 'NetworkGraph' else 'Readable', ty)
        mac = '_init_and_read_len_prefixed_tlv_fields!' if ty in ('NodeAnnouncementInfo', 'NodeInfo') else 'read_tlv_fields!'
        for (t, e, k) in tlv_entries(macro_block(rb, mac, ty + '::read'), ty + '::read'):
            persisted.append((ty + '.read', t, e, k))
    L.append('/-- the TLV fields of the five persisted gossip structures: (block, TLV type, member / variable, kind) as written')
    L.append('    by `impl Writeable` and read by `impl Readable(Args)` in gossip.rs -/')
    L.append('def persistedFields : List (String × Nat × String × String) := [')
    L.append(',\n'.join('  ("%s", %d, "%s", "%s")' % (b_, t, e.replace('"', "'"), k.replace('"', "'")) for (b_, t, e, k) in persisted))
    L.append(']')
    L.append('')
    # how the readers turn the records into the structs (what Model/GossipPersist.lean mirrors)
    rb = impl_body('Readable', 'ChannelUpdateInfo')
    rx(r'if let Some\(htlc_maximum_msat\) = htlc_maximum_msat \{ Ok\(ChannelUpdateInfo \{ last_update: _init_tlv_based_struct_field!\(last_update, required\), enabled: _init_tlv_based_struct_field!\(enabled, required\), cltv_expiry_delta: _init_tlv_based_struct_field!\(cltv_expiry_delta, required\), htlc_minimum_msat: _init_tlv_based_struct_field!\(htlc_minimum_msat, required\), htlc_maximum_msat, fees: _init_tlv_based_struct_field!\(fees, required\), last_update_message: _init_tlv_based_struct_field!\(last_update_message, required\), \}\) \} else \{ Err\(DecodeError::InvalidValue\) \}', rb, 'ChannelUpdateInfo::read construction')
    rb = impl_body('MaybeReadable', 'ChannelUpdateInfoDeserWrapper')
    rx(r'Ok\(channel_update_option\) => Ok\(Some\(Self\(channel_update_option\)\)\), Err\(DecodeError::ShortRead\) => Ok\(None\), Err\(DecodeError::InvalidValue\) => Ok\(None\), Err\(err\) => Err\(err\),', rb, 'ChannelUpdateInfoDeserWrapper')
    rb = impl_body('Readable', 'ChannelInfo')
    rx(r'Ok\(ChannelInfo \{ features: _init_tlv_based_struct_field!\(features, required\), node_one: _init_tlv_based_struct_field!\(node_one, required\), one_to_two: one_to_two_wrap\.map\(\|w\| w\.0\)\.unwrap_or\(None\), node_two: _init_tlv_based_struct_field!\(node_two, required\), two_to_one: two_to_one_wrap\.map\(\|w\| w\.0\)\.unwrap_or\(None\), capacity_sats: _init_tlv_based_struct_field!\(capacity_sats, required\), announcement_message: _init_tlv_based_struct_field!\(announcement_message, required\), announcement_received_time: _init_tlv_based_struct_field!\( announcement_received_time, \(default_value, 0\) \), node_one_counter: u32::MAX, node_two_counter: u32::MAX, \}\)', rb, 'ChannelInfo::read construction')
    wb = impl_body('Writeable', 'NodeAnnouncementInfo')
    rx(r'let features = self\.features\(\); let last_update = self\.last_update\(\); let rgb = self\.rgb\(\); let alias = self\.alias\(\); let addresses = self\.addresses\(\); let announcement_message = self\.announcement_message\(\);', wb, 'NodeAnnouncementInfo::write accessors')
    rb = impl_body('Readable', 'NodeAnnouncementInfo')
    rx(r'if let Some\(announcement\) = announcement_message \{ Ok\(Self::Relayed\(announcement\)\) \} else \{ Ok\(Self::Local\(NodeAnnouncementDetails \{ features: features\.0\.unwrap\(\), last_update: last_update\.0\.unwrap\(\), rgb: rgb\.0\.unwrap\(\), alias: alias\.0\.unwrap\(\), addresses, \}\)\) \}', rb, 'NodeAnnouncementInfo::read construction')
    rb = impl_body('Readable', 'NodeInfo')
    rx(r'Ok\(NodeInfo \{ announcement_info: announcement_info_wrap\.map\(\|w\| w\.0\), channels, node_counter: u32::MAX, \}\)', rb, 'NodeInfo::read construction')
    wb = impl_body('Writeable', 'NetworkGraph')
    rx(r'write_ver_prefix!\(writer, SERIALIZATION_VERSION, MIN_SERIALIZATION_VERSION\); self\.chain_hash\.write\(writer\)\?; let channels = self\.channels\.read\(\)\.unwrap\(\); \(channels\.len\(\) as u64\)\.write\(writer\)\?; for \(ref chan_id, ref chan_info\) in channels\.unordered_iter\(\) \{ \(\*chan_id\)\.write\(writer\)\?; chan_info\.write\(writer\)\?; \} let nodes = self\.nodes\.read\(\)\.unwrap\(\); \(nodes\.len\(\) as u64\)\.write\(writer\)\?; for \(ref node_id, ref node_info\) in nodes\.unordered_iter\(\) \{ node_id\.write\(writer\)\?; node_info\.write\(writer\)\?; \}', wb, 'NetworkGraph::write body')
    need('removed_' not in wb, "NetworkGraph::write now mentions the removed_* tombstones")
    rb = impl_body('ReadableArgs', 'NetworkGraph')
    rx(r'for \(_, chan\) in channels\.unordered_iter_mut\(\) \{ chan\.node_one_counter = nodes\.get\(&chan\.node_one\)\.ok_or\(DecodeError::InvalidValue\)\?\.node_counter; chan\.node_two_counter = nodes\.get\(&chan\.node_two\)\.ok_or\(DecodeError::InvalidValue\)\?\.node_counter; \}', rb, 'NetworkGraph::read endpoint check')
    rx(r'removed_nodes: Mutex::new\(new_hash_map\(\)\), removed_channels: Mutex::new\(new_hash_map\(\)\), pending_checks: utxo::PendingChecks::new\(\),', rb, 'NetworkGraph::read: tombstones and pending lookups start empty')
    mv = rx(r'const SERIALIZATION_VERSION: u8 = (\d+); const MIN_SERIALIZATION_VERSION: u8 = (\d+); impl<L: Logger> Writeable for NetworkGraph<L>', norm(src), 'NetworkGraph serialization versions')
    L.append('def GRAPH_SERIALIZATION_VERSION : Nat := %s' % mv.group(1))
    L.append('def GRAPH_MIN_SERIALIZATION_VERSION : Nat := %s' % mv.group(2))
    L.append('')

    L.append('end Gen')
    L.append('end Ldk.Gossip')
    text = '\n'.join(L) + '\n'
    old = open(out_path).read() if os.path.exists(out_path) else None
    if old != text:
        open(out_path, 'w').write(text)

if __name__ == '__main__':
    try:
        main(sys.argv[1] if len(sys.argv) > 1 else os.path.join(os.path.dirname(__file__), '..', 'lean', 'LdkModel', 'Generated', 'Gossip.lean'))
    except TranslateError as ex:
        print("TRANSLATE-ERROR gen_gossip: %s" % ex)
        sys.exit(2)
