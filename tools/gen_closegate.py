#!/usr/bin/env python3
"""Regenerate lean/LdkModel/Generated/CloseGate.lean from /repo's lightning/src/ln/channel.rs: the DECISION that gates
`closing_signed` (and the closing timer) on in-flight monitor updates, for every ChannelState arm and every flag (C09).

Translated (the Rust text determines the Lean definition):
  * `mod state_flags` (bit positions), the flag lists of the four `define_state_flags!` invocations that apply to funded
    states, the `impl_state_flag!` table (which getter exists in which ChannelState variant), `is_both_sides_shutdown`;
  * `ChannelContext::closing_negotiation_ready`: EVERY match arm, symbolically: `flags & MASK == CONST`, `flags == CONST`,
    `flags.is_set(..)`, `flags.is_x()`, `self.channel_state.is_x()`, `&& || !` become per-flag Boolean conditions over the
    `Flags` record (a bit inside the compared domain that is not mentioned on the right must be CLEAR), and the final
    conjunction with the HTLC / update_fee emptiness tests;
  * `ChannelState::can_generate_new_commitment` (the send-side gate) and the pinned set of functions that consult it;
  * interactive-tx / splice: `is_awaiting_monitor_update`, the pause + monitor_pending_tx_signatures of splice_initial_commitment_signed, the
    hold-back of `tx_signatures`, the release condition of `signer_maybe_unblocked`, the take-out in monitor_updating_restored;
  * `FundedChannel::get_shutdown`: the chain of refusals before any state is changed;
  * `FundedChannel::maybe_propose_closing_signed`: the chain of early returns before the first closing_signed is built;
  * `FundedChannel::closing_signed` (the handler): the chain of guards up to and including the in-progress hold-back;
  * `FundedChannel::timer_check_closing_negotiation_progress`.
`ChannelState::from_u32` is shape-pinned (variant order) and hand-decoded in `decode`; the differential op `cgready` compares
`decode` + `closingReadyState` with the real `closing_negotiation_ready` on every state word.
Anything outside the translated subset: exit 2 with `TRANSLATE-ERROR ...`."""
import re, sys, os
sys.path.insert(0, os.path.dirname(__file__))
from rs2lean import TranslateError, strip_comments, match_brace
REPO = os.environ.get('VERIF_REPO', '/repo')
OUT = os.path.join(os.path.dirname(os.path.abspath(__file__)), '..', 'lean', 'LdkModel', 'Generated', 'CloseGate.lean')

def norm(s): return re.sub(r' \.(?=[A-Za-z_])', '.', ' '.join(s.split()))
def camel(n):
    p = n.lower().split('_')
    return p[0] + ''.join(w.capitalize() for w in p[1:])

def bodies(src, name):
    out = []
    for m in re.finditer(r'\bfn\s+%s\s*(?:<[^>{]*>)?\s*\(' % re.escape(name), src):
        k = src.index('{', m.end())
        # skip a `where` clause / return type: first `{` at paren depth 0 after the parameter list
        depth, i = 1, m.end()
        while depth: depth += {'(': 1, ')': -1}.get(src[i], 0); i += 1
        k = src.index('{', i)
        out.append(norm(src[k:match_brace(src, k)]))
    return out

def sole(src, name):
    bs = bodies(src, name)
    if len(bs) != 1: raise TranslateError('expected exactly one `fn %s`, found %d' % (name, len(bs)))
    return bs[0]

def one(pat, text, where, flags=0):
    ms = re.findall(pat, text, flags)
    if len(ms) != 1: raise TranslateError('%s: expected exactly one match of /%s/, found %d' % (where, pat[:90], len(ms)))
    return ms[0]

VARIANTS = ['NegotiatingFunding', 'FundingNegotiated', 'AwaitingChannelReady', 'ChannelReady', 'ShutdownComplete']
TYPE_OF = {'NegotiatingFunding': 'NegotiatingFundingFlags', 'FundingNegotiated': 'FundingNegotiatedFlags',
           'AwaitingChannelReady': 'AwaitingChannelReadyFlags', 'ChannelReady': 'ChannelReadyFlags'}

class Sym:
    """symbolic evaluation of one arm expression of closing_negotiation_ready"""
    def __init__(self, text, variant, types, getters, both, where):
        self.t = re.findall(r'&&|\|\||==|!=|[&|!(),]|[A-Za-z_][A-Za-z0-9_:.]*', text)
        if ''.join(self.t) != text.replace(' ', ''): raise TranslateError('%s: cannot tokenize `%s`' % (where, text))
        self.i, self.v, self.types, self.getters, self.both, self.where = 0, variant, types, getters, both, where
        self.dom = types[TYPE_OF[variant]]            # every flag a value of this arm's flag type may carry
    def peek(self): return self.t[self.i] if self.i < len(self.t) else None
    def eat(self, x=None):
        tk = self.peek()
        if tk is None or (x is not None and tk != x): raise TranslateError('%s: expected `%s` at token %d of %s' % (self.where, x, self.i, self.t))
        self.i += 1; return tk
    def err(self, msg): raise TranslateError('%s: %s (arm of ChannelState::%s, tokens %s)' % (self.where, msg, self.v, self.t))
    # precedence, low to high: ||  &&  == !=  |  &  unary !
    def parse(self):
        r = self.p_or()
        if self.peek() is not None: self.err('trailing tokens')
        return self.boolean(r)
    def boolean(self, r):
        if r[0] != 'bool': self.err('a flag value is used where a condition is expected')
        return r[1]
    def p_or(self):
        a = self.p_and()
        while self.peek() == '||': self.eat(); b = self.p_and(); a = ('bool', '(%s || %s)' % (self.boolean(a), self.boolean(b)))
        return a
    def p_and(self):
        a = self.p_cmp()
        while self.peek() == '&&': self.eat(); b = self.p_cmp(); a = ('bool', '(%s && %s)' % (self.boolean(a), self.boolean(b)))
        return a
    def p_cmp(self):
        a = self.p_bor()
        if self.peek() in ('==', '!='):
            op = self.eat(); b = self.p_bor()
            if a[0] == 'const' and b[0] == 'flags': a, b = b, a
            if a[0] == 'flags' and b[0] == 'const':
                dom = self.dom if a[1] is None else [f for f in self.dom if f in a[1]]
                if any(f not in dom for f in b[1]): e = 'false'
                else: e = '(' + ' && '.join(('f.%s' if f in b[1] else '!f.%s') % camel(f) for f in dom) + ')' if dom else 'true'
            elif a[0] == 'const' and b[0] == 'const': e = 'true' if set(a[1]) == set(b[1]) else 'false'
            else: self.err('comparison outside the translated subset')
            return ('bool', e if op == '==' else '!%s' % e)
        return a
    def p_bor(self):
        a = self.p_band()
        while self.peek() == '|':
            self.eat(); b = self.p_band()
            if a[0] == 'const' and b[0] == 'const': a = ('const', sorted(set(a[1]) | set(b[1])))
            else: self.err('`|` on a non-constant flag value')
        return a
    def p_band(self):
        a = self.p_un()
        while self.peek() == '&':
            self.eat(); b = self.p_un()
            if a[0] == 'const' and b[0] == 'flags': a, b = b, a
            if a[0] == 'flags' and b[0] == 'const': a = ('flags', [f for f in b[1] if a[1] is None or f in a[1]])
            elif a[0] == 'const' and b[0] == 'const': a = ('const', [f for f in a[1] if f in b[1]])
            else: self.err('`&` outside the translated subset')
        return a
    def p_un(self):
        tk = self.peek()
        if tk == '!': self.eat(); return ('bool', '!%s' % self.boolean(self.p_un()))
        if tk == '(': self.eat(); r = self.p_or(); self.eat(')'); return r
        if tk is None or not re.match(r'[A-Za-z_]', tk): self.err('unexpected token `%s`' % tk)
        self.eat()
        args = None
        if self.peek() == '(':
            self.eat(); args = []
            while self.peek() != ')':
                args.append(self.p_or())
                if self.peek() == ',': self.eat()
            self.eat(')')
        return self.atom(tk, args)
    def getter(self, g):
        if g == 'is_both_sides_shutdown':
            return '(' + ' && '.join(self.getter(x) for x in self.both) + ')'
        if g not in self.getters: self.err('unknown state getter `%s`' % g)
        flag, variants = self.getters[g]
        return ('f.%s' % camel(flag)) if self.v in variants else 'false'
    def atom(self, tk, args):
        if tk.endswith('.into') and args == []: return self.atom(tk[:-5], None)
        if tk in ('true', 'false') and args is None: return ('bool', tk)
        if tk == 'flags' and args is None: return ('flags', None)
        m = re.fullmatch(r'(\w+Flags)::(\w+)', tk)
        if m and m.group(1) in self.types:
            if m.group(2) == 'ALL' and args is None: return ('const', list(self.types[m.group(1)]))
            if m.group(2) == 'new' and args == []: return ('const', [])
            if m.group(2) in self.types[m.group(1)] and args is None: return ('const', [m.group(2)])
            self.err('unknown flag constant `%s`' % tk)
        m = re.fullmatch(r'(?:self\.channel_state|flags|self)\.(is_\w+)', tk)
        if m and args is not None:
            if m.group(1) == 'is_set':
                if len(args) != 1 or args[0][0] != 'const' or not tk.startswith('flags.'): self.err('is_set argument')
                if any(f not in self.dom for f in args[0][1]): return ('bool', 'false')
                return ('bool', '(' + ' && '.join('f.%s' % camel(f) for f in args[0][1]) + ')' if args[0][1] else 'true')
            if m.group(1) == 'is_empty' and tk.startswith('flags.') and args == []:
                return ('bool', '(' + ' && '.join('!f.%s' % camel(f) for f in self.dom) + ')')
            if args == []: return ('bool', self.getter(m.group(1)))
        self.err('term `%s` outside the translated subset' % tk)

def bexpr(e, atoms, where):
    """&& || ! ( ) over a dictionary of atoms (longest match first)"""
    e = norm(e); out, i = [], 0
    keys = sorted(atoms, key=len, reverse=True)
    while i < len(e):
        if e[i] == ' ': i += 1; continue
        if e.startswith('&&', i) or e.startswith('||', i): out.append(e[i:i + 2]); i += 2; continue
        if e[i] in '()': out.append(e[i]); i += 1; continue
        for k in keys:
            if e.startswith(k, i):
                nxt = e[i + len(k):i + len(k) + 1]
                if re.match(r'[A-Za-z0-9_.(]', nxt or ' ') and not k.endswith(')'): continue
                out.append(atoms[k]); i += len(k); break
        else:
            if e[i] == '!': out.append('!'); i += 1; continue
            raise TranslateError('%s: unknown term at `%s` in `%s`' % (where, e[i:i + 70], e))
    return ' '.join(out).replace('! ', '!').replace('( ', '(').replace(' )', ')')

def split_top(s, sep=','):
    parts, depth, cur = [], 0, ''
    for ch in s:
        if ch in '({[': depth += 1
        if ch in ')}]': depth -= 1
        if ch == sep and depth == 0: parts.append(cur.strip()); cur = ''
        else: cur += ch
    if cur.strip(): parts.append(cur.strip())
    return parts

def main():
    raw = open(os.path.join(REPO, 'lightning/src/ln/channel.rs')).read()
    ch = strip_comments(raw)
    # ---- bit positions ----------------------------------------------------------------------------------
    k = ch.index('mod state_flags {'); sf = ch[k:match_brace(ch, ch.index('{', k))]
    bits = {m.group(1): int(m.group(2)) for m in re.finditer(r'pub const (\w+): u32 = 1 << (\d+);', sf)}
    if len(bits) != len(re.findall(r'pub const', sf)) or len(set(bits.values())) != len(bits): raise TranslateError('mod state_flags: not a list of distinct `1 << k` constants')
    # ---- flag types ---------------------------------------------------------------------------------------
    types = {}
    for m in re.finditer(r'\ndefine_state_flags!\(', ch):
        k = m.end() - 1
        depth, i = 0, k
        while True:
            depth += {'(': 1, ')': -1}.get(ch[i], 0); i += 1
            if depth == 0: break
        inv = ch[k:i]
        names = re.findall(r'\n\t(?:FUNDED_STATE,\s*)?(\w+Flags)\b', inv)
        if not names: raise TranslateError('define_state_flags!: cannot find the type name in `%s`' % norm(inv)[:120])
        own5 = re.findall(r',\s*(\w+), state_flags::(\w+),\s*(is_\w+), (set_\w+), (clear_\w+)\)', inv)
        own = [(a, b, g) for a, b, g, _, _ in own5]
        for a, b, g, st, cl in own5:
            if a != b: raise TranslateError('define_state_flags! %s: flag %s is given the bit of %s' % (names[0], a, b))
            if st != 'set_' + g[3:] or cl != 'clear_' + g[3:]: raise TranslateError('define_state_flags! %s: getter %s is paired with %s / %s' % (names[0], g, st, cl))
        types[names[0]] = ([f for f, _, _ in own], 'FUNDED_STATE' in inv, {g: f for f, _, g in own})
    for t in ('FundedStateFlags', 'FundingNegotiatedFlags', 'AwaitingChannelReadyFlags', 'ChannelReadyFlags', 'NegotiatingFundingFlags'):
        if t not in types: raise TranslateError('flag type %s not found' % t)
    funded = types['FundedStateFlags'][0]
    ALL = {t: (funded if fs else []) + own for t, (own, fs, _) in types.items()}
    ALL['FundedStateFlags'] = list(funded)
    flag_of_getter = {}
    for t, (_, _, g) in types.items(): flag_of_getter.update(g)
    # ---- which getter exists on ChannelState in which variant ---------------------------------------------
    k = ch.index('\nimpl ChannelState {'); ics = ch[k:match_brace(ch, ch.index('{', k))]
    getters = {}
    for m in re.finditer(r'impl_state_flag!\(\s*(is_\w+),\s*(set_\w+),\s*(clear_\w+),\s*(\w+),?\s*\);', ics):
        g, st = m.group(1), m.group(4)
        if m.group(2) != 'set_' + g[3:] or m.group(3) != 'clear_' + g[3:]: raise TranslateError('impl_state_flag!: getter %s is paired with %s / %s' % (g, m.group(2), m.group(3)))
        if g not in flag_of_getter: raise TranslateError('impl_state_flag!: getter %s has no flag' % g)
        getters[g] = (flag_of_getter[g], ['FundingNegotiated', 'AwaitingChannelReady', 'ChannelReady'] if st == 'FUNDED_STATES' else [st])
    one(r'\(\$get: ident, \$set: ident, \$clear: ident, FUNDED_STATES\) => \{ impl_state_flag!\(\$get, \$set, \$clear, \[(FundingNegotiated, AwaitingChannelReady, ChannelReady)\]\); \};', norm(ch), 'impl_state_flag! FUNDED_STATES')
    bb = one(r'fn is_both_sides_shutdown\(&self\) -> bool \{ (.*?) \}', norm(ics), 'is_both_sides_shutdown')
    both = re.fullmatch(r'self\.(is_\w+)\(\) && self\.(is_\w+)\(\)', bb)
    if not both: raise TranslateError('is_both_sides_shutdown changed shape: `%s`' % bb)
    both = list(both.groups())
    # ---- from_u32 (shape pin: which variant bit is tested in which order) ---------------------------------
    fu = one(r'fn from_u32\(state: u32\) -> Result<Self, \(\)> \{ match state \{ state_flags::SHUTDOWN_COMPLETE => Ok\(ChannelState::ShutdownComplete\), val => \{ (.*?) \}, \} \}', norm(ics), 'ChannelState::from_u32')
    order = re.findall(r'if val & state_flags::(\w+) == state_flags::\1 \{ (\w+)::from_u32\(val & !state_flags::\1\)\.map\(\|flags\| ChannelState::(\w+)\(flags\)\) \}', fu)
    if order != [('FUNDING_NEGOTIATED', 'FundingNegotiatedFlags', 'FundingNegotiated'), ('AWAITING_CHANNEL_READY', 'AwaitingChannelReadyFlags', 'AwaitingChannelReady'), ('CHANNEL_READY', 'ChannelReadyFlags', 'ChannelReady')] \
       or not fu.endswith('else if let Ok(flags) = NegotiatingFundingFlags::from_u32(val) { Ok(ChannelState::NegotiatingFunding(flags)) } else { Err(()) }'):
        raise TranslateError('ChannelState::from_u32 changed shape: %s' % order)
    # ---- closing_negotiation_ready ----------------------------------------------------------------------
    cands = [b for b in bodies(ch, 'closing_negotiation_ready') if 'match self.channel_state' in b]
    if len(cands) != 1: raise TranslateError('closing_negotiation_ready: expected one body matching on self.channel_state, found %d' % len(cands))
    b = cands[0]
    mb, fin = one(r'^\{ let is_ready_to_close = match self\.channel_state \{ (.*) \}; (.*) \}$', b, 'closing_negotiation_ready skeleton')
    arms, default = {}, None
    for arm in split_top(mb):
        m = re.fullmatch(r'(.*?) => (.*)', arm)
        if not m: raise TranslateError('closing_negotiation_ready: arm `%s`' % arm)
        pat, e = m.group(1).strip(), m.group(2).strip()
        if e.startswith('{') and match_brace(e, 0) == len(e): e = e[1:-1].strip()
        if pat == '_':
            if e not in ('true', 'false'): raise TranslateError('closing_negotiation_ready: default arm `%s`' % e)
            default = e; continue
        for p in pat.split(' | '):
            pm = re.fullmatch(r'ChannelState::(\w+)(?:\((flags|_)\))?', p.strip())
            if not pm or pm.group(1) not in VARIANTS: raise TranslateError('closing_negotiation_ready: pattern `%s`' % p)
            v = pm.group(1)
            if v in arms: raise TranslateError('closing_negotiation_ready: two arms for %s' % v)
            if v in TYPE_OF:
                if pm.group(2) != 'flags' and re.search(r'\bflags\b', e): raise TranslateError('closing_negotiation_ready: arm %s uses `flags` without binding it' % v)
                arms[v] = Sym(e, v, ALL, getters, both, 'closing_negotiation_ready').parse()
            else:
                if e not in ('true', 'false'): raise TranslateError('closing_negotiation_ready: arm %s: `%s`' % (v, e))
                arms[v] = e
    if default is None and len(arms) != len(VARIANTS): raise TranslateError('closing_negotiation_ready: match is not exhaustive for the translator')
    FA = {'self.pending_inbound_htlcs.is_empty()': 'no_inbound_htlcs', 'self.pending_outbound_htlcs.is_empty()': 'no_outbound_htlcs',
          'self.pending_update_fee.is_none()': 'no_pending_update_fee', 'is_ready_to_close': 'is_ready_to_close'}
    fin_l = bexpr(fin, FA, 'closing_negotiation_ready result')
    # ---- can_generate_new_commitment: the send-side gate (send_htlc, send_update_fee, fail_htlc, get_update_fulfill_htlc, holding cell) ----
    b = sole(ch, 'can_generate_new_commitment')
    cm = re.fullmatch(r'\{ match self \{ ChannelState::ChannelReady\(flags\) => (.*?), _ => \{ debug_assert!\(false, "[^"]*"\); false \}, \} \}', b)
    if not cm: raise TranslateError('can_generate_new_commitment changed shape: `%s`' % b[:300])
    can_gen = Sym(cm.group(1), 'ChannelReady', ALL, getters, both, 'can_generate_new_commitment').parse()
    users = sorted(set(m.group(1) for m in re.finditer(r'\n\t(?:pub(?:\([a-z]+\))? )?fn (\w+)', ch) if 'channel_state.can_generate_new_commitment()' in ch[m.end():ch.find('\n\t}\n', m.end())]))
    want_users = ['claim_htlc_while_disconnected_dropping_mon_update_legacy', 'fail_htlc', 'get_update_fulfill_htlc', 'maybe_free_holding_cell_htlcs', 'revoke_and_ack', 'send_htlc', 'send_update_fee']
    if users != want_users: raise TranslateError('can_generate_new_commitment: the set of functions consulting it changed: %s (expected %s)' % (users, want_users))
    # ---- get_shutdown: the refusals before anything is changed ---------------------------------------------------
    b = sole(ch, 'get_shutdown')
    ERR = r'\{ return Err\(APIError::\w+ ?\{.*?\}\); \}'
    gm = re.match(r'^\{ let logger = WithChannelContext::from\(logger, &self\.context, None\); if (.*?) ' + ERR +
                  r' for htlc in self\.context\.pending_outbound_htlcs\.iter\(\) \{ if let OutboundHTLCState::LocalAnnounced\(_\) = htlc\.state ' + ERR + r' \} if (.*?) ' + ERR +
                  r' else if (.*?) ' + ERR + r' if (.*?) ' + ERR + r' assert!\(!matches!\(self\.context\.channel_state, ChannelState::ShutdownComplete\)\); if (.*?) ' + ERR +
                  r' let update_shutdown_script = match self\.context\.shutdown_scriptpubkey \{ Some\(_\) => (true|false), None => \{', b)
    if not gm: raise TranslateError('get_shutdown: the chain of refusals changed shape: `%s`' % b[:500])
    if not re.search(r'self\.context\.shutdown_scriptpubkey = Some\(shutdown_scriptpubkey\); (true|false) \}, \}; self\.context\.target_closing_feerate_sats_per_kw = target_feerate_sats_per_kw; self\.context\.channel_state\.set_local_shutdown_sent\(\);', b):
        raise TranslateError('get_shutdown: code between the refusals and set_local_shutdown_sent changed')
    def gcond(e, where):
        e2 = re.sub(r'self\.context\.channel_state\.(is_\w+)\(\)', lambda m: '@' + m.group(1) + '@', norm(e))
        GA = {'self.context.shutdown_scriptpubkey.is_some()': 'script_set', 'override_shutdown_script.is_some()': 'override_given'}
        for g in re.findall(r'@(is_\w+)@', e2):
            if g not in getters and g != 'is_both_sides_shutdown': raise TranslateError('%s: unknown state getter %s' % (where, g))
            GA['@%s@' % g] = '(%s v f)' % camel(g)
        return bexpr(e2, GA, where)
    gs = [gcond(x, 'get_shutdown refusal') for x in gm.groups()[:5]]
    # ---- interactive-tx / splice: tx_signatures wait for the monitor update that records the counterparty's initial commitment ----
    b = sole(ch, 'is_awaiting_monitor_update')
    if b != '{ self.context.channel_state.is_monitor_update_in_progress() }': raise TranslateError('is_awaiting_monitor_update changed: `%s`' % b)
    b = sole(ch, 'splice_initial_commitment_signed')
    sp = re.search(r'\.received_commitment_signed\(\); self\.monitor_updating_paused\( false, false, false, Vec::new\(\), Vec::new\(\), Vec::new\(\), logger, \); self\.context\.monitor_pending_tx_signatures = (true|false); Ok\(self\.push_ret_blockable_mon_update\(monitor_update\)\) \}$', b)
    if not sp: raise TranslateError('splice_initial_commitment_signed: pause + monitor_pending_tx_signatures + queue changed shape')
    b = sole(ch, 'tx_signatures')
    IA = {'self.is_awaiting_monitor_update()': 'awaiting_monitor_update', 'self.context.monitor_pending_tx_signatures': 'monitor_pending_tx_signatures',
          'self.context.signer_pending_funding': 'signer_pending_funding'}
    th = one(r'splice_locked: None, \}; if (.*?) \{ debug_assert!\(holder_tx_signatures\.is_some\(\)\); log_debug!\([^;]*\); return Ok\(funding_tx_signed\); \} funding_tx_signed\.tx_signatures = holder_tx_signatures;', b, 'tx_signatures: hold-back')
    tx_held = bexpr(th, IA, 'tx_signatures hold-back')
    if b.count('funding_tx_signed.tx_signatures = ') != 1: raise TranslateError('tx_signatures: a second place sets funding_tx_signed.tx_signatures')
    b = sole(ch, 'signer_maybe_unblocked') if len(bodies(ch, 'signer_maybe_unblocked')) == 1 else [x for x in bodies(ch, 'signer_maybe_unblocked') if 'holder_tx_signatures' in x]
    if isinstance(b, list):
        if len(b) != 1: raise TranslateError('signer_maybe_unblocked: expected one body releasing tx_signatures, found %d' % len(b))
        b = b[0]
    su = one(r'if let Some\(signing_session\) = self\.context\.interactive_tx_signing_session\.as_ref\(\) \{ if (.*?) \{ tx_signatures = signing_session\.holder_tx_signatures\(\);', b, 'signer_maybe_unblocked: tx_signatures release')
    su_l = bexpr(su, IA, 'signer_maybe_unblocked release')
    if b.count('holder_tx_signatures()') != 1: raise TranslateError('signer_maybe_unblocked: tx_signatures taken in more than one place')
    b = sole(ch, 'monitor_updating_restored')
    one(r'(let mut tx_signatures = self \.context\.monitor_pending_tx_signatures\.then\(\|\| \(\)\)\.and_then\(\|_\| self\.context\.interactive_tx_signing_session\.as_ref\(\)\)\.and_then\(\|signing_session\| signing_session\.holder_tx_signatures\(\)\); self\.context\.monitor_pending_tx_signatures = false;)', b.replace('self.context.monitor_pending_tx_signatures.then', 'self .context.monitor_pending_tx_signatures.then'), 'monitor_updating_restored: tx_signatures take-out')
    rs = one(r'if tx_signatures\.is_some\(\) \{ let signing_session = .*?; if (.*?) \{ tx_signatures\.take\(\); \} else \{', b, 'monitor_updating_restored: signer_pending_funding hold')
    rs_l = bexpr(rs, IA, 'restored tx_signatures hold')
    # ---- maybe_propose_closing_signed --------------------------------------------------------------------
    b = sole(ch, 'maybe_propose_closing_signed')
    pm = re.match(r'^\{ if (.*?) \{ return Ok\(\(None, None\)\); \} if (.*?) \{ if let Some\(msg\) = &self\.context\.pending_counterparty_closing_signed\.take\(\) \{ return self\.closing_signed\(fee_estimator, &msg, logger\); \} return Ok\(\(None, None\)\); \} if (.*?) \{ return Ok\(\(None, None\)\); \} let \(our_min_fee, our_max_fee\) = self\.calculate_closing_fee_limits\(fee_estimator\); assert!\(self\.context\.shutdown_scriptpubkey\.is_some\(\)\); let \(closing_tx, total_fee_satoshis\) = self\.build_closing_transaction\(our_min_fee, false\)\?; (?:log_trace!\([^;]*\); )?let closing_signed = self\.get_closing_signed_msg\( &closing_tx, false, total_fee_satoshis, our_min_fee, our_max_fee, logger, \); Ok\(\(closing_signed, None\)\) \}$', b)
    if not pm: raise TranslateError('maybe_propose_closing_signed changed shape: `%s`' % b[:400])
    PA = {'self.context.last_sent_closing_fee.is_some()': 'last_sent', 'self.closing_negotiation_ready()': 'ready', 'self.funding.is_outbound()': 'is_outbound',
          'self.context.expecting_peer_commitment_signed': 'expecting_cs'}
    p1, p2, p3 = (bexpr(x, PA, 'maybe_propose_closing_signed guard') for x in pm.groups())
    # ---- closing_signed (handler): guards up to the in-progress hold-back -----------------------------------
    b = sole(ch, 'closing_signed')
    CA = {'self.is_shutdown_pending_signature()': 'pending_signature', 'self.context.channel_state.is_both_sides_shutdown()': 'both_shutdown',
          'self.context.channel_state.is_peer_disconnected()': 'peer_disconnected', 'self.context.pending_inbound_htlcs.is_empty()': 'no_inbound_htlcs',
          'self.context.pending_outbound_htlcs.is_empty()': 'no_outbound_htlcs', 'msg.fee_satoshis > TOTAL_BITCOIN_SUPPLY_SATOSHIS': 'fee_too_big',
          'self.funding.is_outbound()': 'is_outbound', 'self.context.last_sent_closing_fee.is_none()': '(!last_sent)',
          'self.context.channel_state.is_monitor_update_in_progress()': 'in_progress'}
    guards, rest = [], b[1:].strip()
    while True:
        g = re.match(r'if (.*?) \{ return Err\(ChannelError::(?:Warn|close)\(.*?\)\); \} ', rest)
        h = re.match(r'if (.*?) \{ self\.context\.pending_counterparty_closing_signed = Some\(msg\.clone\(\)\); return Ok\(\(None, None\)\); \} ', rest)
        if h and (not g or len(h.group(1)) <= len(g.group(1))):
            guards.append((bexpr(h.group(1), CA, 'closing_signed hold-back'), 2)); rest = rest[h.end():]; break
        if not g: raise TranslateError('closing_signed: guard chain changed at `%s`' % rest[:160])
        guards.append((bexpr(g.group(1), CA, 'closing_signed guard'), 1)); rest = rest[g.end():]
    if not rest.startswith('let funding_redeemscript = self.funding.get_funding_redeemscript();') or 'pending_counterparty_closing_signed = Some' in rest:
        raise TranslateError('closing_signed: code after the hold-back changed: `%s`' % rest[:160])
    # ---- timer_check_closing_negotiation_progress ----------------------------------------------------------
    b = sole(ch, 'timer_check_closing_negotiation_progress')
    tm = re.fullmatch(r'\{ if (self\.closing_negotiation_ready\(\)) \{ if (self\.context\.closing_signed_in_flight) \{ return Err\(ChannelError::close\(.*?\)\); \} else \{ self\.context\.closing_signed_in_flight = (true|false); \} \} Ok\(\(\)\) \}', b)
    if not tm: raise TranslateError('timer_check_closing_negotiation_progress changed shape: `%s`' % b[:300])

    # ---- EFFECTS (round 6): which gate flag / field each action WRITES — the plumbing of CloseGate.step ----------------------
    nch = norm(ch)
    one(r'(fn \$set\(&mut self\) \{ match self \{ \$\( ChannelState::\$state\(flags\) => flags\.\$set\(\), \)\* _ => debug_assert!\(false, "[^"]*"\), \} \})', nch, 'impl_state_flag! setter')
    one(r'(fn \$clear\(&mut self\) \{ match self \{ \$\( ChannelState::\$state\(flags\) => \{ let _ = flags\.\$clear\(\); \}, \)\* _ => debug_assert!\(false, "[^"]*"\), \} \})', nch, 'impl_state_flag! clearer')
    GATE_FLAGS = ['peer_disconnected', 'monitor_update_in_progress', 'remote_shutdown_sent', 'local_shutdown_sent']
    GATE_FIELDS = ['last_sent_closing_fee', 'pending_counterparty_closing_signed', 'closing_signed_in_flight']
    W_RE = r'channel_state\s*\.\s*(set|clear)_(%s)\(\)|\.\s*(%s)\s*=(?!=)\s*(None|Some|true|false)\b' % ('|'.join(GATE_FLAGS), '|'.join(GATE_FIELDS))
    def writes_in(text):
        return [('%s_%s' % (m.group(1), m.group(2)) if m.group(1) else '%s=%s' % (m.group(3), m.group(4)), m.start()) for m in re.finditer(W_RE, text)]
    # census over the whole file: (function, write) in text order
    fns = [(m.group(1), m.end()) for m in re.finditer(r'\n\t(?:pub(?:\([a-z]+\))? )?fn (\w+)', ch)]
    census = []
    for w, pos in writes_in(ch):
        owner = [n for n, st in fns if st < pos]
        if not owner: raise TranslateError('write census: `%s` outside any function' % w)
        census.append((owner[-1], w))
    want_census = [('remove_uncommitted_htlcs_and_mark_paused', 'last_sent_closing_fee=None'), ('remove_uncommitted_htlcs_and_mark_paused', 'pending_counterparty_closing_signed=None'),
                   ('remove_uncommitted_htlcs_and_mark_paused', 'set_peer_disconnected'), ('monitor_updating_paused', 'set_monitor_update_in_progress'),
                   ('monitor_updating_restored', 'clear_monitor_update_in_progress'), ('channel_reestablish', 'clear_peer_disconnected'),
                   ('timer_check_closing_negotiation_progress', 'closing_signed_in_flight=true'), ('shutdown', 'set_remote_shutdown_sent'), ('shutdown', 'set_local_shutdown_sent'),
                   ('get_closing_signed_msg', 'last_sent_closing_fee=Some'), ('closing_signed', 'pending_counterparty_closing_signed=Some'), ('get_shutdown', 'set_local_shutdown_sent'),
                   ('write', 'set_peer_disconnected')]
    TRANSLATED_FNS = ['get_shutdown', 'shutdown', 'monitor_updating_paused', 'monitor_updating_restored', 'channel_reestablish', 'remove_uncommitted_htlcs_and_mark_paused']
    extra = [c for c in census if c not in want_census and not (c[0] in TRANSLATED_FNS and '=' not in c[1])]
    if extra: raise TranslateError('write census of the closing-gate flags / fields: new writer(s) %s (pinned list: %s)' % (extra, want_census))
    # (a pinned site that DISAPPEARED is not an error here: it changes the translated *Writes below and breaks the theorems about them)
    def setter(w, arg):
        op, flag = w.split('_', 1)
        return '(%s%s v %s)' % (op, camel(flag)[0].upper() + camel(flag)[1:], arg)
    def chain(ws, where, allowed):
        e = 'f'
        for w, _ in ws:
            if '=' in w: raise TranslateError('%s: unexpected write `%s`' % (where, w))
            e = setter(w, e)
        return e
    # get_shutdown: every write comes after the last refusal
    b = sole(ch, 'get_shutdown')
    ws = writes_in(b)
    if ws and b.rfind('return Err(') > ws[0][1]: raise TranslateError('get_shutdown: a gate flag is written before the last refusal')
    gs_writes = chain(ws, 'get_shutdown', ['local_shutdown_sent'])
    gs_pause = bool(re.search(r'let monitor_update = if update_shutdown_script \{ self\.context\.latest_monitor_update_id \+= 1; let monitor_update = ChannelMonitorUpdate \{[^;]*\}; self\.monitor_updating_paused\( false, false, false, Vec::new\(\), Vec::new\(\), Vec::new\(\), &&logger, \); self\.push_ret_blockable_mon_update\(monitor_update\) \} else \{ None \};', b))
    if not gs_pause: raise TranslateError('get_shutdown: the ShutdownScript update no longer pauses the channel before it is queued')
    # shutdown (the peer's): the chain of refusals, then the writes
    b = sole(ch, 'shutdown')
    EC = r'\{ return Err\(ChannelError::\w+\(.*?\)\); \}'
    sm = re.match(r'^\{ if (.*?) ' + EC + r' let mut not_broadcasted_initial_funding = matches!\(self\.context\.channel_state, ChannelState::(\w+)\(_\)\); if matches!\(self\.context\.channel_state, ChannelState::(\w+)\(_\)\) \{ if let Some\(signing_session\) = self\.context\.interactive_tx_signing_session\.as_ref\(\) \{ if !signing_session\.has_holder_witnesses\(\) \{ not_broadcasted_initial_funding = true; \} \} \} if not_broadcasted_initial_funding ' + EC +
                  r' for htlc in self\.context\.pending_inbound_htlcs\.iter\(\) \{ if let InboundHTLCState::RemoteAnnounced\(_\) = htlc\.state ' + EC + r' \} assert!\(!matches!\(self\.context\.channel_state, ChannelState::ShutdownComplete\)\); if (.*?) ' + EC + ' ', b)
    if not sm: raise TranslateError('shutdown: the chain of refusals changed shape: `%s`' % b[:400])
    if sm.group(2) not in VARIANTS or sm.group(3) not in VARIANTS: raise TranslateError('shutdown: unknown ChannelState variant in the not-yet-broadcast test')
    sh_refused = '(%s) || (v == %d || (v == %d && no_holder_witnesses)) || remote_announced_htlc || (%s) || bad_script' % (
        gcond(sm.group(1), 'shutdown refusal'), VARIANTS.index(sm.group(2)), VARIANTS.index(sm.group(3)), gcond(sm.group(4), 'shutdown refusal'))
    ws = writes_in(b)
    if ws and b.rfind('return Err(') > ws[0][1]: raise TranslateError('shutdown: a gate flag is written before the last refusal')
    sh_writes = chain(ws, 'shutdown', ['remote_shutdown_sent', 'local_shutdown_sent'])
    if not re.search(r'let monitor_update = if update_shutdown_script \{ self\.context\.latest_monitor_update_id \+= 1; let monitor_update = ChannelMonitorUpdate \{[^;]*\}; self\.monitor_updating_paused\( false, false, false, Vec::new\(\), Vec::new\(\), Vec::new\(\), logger, \); self\.push_ret_blockable_mon_update\(monitor_update\) \} else \{ None \};', b):
        raise TranslateError('shutdown: the ShutdownScript update no longer pauses the channel before it is queued')
    # monitor_updating_paused / monitor_updating_restored / channel_reestablish
    pa_writes = chain(writes_in(sole(ch, 'monitor_updating_paused')), 'monitor_updating_paused', ['monitor_update_in_progress'])
    b = sole(ch, 'monitor_updating_restored')
    if not b.startswith('{ assert!(self.context.channel_state.is_monitor_update_in_progress());'): raise TranslateError('monitor_updating_restored no longer starts by asserting MONITOR_UPDATE_IN_PROGRESS')
    re_writes = chain(writes_in(b), 'monitor_updating_restored', ['monitor_update_in_progress'])
    cr_writes = chain(writes_in(sole(ch, 'channel_reestablish')), 'channel_reestablish', ['peer_disconnected'])
    # remove_uncommitted_htlcs_and_mark_paused: early return when already disconnected, then the closing dance is forgotten, then the flag
    b = sole(ch, 'remove_uncommitted_htlcs_and_mark_paused')
    dm = re.match(r'^\{ assert!\(!matches!\(self\.context\.channel_state, ChannelState::ShutdownComplete\)\); if !self\.context\.can_resume_on_reconnect\(\) \{ return Err\(\(\)\) \} self\.context\.sent_message_awaiting_response = None; if (.*?) \{ return Ok\(\(\)\); \} ', b)
    if not dm: raise TranslateError('remove_uncommitted_htlcs_and_mark_paused: the early returns changed shape: `%s`' % b[:300])
    dis_noop = gcond(dm.group(1), 'remove_uncommitted_htlcs_and_mark_paused early return')
    ws = writes_in(b)
    if any(pos < dm.end() for _, pos in ws) or re.search(r'\breturn\b', b[dm.end():]):
        raise TranslateError('remove_uncommitted_htlcs_and_mark_paused: a write before the early return / a return after it')
    dis_fields = {w.split('=')[0]: w.split('=')[1] for w, _ in ws if '=' in w}
    for fld in ('last_sent_closing_fee', 'pending_counterparty_closing_signed'):
        if dis_fields.get(fld, 'kept') not in ('None', 'kept'): raise TranslateError('remove_uncommitted_htlcs_and_mark_paused: %s = %s' % (fld, dis_fields[fld]))
    dis_writes = chain([x for x in ws if '=' not in x[0]], 'remove_uncommitted_htlcs_and_mark_paused', ['peer_disconnected'])
    keep = lambda fld, var: 'false' if dis_fields.get(fld) == 'None' else var

    fields = list(funded) + [f for t in ('AwaitingChannelReadyFlags', 'ChannelReadyFlags', 'NegotiatingFundingFlags') for f in types[t][0]]
    vcode = {v: i for i, v in enumerate(VARIANTS)}
    L = ['/- GENERATED by tools/gen_closegate.py from lightning/src/ln/channel.rs — do not edit. -/',
         'set_option linter.unusedVariables false', 'namespace Ldk.CloseGate.Gen', '',
         '/-- mod state_flags: bit position of every constant -/',
         'def bitOf : List (String × Nat) := [' + ', '.join('("%s", %d)' % (n, b) for n, b in bits.items()) + ']', '',
         '/-- every flag a ChannelState variant can carry (define_state_flags!), one Bool each -/',
         'structure Flags where'] + ['  %s : Bool' % camel(f) for f in fields] + ['  deriving Repr, DecidableEq, Inhabited', '',
         'def Flags.none : Flags := { ' + ', '.join('%s := false' % camel(f) for f in fields) + ' }', '',
         '-- ChannelState variants: ' + ', '.join('%d = %s' % (i, v) for i, v in enumerate(VARIANTS))]
    L += ['/-- ChannelState::from_u32 (hand-decoded along the pinned shape): SHUTDOWN_COMPLETE alone, else the first variant bit in the order',
          '    FUNDING_NEGOTIATED, AWAITING_CHANNEL_READY, CHANNEL_READY, else NegotiatingFunding; rejected when a bit outside the variant\'s ALL is set -/',
          'def decode (u : Nat) : Option (Nat × Flags) :=',
          '  let b := fun (k : Nat) => u.testBit k',
          '  let mk := fun (v : Nat) (allowed : Nat) (vbit : Nat) =>',
          '    if (u - vbit) &&& allowed == (u - vbit) then some (v, ({ ' + ', '.join('%s := (allowed.testBit %d && b %d)' % (camel(f), bits[f], bits[f]) for f in fields) + ' } : Flags)) else none',
          '  if u == %d then some (%d, Flags.none)' % (1 << bits['SHUTDOWN_COMPLETE'], vcode['ShutdownComplete'])]
    for const, t, v in [('FUNDING_NEGOTIATED', 'FundingNegotiatedFlags', 'FundingNegotiated'), ('AWAITING_CHANNEL_READY', 'AwaitingChannelReadyFlags', 'AwaitingChannelReady'), ('CHANNEL_READY', 'ChannelReadyFlags', 'ChannelReady')]:
        L.append('  else if b %d then mk %d %d %d' % (bits[const], vcode[v], sum(1 << bits[f] for f in ALL[t]), 1 << bits[const]))
    L += ['  else mk 0 %d 0' % sum(1 << bits[f] for f in ALL['NegotiatingFundingFlags']), '']
    for g, (flag, vs) in sorted(getters.items()):
        L += ['/-- ChannelState::%s (impl_state_flag!: %s) -/' % (g, ', '.join(vs)),
              'def %s (v : Nat) (f : Flags) : Bool := (%s) && f.%s' % (camel(g), ' || '.join('v == %d' % vcode[x] for x in vs), camel(flag))]
    L += ['/-- ChannelState::is_both_sides_shutdown -/',
          'def isBothSidesShutdown (v : Nat) (f : Flags) : Bool := %s' % ' && '.join('%s v f' % camel(g) for g in both), '',
          '/-- ChannelContext::closing_negotiation_ready, `is_ready_to_close`: one line per match arm; a flag inside the compared domain',
          '    that the right-hand side does not name must be clear -/',
          'def closingReadyState (v : Nat) (f : Flags) : Bool :=', '  match v with']
    for v in VARIANTS:
        if v in arms: L.append('  | %d => %s' % (vcode[v], arms[v]))
    if default is not None: L.append('  | _ => %s' % default)
    elif len(arms) == len(VARIANTS): L.append('  | _ => false')
    L += ['/-- ChannelState::can_generate_new_commitment: the gate of every send-side commitment update (consulted by ' + ', '.join(want_users) + ') -/',
          'def canGenerateNewCommitment (v : Nat) (f : Flags) : Bool :=', '  match v with', '  | %d => %s' % (vcode['ChannelReady'], can_gen), '  | _ => false']
    L += ['/-- … and its result -/',
          'def closingReady (no_inbound_htlcs no_outbound_htlcs no_pending_update_fee is_ready_to_close : Bool) : Bool := %s' % fin_l, '',
          '/-- FundedChannel::maybe_propose_closing_signed, the early returns in order: 0 = nothing, 1 = the first closing_signed is built and',
          '    released, 2 = the parked counterparty closing_signed is handed to `closing_signed` -/',
          'def proposeGate (last_sent ready is_outbound expecting_cs parked : Bool) : Nat :=',
          '  if %s then 0 else if %s then (if parked then 2 else 0) else if %s then 0 else 1' % (p1, p2, p3), '',
          '/-- splice_initial_commitment_signed: the update recording the counterparty\'s initial post-splice commitment pauses the channel and sets monitor_pending_tx_signatures -/',
          'def spliceCsMarksTxSignaturesPending : Bool := %s' % sp.group(1),
          '/-- FundedChannel::tx_signatures: our tx_signatures are NOT put into the answer iff -/',
          'def txSignaturesHeld (awaiting_monitor_update monitor_pending_tx_signatures signer_pending_funding : Bool) : Bool := %s' % tx_held,
          '/-- signer_maybe_unblocked: our tx_signatures are released iff -/',
          'def signerUnblockReleasesTxSignatures (awaiting_monitor_update signer_pending_funding : Bool) : Bool := %s' % su_l,
          '/-- monitor_updating_restored: the tx_signatures owed (monitor_pending_tx_signatures, cleared) are still withheld iff -/',
          'def restoredWithholdsTxSignatures (signer_pending_funding : Bool) : Bool := %s' % rs_l, '',
          '/-- FundedChannel::get_shutdown: it refuses (nothing is changed, no shutdown is sent, no ShutdownScript update is generated) iff — the',
          '    guards in order: stfu / quiescent, an outbound HTLC still LocalAnnounced, shutdown already sent / received, script override conflict,',
          '    peer disconnected or a monitor update in progress -/',
          'def getShutdownRefused (v : Nat) (f : Flags) (local_announced_htlc script_set override_given : Bool) : Bool :=',
          '  (%s) || local_announced_htlc || (%s) || (%s) || (%s) || (%s)' % tuple(gs), '',
          '/-- FundedChannel::closing_signed, the guards in order: 1 = refused (error / warning), 2 = parked in pending_counterparty_closing_signed',
          '    (nothing is answered), 0 = processed (a closing_signed / the closing transaction may be released) -/',
          'def closingSignedGate (pending_signature both_shutdown peer_disconnected no_inbound_htlcs no_outbound_htlcs fee_too_big is_outbound last_sent in_progress : Bool) : Nat :=',
          '  ' + ' '.join('if %s then %d else' % g for g in guards) + ' 0', '',
          '/-- FundedChannel::timer_check_closing_negotiation_progress: (force-close error, new closing_signed_in_flight) -/',
          'def timerGate (ready in_flight : Bool) : Bool × Bool :=',
          '  if ready then (if in_flight then (true, in_flight) else (false, %s)) else (false, in_flight)' % tm.group(3), '',
          ]

    fv = ['FundingNegotiated', 'AwaitingChannelReady', 'ChannelReady']
    L += ['/-! ## EFFECTS: what each action writes (round 6). The setters / clearers of `impl_state_flag!` act only in the variants that carry the flag. -/']
    for flg in GATE_FLAGS:
        g = 'is_' + flg
        if g not in getters: raise TranslateError('no impl_state_flag! for %s' % g)
        cond = ' || '.join('v == %d' % vcode[x] for x in getters[g][1])
        C = camel(flg)[0].upper() + camel(flg)[1:]
        L += ['def set%s (v : Nat) (f : Flags) : Flags := if %s then { f with %s := true } else f' % (C, cond, camel(getters[g][0])),
              'def clear%s (v : Nat) (f : Flags) : Flags := if %s then { f with %s := false } else f' % (C, cond, camel(getters[g][0]))]
    L += ['/-- WRITE CENSUS (pinned): every place of channel.rs that writes PEER_DISCONNECTED / MONITOR_UPDATE_IN_PROGRESS / the two SHUTDOWN_SENT flags,',
          '    last_sent_closing_fee, pending_counterparty_closing_signed or closing_signed_in_flight, in text order -/',
          'def gateWriteSites : List (String × String) := [' + ', '.join('("%s", "%s")' % c for c in census) + ']',
          '/-- FundedChannel::get_shutdown past its refusals (every write follows the last `return Err`) -/',
          'def getShutdownWrites (v : Nat) (f : Flags) : Flags := %s' % gs_writes,
          '/-- FundedChannel::shutdown (the peer\'s shutdown) refuses, before anything is written, iff — peer disconnected, funding not yet broadcast',
          '    (NegotiatingFunding, or FundingNegotiated with a signing session that lacks our witnesses), an inbound HTLC still RemoteAnnounced,',
          '    stfu / quiescent, a non-compliant or changed script.  NOT among the refusals: a monitor update in flight (the ShutdownScript update queues). -/',
          'def shutdownRefused (v : Nat) (f : Flags) (no_holder_witnesses remote_announced_htlc bad_script : Bool) : Bool :=', '  ' + sh_refused,
          '/-- … and what it writes past "From here on out, we may not fail!" -/',
          'def shutdownWrites (v : Nat) (f : Flags) : Flags := %s' % sh_writes,
          '/-- monitor_updating_paused / monitor_updating_restored / channel_reestablish -/',
          'def pausedWrites (v : Nat) (f : Flags) : Flags := %s' % pa_writes,
          'def restoredWrites (v : Nat) (f : Flags) : Flags := %s' % re_writes,
          'def reestablishWrites (v : Nat) (f : Flags) : Flags := %s' % cr_writes,
          '/-- remove_uncommitted_htlcs_and_mark_paused: nothing is touched when (early return) -/',
          'def disconnectNoop (v : Nat) (f : Flags) : Bool := %s' % dis_noop,
          '/-- … otherwise: last_sent_closing_fee.is_some(), pending_counterparty_closing_signed.is_some() afterwards ("start the closing_signed dance over"), and the flag -/',
          'def disconnectLastSent (last_sent : Bool) : Bool := %s' % keep('last_sent_closing_fee', 'last_sent'),
          'def disconnectParked (parked : Bool) : Bool := %s' % keep('pending_counterparty_closing_signed', 'parked'),
          'def disconnectWrites (v : Nat) (f : Flags) : Flags := %s' % dis_writes, '']
    L += ['end Ldk.CloseGate.Gen', '']
    text = '\n'.join(L)
    old = open(OUT).read() if os.path.exists(OUT) else None
    if old != text:
        os.makedirs(os.path.dirname(OUT), exist_ok=True)
        open(OUT, 'w').write(text); print('wrote', os.path.normpath(OUT))
    else: print('unchanged', os.path.normpath(OUT))

if __name__ == '__main__':
    try: main()
    except TranslateError as e:
        print('TRANSLATE-ERROR gen_closegate: %s' % e); sys.exit(2)
