#!/bin/bash
# usage: confirm_seeded.sh <seed-id> <dir with patch.diff + demo.diff> "<demo test filter(s)>"
# Confirms in the scratch worktree /tmp/confirm: demo passes pristine, fails with the patch, and the
# whole `lightning` lib suite (minus the demo) still passes with the patch. Writes <dir>/confirm.log.
set -u
ID=$1; DIR=$2; FILTERS=$3
PKGARGS=${PKGARGS:-"-p lightning --lib"}   # e.g. PKGARGS="-p lightning-invoice" for a demo in another crate
W=/tmp/confirm
[ -d $W ] || git -C /repo worktree add -q $W HEAD
cd $W && git checkout -q -- . && git clean -fdq -e target
git checkout -q --detach $(git -C /repo rev-parse HEAD)
LOG=$DIR/confirm.log; : > $LOG
git apply $DIR/demo.diff || { echo "demo.diff does not apply" >> $LOG; exit 1; }
export CARGO_BUILD_JOBS=8
run_demo() { cargo test --offline $PKGARGS -- --test-threads 6 $FILTERS 2>&1 | grep -E "^test result|^test .* (ok|FAILED)$" ; }
echo "== pristine + demo" >> $LOG; run_demo >> $LOG
git apply $DIR/patch.diff || { echo "patch.diff does not apply" >> $LOG; exit 1; }
echo "== patched + demo" >> $LOG; run_demo >> $LOG
echo "== patched, whole suite ($PKGARGS) except the demo" >> $LOG
SKIPS=""; for f in $FILTERS; do SKIPS="$SKIPS --skip $f"; done
cargo test --offline $PKGARGS --no-fail-fast -- --test-threads 8 $SKIPS 2>&1 | grep -E "^test result|FAILED" >> $LOG
git checkout -q -- . && git clean -fdq -e target
echo "== done $ID" >> $LOG
