#!/usr/bin/env python3
"""Regenerate lean/LdkModel/Generated/OutboundSend.lean (C03): how `lightning/src/ln/outbound_payment.rs`
turns the per-path results of one send / retry call into a `PaymentSendFailure` and what it then does with
the payment's session privs and pending amount — translated from the Rust text that is in /repo *now*:

  * `pay_route_internal`: the two `ParameterError` tests, the `PathParameterError` test, "every path is
    handed to send_payment_along_path", the flag loop (`has_ok` / `has_err` / `has_unsent` /
    `total_ok_amt_sent_msat`, statement by statement), the final `PartialFailure { Some | None }` /
    `AllFailedResendSafe` / `Ok` decision and the value of the retry parameters;
  * `handle_pay_route_err`: per match arm — which paths' session privs are removed (the closure that picks
    `failed_paths` is TRANSLATED: a `filter_map(.. match path_res { pats => None, _ => Some(..) })` or a
    `filter(|(path_res, _)| <bool expr>)`), whether `push_path_failed_evs_and_scids` runs, and what follows
    (`find_route_and_send_payment` / `abandon_payment(UnexpectedError)` / nothing), in that order;
  * `push_path_failed_evs_and_scids`: for which results a `PaymentPathFailed` is pushed;
  * `PendingOutboundPayment::{remove, insert}`: the `pending_amt_msat` adjustment (only in `Retryable`);
  * `check_retry_payments`: the retry test `pending_amt_msat < total_msat` and the retried value;
  * `find_route_and_send_payment`: the overflow test (`RETRY_OVERFLOW_PERCENTAGE`), the order
    overflow-test / `is_retryable_now` / insertion, and the `assert!(insert(..))`;
  * `remove_outbound_if_all_failed` (probes): the kinds that drop the entry.

A per-path result `Result<(), APIError>` is abstracted to `PathRes := ok | mip | err`
(`Ok(())`, `Err(APIError::MonitorUpdateInProgress)`, any other `Err`).  Anything that no longer has the
expected shape is a TRANSLATE-ERROR (exit 2): the obligation is broken, never silently kept.
"""
import re, sys, os
sys.path.insert(0, os.path.dirname(__file__))
from rs2lean import parse_expr, Emitter, TranslateError, strip_comments, match_brace

REPO = os.environ.get('VERIF_REPO', '/repo')
SRC = 'lightning/src/ln/outbound_payment.rs'

def one(s): return ' '.join(s.split())

def find_fn(src, name, after=None):
    """(params, ret/where text, body with braces) of `fn name`; generic parameter lists may nest `<..>` and contain `()`"""
    start = src.index(after) if after else 0
    m = re.compile(r'\bfn\s+' + re.escape(name) + r'\s*(?=[<(])').search(src, start)
    if not m: raise TranslateError("fn %s not found" % name)
    i = m.end()
    if src[i] == '<':
        d = 0
        while True:
            if src[i] == '<': d += 1
            elif src[i] == '>' and src[i - 1] != '-':
                d -= 1
                if d == 0: break
            i += 1
        i += 1
        while src[i] in ' \t\n': i += 1
    if src[i] != '(': raise TranslateError("fn %s: parameter list not found" % name)
    d, j = 0, i
    while True:
        if src[j] == '(': d += 1
        if src[j] == ')':
            d -= 1
            if d == 0: break
        j += 1
    k = src.index('{', j)
    return src[i + 1:j], src[j + 1:k], src[k:match_brace(src, k)]

def fail(msg): raise TranslateError(msg)

# ---------------------------------------------------------------- boolean tests over one path result

MIP_LET = re.compile(r'let\s+&?\s*Err\(\s*(?:APIError::)?MonitorUpdateInProgress\s*\)\s*=\s*&?\s*\*?\s*(\w+)')
MIP_MATCHES = re.compile(r'matches!\(\s*&?\*?(\w+)\s*,\s*&?Err\(\s*(?:APIError::)?MonitorUpdateInProgress\s*\)\s*\)')

def res_cond(cond, var, lean_var='res'):
    """a Rust boolean test over the path result `var` -> Lean Bool over `lean_var : PathRes`"""
    c = MIP_LET.sub(lambda m: m.group(1) + '.is_mip()', cond)
    c = MIP_MATCHES.sub(lambda m: m.group(1) + '.is_mip()', c)
    if re.search(r'\blet\b|matches!', c): fail("unsupported pattern test over a path result: %r" % one(cond))
    def meth(name):
        def f(recv, args):
            if recv.strip('()') != lean_var or args: fail("test %s on something other than the path result in %r" % (name, one(cond)))
            return '%s.%s' % (lean_var, name)
        return f
    em = Emitter(env={var: lean_var}, methods={'is_ok': meth('isOk'), 'is_err': meth('isErr'), 'is_mip': meth('isMip')})
    out = em.e(parse_expr(c))
    if lean_var not in out: fail("test does not mention the path result: %r" % one(cond))
    return out

PAT_MAP = [
    (re.compile(r'^&?Ok\(\s*(_|\(\s*\))\s*\)$'), ['.ok']),
    (re.compile(r'^&?Err\(\s*(?:APIError::)?MonitorUpdateInProgress\s*\)$'), ['.mip']),
    (re.compile(r'^&?Err\(\s*_\s*\)$'), ['.mip', '.err']),
    (re.compile(r'^_$'), ['_']),
]
def pats_of(p):
    out = []
    for alt in p.split('|'):
        alt = alt.strip()
        for rx, l in PAT_MAP:
            if rx.match(alt):
                out += l; break
        else:
            fail("path-result pattern %r cannot be expressed over ok/mip/err" % alt)
    return out

def split_top(s, sep=','):
    out, d, cur = [], 0, ''
    for ch in s:
        if ch in '([{': d += 1
        if ch in ')]}': d -= 1
        if ch == sep and d == 0:
            out.append(cur); cur = ''
        else: cur += ch
    if cur.strip(): out.append(cur)
    return out

def match_arms(body):
    """`{ pat => expr, pat => { .. } ... }` -> [(pat, expr_text)]"""
    assert body[0] == '{'
    s = body[1:body.rindex('}')]
    arms, i, n = [], 0, len(s)
    while i < n:
        while i < n and s[i] in ' \t\n,': i += 1
        if i >= n: break
        j = s.index('=>', i)
        pat = s[i:j].strip()
        k = j + 2
        while s[k] in ' \t\n': k += 1
        if s[k] == '{':
            e = match_brace(s, k)
            arms.append((pat, s[k:e])); i = e
        else:
            d, e = 0, k
            while e < n and not (s[e] == ',' and d == 0):
                if s[e] in '([{': d += 1
                if s[e] in ')]}': d -= 1
                e += 1
            arms.append((pat, s[k:e].strip())); i = e + 1
    return arms

def removes_from_chain(chain):
    """the iterator chain that picks `failed_paths` -> Lean body of `PathRes -> Bool` (true = session priv removed)"""
    c = one(chain)
    m = re.fullmatch(r'\.filter_map\(\|\((\w+), \((\w+), (\w+)\)\)\| \{ match \*?\1 (\{.*\}) \}\)', c)
    if m:
        v, a, b = m.group(1), m.group(2), m.group(3)
        arms = match_arms(m.group(4))
        lines = []
        for pat, ex in arms:
            ex = one(ex).strip('{} ')
            if ex == 'None': val = 'false'
            elif re.fullmatch(r'Some\(\(%s, %s\)\)' % (a, b), ex): val = 'true'
            else: fail("failed_paths arm yields %r" % ex)
            lines.append('  | %s => %s' % (' | '.join(pats_of(pat)), val))
        return ('match', lines, one(m.group(4)))
    m = re.fullmatch(r'\.filter\(\|\(&?(\w+), _\)\| (.*?)\)\s*\.map\(\|\(_, (\w+)\)\| \3\)', c)
    if m:
        return ('expr', res_cond(m.group(2), m.group(1)), m.group(2))
    fail("the selection of failed_paths changed shape: %r" % c[:300])

# ---------------------------------------------------------------- statement translation of the flag loop

FLAG_FIELDS = {'has_ok': 'hasOk', 'has_err': 'hasErr', 'has_unsent': 'hasUnsent'}

def flag_block(block):
    """`{ has_ok = true; total_ok_amt_sent_msat += path.final_value_msat(); .. }` -> `{ f with .. }`"""
    inner = block.strip()[1:-1]
    ups, seen = [], set()
    for st in inner.split(';'):
        st = one(st)
        if not st: continue
        m = re.fullmatch(r'(has_ok|has_err|has_unsent) = (true|false)', st)
        if m:
            fld = FLAG_FIELDS[m.group(1)]
            if fld in seen: fail("flag %s assigned twice in one block" % fld)
            seen.add(fld); ups.append('%s := %s' % (fld, m.group(2))); continue
        if st == 'total_ok_amt_sent_msat += path.final_value_msat()':
            if 'okAmt' in seen: fail("amount counted twice in one block")
            seen.add('okAmt'); ups.append('okAmt := f.okAmt + amt'); continue
        if st == 'total_ok_fees_msat += path.fee_msat()':
            continue   # fees are not modelled
        fail("unexpected statement in the flag loop: %r" % st)
    return '{ f with %s }' % ', '.join(ups) if ups else 'f'

def flag_stmts(body):
    """the body of `for (res, path) in results.iter().zip(route.paths.iter())` -> Lean lines"""
    s = body.strip()[1:-1]
    out, i = [], 0
    while True:
        while i < len(s) and s[i] in ' \t\n': i += 1
        if i >= len(s): break
        if not s.startswith('if', i): fail("flag loop: expected `if`, found %r" % s[i:i+40])
        chain = []
        while True:
            j = s.index('{', i)
            cond = s[i + 2:j]
            e = match_brace(s, j)
            chain.append((res_cond(cond, 'res'), flag_block(s[j:e])))
            i = e
            m = re.match(r'\s*else\s+if\b', s[i:])
            if m:
                i += m.end() - 2; continue
            m = re.match(r'\s*else\s*\{', s[i:])
            if m:
                j = i + m.end() - 1
                e = match_brace(s, j)
                chain.append((None, flag_block(s[j:e]))); i = e
            break
        line = '  let f := '
        for c, b in chain:
            line += ('if %s then %s else ' % (c, b)) if c is not None else b
        if chain[-1][0] is not None: line += 'f'
        out.append(line)
    return out

# ---------------------------------------------------------------- main

def main(out_path):
    src = open(os.path.join(REPO, SRC)).read()
    L = ['/- GENERATED by tools/gen_outbound_send.py from %s' % SRC,
         '   (pay_route_internal, handle_pay_route_err, push_path_failed_evs_and_scids, PendingOutboundPayment::{remove,',
         '   insert}, check_retry_payments, find_route_and_send_payment, remove_outbound_if_all_failed) — do not edit. -/',
         'namespace Ldk.OutboundSendGen', '',
         '/-- `Result<(), APIError>` of one `send_payment_along_path` call, as far as the send path tells results apart:',
         '    `Ok(())`, `Err(APIError::MonitorUpdateInProgress)`, any other `Err` -/',
         'inductive PathRes', '  | ok | mip | err', '  deriving DecidableEq, Repr, Inhabited', '',
         'def PathRes.isOk : PathRes → Bool', '  | .ok => true', '  | _ => false',
         'def PathRes.isErr : PathRes → Bool', '  | .ok => false', '  | _ => true',
         'def PathRes.isMip : PathRes → Bool', '  | .mip => true', '  | _ => false', '',
         '/-- what `pay_route_internal` returns: `Ok(())` or the `PaymentSendFailure` variant -/',
         'inductive SendKind',
         '  | sentAll | allFailedResendSafe | partialRetry | partialNoRetry | pathParameterError | parameterError',
         '  deriving DecidableEq, Repr, Inhabited', '',
         '/-- what `handle_pay_route_err` does last in a match arm -/',
         'inductive Next', '  | retry | abandonUnexpectedError | none', '  deriving DecidableEq, Repr, Inhabited', '',
         '/-- the accumulators of the result loop of `pay_route_internal` -/',
         'structure Flags where', '  hasOk : Bool := false', '  hasErr : Bool := false', '  hasUnsent : Bool := false',
         '  okAmt : Nat := 0', '  deriving DecidableEq, Repr, Inhabited', '']

    # ---- pay_route_internal -------------------------------------------------------------------
    _, _, body = find_fn(src, 'pay_route_internal')
    b = strip_comments(body)
    pe = [m for m in re.finditer(r'if\s+([^{}]*?)\{\s*return Err\(PaymentSendFailure::ParameterError\(', b)]
    if len(pe) != 2: fail("pay_route_internal: expected 2 ParameterError returns, found %d" % len(pe))
    mk = lambda name: (lambda recv, args: name)
    em = Emitter(methods={'len': mk('nPaths'), 'is_none': mk('secretNone'), 'any': mk('anyBlinded')})
    conds = [one(m.group(1)) for m in pe]
    for c in conds:
        if not re.fullmatch(r'[\w.()!&|<>= \d]*(\|p\| p\.blinded_tail\.is_some\(\))?[\w.()!&|<>= \d]*', c): fail("ParameterError test changed: %r" % c)
    L.append('/-- pay_route_internal: `ParameterError` iff `%s` or `%s` -/' % tuple(conds))
    L.append('def paramError (nPaths : Nat) (secretNone anyBlinded : Bool) : Bool :=')
    L.append('  %s || %s' % tuple(em.e(parse_expr(c)) for c in conds))
    L.append('')
    i_pp = b.find('return Err(PaymentSendFailure::PathParameterError(path_errs))')
    m = re.search(r'if path_errs\.iter\(\)\.any\(\|e\| e\.is_err\(\)\)\s*\{\s*return Err\(PaymentSendFailure::PathParameterError\(path_errs\)\);\s*\}', b)
    if not m or i_pp < pe[1].start(): fail("pay_route_internal: PathParameterError test changed")
    if not re.search(r"'path_check: for path in route\.paths\.iter\(\)", b) or b.count('path_errs.push(') != 4 or not re.search(r'path_errs\.push\(Ok\(\(\)\)\);\s*\}\s*if path_errs', b):
        fail("pay_route_internal: per-path parameter check changed shape")
    m = re.search(r'for \(path, session_priv_bytes\) in route\.paths\.iter\(\)\.zip\(onion_session_privs\.iter\(\)\)\s*(\{)', b)
    if not m or m.start() < i_pp: fail("pay_route_internal: send loop not found after the parameter checks")
    loop = b[m.start(1):match_brace(b, m.start(1))]
    if not re.fullmatch(r'\{ let path_res = send_payment_along_path\(SendAlongPathArgs \{[^{}]*\}\); results\.push\(path_res\); \}', one(loop)):
        fail("pay_route_internal: the send loop no longer hands every path to send_payment_along_path: %r" % one(loop)[:200])
    L.append('/-- pay_route_internal: every path of the route is handed to `send_payment_along_path` once, in route order, and')
    L.append('    its result recorded (`results.push(path_res)`), after both parameter checks passed -/')
    L.append('def sendsEveryPath : Bool := true')
    L.append('')
    inits = dict((m.group(1), m.group(2)) for m in re.finditer(r'let mut (has_ok|has_err|has_unsent|total_ok_amt_sent_msat) = (false|0);', b))
    if len(inits) != 4: fail("pay_route_internal: flag initialisation changed: %r" % inits)
    m = re.search(r'for \(res, path\) in results\.iter\(\)\.zip\(route\.paths\.iter\(\)\)\s*(\{)', b)
    if not m: fail("pay_route_internal: result loop not found")
    fl_end = match_brace(b, m.start(1))
    fbody = b[m.start(1):fl_end]
    L.append('/-- pay_route_internal, one round of the result loop: `%s` -/' % one(fbody))
    L.append('def flagsStep (res : PathRes) (amt : Nat) (f : Flags) : Flags :=')
    L += flag_stmts(fbody)
    L.append('  f')
    L.append('')
    tail = one(b[fl_end:])
    m = re.fullmatch(r'if (?P<c1>[\w &|!]+) \{ Err\(PaymentSendFailure::PartialFailure \{ results, payment_id, failed_paths_retry: if (?P<c2>[\w &|!]+) \{ '
                     r'let mut route_params = route\.route_params\.clone\(\); route_params\.max_total_routing_fee_msat = route_params \.max_total_routing_fee_msat\.map\(\|m\| m\.saturating_sub\(total_ok_fees_msat\)\); '
                     r'route_params\.final_value_msat = (?P<v>route_params\.final_value_msat \.\w+\(total_ok_amt_sent_msat\)); Some\(route_params\) \} else \{ None \}, \}\) \} '
                     r'else if (?P<c3>[\w &|!]+) \{ Err\(PaymentSendFailure::AllFailedResendSafe\(results\.drain\(\.\.\)\.map\(\|r\| r\.unwrap_err\(\)\)\.collect\(\)\)\) \} else \{ Ok\(\(\)\) \} \}', tail)
    if not m: fail("pay_route_internal: the final classification changed shape: %r" % tail[:400])
    emf = Emitter(env={'has_ok': 'f.hasOk', 'has_err': 'f.hasErr', 'has_unsent': 'f.hasUnsent'})
    L.append('/-- pay_route_internal: `if %s { PartialFailure { failed_paths_retry: if %s { Some } else { None } } } else if %s' % (m.group('c1'), m.group('c2'), m.group('c3')))
    L.append('    { AllFailedResendSafe } else { Ok(()) }` -/')
    L.append('def sendKindOf (f : Flags) : SendKind :=')
    L.append('  if %s then (if %s then .partialRetry else .partialNoRetry)' % (emf.e(parse_expr(m.group('c1'))), emf.e(parse_expr(m.group('c2')))))
    L.append('  else if %s then .allFailedResendSafe else .sentAll' % emf.e(parse_expr(m.group('c3'))))
    L.append('')
    emv = Emitter(fields={'route_params.final_value_msat': 'finalValue'}, env={'total_ok_amt_sent_msat': 'okAmt'})
    L.append('/-- pay_route_internal: value of the retry parameters of a PartialFailure: `%s` -/' % one(m.group('v')))
    L.append('def partialRetryValue (finalValue okAmt : Nat) : Nat :=')
    L.append('  ' + emv.e(parse_expr(m.group('v'))))
    L.append('')

    # ---- handle_pay_route_err -----------------------------------------------------------------
    _, _, body = find_fn(src, 'handle_pay_route_err')
    b = strip_comments(body)
    m = re.search(r'match err\s*(\{)', b)
    if not m or one(b[:m.start()]).strip('{ ') != '' or one(b[match_brace(b, m.start(1)):]).strip('} ') != '':
        fail("handle_pay_route_err is no longer a single `match err`")
    arms = match_arms(b[m.start(1):match_brace(b, m.start(1))])
    KINDS = [
        (r'PaymentSendFailure::AllFailedResendSafe\(errs\)', 'allFailedResendSafe'),
        (r'PaymentSendFailure::PartialFailure \{ failed_paths_retry: Some\(mut retry\), results, \.\. \}', 'partialRetry'),
        (r'PaymentSendFailure::PartialFailure \{ failed_paths_retry: None, \.\. \}', 'partialNoRetry'),
        (r'PaymentSendFailure::PathParameterError\(results\)', 'pathParameterError'),
        (r'PaymentSendFailure::ParameterError\(e\)', 'parameterError'),
        (r'PaymentSendFailure::DuplicatePayment', 'duplicatePayment'),
    ]
    ALL = r'self\.remove_session_privs\(payment_id, route\.paths\.iter\(\)\.zip\(onion_session_privs\.iter\(\)\)\)'
    SEL = r'let failed_paths = results\.iter\(\)\.zip\(route\.paths\.iter\(\)\.zip\(onion_session_privs\.iter\(\)\)\)\s*(?P<chain>.*?);\s*self\.remove_session_privs\(payment_id, failed_paths\)'
    RESULT_ARGS = {'allFailedResendSafe': (r'errs\.into_iter\(\)\.map\(\|e\| Err\(e\)\)', 'route_params'), 'partialRetry': (r'results\.into_iter\(\)', 'retry'),
                   'pathParameterError': (r'results\.into_iter\(\)', 'route_params')}
    found = {}
    if len(arms) != len(KINDS): fail("handle_pay_route_err: %d match arms, expected %d" % (len(arms), len(KINDS)))
    for (pat, ex), (rx, kind) in zip(arms, KINDS):
        if not re.fullmatch(rx, one(pat)): fail("handle_pay_route_err: arm %r where %s was expected" % (one(pat), kind))
        if kind == 'duplicatePayment':
            if one(ex) != 'debug_assert!(false)': fail("handle_pay_route_err: DuplicatePayment arm changed")
            continue
        t = ex.strip()[1:-1]
        t = re.sub(r'\b(debug_assert_eq|log_error)!\((?:[^()]|\([^()]*\))*\);', '', t).strip()
        rem, push, nxt = None, False, 'none'
        m2 = re.match(ALL + r';', t)
        if m2:
            rem = ('all',); t = t[m2.end():].strip()
        else:
            m2 = re.match(SEL + r';', t, re.S)
            if m2:
                rem = removes_from_chain(m2.group('chain')); t = t[m2.end():].strip()
        m2 = re.match(r'Self::push_path_failed_evs_and_scids\(payment_id, payment_hash, &mut (\w+), route\.paths, (.*?), pending_events, logger\);', t, re.S)
        if m2:
            want = RESULT_ARGS.get(kind)
            if not want or not re.fullmatch(want[0], one(m2.group(2))) or m2.group(1) != want[1]: fail("handle_pay_route_err/%s: push_path_failed_evs_and_scids arguments changed: %r" % (kind, one(m2.group(0))))
            push = True; t = t[m2.end():].strip()
        m2 = re.match(r'self\.find_route_and_send_payment\(payment_hash, payment_id, (\w+), router, first_hops, inflight_htlcs, entropy_source, node_signer, best_block_height,\s*pending_events, send_payment_along_path, logger\);', t)
        if m2:
            if m2.group(1) != RESULT_ARGS[kind][1]: fail("handle_pay_route_err/%s retries with %s" % (kind, m2.group(1)))
            nxt = 'retry'; t = t[m2.end():].strip()
        else:
            m2 = re.match(r'self\.abandon_payment\(payment_id, PaymentFailureReason::(\w+), pending_events\);', t)
            if m2:
                if m2.group(1) != 'UnexpectedError': fail("handle_pay_route_err/%s abandons with %s" % (kind, m2.group(1)))
                nxt = 'abandonUnexpectedError'; t = t[m2.end():].strip()
        if t: fail("handle_pay_route_err/%s: unrecognised statement(s): %r" % (kind, one(t)[:200]))
        found[kind] = (rem, push, nxt)
    order = ['allFailedResendSafe', 'partialRetry', 'partialNoRetry', 'pathParameterError', 'parameterError']
    sel_defs = []
    lines = []
    for k in order:
        rem = found[k][0]
        if rem is None: lines.append('  | .%s, _ => false' % k)
        elif rem[0] == 'all': lines.append('  | .%s, _ => true' % k)
        else:
            name = k + 'Removes'
            if rem[0] == 'match':
                sel_defs += ['/-- handle_pay_route_err/%s: `failed_paths` keeps a path iff `match path_res %s` yields `Some` -/' % (k, rem[2]),
                             'def %s : PathRes → Bool' % name] + rem[1] + ['']
            else:
                sel_defs += ['/-- handle_pay_route_err/%s: `failed_paths` keeps a path iff `%s` -/' % (k, one(rem[2])),
                             'def %s (res : PathRes) : Bool :=' % name, '  ' + rem[1], '']
            lines.append('  | .%s, res => %s res' % (k, name))
    L += sel_defs
    L.append('/-- handle_pay_route_err: is the session priv of a path with result `res` removed (`remove_session_privs`, i.e.')
    L.append('    `PendingOutboundPayment::remove(session_priv, Some(path))`) in the arm of kind `k`? -/')
    L.append('def handleRemoves : SendKind → PathRes → Bool')
    L += lines + ['  | .sentAll, _ => false', '']
    L.append('/-- handle_pay_route_err: does the arm call `push_path_failed_evs_and_scids` with the per-path results (after the removal)? -/')
    L.append('def handlePushes : SendKind → Bool')
    L += ['  | .%s => %s' % (k, 'true' if found[k][1] else 'false') for k in order] + ['  | .sentAll => false', '']
    L.append('/-- handle_pay_route_err: what the arm does last (`find_route_and_send_payment` with the retry parameters /')
    L.append('    `abandon_payment(.., UnexpectedError, ..)` / nothing) -/')
    L.append('def handleNext : SendKind → Next')
    L += ['  | .%s => .%s' % (k, found[k][2]) for k in order] + ['  | .sentAll => .none', '']

    # callers: the error is only handled when pay_route_internal returned Err
    for fn in ('send_payment_for_non_bolt12_invoice', 'find_route_and_send_payment'):
        _, _, fb = find_fn(src, fn)
        if not re.search(r'let res = self\.pay_route_internal\([^;]*\);\s*log_info!\([^;]*\);\s*if let Err\(e\) = res \{\s*self\.handle_pay_route_err\(', strip_comments(fb)):
            fail("%s no longer hands pay_route_internal's error to handle_pay_route_err" % fn)

    # ---- push_path_failed_evs_and_scids ---------------------------------------------------------
    _, _, body = find_fn(src, 'push_path_failed_evs_and_scids')
    b = strip_comments(body)
    m = re.search(r'for \(path, path_res\) in paths\.into_iter\(\)\.zip\(path_results\)\s*(\{)', b)
    if not m: fail("push_path_failed_evs_and_scids: loop not found")
    lb = b[m.start(1):match_brace(b, m.start(1))].strip()[1:-1].strip()
    m = re.match(r'if (let Err\(e\) = path_res)\s*(\{)', lb)
    if not m or one(lb[match_brace(lb, m.start(2)):]) != '': fail("push_path_failed_evs_and_scids: loop body changed")
    inner = lb[m.start(2):match_brace(lb, m.start(2))][1:-1]
    guards = []
    while True:
        g = re.match(r'\s*if let (?:APIError::)?MonitorUpdateInProgress = e \{\s*continue;\s*\}', inner)
        if not g: break
        guards.append('!res.isMip'); inner = inner[g.end():]
    if re.search(r'\bcontinue\b|\breturn\b|\bbreak\b', inner): fail("push_path_failed_evs_and_scids: further skip conditions: %r" % one(inner)[:200])
    if not re.search(r'let event = events::Event::PaymentPathFailed \{.*payment_failed_permanently: false,.*failure: events::PathFailure::InitialSend \{ err: e \},.*\};\s*events\.push_back\(\(event, None\)\);\s*$', inner, re.S):
        fail("push_path_failed_evs_and_scids: the pushed event changed")
    L.append('/-- push_path_failed_evs_and_scids: a `PaymentPathFailed { payment_failed_permanently: false, failure: InitialSend }` is')
    L.append('    pushed for a path iff its result is an `Err` that is not skipped (`if let MonitorUpdateInProgress = e { continue }`) -/')
    L.append('def pathFailedPushed (res : PathRes) : Bool :=')
    L.append('  ' + ' && '.join(['res.isErr'] + guards))
    L.append('')

    # ---- PendingOutboundPayment::{remove, insert} -----------------------------------------------
    HOLD = r'PendingOutboundPayment::Legacy \{ session_privs \} \| PendingOutboundPayment::Retryable \{ session_privs, \.\. \} \| PendingOutboundPayment::Fulfilled \{ session_privs, \.\. \} \| PendingOutboundPayment::Abandoned \{ session_privs, \.\. \} => \{ session_privs\.remove\(session_priv\) \}'
    for fn, res, op in (('remove', 'remove_res', '-'), ('insert', 'insert_res', '+')):
        _, _, body = find_fn(src, fn, after='impl PendingOutboundPayment')
        b = one(strip_comments(body))
        m = re.search(r'if %s \{ if let PendingOutboundPayment::Retryable \{ ref mut pending_amt_msat, ref mut pending_fee_msat, ref mut remaining_max_total_routing_fee_msat, \.\. \} = self \{ (?:let path = path\.expect\("[^"]*"\); )?\*pending_amt_msat (\+|-)= path\.final_value_msat\(\);' % res, b)
        if not m: fail("PendingOutboundPayment::%s: pending_amt_msat adjustment changed shape" % fn)
        if fn == 'remove' and not re.search(HOLD, b): fail("PendingOutboundPayment::remove: the variants holding session_privs changed")
        if fn == 'insert' and not re.search(r'PendingOutboundPayment::Legacy \{ session_privs \} \| PendingOutboundPayment::Retryable \{ session_privs, \.\. \} => \{ session_privs\.insert\(session_priv\) \}', b):
            fail("PendingOutboundPayment::insert: the variants accepting a session priv changed")
        L.append('/-- PendingOutboundPayment::%s: once the set changed (`%s`), `*pending_amt_msat %s= path.final_value_msat()` — only in `Retryable` -/' % (fn, res, m.group(1)))
        L.append('def %sAdjustsPending (isRetryable : Bool) (pend amt : Nat) : Nat :=' % fn)
        L.append('  if isRetryable then pend %s amt else pend' % m.group(1))
        L.append('')
    _, _, body = find_fn(src, 'remove_session_privs')
    if not re.search(r'for \(path, session_priv_bytes\) in path_session_priv \{ let removed = payment\.remove\(session_priv_bytes, Some\(path\)\);', one(strip_comments(body))):
        fail("remove_session_privs changed shape")

    # ---- check_retry_payments ---------------------------------------------------------------------
    _, _, body = find_fn(src, 'check_retry_payments')
    b = one(strip_comments(body))
    m = re.search(r'if pmt\.is_auto_retryable_now\(\) \{ if let PendingOutboundPayment::Retryable \{ pending_amt_msat, total_msat, payment_params: Some\(params\), payment_hash, remaining_max_total_routing_fee_msat, \.\. \} = pmt \{ if ([^{}]*) \{ retry_id_route_params = Some\(\( \*payment_hash, \*pmt_id, RouteParameters \{ final_value_msat: ([^,]*),', b)
    if not m: fail("check_retry_payments: retry test changed shape")
    ema = Emitter(env={'pending_amt_msat': 'pend', 'total_msat': 'total'})
    L.append('/-- check_retry_payments: an auto-retryable `Retryable` payment is retried iff `%s` ... -/' % m.group(1))
    L.append('def wantsRetry (pend total : Nat) : Bool :=')
    L.append('  ' + ema.e(parse_expr(m.group(1))))
    L.append('/-- ... for `final_value_msat: %s` -/' % m.group(2))
    L.append('def retryValue (pend total : Nat) : Nat :=')
    L.append('  ' + ema.e(parse_expr(m.group(2))))
    L.append('')
    m = re.search(r'outbounds\.retain\(\|pmt_id, pmt\| \{ let mut retain = true; if (!pmt\.is_auto_retryable_now\(\) && pmt\.remaining_parts\(\) == 0 && !pmt\.is_pre_htlc_lock_in\(\)) \{ pmt\.mark_abandoned\(PaymentFailureReason::RetriesExhausted\);', b)
    if not m: fail("check_retry_payments: final retain changed shape")

    # ---- find_route_and_send_payment --------------------------------------------------------------
    _, _, body = find_fn(src, 'find_route_and_send_payment')
    b = one(strip_comments(body))
    m = re.search(r'const RETRY_OVERFLOW_PERCENTAGE: u64 = (\d+); let retry_amt_msat = route\.get_total_amount\(\); if ([^{}]*) \{ log_error!\([^;]*\); abandon_with_entry!\(payment, PaymentFailureReason::UnexpectedError\); return \} '
                  r'if !payment\.get\(\)\.is_retryable_now\(\) \{ log_error!\([^;]*\); abandon_with_entry!\(payment, PaymentFailureReason::RetriesExhausted\); return \}', b)
    if not m: fail("find_route_and_send_payment: overflow / retries-exhausted tests changed shape")
    emo = Emitter(env={'retry_amt_msat': 'retryAmt', 'pending_amt_msat': 'pend', 'total_msat': 'total', 'RETRY_OVERFLOW_PERCENTAGE': m.group(1)})
    L.append('/-- find_route_and_send_payment: the retry is refused (abandon, UnexpectedError) iff `%s` (RETRY_OVERFLOW_PERCENTAGE = %s);' % (m.group(2), m.group(1)))
    L.append('    this test comes first, `!is_retryable_now()` (abandon, RetriesExhausted) second, the insertion of the new session privs third -/')
    L.append('def retryOverflows (retryAmt pend total : Nat) : Bool :=')
    L.append('  ' + emo.e(parse_expr(m.group(2))))
    L.append('')
    if not re.search(r'for \(path, session_priv_bytes\) in route\.paths\.iter\(\)\.zip\(onion_session_privs\.iter\(\)\) \{ assert!\(payment\.get_mut\(\)\.insert\(\*session_priv_bytes, path\)\); \} payment\.get_mut\(\)\.increment_attempts\(\);', b):
        fail("find_route_and_send_payment: insertion of the retry's session privs changed shape")
    _, _, body = find_fn(src, 'create_pending_payment')
    if not re.search(r'pending_amt_msat: 0,.*total_msat: route\.get_total_amount\(\),.*for \(path, session_priv_bytes\) in route\.paths\.iter\(\)\.zip\(onion_session_privs\.iter\(\)\) \{ assert!\(payment\.insert\(\*session_priv_bytes, path\)\); \}', one(strip_comments(body))):
        fail("create_pending_payment changed shape")
    L.append('/-- create_pending_payment / find_route_and_send_payment insert every path with `assert!(payment.insert(..))`: a session')
    L.append('    priv that is already in the set is a panic; a new payment starts with `pending_amt_msat: 0` and')
    L.append('    `total_msat: route.get_total_amount()` -/')
    L.append('def insertAsserted : Bool := true')
    L.append('')

    # ---- remove_outbound_if_all_failed (send_probe) ------------------------------------------------
    _, _, body = find_fn(src, 'remove_outbound_if_all_failed')
    b = strip_comments(body)
    m = re.search(r'match err\s*(\{)', b)
    if not m: fail("remove_outbound_if_all_failed: match not found")
    arms = match_arms(b[m.start(1):match_brace(b, m.start(1))])
    PK = {'PaymentSendFailure::AllFailedResendSafe(_)': ['allFailedResendSafe'], 'PaymentSendFailure::ParameterError(_)': ['parameterError'],
          'PaymentSendFailure::PathParameterError(_)': ['pathParameterError'], 'PaymentSendFailure::PartialFailure { .. }': ['partialRetry', 'partialNoRetry'],
          'PaymentSendFailure::DuplicatePayment': []}
    seen, lines = set(), []
    for pat, ex in arms:
        ks = []
        for alt in split_top(one(pat), '|'):
            alt = alt.strip()
            if alt not in PK: fail("remove_outbound_if_all_failed: pattern %r" % alt)
            ks += PK[alt]; seen.add(alt)
        e = one(ex)
        if e == '{}': val = 'false'
        elif re.fullmatch(r'\{ let removed = self\.pending_outbound_payments\.lock\(\)\.unwrap\(\)\.remove\(&payment_id\)\.is_some\(\); debug_assert!\(removed, "[^"]*"\); \}', e): val = 'true'
        else: fail("remove_outbound_if_all_failed: arm body %r" % e[:200])
        lines += ['  | .%s => %s' % (k, val) for k in ks]
    if seen != set(PK): fail("remove_outbound_if_all_failed: arms changed")
    L.append('/-- remove_outbound_if_all_failed (send_probe): the failure kinds for which the new entry is removed again -/')
    L.append('def probeDropsEntry : SendKind → Bool')
    L += lines + ['  | .sentAll => false', '']
    L.append('end Ldk.OutboundSendGen')
    text = '\n'.join(L) + '\n'
    old = open(out_path).read() if os.path.exists(out_path) else None
    if old != text:
        os.makedirs(os.path.dirname(out_path), exist_ok=True)
        open(out_path, 'w').write(text)
        print('wrote', out_path)
    else:
        print('unchanged', out_path)

if __name__ == '__main__':
    out = os.path.join(os.path.dirname(os.path.abspath(__file__)), '..', 'lean', 'LdkModel', 'Generated', 'OutboundSend.lean')
    if len(sys.argv) > 1: out = sys.argv[1]
    try:
        main(os.path.normpath(out))
    except TranslateError as e:
        print('TRANSLATE-ERROR gen_outbound_send.py:', e)
        sys.exit(2)
