#!/usr/bin/env python3
"""Regenerate lean/LdkModel/Generated/OutboundSend.lean (C03): how `lightning/src/ln/outbound_payment.rs`
turns the per-path results of one send / retry call into a `PaymentSendFailure` and what it then does with
the payment's session privs and pending amount — translated from the Rust text that is in /repo *now*:

  * `pay_route_internal`: the two `ParameterError` tests, the `PathParameterError` test, "every path is
    handed to send_payment_along_path", the flag loop (`has_ok` / `has_err` / `has_unsent` /
    `total_ok_amt_sent_msat`, statement by statement), the final `PartialFailure { Some | None }` /
    `AllFailedResendSafe` / `Ok` decision and the value of the retry parameters;
  * `handle_pay_route_err`: per match arm — which paths' session privs are removed (the closure that picks
    `failed_paths` is TRANSLATED: a `filter_map(.. match path_res { pats => None, _ => Some(..) })` or a
    `filter(|(path_res, _)| <bool expr>)`), whether `push_path_failed_evs_and_scids` runs, and what follows
    (`find_route_and_send_payment` / `abandon_payment(UnexpectedError)` / nothing), in that order;
  * `push_path_failed_evs_and_scids`: for which results a `PaymentPathFailed` is pushed;
  * `PendingOutboundPayment::{remove, insert}`: the `pending_amt_msat` adjustment (only in `Retryable`);
  * `check_retry_payments`: the retry test `pending_amt_msat < total_msat` and the retried value;
  * `find_route_and_send_payment`: the overflow test (`RETRY_OVERFLOW_PERCENTAGE`), the order
    overflow-test / `is_retryable_now` / insertion, and the `assert!(insert(..))`;
  * `remove_outbound_if_all_failed` (probes): the kinds that drop the entry;
  * the LIFE CYCLE of one payment (`lifecycle()` below; second half of the generated file):
    `inductive Variant` (= the variants of `enum PendingOutboundPayment`, in order) and per-variant tables read from the
    match arms of `remaining_parts` (`holdsParts`), `is_fulfilled`, `abandoned`, `is_pre_htlc_lock_in`, `mark_fulfilled`
    (`markFulfilledTo`, swap keeps the session privs, `timer_ticks_without_htlcs: 0`), `mark_abandoned` (`markAbandonedTo`,
    `markAbandonedRewrites`, `markAbandonedKeepsParts`), `remove` / `insert` (`removeHolds`, `insertAccepts`; debug_assert arms
    = none), `Retry::is_retryable_now` (Attempts arm, `attemptsRetryable`), `is_retryable_now` / `is_auto_retryable_now`
    (arm structure), `claim_htlc` (`claimSends`, `claimRemoves`, `claimPathOk`), `finalize_claims` (`finalizeAsserts`,
    `finalizePathOk`), `fail_htlc` (order of the two early returns, `failAbandons`, `failReason`, `failDrops`,
    `failPushesFailed`, `failPathEvent`, path failure pushed before the full failure), `abandon_payment` (`abandonArm`:
    stored / argument reason, `abandonStoredTest`), `remove_stale_payments` (`staleArm`, `staleFulfilled`,
    `staleTimerTicks`, `staleReason`), the final `retain` of `check_retry_payments` (`sweepAbandons`, `sweepReason`),
    `insert_from_monitor_on_startup` (`startupArm`, `new_retryable!` fields).  Boolean / arithmetic tests go through
    rs2lean's parse_expr/Emitter; the statement skeleton around them is matched by whitespace-insensitive templates (`T`).
    Model/OutboundPay.lean CALLS these definitions; Proofs/OutboundPayRefine.lean proves the result equal to the previous
    hand-written transition function (`stepP_eq_H`) — a changed table breaks a `tbl_*` lemma / that theorem.

A per-path result `Result<(), APIError>` is abstracted to `PathRes := ok | mip | err`
(`Ok(())`, `Err(APIError::MonitorUpdateInProgress)`, any other `Err`).  Anything that no longer has the
expected shape is a TRANSLATE-ERROR (exit 2): the obligation is broken, never silently kept.
"""
import re, sys, os
sys.path.insert(0, os.path.dirname(__file__))
from rs2lean import parse_expr, Emitter, TranslateError, strip_comments, match_brace

REPO = os.environ.get('VERIF_REPO', '/repo')
SRC = 'lightning/src/ln/outbound_payment.rs'

def one(s): return ' '.join(s.split())

def find_fn(src, name, after=None):
    """(params, ret/where text, body with braces) of `fn name`; generic parameter lists may nest `<..>` and contain `()`"""
    start = src.index(after) if after else 0
    m = re.compile(r'\bfn\s+' + re.escape(name) + r'\s*(?=[<(])').search(src, start)
    if not m: raise TranslateError("fn %s not found" % name)
    i = m.end()
    if src[i] == '<':
        d = 0
        while True:
            if src[i] == '<': d += 1
            elif src[i] == '>' and src[i - 1] != '-':
                d -= 1
                if d == 0: break
            i += 1
        i += 1
        while src[i] in ' \t\n': i += 1
    if src[i] != '(': raise TranslateError("fn %s: parameter list not found" % name)
    d, j = 0, i
    while True:
        if src[j] == '(': d += 1
        if src[j] == ')':
            d -= 1
            if d == 0: break
        j += 1
    k = src.index('{', j)
    return src[i + 1:j], src[j + 1:k], src[k:match_brace(src, k)]

def fail(msg): raise TranslateError(msg)

# ---------------------------------------------------------------- boolean tests over one path result

MIP_LET = re.compile(r'let\s+&?\s*Err\(\s*(?:APIError::)?MonitorUpdateInProgress\s*\)\s*=\s*&?\s*\*?\s*(\w+)')
MIP_MATCHES = re.compile(r'matches!\(\s*&?\*?(\w+)\s*,\s*&?Err\(\s*(?:APIError::)?MonitorUpdateInProgress\s*\)\s*\)')

def res_cond(cond, var, lean_var='res'):
    """a Rust boolean test over the path result `var` -> Lean Bool over `lean_var : PathRes`"""
    c = MIP_LET.sub(lambda m: m.group(1) + '.is_mip()', cond)
    c = MIP_MATCHES.sub(lambda m: m.group(1) + '.is_mip()', c)
    if re.search(r'\blet\b|matches!', c): fail("unsupported pattern test over a path result: %r" % one(cond))
    def meth(name):
        def f(recv, args):
            if recv.strip('()') != lean_var or args: fail("test %s on something other than the path result in %r" % (name, one(cond)))
            return '%s.%s' % (lean_var, name)
        return f
    em = Emitter(env={var: lean_var}, methods={'is_ok': meth('isOk'), 'is_err': meth('isErr'), 'is_mip': meth('isMip')})
    out = em.e(parse_expr(c))
    if lean_var not in out: fail("test does not mention the path result: %r" % one(cond))
    return out

PAT_MAP = [
    (re.compile(r'^&?Ok\(\s*(_|\(\s*\))\s*\)$'), ['.ok']),
    (re.compile(r'^&?Err\(\s*(?:APIError::)?MonitorUpdateInProgress\s*\)$'), ['.mip']),
    (re.compile(r'^&?Err\(\s*_\s*\)$'), ['.mip', '.err']),
    (re.compile(r'^_$'), ['_']),
]
def pats_of(p):
    out = []
    for alt in p.split('|'):
        alt = alt.strip()
        for rx, l in PAT_MAP:
            if rx.match(alt):
                out += l; break
        else:
            fail("path-result pattern %r cannot be expressed over ok/mip/err" % alt)
    return out

def split_top(s, sep=','):
    out, d, cur = [], 0, ''
    for ch in s:
        if ch in '([{': d += 1
        if ch in ')]}': d -= 1
        if ch == sep and d == 0:
            out.append(cur); cur = ''
        else: cur += ch
    if cur.strip(): out.append(cur)
    return out

def match_arms(body):
    """`{ pat => expr, pat => { .. } ... }` -> [(pat, expr_text)]"""
    assert body[0] == '{'
    s = body[1:body.rindex('}')]
    arms, i, n = [], 0, len(s)
    while i < n:
        while i < n and s[i] in ' \t\n,': i += 1
        if i >= n: break
        j = s.index('=>', i)
        pat = s[i:j].strip()
        k = j + 2
        while s[k] in ' \t\n': k += 1
        if s[k] == '{':
            e = match_brace(s, k)
            arms.append((pat, s[k:e])); i = e
        else:
            d, e = 0, k
            while e < n and not (s[e] == ',' and d == 0):
                if s[e] in '([{': d += 1
                if s[e] in ')]}': d -= 1
                e += 1
            arms.append((pat, s[k:e].strip())); i = e + 1
    return arms

def removes_from_chain(chain):
    """the iterator chain that picks `failed_paths` -> Lean body of `PathRes -> Bool` (true = session priv removed)"""
    c = one(chain)
    m = re.fullmatch(r'\.filter_map\(\|\((\w+), \((\w+), (\w+)\)\)\| \{ match \*?\1 (\{.*\}) \}\)', c)
    if m:
        v, a, b = m.group(1), m.group(2), m.group(3)
        arms = match_arms(m.group(4))
        lines = []
        for pat, ex in arms:
            ex = one(ex).strip('{} ')
            if ex == 'None': val = 'false'
            elif re.fullmatch(r'Some\(\(%s, %s\)\)' % (a, b), ex): val = 'true'
            else: fail("failed_paths arm yields %r" % ex)
            lines.append('  | %s => %s' % (' | '.join(pats_of(pat)), val))
        return ('match', lines, one(m.group(4)))
    m = re.fullmatch(r'\.filter\(\|\(&?(\w+), _\)\| (.*?)\)\s*\.map\(\|\(_, (\w+)\)\| \3\)', c)
    if m:
        return ('expr', res_cond(m.group(2), m.group(1)), m.group(2))
    fail("the selection of failed_paths changed shape: %r" % c[:300])

# ---------------------------------------------------------------- statement translation of the flag loop

FLAG_FIELDS = {'has_ok': 'hasOk', 'has_err': 'hasErr', 'has_unsent': 'hasUnsent'}

def flag_block(block):
    """`{ has_ok = true; total_ok_amt_sent_msat += path.final_value_msat(); .. }` -> `{ f with .. }`"""
    inner = block.strip()[1:-1]
    ups, seen = [], set()
    for st in inner.split(';'):
        st = one(st)
        if not st: continue
        m = re.fullmatch(r'(has_ok|has_err|has_unsent) = (true|false)', st)
        if m:
            fld = FLAG_FIELDS[m.group(1)]
            if fld in seen: fail("flag %s assigned twice in one block" % fld)
            seen.add(fld); ups.append('%s := %s' % (fld, m.group(2))); continue
        if st == 'total_ok_amt_sent_msat += path.final_value_msat()':
            if 'okAmt' in seen: fail("amount counted twice in one block")
            seen.add('okAmt'); ups.append('okAmt := f.okAmt + amt'); continue
        if st == 'total_ok_fees_msat += path.fee_msat()':
            continue   # fees are not modelled
        fail("unexpected statement in the flag loop: %r" % st)
    return '{ f with %s }' % ', '.join(ups) if ups else 'f'

def flag_stmts(body):
    """the body of `for (res, path) in results.iter().zip(route.paths.iter())` -> Lean lines"""
    s = body.strip()[1:-1]
    out, i = [], 0
    while True:
        while i < len(s) and s[i] in ' \t\n': i += 1
        if i >= len(s): break
        if not s.startswith('if', i): fail("flag loop: expected `if`, found %r" % s[i:i+40])
        chain = []
        while True:
            j = s.index('{', i)
            cond = s[i + 2:j]
            e = match_brace(s, j)
            chain.append((res_cond(cond, 'res'), flag_block(s[j:e])))
            i = e
            m = re.match(r'\s*else\s+if\b', s[i:])
            if m:
                i += m.end() - 2; continue
            m = re.match(r'\s*else\s*\{', s[i:])
            if m:
                j = i + m.end() - 1
                e = match_brace(s, j)
                chain.append((None, flag_block(s[j:e]))); i = e
            break
        line = '  let f := '
        for c, b in chain:
            line += ('if %s then %s else ' % (c, b)) if c is not None else b
        if chain[-1][0] is not None: line += 'f'
        out.append(line)
    return out

# ---------------------------------------------------------------- the payment life cycle (variant tables + decisions)

VARIANTS = ['Legacy', 'AwaitingOffer', 'AwaitingInvoice', 'InvoiceReceived', 'StaticInvoiceReceived', 'Retryable', 'Fulfilled', 'Abandoned']
def lv(v): return v[0].lower() + v[1:]
REASONS = {'RecipientRejected': 'recipientRejected', 'UserAbandoned': 'userAbandoned', 'RetriesExhausted': 'retriesExhausted',
           'PaymentExpired': 'paymentExpired', 'RouteNotFound': 'routeNotFound', 'UnexpectedError': 'unexpectedError',
           'InvoiceRequestExpired': 'invoiceRequestExpired'}
def reason_of(name, where):
    if name not in REASONS: fail("%s: PaymentFailureReason::%s is not a reason the model knows" % (where, name))
    return '.' + REASONS[name]

def T(tmpl):
    """template -> regex: literal text (white space flexible), `<<name:regex>>` = named group, `<<:regex>>` = plain regex"""
    out = ''
    for i, part in enumerate(re.split(r'<<(.*?)>>', tmpl)):
        if i % 2 == 0:
            out += re.sub(r'(\\ )+', r'\\s*', re.escape(part))
        else:
            name, rx = part.split(':', 1)
            out += ('(?P<%s>%s)' % (name, rx)) if name else ('(?:%s)' % rx)
    return out

def variant_arms(arms, where):
    """[(pat, expr)] of a `match` over a PendingOutboundPayment -> {Variant: (alternative text, expr text)};
    `_` stands for the variants not named before it; every variant must be covered exactly once"""
    out = {}
    for pat, ex in arms:
        for alt in split_top(one(pat), '|'):
            alt = alt.strip()
            if alt == '_':
                for v in VARIANTS:
                    if v not in out: out[v] = ('_', one(ex))
                continue
            m = re.fullmatch(r'(?:PendingOutboundPayment|Self)::(\w+)(?: (\{.*\}))?', alt)
            if not m or m.group(1) not in VARIANTS: fail("%s: pattern %r is not a PendingOutboundPayment variant" % (where, alt))
            if m.group(1) in out: fail("%s: variant %s matched twice" % (where, m.group(1)))
            out[m.group(1)] = (alt, one(ex))
    missing = [v for v in VARIANTS if v not in out]
    if missing: fail("%s: variants %s not covered" % (where, missing))
    return out

def table(L, doc, name, typ, tab, val):
    """emit `def name : Variant → typ` with one line per variant (val: (alt, expr) -> Lean term)"""
    L.append('/-- %s -/' % doc)
    L.append('def %s : Variant → %s' % (name, typ))
    for v in VARIANTS:
        L.append('  | .%s => %s' % (lv(v), val(v, *tab[v])))
    L.append('')

def self_match(b, where, nth=0, head=r'match self\s*(\{)'):
    ms = list(re.finditer(head, b))
    if len(ms) <= nth: fail("%s: `match` number %d not found" % (where, nth + 1))
    m = ms[nth]
    return match_arms(b[m.start(1):match_brace(b, m.start(1))]), m.start(), match_brace(b, m.start(1))

def binds_privs(alt): return re.search(r'\bsession_privs\b', alt) is not None

def bool_fn(L, doc, sig, cond, env=None, methods=None):
    em = Emitter(env=env or {}, methods=methods or {})
    out = em.e(parse_expr(cond))
    L.append('/-- %s -/' % doc)
    L.append('def %s : Bool :=' % sig)
    L.append('  ' + out)
    L.append('')
    return out

def lifecycle(src, L):
    POP = 'impl PendingOutboundPayment'
    # ---- the variants --------------------------------------------------------------------------
    m = re.search(r'pub\(crate\) enum PendingOutboundPayment\s*(\{)', src)
    if not m: fail("enum PendingOutboundPayment not found")
    eb = strip_comments(src[m.start(1):match_brace(src, m.start(1))])
    names, d, i = [], 0, 0
    for mm in re.finditer(r'[{}]|(?<![\w:])([A-Z]\w*)\s*(?=\{)', eb):
        if mm.group(0) == '{': d += 1
        elif mm.group(0) == '}': d -= 1
        elif d == 1: names.append(mm.group(1))
    if names != VARIANTS: fail("PendingOutboundPayment variants changed: %r" % names)
    L += ['/-! ### the life cycle of one payment: `PendingOutboundPayment::{remaining_parts, is_fulfilled, abandoned, is_pre_htlc_lock_in,',
          '    mark_fulfilled, mark_abandoned, remove, insert, is_retryable_now, is_auto_retryable_now}`, `Retry::is_retryable_now`,',
          '    `OutboundPayments::{claim_htlc, finalize_claims, fail_htlc, abandon_payment, remove_stale_payments, check_retry_payments',
          '    (final retain), insert_from_monitor_on_startup}` — every table / test below is read from the Rust text -/', '',
          '/-- the variants of `PendingOutboundPayment`, in declaration order -/',
          'inductive Variant', '  | ' + ' | '.join(lv(v) for v in VARIANTS), '  deriving DecidableEq, Repr, Inhabited', '',
          '/-- the `events::PaymentFailureReason`s this module hands out -/',
          'inductive FailReason', '  | ' + ' | '.join(REASONS.values()), '  deriving DecidableEq, Repr, Inhabited', '']

    # ---- remaining_parts -------------------------------------------------------------------------
    _, _, body = find_fn(src, 'remaining_parts', after=POP)
    b = strip_comments(body)
    arms, s0, s1 = self_match(b, 'remaining_parts')
    if one(b[:s0]).strip('{ ') or one(b[s1:]).strip('} '): fail("remaining_parts is no longer a single `match self`")
    tab = variant_arms(arms, 'remaining_parts')
    def v_rp(v, alt, ex):
        if ex == '{ session_privs.len() }' and binds_privs(alt): return 'true'
        if ex == '0': return 'false'
        fail("remaining_parts/%s yields %r" % (v, ex))
    table(L, 'remaining_parts: `session_privs.len()` (true) or `0` (false)', 'holdsParts', 'Bool', tab, v_rp)

    # ---- is_fulfilled / abandoned / is_pre_htlc_lock_in ------------------------------------------
    for fn, name in (('is_fulfilled', 'isFulfilledV'), ('abandoned', 'isAbandonedV'), ('is_pre_htlc_lock_in', 'isPreHtlcLockIn')):
        _, _, body = find_fn(src, fn, after=POP)
        b = strip_comments(body)
        arms, s0, s1 = self_match(b, fn)
        if one(b[:s0]).strip('{ ') or one(b[s1:]).strip('} '): fail("%s is no longer a single `match self`" % fn)
        tab = variant_arms(arms, fn)
        def v_b(v, alt, ex):
            if ex in ('true', 'false'): return ex
            fail("%s/%s yields %r" % (fn, v, ex))
        table(L, 'PendingOutboundPayment::%s' % fn, name, 'Bool', tab, v_b)

    # ---- mark_fulfilled ------------------------------------------------------------------------------
    _, _, body = find_fn(src, 'mark_fulfilled', after=POP)
    b = strip_comments(body)
    arms, s0, s1 = self_match(b, 'mark_fulfilled')
    if not re.fullmatch(T('{ let mut session_privs = new_hash_set(); core::mem::swap(&mut session_privs,'), one(b[:s0])):
        fail("mark_fulfilled: the session privs are no longer swapped out of `self`: %r" % one(b[:s0]))
    m = re.fullmatch(T('); let payment_hash = self.payment_hash(); let total_msat = self.total_msat(); let fee_paid_msat = self.get_pending_fee_msat(); '
                       '*self = PendingOutboundPayment::<<to:\\w+>> { session_privs, payment_hash, timer_ticks_without_htlcs: <<t:\\d+>>, total_msat, fee_paid_msat }; }'), one(b[s1:]))
    if not m or m.group('to') not in VARIANTS: fail("mark_fulfilled: the new value of `*self` changed shape: %r" % one(b[s1:]))
    to = m.group('to')
    tab = variant_arms(arms, 'mark_fulfilled')
    def v_mf(v, alt, ex):
        if ex == 'session_privs' and binds_privs(alt): return 'some .' + lv(to)
        if ex == '{ debug_assert!(false); return; }': return 'none'
        fail("mark_fulfilled/%s: %r" % (v, ex))
    table(L, 'mark_fulfilled: the variant afterwards; none = `{ debug_assert!(false); return; }`', 'markFulfilledTo', 'Option Variant', tab, v_mf)
    L += ['/-- mark_fulfilled: the session privs of the old value are swapped into the new one (`core::mem::swap`) -/',
          'def markFulfilledKeepsParts : Bool := true',
          '/-- mark_fulfilled: `timer_ticks_without_htlcs: %s` -/' % m.group('t'),
          'def markFulfilledTicks : Nat := %s' % m.group('t'), '']

    # ---- mark_abandoned --------------------------------------------------------------------------------
    _, _, body = find_fn(src, 'mark_abandoned', after=POP)
    b = strip_comments(body)
    arms1, a0, a1 = self_match(b, 'mark_abandoned', 0)
    arms2, b0, b1 = self_match(b, 'mark_abandoned', 1)
    if not re.fullmatch(T('{ let session_privs ='), one(b[:a0])) or \
       not re.fullmatch(T('; let total_msat = self.total_msat(); let pending_fee_msat = self.get_pending_fee_msat();'), one(b[a1:b0])) or one(b[b1:]).strip('} '):
        fail("mark_abandoned changed shape")
    tab1 = variant_arms(arms1, 'mark_abandoned (session privs)')
    def v_ma1(v, alt, ex):
        if ex == '{ let mut our_session_privs = new_hash_set(); core::mem::swap(&mut our_session_privs, session_privs); our_session_privs }' and binds_privs(alt): return 'true'
        if ex == 'new_hash_set()': return 'false'
        fail("mark_abandoned/%s takes its session privs from %r" % (v, ex))
    tab2 = variant_arms(arms2, 'mark_abandoned (rewrite)')
    def v_ma2(v, alt, ex):
        m = re.fullmatch(T('{ *self = Self::<<to:\\w+>> { session_privs, payment_hash: *payment_hash, reason: Some(reason), total_msat, pending_fee_msat, }; }'), ex)
        if m and m.group('to') in VARIANTS and re.search(r'\bpayment_hash\b', alt): return '.' + lv(m.group('to'))
        if ex == '{}': return '.' + lv(v)
        fail("mark_abandoned/%s: %r" % (v, ex))
    table(L, 'mark_abandoned: the variant afterwards (`_ => {}` leaves the value untouched); the new value carries `reason: Some(reason)`', 'markAbandonedTo', 'Variant', tab2, v_ma2)
    table(L, 'mark_abandoned: is `self` rewritten at all (false = the `_ => {}` arm)', 'markAbandonedRewrites', 'Bool', tab2, lambda v, alt, ex: 'false' if ex == '{}' else 'true')
    table(L, 'mark_abandoned: the session privs handed to the new value are the old ones (swapped out, true) or `new_hash_set()` (false)', 'markAbandonedKeepsParts', 'Bool', tab1, v_ma1)

    # ---- remove / insert ---------------------------------------------------------------------------------
    for fn, name, call in (('remove', 'removeHolds', 'session_privs.remove(session_priv)'), ('insert', 'insertAccepts', 'session_privs.insert(session_priv)')):
        _, _, body = find_fn(src, fn, after=POP)
        b = strip_comments(body)
        arms, s0, s1 = self_match(b, fn)
        if not re.fullmatch(T('{ let %s_res =' % fn), one(b[:s0])) or not re.fullmatch(T('; if %s_res {<<:.*>>} %s_res }' % (fn, fn)), one(b[s1:])):
            fail("PendingOutboundPayment::%s changed shape" % fn)
        tab = variant_arms(arms, fn)
        def v_ri(v, alt, ex):
            if ex == '{ %s }' % call and binds_privs(alt): return 'some true'
            if ex == '{ debug_assert!(false); false }': return 'none'
            if ex == 'false': return 'some false'
            fail("PendingOutboundPayment::%s/%s: %r" % (fn, v, ex))
        table(L, 'PendingOutboundPayment::%s: some true = `%s` is the result; some false = `false`; none = `{ debug_assert!(false); false }`' % (fn, call), name, 'Option Bool', tab, v_ri)

    # ---- Retry::is_retryable_now, is_retryable_now, is_auto_retryable_now --------------------------------------
    _, _, body = find_fn(src, 'is_retryable_now', after='impl Retry {')
    m = re.match(T('{ match (self, attempts) { (Retry::Attempts(max_retry_count), PaymentAttempts { count, .. }) => { <<c:[^{}]*>> },'), one(strip_comments(body)))
    if not m: fail("Retry::is_retryable_now: the Attempts arm changed shape")
    bool_fn(L, 'Retry::is_retryable_now, `Retry::Attempts(max_retry_count)` against `PaymentAttempts { count, .. }`: `%s`' % m.group('c').strip(),
            'attemptsRetryable (max count : Nat)', m.group('c'), env={'max_retry_count': 'max', 'count': 'count'})
    _, _, body = find_fn(src, 'is_retryable_now', after=POP)
    m = re.fullmatch(T('{ match self { PendingOutboundPayment::<<v1:\\w+>> { retry_strategy: None, .. } => { <<manual:true|false>> }, '
                       'PendingOutboundPayment::<<v2:\\w+>> { retry_strategy: Some(strategy), attempts, .. } => { strategy.is_retryable_now(&attempts) }, _ => <<other:true|false>>, } }'),
                     one(strip_comments(body)))
    if not m or m.group('v1') != m.group('v2') or m.group('v1') not in VARIANTS: fail("PendingOutboundPayment::is_retryable_now changed shape")
    L += ['/-- PendingOutboundPayment::is_retryable_now: `%s { retry_strategy: None, .. } => %s`, `%s { retry_strategy: Some(strategy), attempts, .. } =>' % (m.group('v1'), m.group('manual'), m.group('v2')),
          '    strategy.is_retryable_now(&attempts)` (= `strategyNow`), `_ => %s` -/' % m.group('other'),
          'def isRetryableNow (v : Variant) (strategySome strategyNow : Bool) : Bool :=',
          '  if v == .%s then (if strategySome then strategyNow else %s) else %s' % (lv(m.group('v1')), m.group('manual'), m.group('other')), '']
    _, _, body = find_fn(src, 'is_auto_retryable_now', after=POP)
    m = re.fullmatch(T('{ match self { PendingOutboundPayment::<<v:\\w+>> { retry_strategy: Some(strategy), attempts, payment_params: Some(_), .. } => { strategy.is_retryable_now(&attempts) }, _ => false, } }'),
                     one(strip_comments(body)))
    if not m or m.group('v') not in VARIANTS: fail("PendingOutboundPayment::is_auto_retryable_now changed shape")
    L += ['/-- PendingOutboundPayment::is_auto_retryable_now: only `%s { retry_strategy: Some(strategy), attempts, payment_params: Some(_), .. }` can' % m.group('v'),
          '    answer true (`strategy.is_retryable_now(&attempts)`), `_ => false` -/',
          'def isAutoRetryableNow (v : Variant) (strategySome paramsSome strategyNow : Bool) : Bool :=',
          '  if v == .%s && strategySome && paramsSome then strategyNow else false' % lv(m.group('v')),
          '/-- the variants for which is_auto_retryable_now can answer true -/',
          'def autoRetryableV (v : Variant) : Bool := v == .%s' % lv(m.group('v')), '']

    # ---- claim_htlc ---------------------------------------------------------------------------------------------
    pay = {'get': lambda recv, args: recv, 'get_mut': lambda recv, args: recv, 'is_fulfilled': lambda recv, args: 'isFulfilled',
           'remaining_parts': lambda recv, args: 'remaining', 'remove': lambda recv, args: 'removed',
           'is_auto_retryable_now': lambda recv, args: 'auto', 'is_pre_htlc_lock_in': lambda recv, args: 'preHtlc'}
    penv = {'payment': 'payment', 'pmt': 'pmt', 'session_priv_bytes': '_', 'path': '_', 'None': '_'}
    _, _, body = find_fn(src, 'claim_htlc')
    b = one(strip_comments(body))
    m = re.search(T('if let hash_map::Entry::Occupied(mut payment) = outbounds.entry(payment_id) { if <<c:[^{}]*>> { <<b1:.*?>> payment.get_mut().mark_fulfilled(); } '
                    'if <<oc:\\w+>> { if <<rm:payment\\.get_mut\\(\\)\\.remove\\(&session_priv_bytes, Some\\(&path\\)\\)>> { <<b2:.*?>> } } } else { log_trace!(<<:[^;]*>>); } }') + '$', b)
    if not m: fail("claim_htlc changed shape")
    ev = r'pending_events\.push_back\(\(events::Event::(\w+) \{'
    if re.findall(ev, m.group('b1')) != ['PaymentSent'] or re.search(r'\bif\b|\breturn\b|\bremove\(', m.group('b1')): fail("claim_htlc: the PaymentSent block changed: %r" % m.group('b1')[:200])
    if re.findall(ev, m.group('b2')) != ['PaymentPathSuccessful'] or re.search(r'\bif\b|\breturn\b', m.group('b2')): fail("claim_htlc: the PaymentPathSuccessful block changed: %r" % m.group('b2')[:200])
    if m.group('oc') != 'from_onchain': fail("claim_htlc: the removal is guarded by %s" % m.group('oc'))
    bool_fn(L, 'claim_htlc (entry Occupied; Vacant: nothing happens): `PaymentSent` is pushed and `mark_fulfilled()` called iff `%s` ...' % m.group('c').strip(),
            'claimSends (isFulfilled : Bool)', m.group('c'), env=penv, methods=pay)
    bool_fn(L, '... then `if %s`: `remove(&session_priv_bytes, Some(&path))` is called ...' % m.group('oc'), 'claimRemoves (fromOnchain : Bool)', m.group('oc'), env={'from_onchain': 'fromOnchain'})
    bool_fn(L, '... and `PaymentPathSuccessful` pushed iff it returned true', 'claimPathOk (removed : Bool)', m.group('rm'), env=penv, methods=pay)

    # ---- finalize_claims ------------------------------------------------------------------------------------------
    _, _, body = find_fn(src, 'finalize_claims')
    b = one(strip_comments(body))
    m = re.search(T('for (source, hold_times) in sources { if let HTLCSource::OutboundRoute { session_priv, payment_id, path, .. } = source { <<:[^{}]*>> '
                    'if let hash_map::Entry::Occupied(mut payment) = outbounds.entry(payment_id) { assert!(<<a:[^;]*>>); '
                    'if <<rm:payment\\.get_mut\\(\\)\\.remove\\(&session_priv_bytes, None\\)>> { <<b2:.*?>> } } } } }') + '$', b)
    if not m: fail("finalize_claims changed shape")
    if re.findall(ev, m.group('b2')) != ['PaymentPathSuccessful'] or re.search(r'\bif\b|\breturn\b', m.group('b2')): fail("finalize_claims: the PaymentPathSuccessful block changed")
    bool_fn(L, 'finalize_claims (entry Occupied; Vacant: nothing happens): `assert!(%s)` ...' % m.group('a').strip(), 'finalizeAsserts (isFulfilled : Bool)', m.group('a'), env=penv, methods=pay)
    bool_fn(L, '... then `remove(&session_priv_bytes, None)`, `PaymentPathSuccessful` pushed iff it returned true', 'finalizePathOk (removed : Bool)', m.group('rm'), env=penv, methods=pay)

    # ---- fail_htlc ----------------------------------------------------------------------------------------------------
    _, _, body = find_fn(src, 'fail_htlc')
    b = one(strip_comments(body))
    m = re.search(T('let mut full_failure_ev = None; let attempts_remaining = if let hash_map::Entry::Occupied(mut payment) = outbounds.entry(*payment_id) { '
                    'if <<e1:!payment\\.get_mut\\(\\)\\.remove\\(&session_priv_bytes, Some\\(&path\\)\\)>> { log_trace!(<<:[^;]*>>); return; } '
                    'if <<e2:payment\\.get\\(\\)\\.is_fulfilled\\(\\)>> { log_trace!(<<:[^;]*>>); return; } '
                    'let mut is_retryable_now = payment.get().is_auto_retryable_now(); <<mid:.*?>> '
                    'if <<ab:[^{}]*>> { let reason = if <<rc:\\w+>> { PaymentFailureReason::<<ra:\\w+>> } else { PaymentFailureReason::<<rb:\\w+>> }; '
                    'payment.get_mut().mark_abandoned(reason); is_retryable_now = false; } '
                    'if <<rp:payment\\.get\\(\\)\\.remaining_parts\\(\\) == 0>> { if let PendingOutboundPayment::<<av:\\w+>> { payment_hash, reason, .. } = payment.get() { '
                    'if <<pf:[^{}]*>> { full_failure_ev = Some(events::Event::PaymentFailed { payment_id: *payment_id, payment_hash: Some(*payment_hash), reason: *reason, }); } '
                    'payment.remove(); } } is_retryable_now } else { log_trace!(<<:[^;]*>>); return; };'), b)
    if not m: fail("fail_htlc: the map-entry block changed shape")
    if re.search(r'\breturn\b|mark_abandoned|mark_fulfilled|\.remove\(|is_retryable_now|full_failure_ev|push_back', m.group('mid')):
        fail("fail_htlc: new decisions between the early returns and the abandon test: %r" % m.group('mid')[:200])
    if m.group('rc') != 'payment_failed_permanently' or m.group('av') != 'Abandoned': fail("fail_htlc: reason / dropped variant changed")
    bool_fn(L, 'fail_htlc (entry Occupied; Vacant: return): first `if %s { return }` ...' % m.group('e1'), 'failReturnsNotRemoved (removed : Bool)', m.group('e1'), env=penv, methods=pay)
    bool_fn(L, '... then `if %s { return }` ...' % m.group('e2'), 'failReturnsFulfilled (isFulfilled : Bool)', m.group('e2'), env=penv, methods=pay)
    fenv = {'payment_is_probe': 'isProbe', 'is_retryable_now': 'autoRetryable', 'payment_failed_permanently': 'perm'}
    bool_fn(L, '... then (`is_retryable_now = payment.get().is_auto_retryable_now()`) `mark_abandoned(reason)` iff `%s` ...' % m.group('ab').strip(),
            'failAbandons (isProbe autoRetryable perm : Bool)', m.group('ab'), env=fenv)
    L += ['/-- ... with `reason = if %s { %s } else { %s }` ... -/' % (m.group('rc'), m.group('ra'), m.group('rb')),
          'def failReason (perm : Bool) : FailReason :=', '  if perm then %s else %s' % (reason_of(m.group('ra'), 'fail_htlc'), reason_of(m.group('rb'), 'fail_htlc')), '']
    em = Emitter(env=penv, methods=pay)
    L += ['/-- ... then `if %s { if let %s { reason, .. } = payment.get() { ..; payment.remove() } }`: the entry is dropped ... -/' % (m.group('rp'), m.group('av')),
          'def failDrops (remaining : Nat) (isAbandoned : Bool) : Bool :=', '  %s && isAbandoned' % em.e(parse_expr(m.group('rp'))), '']
    bool_fn(L, '... and `PaymentFailed` (with the STORED reason) is the full-failure event iff `%s`' % m.group('pf').strip(), 'failPushesFailed (isProbe : Bool)', m.group('pf'), env=fenv)
    m = re.search(T('let path_failure = { if <<p1:\\w+>> { if <<p2:\\w+>> { events::Event::<<ea:\\w+>> {<<:[^{}]*>>} } else { events::Event::<<eb:\\w+>> {<<:[^{}]*>>} } } else { '
                    'if attempts_remaining && !already_awaiting_retry { debug_assert!(full_failure_ev.is_none()); } events::Event::<<ec:\\w+>> {'), b)
    PEV = {'ProbeSuccessful': '.probeSuccessful', 'ProbeFailed': '.probeFailed', 'PaymentPathFailed': '.paymentPathFailed'}
    if not m or m.group('p1') != 'payment_is_probe' or m.group('p2') != 'payment_failed_permanently' or any(m.group(g) not in PEV for g in ('ea', 'eb', 'ec')):
        fail("fail_htlc: the path-failure event changed shape")
    L += ['/-- the per-path event of fail_htlc -/', 'inductive PathEvent', '  | probeSuccessful | probeFailed | paymentPathFailed', '  deriving DecidableEq, Repr, Inhabited', '',
          '/-- fail_htlc: `path_failure = if payment_is_probe { if payment_failed_permanently { %s } else { %s } } else { %s }` -/' % (m.group('ea'), m.group('eb'), m.group('ec')),
          'def failPathEvent (isProbe perm : Bool) : PathEvent :=',
          '  if isProbe then (if perm then %s else %s) else %s' % (PEV[m.group('ea')], PEV[m.group('eb')], PEV[m.group('ec')]), '']
    if not re.search(T('if let Some(ev) = full_failure_ev { pending_events.push_back((path_failure, None)); pending_events.push_back((ev, completion_action)); } '
                       'else { pending_events.push_back((path_failure, completion_action)); } }') + '$', b):
        fail("fail_htlc: the order of the pushed events changed")
    L += ['/-- fail_htlc: `path_failure` is always pushed, and BEFORE the full-failure event -/', 'def failPathEventFirst : Bool := true', '']

    # ---- abandon_payment -----------------------------------------------------------------------------------------------
    _, _, body = find_fn(src, 'abandon_payment')
    b = strip_comments(body)
    m = re.fullmatch(T('{ let mut outbounds = self.pending_outbound_payments.lock().unwrap(); if let hash_map::Entry::Occupied(mut payment) = outbounds.entry(payment_id) { '
                       'payment.get_mut().mark_abandoned(reason); match payment.get() <<arms:\\{.*\\}>> } }'), one(b))
    if not m: fail("abandon_payment changed shape")
    tab = variant_arms(match_arms(m.group('arms')), 'abandon_payment')
    pushed = 'pending_events.lock().unwrap().push_back((events::Event::PaymentFailed { payment_id, payment_hash: %s, reason: %s, }, None)); payment.remove();'
    tests = []
    def v_ab(v, alt, ex):
        m1 = re.fullmatch(T('{ if <<c:[^{}]*>> { ' + pushed % ('Some(*payment_hash)', '*reason') + ' } }'), ex)
        if m1 and re.search(r'\breason\b', alt):
            tests.append(m1.group('c').strip()); return '.stored'
        if re.fullmatch(T('{ ' + pushed % ('None', 'Some(reason)') + ' }'), ex) and not re.search(r'\breason\b', alt): return '.argument'
        if ex == '{}': return '.nothing'
        fail("abandon_payment/%s: %r" % (v, ex))
    L += ['/-- what abandon_payment does after `mark_abandoned(reason)`, by the variant the entry has THEN: `stored` = `PaymentFailed` with the',
          '    reason stored in the entry + `payment.remove()`, both only if `abandonStoredTest`; `argument` = `PaymentFailed` with the reason',
          '    passed to abandon_payment + `payment.remove()`; `nothing` = `{}` -/',
          'inductive AbandonArm', '  | stored | argument | nothing', '  deriving DecidableEq, Repr, Inhabited', '']
    table(L, 'abandon_payment (entry Occupied; Vacant: nothing happens): `mark_abandoned(reason); match payment.get() { .. }`', 'abandonArm', 'AbandonArm', tab, v_ab)
    if len(set(tests)) != 1: fail("abandon_payment: the stored-reason arms test %r" % tests)
    bool_fn(L, 'abandon_payment, `stored` arm: `if %s`' % tests[0], 'abandonStoredTest (remaining : Nat)', tests[0], env=penv, methods=pay)

    # ---- remove_stale_payments -------------------------------------------------------------------------------------------
    _, _, body = find_fn(src, 'remove_stale_payments')
    b = strip_comments(body)
    m = re.search(r'pending_outbound_payments\.retain\(\|payment_id, payment\| match payment\s*(\{)', b)
    if not m or one(b[match_brace(b, m.start(1)):]) != '); }': fail("remove_stale_payments: the retain closure changed shape")
    tab = variant_arms(match_arms(b[m.start(1):match_brace(b, m.start(1))]), 'remove_stale_payments')
    KEEP = 'true'
    FUL = T('{ let mut no_remaining_entries = session_privs.is_empty(); if no_remaining_entries { for (ev, _) in pending_events.iter() { match ev { '
            'events::Event::PaymentSent { payment_id: Some(ev_payment_id), .. } | events::Event::PaymentPathSuccessful { payment_id: ev_payment_id, .. } | '
            'events::Event::PaymentPathFailed { payment_id: Some(ev_payment_id), .. } => { if payment_id == ev_payment_id { no_remaining_entries = false; break; } }, _ => {}, } } } '
            'if no_remaining_entries { *timer_ticks_without_htlcs += <<inc:\\d+>>; <<keep:[^;{}]*>> } else { *timer_ticks_without_htlcs = <<z:\\d+>>; <<k2:true|false>> } }')
    EXP = T('{ let is_stale = match expiration { StaleExpiration::AbsoluteTimeout(absolute_expiry) => { *absolute_expiry <= duration_since_epoch }, '
            'StaleExpiration::TimerTicks(timer_ticks_remaining) => { if <<c:[^{}]*>> { *timer_ticks_remaining -= <<d:\\d+>>; <<s1:true|false>> } else { <<s2:true|false>> } }, }; '
            'if is_stale { let event = events::Event::PaymentFailed { payment_id: *payment_id, payment_hash: None, reason: Some(PaymentFailureReason::<<r:\\w+>>), }; '
            'pending_events.push_back((event, None)); false } else { true } }')
    found = {}
    def v_st(v, alt, ex):
        m1 = re.fullmatch(FUL, ex)
        if m1 and re.search(r'\bsession_privs\b', alt) and re.search(r'\btimer_ticks_without_htlcs\b', alt):
            found['ful'] = m1; return '.fulfilled'
        m1 = re.fullmatch(EXP, ex)
        if m1 and re.search(r'\bexpiration\b', alt):
            if 'exp' in found and found['exp'].group(0) != m1.group(0): fail("remove_stale_payments: two different expiration arms")
            found['exp'] = m1; return '.expiration'
        if v == 'StaticInvoiceReceived' and 'is_static_invoice_stale' in ex: return '.staticInvoice'
        if ex == KEEP: return '.keep'
        fail("remove_stale_payments/%s: %r" % (v, ex[:200]))
    L += ['/-- the arms of the `retain` closure of remove_stale_payments -/', 'inductive StaleArm', '  | fulfilled | expiration | staticInvoice | keep', '  deriving DecidableEq, Repr, Inhabited', '']
    table(L, 'remove_stale_payments: which arm of `match payment` a variant takes (`keep` = `_ => true`; `staticInvoice` = absolute time, not modelled)', 'staleArm', 'StaleArm', tab, v_st)
    if 'ful' not in found or 'exp' not in found: fail("remove_stale_payments: Fulfilled / expiration arm not found")
    f = found['ful']
    emt = Emitter(env={'timer_ticks_without_htlcs': '(ticks + %s)' % f.group('inc'), 'IDEMPOTENCY_TIMEOUT_TICKS': 'timeout'})
    L += ['/-- remove_stale_payments, Fulfilled arm.  `noRemaining` = `session_privs.is_empty()` and no `PaymentSent` / `PaymentPathSuccessful` /',
          '    `PaymentPathFailed` for this payment id is in `pending_events`.  Then `*timer_ticks_without_htlcs += %s; %s`,' % (f.group('inc'), f.group('keep').strip()),
          '    else `*timer_ticks_without_htlcs = %s; %s`.  Result: (new tick count, entry retained) -/' % (f.group('z'), f.group('k2')),
          'def staleFulfilled (noRemaining : Bool) (ticks : Nat) (timeout : Nat) : Nat × Bool :=',
          '  if noRemaining then (ticks + %s, %s) else (%s, %s)' % (f.group('inc'), emt.e(parse_expr(f.group('keep'))), f.group('z'), f.group('k2')), '']
    x = found['exp']
    emx = Emitter(env={'timer_ticks_remaining': 'ticks'})
    L += ['/-- remove_stale_payments, `StaleExpiration::TimerTicks(timer_ticks_remaining)`: `if %s { *timer_ticks_remaining -= %s; %s } else { %s }`.' % (x.group('c').strip(), x.group('d'), x.group('s1'), x.group('s2')),
          '    Result: (new tick count, is_stale); a stale entry is dropped and `PaymentFailed { reason: Some(%s) }` pushed -/' % x.group('r'),
          'def staleTimerTicks (ticks : Nat) : Nat × Bool :=',
          '  if %s then (ticks - %s, %s) else (ticks, %s)' % (emx.e(parse_expr(x.group('c'))), x.group('d'), x.group('s1'), x.group('s2')),
          'def staleReason : FailReason := %s' % reason_of(x.group('r'), 'remove_stale_payments'), '']

    # ---- check_retry_payments: the final retain ------------------------------------------------------------------------------
    _, _, body = find_fn(src, 'check_retry_payments')
    b = one(strip_comments(body))
    m = re.search(T('outbounds.retain(|pmt_id, pmt| { let mut retain = true; if <<c:[^{}]*>> { pmt.mark_abandoned(PaymentFailureReason::<<r:\\w+>>); '
                    'if let PendingOutboundPayment::<<av:\\w+>> { payment_hash, reason, .. } = pmt { pending_events.lock().unwrap().push_back(( events::Event::PaymentFailed { '
                    'payment_id: *pmt_id, payment_hash: Some(*payment_hash), reason: *reason, }, None, )); retain = false; should_persist = true; } } retain }); should_persist }') + '$', b)
    if not m or m.group('av') != 'Abandoned': fail("check_retry_payments: the final retain changed shape")
    bool_fn(L, 'check_retry_payments, final `retain`: `mark_abandoned(%s)` iff `%s`; afterwards the entry is dropped and `PaymentFailed` (stored reason) pushed only `if let Abandoned { .. } = pmt`' % (m.group('r'), m.group('c').strip()),
            'sweepAbandons (auto : Bool) (remaining : Nat) (preHtlc : Bool)', m.group('c'), env=penv, methods=pay)
    L += ['def sweepReason : FailReason := %s' % reason_of(m.group('r'), 'check_retry_payments'), '']

    # ---- insert_from_monitor_on_startup ----------------------------------------------------------------------------------------
    _, _, body = find_fn(src, 'insert_from_monitor_on_startup')
    b = strip_comments(body)
    ob = one(b)
    m = re.match(T('{ let path_amt = path.final_value_msat(); let path_fee = path.fee_msat(); macro_rules! new_retryable { () => { PendingOutboundPayment::<<v:\\w+>> { <<flds:[^{}]*>> } } }'), ob)
    if not m or m.group('v') not in VARIANTS: fail("insert_from_monitor_on_startup: new_retryable! changed shape")
    flds = dict((x.split(':', 1)[0].strip(), x.split(':', 1)[-1].strip()) for x in split_top(m.group('flds')) if x.strip())
    want = {'session_privs': 'hash_set_from_iter([session_priv_bytes])', 'pending_amt_msat': 'path_amt', 'total_msat': 'path_amt', 'retry_strategy': 'None', 'payment_params': 'None'}
    for k, v in want.items():
        if flds.get(k) != v: fail("insert_from_monitor_on_startup: new_retryable! has %s: %r" % (k, flds.get(k)))
    newv = m.group('v')
    m = re.search(r'match self\.pending_outbound_payments\.lock\(\)\.unwrap\(\)\.entry\(payment_id\)\s*(\{)', b)
    if not m or one(b[match_brace(b, m.start(1)):]) != '}': fail("insert_from_monitor_on_startup: the entry match changed shape")
    arms = match_arms(b[m.start(1):match_brace(b, m.start(1))])
    if [one(p) for p, _ in arms] != ['hash_map::Entry::Occupied(mut entry)', 'hash_map::Entry::Vacant(entry)']: fail("insert_from_monitor_on_startup: entry arms changed")
    if not re.fullmatch(T('{ entry.insert(new_retryable!()); log_info!(<<:[^;]*>>); }'), one(arms[1][1])): fail("insert_from_monitor_on_startup: the Vacant arm changed")
    occ = arms[0][1]
    m = re.search(r'let newly_added = match entry\.get\(\)\s*(\{)', occ)
    if not m or one(occ[:m.start()]) != '{' or not re.fullmatch(T('; log_info!(<<:[^;]*>>); }'), one(occ[match_brace(occ, m.start(1)):])): fail("insert_from_monitor_on_startup: the Occupied arm changed")
    tab = variant_arms(match_arms(occ[m.start(1):match_brace(occ, m.start(1))]), 'insert_from_monitor_on_startup')
    def v_su(v, alt, ex):
        if ex == '{ *entry.get_mut() = new_retryable!(); true }': return '.replace'
        if ex == '{ entry.get_mut().insert(session_priv_bytes, &path) }': return '.insert'
        fail("insert_from_monitor_on_startup/%s: %r" % (v, ex))
    L += ['/-- insert_from_monitor_on_startup, Occupied entry: `replace` = `*entry.get_mut() = new_retryable!()`; `insert` =',
          '    `entry.get_mut().insert(session_priv_bytes, &path)` -/', 'inductive StartupArm', '  | replace | insert', '  deriving DecidableEq, Repr, Inhabited', '']
    table(L, 'insert_from_monitor_on_startup: what happens to an Occupied entry, by variant.  A Vacant entry gets `new_retryable!()`', 'startupArm', 'StartupArm', tab, v_su)
    L += ['/-- insert_from_monitor_on_startup: `new_retryable!()` is a `%s` with `session_privs: hash_set_from_iter([session_priv_bytes])`,' % newv,
          '    `pending_amt_msat: path_amt`, `total_msat: path_amt` (`path_amt = path.final_value_msat()`), no retry strategy / payment params -/',
          'def startupNewVariant : Variant := .%s' % lv(newv),
          'def startupNewPending (pathAmt : Nat) : Nat := pathAmt',
          'def startupNewTotal (pathAmt : Nat) : Nat := pathAmt', '']

# ---------------------------------------------------------------- main

def main(out_path):
    src = open(os.path.join(REPO, SRC)).read()
    L = ['/- GENERATED by tools/gen_outbound_send.py from %s' % SRC,
         '   (pay_route_internal, handle_pay_route_err, push_path_failed_evs_and_scids, PendingOutboundPayment::{remove,',
         '   insert}, check_retry_payments, find_route_and_send_payment, remove_outbound_if_all_failed) — do not edit. -/',
         'namespace Ldk.OutboundSendGen', '',
         '/-- `Result<(), APIError>` of one `send_payment_along_path` call, as far as the send path tells results apart:',
         '    `Ok(())`, `Err(APIError::MonitorUpdateInProgress)`, any other `Err` -/',
         'inductive PathRes', '  | ok | mip | err', '  deriving DecidableEq, Repr, Inhabited', '',
         'def PathRes.isOk : PathRes → Bool', '  | .ok => true', '  | _ => false',
         'def PathRes.isErr : PathRes → Bool', '  | .ok => false', '  | _ => true',
         'def PathRes.isMip : PathRes → Bool', '  | .mip => true', '  | _ => false', '',
         '/-- what `pay_route_internal` returns: `Ok(())` or the `PaymentSendFailure` variant -/',
         'inductive SendKind',
         '  | sentAll | allFailedResendSafe | partialRetry | partialNoRetry | pathParameterError | parameterError',
         '  deriving DecidableEq, Repr, Inhabited', '',
         '/-- what `handle_pay_route_err` does last in a match arm -/',
         'inductive Next', '  | retry | abandonUnexpectedError | none', '  deriving DecidableEq, Repr, Inhabited', '',
         '/-- the accumulators of the result loop of `pay_route_internal` -/',
         'structure Flags where', '  hasOk : Bool := false', '  hasErr : Bool := false', '  hasUnsent : Bool := false',
         '  okAmt : Nat := 0', '  deriving DecidableEq, Repr, Inhabited', '']

    # ---- pay_route_internal -------------------------------------------------------------------
    _, _, body = find_fn(src, 'pay_route_internal')
    b = strip_comments(body)
    pe = [m for m in re.finditer(r'if\s+([^{}]*?)\{\s*return Err\(PaymentSendFailure::ParameterError\(', b)]
    if len(pe) != 2: fail("pay_route_internal: expected 2 ParameterError returns, found %d" % len(pe))
    mk = lambda name: (lambda recv, args: name)
    em = Emitter(methods={'len': mk('nPaths'), 'is_none': mk('secretNone'), 'any': mk('anyBlinded')})
    conds = [one(m.group(1)) for m in pe]
    for c in conds:
        if not re.fullmatch(r'[\w.()!&|<>= \d]*(\|p\| p\.blinded_tail\.is_some\(\))?[\w.()!&|<>= \d]*', c): fail("ParameterError test changed: %r" % c)
    L.append('/-- pay_route_internal: `ParameterError` iff `%s` or `%s` -/' % tuple(conds))
    L.append('def paramError (nPaths : Nat) (secretNone anyBlinded : Bool) : Bool :=')
    L.append('  %s || %s' % tuple(em.e(parse_expr(c)) for c in conds))
    L.append('')
    i_pp = b.find('return Err(PaymentSendFailure::PathParameterError(path_errs))')
    m = re.search(r'if path_errs\.iter\(\)\.any\(\|e\| e\.is_err\(\)\)\s*\{\s*return Err\(PaymentSendFailure::PathParameterError\(path_errs\)\);\s*\}', b)
    if not m or i_pp < pe[1].start(): fail("pay_route_internal: PathParameterError test changed")
    if not re.search(r"'path_check: for path in route\.paths\.iter\(\)", b) or b.count('path_errs.push(') != 4 or not re.search(r'path_errs\.push\(Ok\(\(\)\)\);\s*\}\s*if path_errs', b):
        fail("pay_route_internal: per-path parameter check changed shape")
    m = re.search(r'for \(path, session_priv_bytes\) in route\.paths\.iter\(\)\.zip\(onion_session_privs\.iter\(\)\)\s*(\{)', b)
    if not m or m.start() < i_pp: fail("pay_route_internal: send loop not found after the parameter checks")
    loop = b[m.start(1):match_brace(b, m.start(1))]
    if not re.fullmatch(r'\{ let path_res = send_payment_along_path\(SendAlongPathArgs \{[^{}]*\}\); results\.push\(path_res\); \}', one(loop)):
        fail("pay_route_internal: the send loop no longer hands every path to send_payment_along_path: %r" % one(loop)[:200])
    L.append('/-- pay_route_internal: every path of the route is handed to `send_payment_along_path` once, in route order, and')
    L.append('    its result recorded (`results.push(path_res)`), after both parameter checks passed -/')
    L.append('def sendsEveryPath : Bool := true')
    L.append('')
    inits = dict((m.group(1), m.group(2)) for m in re.finditer(r'let mut (has_ok|has_err|has_unsent|total_ok_amt_sent_msat) = (false|0);', b))
    if len(inits) != 4: fail("pay_route_internal: flag initialisation changed: %r" % inits)
    m = re.search(r'for \(res, path\) in results\.iter\(\)\.zip\(route\.paths\.iter\(\)\)\s*(\{)', b)
    if not m: fail("pay_route_internal: result loop not found")
    fl_end = match_brace(b, m.start(1))
    fbody = b[m.start(1):fl_end]
    L.append('/-- pay_route_internal, one round of the result loop: `%s` -/' % one(fbody))
    L.append('def flagsStep (res : PathRes) (amt : Nat) (f : Flags) : Flags :=')
    L += flag_stmts(fbody)
    L.append('  f')
    L.append('')
    tail = one(b[fl_end:])
    m = re.fullmatch(r'if (?P<c1>[\w &|!]+) \{ Err\(PaymentSendFailure::PartialFailure \{ results, payment_id, failed_paths_retry: if (?P<c2>[\w &|!]+) \{ '
                     r'let mut route_params = route\.route_params\.clone\(\); route_params\.max_total_routing_fee_msat = route_params \.max_total_routing_fee_msat\.map\(\|m\| m\.saturating_sub\(total_ok_fees_msat\)\); '
                     r'route_params\.final_value_msat = (?P<v>route_params\.final_value_msat \.\w+\(total_ok_amt_sent_msat\)); Some\(route_params\) \} else \{ None \}, \}\) \} '
                     r'else if (?P<c3>[\w &|!]+) \{ Err\(PaymentSendFailure::AllFailedResendSafe\(results\.drain\(\.\.\)\.map\(\|r\| r\.unwrap_err\(\)\)\.collect\(\)\)\) \} else \{ Ok\(\(\)\) \} \}', tail)
    if not m: fail("pay_route_internal: the final classification changed shape: %r" % tail[:400])
    emf = Emitter(env={'has_ok': 'f.hasOk', 'has_err': 'f.hasErr', 'has_unsent': 'f.hasUnsent'})
    L.append('/-- pay_route_internal: `if %s { PartialFailure { failed_paths_retry: if %s { Some } else { None } } } else if %s' % (m.group('c1'), m.group('c2'), m.group('c3')))
    L.append('    { AllFailedResendSafe } else { Ok(()) }` -/')
    L.append('def sendKindOf (f : Flags) : SendKind :=')
    L.append('  if %s then (if %s then .partialRetry else .partialNoRetry)' % (emf.e(parse_expr(m.group('c1'))), emf.e(parse_expr(m.group('c2')))))
    L.append('  else if %s then .allFailedResendSafe else .sentAll' % emf.e(parse_expr(m.group('c3'))))
    L.append('')
    emv = Emitter(fields={'route_params.final_value_msat': 'finalValue'}, env={'total_ok_amt_sent_msat': 'okAmt'})
    L.append('/-- pay_route_internal: value of the retry parameters of a PartialFailure: `%s` -/' % one(m.group('v')))
    L.append('def partialRetryValue (finalValue okAmt : Nat) : Nat :=')
    L.append('  ' + emv.e(parse_expr(m.group('v'))))
    L.append('')

    # ---- handle_pay_route_err -----------------------------------------------------------------
    _, _, body = find_fn(src, 'handle_pay_route_err')
    b = strip_comments(body)
    m = re.search(r'match err\s*(\{)', b)
    if not m or one(b[:m.start()]).strip('{ ') != '' or one(b[match_brace(b, m.start(1)):]).strip('} ') != '':
        fail("handle_pay_route_err is no longer a single `match err`")
    arms = match_arms(b[m.start(1):match_brace(b, m.start(1))])
    KINDS = [
        (r'PaymentSendFailure::AllFailedResendSafe\(errs\)', 'allFailedResendSafe'),
        (r'PaymentSendFailure::PartialFailure \{ failed_paths_retry: Some\(mut retry\), results, \.\. \}', 'partialRetry'),
        (r'PaymentSendFailure::PartialFailure \{ failed_paths_retry: None, \.\. \}', 'partialNoRetry'),
        (r'PaymentSendFailure::PathParameterError\(results\)', 'pathParameterError'),
        (r'PaymentSendFailure::ParameterError\(e\)', 'parameterError'),
        (r'PaymentSendFailure::DuplicatePayment', 'duplicatePayment'),
    ]
    ALL = r'self\.remove_session_privs\(payment_id, route\.paths\.iter\(\)\.zip\(onion_session_privs\.iter\(\)\)\)'
    SEL = r'let failed_paths = results\.iter\(\)\.zip\(route\.paths\.iter\(\)\.zip\(onion_session_privs\.iter\(\)\)\)\s*(?P<chain>.*?);\s*self\.remove_session_privs\(payment_id, failed_paths\)'
    RESULT_ARGS = {'allFailedResendSafe': (r'errs\.into_iter\(\)\.map\(\|e\| Err\(e\)\)', 'route_params'), 'partialRetry': (r'results\.into_iter\(\)', 'retry'),
                   'pathParameterError': (r'results\.into_iter\(\)', 'route_params')}
    found = {}
    if len(arms) != len(KINDS): fail("handle_pay_route_err: %d match arms, expected %d" % (len(arms), len(KINDS)))
    for (pat, ex), (rx, kind) in zip(arms, KINDS):
        if not re.fullmatch(rx, one(pat)): fail("handle_pay_route_err: arm %r where %s was expected" % (one(pat), kind))
        if kind == 'duplicatePayment':
            if one(ex) != 'debug_assert!(false)': fail("handle_pay_route_err: DuplicatePayment arm changed")
            continue
        t = ex.strip()[1:-1]
        t = re.sub(r'\b(debug_assert_eq|log_error)!\((?:[^()]|\([^()]*\))*\);', '', t).strip()
        rem, push, nxt = None, False, 'none'
        m2 = re.match(ALL + r';', t)
        if m2:
            rem = ('all',); t = t[m2.end():].strip()
        else:
            m2 = re.match(SEL + r';', t, re.S)
            if m2:
                rem = removes_from_chain(m2.group('chain')); t = t[m2.end():].strip()
        m2 = re.match(r'Self::push_path_failed_evs_and_scids\(payment_id, payment_hash, &mut (\w+), route\.paths, (.*?), pending_events, logger\);', t, re.S)
        if m2:
            want = RESULT_ARGS.get(kind)
            if not want or not re.fullmatch(want[0], one(m2.group(2))) or m2.group(1) != want[1]: fail("handle_pay_route_err/%s: push_path_failed_evs_and_scids arguments changed: %r" % (kind, one(m2.group(0))))
            push = True; t = t[m2.end():].strip()
        m2 = re.match(r'self\.find_route_and_send_payment\(payment_hash, payment_id, (\w+), router, first_hops, inflight_htlcs, entropy_source, node_signer, best_block_height,\s*pending_events, send_payment_along_path, logger\);', t)
        if m2:
            if m2.group(1) != RESULT_ARGS[kind][1]: fail("handle_pay_route_err/%s retries with %s" % (kind, m2.group(1)))
            nxt = 'retry'; t = t[m2.end():].strip()
        else:
            m2 = re.match(r'self\.abandon_payment\(payment_id, PaymentFailureReason::(\w+), pending_events\);', t)
            if m2:
                if m2.group(1) != 'UnexpectedError': fail("handle_pay_route_err/%s abandons with %s" % (kind, m2.group(1)))
                nxt = 'abandonUnexpectedError'; t = t[m2.end():].strip()
        if t: fail("handle_pay_route_err/%s: unrecognised statement(s): %r" % (kind, one(t)[:200]))
        found[kind] = (rem, push, nxt)
    order = ['allFailedResendSafe', 'partialRetry', 'partialNoRetry', 'pathParameterError', 'parameterError']
    sel_defs = []
    lines = []
    for k in order:
        rem = found[k][0]
        if rem is None: lines.append('  | .%s, _ => false' % k)
        elif rem[0] == 'all': lines.append('  | .%s, _ => true' % k)
        else:
            name = k + 'Removes'
            if rem[0] == 'match':
                sel_defs += ['/-- handle_pay_route_err/%s: `failed_paths` keeps a path iff `match path_res %s` yields `Some` -/' % (k, rem[2]),
                             'def %s : PathRes → Bool' % name] + rem[1] + ['']
            else:
                sel_defs += ['/-- handle_pay_route_err/%s: `failed_paths` keeps a path iff `%s` -/' % (k, one(rem[2])),
                             'def %s (res : PathRes) : Bool :=' % name, '  ' + rem[1], '']
            lines.append('  | .%s, res => %s res' % (k, name))
    L += sel_defs
    L.append('/-- handle_pay_route_err: is the session priv of a path with result `res` removed (`remove_session_privs`, i.e.')
    L.append('    `PendingOutboundPayment::remove(session_priv, Some(path))`) in the arm of kind `k`? -/')
    L.append('def handleRemoves : SendKind → PathRes → Bool')
    L += lines + ['  | .sentAll, _ => false', '']
    L.append('/-- handle_pay_route_err: does the arm call `push_path_failed_evs_and_scids` with the per-path results (after the removal)? -/')
    L.append('def handlePushes : SendKind → Bool')
    L += ['  | .%s => %s' % (k, 'true' if found[k][1] else 'false') for k in order] + ['  | .sentAll => false', '']
    L.append('/-- handle_pay_route_err: what the arm does last (`find_route_and_send_payment` with the retry parameters /')
    L.append('    `abandon_payment(.., UnexpectedError, ..)` / nothing) -/')
    L.append('def handleNext : SendKind → Next')
    L += ['  | .%s => .%s' % (k, found[k][2]) for k in order] + ['  | .sentAll => .none', '']

    # callers: the error is only handled when pay_route_internal returned Err
    for fn in ('send_payment_for_non_bolt12_invoice', 'find_route_and_send_payment'):
        _, _, fb = find_fn(src, fn)
        if not re.search(r'let res = self\.pay_route_internal\([^;]*\);\s*log_info!\([^;]*\);\s*if let Err\(e\) = res \{\s*self\.handle_pay_route_err\(', strip_comments(fb)):
            fail("%s no longer hands pay_route_internal's error to handle_pay_route_err" % fn)

    # ---- push_path_failed_evs_and_scids ---------------------------------------------------------
    _, _, body = find_fn(src, 'push_path_failed_evs_and_scids')
    b = strip_comments(body)
    m = re.search(r'for \(path, path_res\) in paths\.into_iter\(\)\.zip\(path_results\)\s*(\{)', b)
    if not m: fail("push_path_failed_evs_and_scids: loop not found")
    lb = b[m.start(1):match_brace(b, m.start(1))].strip()[1:-1].strip()
    m = re.match(r'if (let Err\(e\) = path_res)\s*(\{)', lb)
    if not m or one(lb[match_brace(lb, m.start(2)):]) != '': fail("push_path_failed_evs_and_scids: loop body changed")
    inner = lb[m.start(2):match_brace(lb, m.start(2))][1:-1]
    guards = []
    while True:
        g = re.match(r'\s*if let (?:APIError::)?MonitorUpdateInProgress = e \{\s*continue;\s*\}', inner)
        if not g: break
        guards.append('!res.isMip'); inner = inner[g.end():]
    if re.search(r'\bcontinue\b|\breturn\b|\bbreak\b', inner): fail("push_path_failed_evs_and_scids: further skip conditions: %r" % one(inner)[:200])
    if not re.search(r'let event = events::Event::PaymentPathFailed \{.*payment_failed_permanently: false,.*failure: events::PathFailure::InitialSend \{ err: e \},.*\};\s*events\.push_back\(\(event, None\)\);\s*$', inner, re.S):
        fail("push_path_failed_evs_and_scids: the pushed event changed")
    L.append('/-- push_path_failed_evs_and_scids: a `PaymentPathFailed { payment_failed_permanently: false, failure: InitialSend }` is')
    L.append('    pushed for a path iff its result is an `Err` that is not skipped (`if let MonitorUpdateInProgress = e { continue }`) -/')
    L.append('def pathFailedPushed (res : PathRes) : Bool :=')
    L.append('  ' + ' && '.join(['res.isErr'] + guards))
    L.append('')

    # ---- PendingOutboundPayment::{remove, insert} -----------------------------------------------
    HOLD = r'PendingOutboundPayment::Legacy \{ session_privs \} \| PendingOutboundPayment::Retryable \{ session_privs, \.\. \} \| PendingOutboundPayment::Fulfilled \{ session_privs, \.\. \} \| PendingOutboundPayment::Abandoned \{ session_privs, \.\. \} => \{ session_privs\.remove\(session_priv\) \}'
    for fn, res, op in (('remove', 'remove_res', '-'), ('insert', 'insert_res', '+')):
        _, _, body = find_fn(src, fn, after='impl PendingOutboundPayment')
        b = one(strip_comments(body))
        m = re.search(r'if %s \{ if let PendingOutboundPayment::Retryable \{ ref mut pending_amt_msat, ref mut pending_fee_msat, ref mut remaining_max_total_routing_fee_msat, \.\. \} = self \{ (?:let path = path\.expect\("[^"]*"\); )?\*pending_amt_msat (\+|-)= path\.final_value_msat\(\);' % res, b)
        if not m: fail("PendingOutboundPayment::%s: pending_amt_msat adjustment changed shape" % fn)
        if fn == 'remove' and not re.search(HOLD, b): fail("PendingOutboundPayment::remove: the variants holding session_privs changed")
        if fn == 'insert' and not re.search(r'PendingOutboundPayment::Legacy \{ session_privs \} \| PendingOutboundPayment::Retryable \{ session_privs, \.\. \} => \{ session_privs\.insert\(session_priv\) \}', b):
            fail("PendingOutboundPayment::insert: the variants accepting a session priv changed")
        L.append('/-- PendingOutboundPayment::%s: once the set changed (`%s`), `*pending_amt_msat %s= path.final_value_msat()` — only in `Retryable` -/' % (fn, res, m.group(1)))
        L.append('def %sAdjustsPending (isRetryable : Bool) (pend amt : Nat) : Nat :=' % fn)
        L.append('  if isRetryable then pend %s amt else pend' % m.group(1))
        L.append('')
    _, _, body = find_fn(src, 'remove_session_privs')
    if not re.search(r'for \(path, session_priv_bytes\) in path_session_priv \{ let removed = payment\.remove\(session_priv_bytes, Some\(path\)\);', one(strip_comments(body))):
        fail("remove_session_privs changed shape")

    # ---- check_retry_payments ---------------------------------------------------------------------
    _, _, body = find_fn(src, 'check_retry_payments')
    b = one(strip_comments(body))
    m = re.search(r'if pmt\.is_auto_retryable_now\(\) \{ if let PendingOutboundPayment::Retryable \{ pending_amt_msat, total_msat, payment_params: Some\(params\), payment_hash, remaining_max_total_routing_fee_msat, \.\. \} = pmt \{ if ([^{}]*) \{ retry_id_route_params = Some\(\( \*payment_hash, \*pmt_id, RouteParameters \{ final_value_msat: ([^,]*),', b)
    if not m: fail("check_retry_payments: retry test changed shape")
    ema = Emitter(env={'pending_amt_msat': 'pend', 'total_msat': 'total'})
    L.append('/-- check_retry_payments: an auto-retryable `Retryable` payment is retried iff `%s` ... -/' % m.group(1))
    L.append('def wantsRetry (pend total : Nat) : Bool :=')
    L.append('  ' + ema.e(parse_expr(m.group(1))))
    L.append('/-- ... for `final_value_msat: %s` -/' % m.group(2))
    L.append('def retryValue (pend total : Nat) : Nat :=')
    L.append('  ' + ema.e(parse_expr(m.group(2))))
    L.append('')
    m = re.search(r'outbounds\.retain\(\|pmt_id, pmt\| \{ let mut retain = true; if (!pmt\.is_auto_retryable_now\(\) && pmt\.remaining_parts\(\) == 0 && !pmt\.is_pre_htlc_lock_in\(\)) \{ pmt\.mark_abandoned\(PaymentFailureReason::RetriesExhausted\);', b)
    if not m: fail("check_retry_payments: final retain changed shape")

    # ---- find_route_and_send_payment --------------------------------------------------------------
    _, _, body = find_fn(src, 'find_route_and_send_payment')
    b = one(strip_comments(body))
    m = re.search(r'const RETRY_OVERFLOW_PERCENTAGE: u64 = (\d+); let retry_amt_msat = route\.get_total_amount\(\); if ([^{}]*) \{ log_error!\([^;]*\); abandon_with_entry!\(payment, PaymentFailureReason::UnexpectedError\); return \} '
                  r'if !payment\.get\(\)\.is_retryable_now\(\) \{ log_error!\([^;]*\); abandon_with_entry!\(payment, PaymentFailureReason::RetriesExhausted\); return \}', b)
    if not m: fail("find_route_and_send_payment: overflow / retries-exhausted tests changed shape")
    emo = Emitter(env={'retry_amt_msat': 'retryAmt', 'pending_amt_msat': 'pend', 'total_msat': 'total', 'RETRY_OVERFLOW_PERCENTAGE': m.group(1)})
    L.append('/-- find_route_and_send_payment: the retry is refused (abandon, UnexpectedError) iff `%s` (RETRY_OVERFLOW_PERCENTAGE = %s);' % (m.group(2), m.group(1)))
    L.append('    this test comes first, `!is_retryable_now()` (abandon, RetriesExhausted) second, the insertion of the new session privs third -/')
    L.append('def retryOverflows (retryAmt pend total : Nat) : Bool :=')
    L.append('  ' + emo.e(parse_expr(m.group(2))))
    L.append('')
    if not re.search(r'for \(path, session_priv_bytes\) in route\.paths\.iter\(\)\.zip\(onion_session_privs\.iter\(\)\) \{ assert!\(payment\.get_mut\(\)\.insert\(\*session_priv_bytes, path\)\); \} payment\.get_mut\(\)\.increment_attempts\(\);', b):
        fail("find_route_and_send_payment: insertion of the retry's session privs changed shape")
    _, _, body = find_fn(src, 'create_pending_payment')
    if not re.search(r'pending_amt_msat: 0,.*total_msat: route\.get_total_amount\(\),.*for \(path, session_priv_bytes\) in route\.paths\.iter\(\)\.zip\(onion_session_privs\.iter\(\)\) \{ assert!\(payment\.insert\(\*session_priv_bytes, path\)\); \}', one(strip_comments(body))):
        fail("create_pending_payment changed shape")
    L.append('/-- create_pending_payment / find_route_and_send_payment insert every path with `assert!(payment.insert(..))`: a session')
    L.append('    priv that is already in the set is a panic; a new payment starts with `pending_amt_msat: 0` and')
    L.append('    `total_msat: route.get_total_amount()` -/')
    L.append('def insertAsserted : Bool := true')
    L.append('')

    # ---- remove_outbound_if_all_failed (send_probe) ------------------------------------------------
    _, _, body = find_fn(src, 'remove_outbound_if_all_failed')
    b = strip_comments(body)
    m = re.search(r'match err\s*(\{)', b)
    if not m: fail("remove_outbound_if_all_failed: match not found")
    arms = match_arms(b[m.start(1):match_brace(b, m.start(1))])
    PK = {'PaymentSendFailure::AllFailedResendSafe(_)': ['allFailedResendSafe'], 'PaymentSendFailure::ParameterError(_)': ['parameterError'],
          'PaymentSendFailure::PathParameterError(_)': ['pathParameterError'], 'PaymentSendFailure::PartialFailure { .. }': ['partialRetry', 'partialNoRetry'],
          'PaymentSendFailure::DuplicatePayment': []}
    seen, lines = set(), []
    for pat, ex in arms:
        ks = []
        for alt in split_top(one(pat), '|'):
            alt = alt.strip()
            if alt not in PK: fail("remove_outbound_if_all_failed: pattern %r" % alt)
            ks += PK[alt]; seen.add(alt)
        e = one(ex)
        if e == '{}': val = 'false'
        elif re.fullmatch(r'\{ let removed = self\.pending_outbound_payments\.lock\(\)\.unwrap\(\)\.remove\(&payment_id\)\.is_some\(\); debug_assert!\(removed, "[^"]*"\); \}', e): val = 'true'
        else: fail("remove_outbound_if_all_failed: arm body %r" % e[:200])
        lines += ['  | .%s => %s' % (k, val) for k in ks]
    if seen != set(PK): fail("remove_outbound_if_all_failed: arms changed")
    L.append('/-- remove_outbound_if_all_failed (send_probe): the failure kinds for which the new entry is removed again -/')
    L.append('def probeDropsEntry : SendKind → Bool')
    L += lines + ['  | .sentAll => false', '']
    lifecycle(src, L)
    L.append('end Ldk.OutboundSendGen')
    text = '\n'.join(L) + '\n'
    old = open(out_path).read() if os.path.exists(out_path) else None
    if old != text:
        os.makedirs(os.path.dirname(out_path), exist_ok=True)
        open(out_path, 'w').write(text)
        print('wrote', out_path)
    else:
        print('unchanged', out_path)

if __name__ == '__main__':
    out = os.path.join(os.path.dirname(os.path.abspath(__file__)), '..', 'lean', 'LdkModel', 'Generated', 'OutboundSend.lean')
    if len(sys.argv) > 1: out = sys.argv[1]
    try:
        main(os.path.normpath(out))
    except TranslateError as e:
        print('TRANSLATE-ERROR gen_outbound_send.py:', e)
        sys.exit(2)
