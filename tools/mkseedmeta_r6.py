#!/usr/bin/env python3
# usage: mkseedmeta_r6.py CNN "<breaks>" "<needs>" "<demo filter>"  -- builds /verif/seeded/CNN-r6 from /tmp/r6/out_CNN + first-run log
import sys, json, os, shutil, re
pid, breaks, needs, filt = sys.argv[1:5]
src = '/tmp/r6/out_%s' % pid; dst = '/verif/seeded/%s-r6' % pid
os.makedirs(dst, exist_ok=True)
for f in ('patch.diff', 'demo.diff', 'notes.md', 'confirm.log'):
    if os.path.exists(os.path.join(src, f)): shutil.copy(os.path.join(src, f), os.path.join(dst, f))
fr = '/tmp/r6/first_%s.txt' % pid
lines = [l.rstrip('\n')[:600] for l in open(fr, errors='replace')] if os.path.exists(fr) else []
keep = [l for l in lines if re.match(r'^(OK |VIOLATION|KNOWN|TRANSLATE|BROKEN|FAILING-INPUT|rc=)', l)]
open(os.path.join(dst, 'firstrun.txt'), 'w').write('\n'.join(keep[:40]) + '\n')
conf = open(os.path.join(dst, 'confirm.log')).read() if os.path.exists(os.path.join(dst, 'confirm.log')) else ''
secs = conf.split('== ')
def sec(name):
    for s in secs:
        if s.startswith(name): return s
    return ''
viol = any(l.startswith('VIOLATION') for l in keep); fi = any(l.startswith('FAILING-INPUT') for l in keep)
nofi = any('no-failing-input-found' in l for l in keep if l.startswith('VIOLATION'))
first = ('CAUGHT with a failing input' if viol and fi and not nofi else 'CAUGHT, no-failing-input-found' if viol else 'MISSED (exit 0)') if keep else 'not run'
suite = [l for l in sec('patched, whole suite').splitlines() if l.startswith('test result')]
meta = {'property': pid, 'round': 6, 'breaks': breaks, 'needs': needs, 'demo_filter': filt + ' (-p lightning --lib)',
        'first_run': first,
        'first_run_evidence': [l[:300] for l in keep if l.startswith(('BROKEN', 'FAILING-INPUT'))][:3],
        'confirmed': {'pristine_demo_passes': 'test result: ok. 1 passed' in sec('pristine + demo'),
                      'patched_demo_fails': 'FAILED' in sec('patched + demo'),
                      'patched_whole_suite': suite[0] if suite else '', 'patched_whole_suite_passes': bool(suite) and suite[0].startswith('test result: ok')},
        'what_was_run': 'integrator: tools/confirm_r6.sh in the seeder\'s scratch worktree (demo alone on the pinned commit; demo with patch; whole lib suite of the touched crate with the patch, demo skipped); first run: ./check of the session-5 tree against /repo HEAD + patch.diff in an isolated sandbox (tools/mut_sandbox.sh)',
        'origin': 'written by an independent sub-agent given only the property text, the list of mechanisms already used and a scratch worktree'}
json.dump(meta, open(os.path.join(dst, 'meta.json'), 'w'), indent=1, ensure_ascii=False)
print(dst, first, meta['confirmed'])
