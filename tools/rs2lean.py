#!/usr/bin/env python3
"""Mini translator: a small subset of Rust expressions / function bodies -> Lean 4 over Nat.

Subset: integer literals (with _ and type suffixes), identifiers and paths, field access, `as T`
(dropped: target is Nat), unary !, binary * / % + - << comparisons && ||, parentheses, calls
`f(a, b)`, method calls (.checked_*, .saturating_*, .min, .max, .unwrap_or, .into, .is_some...),
`if c { e } else { e }`, blocks with `let [mut] x = e;`, `x = e;`/`x += e;` (SSA by shadowing),
`return e;`, `if c { return e; }` chains, `debug_assert!`/comments dropped, tuple results.

Anything outside the subset raises TranslateError: the caller treats that as a broken obligation
(the source was restructured), never as silently-OK.
"""
import re, sys

class TranslateError(Exception):
    pass

TOK = re.compile(r"""
    (?P<ws>\s+|//[^\n]*|/\*.*?\*/)
  | (?P<num>0x[0-9a-fA-F_]+|\d[\d_]*)(?P<suf>(?:u|i)(?:8|16|32|64|128|size))?
  | (?P<id>[A-Za-z_][A-Za-z0-9_]*!?)
  | (?P<op>::|<<=|>>=|<<|>>|<=|>=|==|!=|&&|\|\||\+=|-=|\*=|/=|->|=>|\.\.|[-+*/%<>=!&|.,;:(){}\[\]?#])
  | (?P<str>"(?:[^"\\]|\\.)*")
""", re.X | re.S)

def tokenize(src):
    out = []
    i = 0
    while i < len(src):
        m = TOK.match(src, i)
        if not m:
            raise TranslateError("cannot tokenize at: %r" % src[i:i+40])
        i = m.end()
        if m.group('ws'):
            continue
        if m.group('num') is not None:
            s = m.group('num').replace('_', '')
            out.append(('num', int(s, 16) if s.startswith('0x') else int(s)))
        elif m.group('id'):
            out.append(('id', m.group('id')))
        elif m.group('op'):
            out.append(('op', m.group('op')))
        elif m.group('str'):
            out.append(('str', m.group('str')))
    return out

# AST: ('num', n) ('var', name) ('bin', op, a, b) ('not', a) ('call', name, [args])
# ('method', recv, name, [args]) ('field', recv, name) ('if', c, a, b) ('cast', a, ty)
# ('tuple', [..]) ('block', [stmts], tail)  stmts: ('let', name, e) ('ifret', c, e) ('ret', e)
# ('ok', e) ('err', e) ('some', e) ('none',) ('unit',)

BINPREC = [
    ['||'], ['&&'], ['==', '!=', '<', '>', '<=', '>='], ['|'], ['^'], ['&'], ['<<', '>>'],
    ['+', '-'], ['*', '/', '%'],
]

class Parser:
    def __init__(self, toks):
        self.t = toks
        self.i = 0
    def peek(self, k=0):
        return self.t[self.i + k] if self.i + k < len(self.t) else ('eof', None)
    def next(self):
        x = self.peek(); self.i += 1; return x
    def accept(self, kind, val=None):
        k, v = self.peek()
        if k == kind and (val is None or v == val):
            self.i += 1
            return True
        return False
    def expect(self, kind, val=None):
        k, v = self.next()
        if k != kind or (val is not None and v != val):
            raise TranslateError("expected %s %s, got %s %s (tok %d)" % (kind, val, k, v, self.i))
        return v

    def expr(self, level=0, nostruct=False):
        if level == len(BINPREC):
            return self.cast(nostruct)
        a = self.expr(level + 1, nostruct)
        while True:
            k, v = self.peek()
            if k == 'op' and v in BINPREC[level]:
                # don't treat `<` `>` inside generics: not supported anyway
                self.next()
                b = self.expr(level + 1, nostruct)
                a = ('bin', v, a, b)
            else:
                return a

    def cast(self, nostruct):
        a = self.unary(nostruct)
        while self.peek() == ('id', 'as'):
            self.next()
            ty = self.expect('id')
            a = ('cast', a, ty)
        return a

    def unary(self, nostruct):
        if self.accept('op', '!'):
            return ('not', self.unary(nostruct))
        if self.accept('op', '&'):
            self.accept('id', 'mut')
            return self.unary(nostruct)
        if self.accept('op', '*'):
            return self.unary(nostruct)
        return self.postfix(nostruct)

    def args(self):
        out = []
        self.expect('op', '(')
        while not self.accept('op', ')'):
            out.append(self.expr())
            self.accept('op', ',')
        return out

    def postfix(self, nostruct):
        a = self.primary(nostruct)
        while True:
            if self.accept('op', '.'):
                k, v = self.next()
                if k == 'num':
                    a = ('field', a, str(v))
                    continue
                if k != 'id':
                    raise TranslateError("bad field %s" % v)
                if self.peek() == ('op', '('):
                    a = ('method', a, v, self.args())
                else:
                    a = ('field', a, v)
            elif self.accept('op', '?'):
                a = ('try', a)
            else:
                return a

    def primary(self, nostruct):
        k, v = self.next()
        if k == 'num':
            return ('num', v)
        if k == 'op' and v == '(':
            if self.accept('op', ')'):
                return ('unit',)
            e = self.expr()
            if self.accept('op', ','):
                items = [e]
                while not self.accept('op', ')'):
                    items.append(self.expr())
                    self.accept('op', ',')
                return ('tuple', items)
            self.expect('op', ')')
            return e
        if k == 'op' and v == '{':
            self.i -= 1
            return self.block()
        if k == 'op' and v == '|':
            params = []
            while not self.accept('op', '|'):
                self.accept('op', '&')
                self.accept('id', 'mut')
                params.append(self.expect('id'))
                self.accept('op', ',')
            body = self.expr()
            return ('closure', params, body)
        if k == 'id':
            if v == 'if':
                c = self.expr(nostruct=True)
                a = self.block()
                if self.accept('id', 'else'):
                    if self.peek() == ('id', 'if'):
                        b = self.primary(nostruct)
                    else:
                        b = self.block()
                else:
                    b = ('unit',)
                return ('if', c, a, b)
            name = v
            while self.accept('op', '::'):
                name += '::' + self.expect('id')
            if self.peek() == ('op', '('):
                args = self.args()
                if name in ('Ok', 'Err', 'Some'):
                    return (name.lower(), args[0] if args else ('unit',))
                return ('call', name, args)
            if name == 'None':
                return ('none',)
            if name == 'true':
                return ('bool', True)
            if name == 'false':
                return ('bool', False)
            return ('var', name)
        raise TranslateError("unexpected token %s %s" % (k, v))

    def block(self):
        self.expect('op', '{')
        stmts = []
        tail = None
        while not self.accept('op', '}'):
            k, v = self.peek()
            if k == 'id' and v in ('debug_assert!', 'debug_assert_eq!', 'assert!', 'log_trace!',
                                   'log_debug!', 'log_info!', 'log_error!', 'debug_assert_ne!'):
                self.next()
                self.skip_parens()
                self.accept('op', ';')
                continue
            if k == 'op' and v == '#':  # attribute
                self.next(); self.skip_brackets(); continue
            if k == 'id' and v == 'let':
                self.next()
                self.accept('id', 'mut')
                if self.peek() == ('op', '('):
                    self.next()
                    names = []
                    while not self.accept('op', ')'):
                        self.accept('id', 'mut')
                        names.append(self.expect('id'))
                        self.accept('op', ',')
                    name = tuple(names)
                else:
                    name = self.expect('id')
                if self.accept('op', ':'):
                    self.skip_type()
                self.expect('op', '=')
                e = self.expr()
                self.expect('op', ';')
                stmts.append(('let', name, e))
                continue
            if k == 'id' and v == 'return':
                self.next()
                e = self.expr() if self.peek() != ('op', ';') else ('unit',)
                self.accept('op', ';')
                stmts.append(('ret', e))
                continue
            # assignment?
            if k == 'id' and self.peek(1)[0] == 'op' and self.peek(1)[1] in ('=', '+=', '-=', '*=', '/='):
                name = self.next()[1]
                op = self.next()[1]
                e = self.expr()
                self.expect('op', ';')
                if op != '=':
                    e = ('bin', op[0], ('var', name), e)
                stmts.append(('let', name, e))
                continue
            e = self.expr()
            if self.accept('op', ';'):
                stmts.append(('expr', e))
            elif self.peek() == ('op', '}'):
                tail = e
            else:
                # block-like expression statement (if ... {} without ;)
                stmts.append(('expr', e))
        return ('block', stmts, tail)

    def skip_parens(self):
        self.expect('op', '(')
        d = 1
        while d:
            k, v = self.next()
            if k == 'eof':
                raise TranslateError("unbalanced")
            if (k, v) == ('op', '('): d += 1
            if (k, v) == ('op', ')'): d -= 1
    def skip_brackets(self):
        self.expect('op', '[')
        d = 1
        while d:
            k, v = self.next()
            if (k, v) == ('op', '['): d += 1
            if (k, v) == ('op', ']'): d -= 1
    def skip_type(self):
        d = 0
        while True:
            k, v = self.peek()
            if d == 0 and (k, v) == ('op', '='):
                return
            if (k, v) == ('op', '<'): d += 1
            if (k, v) == ('op', '>'): d -= 1
            self.next()


def parse_expr(src):
    p = Parser(tokenize(src))
    e = p.expr()
    if p.peek()[0] != 'eof':
        raise TranslateError("trailing tokens after expression: %s" % (p.t[p.i:p.i+5],))
    return e

def parse_block(src):
    p = Parser(tokenize(src))
    b = p.block()
    if p.peek()[0] != 'eof':
        raise TranslateError("trailing tokens after block")
    return b

# ---------------------------------------------------------------------------------------------
# Emission

class Emitter:
    """env: maps Rust names/paths to Lean terms; unknown upper-case names map to themselves
    (constants from Generated/Consts); calls map through `funs`."""
    def __init__(self, env=None, funs=None, methods=None, fields=None, errmap=None):
        self.env = dict(env or {})
        self.funs = dict(funs or {})
        self.methods = dict(methods or {})
        self.fields = dict(fields or {})
        self.errmap = errmap

    def var(self, name):
        if name in self.env:
            return self.env[name]
        base = name.split('::')[-1]
        if base in self.env:
            return self.env[base]
        if re.fullmatch(r'[A-Z_][A-Z0-9_]*', base):
            return base
        if name.startswith('LocalHTLCFailureReason::') or (self.errmap and name.split('::')[0] in self.errmap):
            return '.' + base[0].lower() + base[1:]
        if re.fullmatch(r'[a-z_][a-z0-9_]*', name):
            return name
        raise TranslateError("unknown name %s" % name)

    def e(self, a):
        k = a[0]
        if k == 'num': return str(a[1])
        if k == 'bool': return 'true' if a[1] else 'false'
        if k == 'unit': return '()'
        if k == 'var': return self.var(a[1])
        if k == 'cast': return self.e(a[1])
        if k == 'not': return '(!%s)' % self.e(a[1])
        if k == 'bin':
            op = a[1]
            l, r = self.e(a[2]), self.e(a[3])
            if op in ('<', '>', '<=', '>=', '==', '!='):
                lop = {'==': '==', '!=': '!='}.get(op, op)
                return '(decide (%s %s %s))' % (l, {'==': '=', '!=': '≠'}.get(op, op), r)
            if op == '-':
                return '(%s - %s)' % (l, r)
            if op == '<<':
                return '(%s * 2 ^ %s)' % (l, r)
            if op == '>>':
                return '(%s / 2 ^ %s)' % (l, r)
            return '(%s %s %s)' % (l, op, r)
        if k == 'field':
            key = a[2]
            recv = a[1]
            if recv[0] == 'var' and (recv[1] + '.' + key) in self.fields:
                return self.fields[recv[1] + '.' + key]
            if key in self.fields:
                return '(%s %s)' % (self.fields[key], self.e(recv))
            return '%s.%s' % (self.e(recv), key)
        if k == 'call':
            name = a[1]
            base = name.split('::')[-1]
            args = [self.e(x) for x in a[2]]
            if name in ('cmp::max', 'core::cmp::max', 'max'): return '(Nat.max %s %s)' % tuple(args)
            if name in ('cmp::min', 'core::cmp::min', 'min'): return '(Nat.min %s %s)' % tuple(args)
            if base in self.funs:
                f = self.funs[base]
                return f(args) if callable(f) else '(%s %s)' % (f, ' '.join(args))
            raise TranslateError("unknown function %s" % name)
        if k == 'method':
            recv, name, args = self.e(a[1]), a[2], [self.e(x) for x in a[3]]
            if name in self.methods:
                f = self.methods[name]
                return f(recv, args)
            if name in ('saturating_sub',): return '(%s - %s)' % (recv, args[0])
            if name in ('saturating_add', 'saturating_mul'):
                raise TranslateError("saturating_add/mul need a width; give a methods entry")
            if name == 'min': return '(Nat.min %s %s)' % (recv, args[0])
            if name == 'max': return '(Nat.max %s %s)' % (recv, args[0])
            if name in ('into', 'clone', 'to_sat', 'to_wu'): return recv
            if name == 'checked_sub': return '(chkSub %s %s)' % (recv, args[0])
            if name == 'checked_add': return '(chkAdd64 %s %s)' % (recv, args[0])
            if name == 'checked_mul': return '(chkMul64 %s %s)' % (recv, args[0])
            if name == 'checked_div': return '(chkDiv %s %s)' % (recv, args[0])
            if name == 'unwrap_or': return '(Option.getD %s %s)' % (recv, args[0])
            if name in ('and_then', 'map') and a[3] and a[3][0][0] == 'closure':
                cl = a[3][0]
                fn = '(fun %s => %s)' % (' '.join(cl[1]), self.e(cl[2]))
                return '(%s %s %s)' % ('Option.bind' if name == 'and_then' else 'Option.map', recv, fn) if name == 'and_then' else '(Option.map %s %s)' % (fn, recv)
            if name == 'unwrap': return '(Option.getD %s 0)' % recv
            if name == 'is_some': return '(Option.isSome %s)' % recv
            if name == 'is_none': return '(Option.isNone %s)' % recv
            raise TranslateError("unknown method %s" % name)
        if k == 'if':
            return '(if %s then %s else %s)' % (self.e(a[1]), self.e(a[2]), self.e(a[3]))
        if k == 'tuple':
            return '(' + ', '.join(self.e(x) for x in a[1]) + ')'
        if k == 'ok': return '(.ok %s)' % self.e(a[1])
        if k == 'err': return '(.error %s)' % self.e(a[1])
        if k == 'some': return '(some %s)' % self.e(a[1])
        if k == 'none': return 'none'
        if k == 'closure':
            return '(fun %s => %s)' % (' '.join(a[1]), self.e(a[2]))
        if k == 'try':
            raise TranslateError("`?` must be handled at statement level")
        if k == 'block':
            return self.block(a)
        raise TranslateError("cannot emit %s" % (a,))

    def block(self, b, cont=None):
        """Emit a block as nested lets; `if c { return e }` becomes if-then-else over the rest."""
        stmts, tail = b[1], b[2]
        return self._stmts(list(stmts), tail)

    def _stmts(self, stmts, tail):
        if not stmts:
            if tail is None:
                return '()'
            return self.e(tail)
        s = stmts[0]
        rest = stmts[1:]
        if s[0] == 'let':
            name, ex = s[1], s[2]
            # `let x = e?;` over Option / Except
            if ex[0] == 'try':
                inner = self.e(ex[1])
                pat = name if isinstance(name, str) else '(' + ', '.join(name) + ')'
                return '(match %s with\n  | none => none\n  | some %s => %s)' % (inner, pat, self._stmts(rest, tail))
            pat = name if isinstance(name, str) else '(' + ', '.join(name) + ')'
            return '(let %s := %s;\n  %s)' % (pat, self.e(ex), self._stmts(rest, tail))
        if s[0] == 'ret':
            return self.e(s[1])
        if s[0] == 'expr':
            ex = s[1]
            if ex[0] == 'if':
                c, a, b = ex[1], ex[2], ex[3]
                a_ret = self._always_returns(a)
                if a_ret and b == ('unit',):
                    return '(if %s then %s else\n  %s)' % (self.e(c), self._stmts(list(a[1]), a[2]), self._stmts(rest, tail))
                if a_ret and self._always_returns(b):
                    return '(if %s then %s else %s)' % (self.e(c), self._stmts(list(a[1]), a[2]), self._stmts(list(b[1]), b[2]))
                # conditional reassignments: `if c { x = e; }`  → let x := if c then e else x
                assigns_a = self._pure_assigns(a)
                assigns_b = self._pure_assigns(b) if b != ('unit',) else {}
                if assigns_a is not None and assigns_b is not None:
                    names = list(dict.fromkeys(list(assigns_a) + list(assigns_b)))
                    out = self._stmts(rest, tail)
                    cs = self.e(c)
                    # all assignments evaluated with the pre-state: emit via fresh tuple
                    lets = ''
                    for n in names:
                        ea = self.e(assigns_a[n]) if n in assigns_a else n
                        eb = self.e(assigns_b[n]) if n in assigns_b else n
                        lets += '(let %s__n := if %s then %s else %s;\n  ' % (n, cs, ea, eb)
                    for n in names:
                        lets += '(let %s := %s__n;\n  ' % (n, n)
                    return lets + out + ')' * (2 * len(names))
                raise TranslateError("if-statement outside subset")
            raise TranslateError("expression statement outside subset: %s" % (ex[0],))
        raise TranslateError("statement outside subset: %s" % (s[0],))

    def _always_returns(self, b):
        if b[0] != 'block':
            return False
        stmts, tail = b[1], b[2]
        if stmts and stmts[-1][0] == 'ret' and tail is None:
            # all earlier stmts must be lets
            return all(s[0] in ('let',) or (s[0] == 'expr' and s[1][0] == 'if') for s in stmts[:-1])
        return False

    def _pure_assigns(self, b):
        if b[0] != 'block' or b[2] is not None:
            return None
        out = {}
        for s in b[1]:
            if s[0] != 'let' or not isinstance(s[1], str):
                return None
            if s[1] in out:
                return None
            out[s[1]] = s[2]
        # single-assignment only, and rhs must not depend on another assigned var of this block
        return out


# ---------------------------------------------------------------------------------------------
# Source extraction helpers

def strip_comments(src):
    src = re.sub(r'//[^\n]*', '', src)
    src = re.sub(r'/\*.*?\*/', '', src, flags=re.S)
    return src

def match_brace(src, i):
    """src[i] == '{' → index just after its matching '}' (comments/strings aware enough)."""
    assert src[i] == '{', src[i:i+20]
    d = 0
    j = i
    n = len(src)
    while j < n:
        c = src[j]
        if c == '/' and src[j:j+2] == '//':
            j = src.index('\n', j)
            continue
        if c == '/' and src[j:j+2] == '/*':
            j = src.index('*/', j) + 2
            continue
        if c == '"':
            j += 1
            while src[j] != '"':
                if src[j] == '\\': j += 1
                j += 1
        elif c == "'" and re.match(r"'(\\.|[^\\'])'", src[j:j+4]):
            j += len(re.match(r"'(\\.|[^\\'])'", src[j:j+4]).group(0)) - 1
        elif c == '{':
            d += 1
        elif c == '}':
            d -= 1
            if d == 0:
                return j + 1
        j += 1
    raise TranslateError("unbalanced braces")

def find_fn(src, name, after=None):
    """Return (params_text, ret_text, body_text_with_braces) of `fn name`."""
    start = 0
    if after:
        start = src.index(after)
    m = re.compile(r'\bfn\s+' + re.escape(name) + r'\s*(<[^>{]*>)?\s*\(').search(src, start)
    if not m:
        raise TranslateError("fn %s not found" % name)
    i = m.end() - 1
    d = 0
    j = i
    while True:
        if src[j] == '(': d += 1
        if src[j] == ')':
            d -= 1
            if d == 0: break
        j += 1
    params = src[i+1:j]
    k = src.index('{', j)
    # where clauses / return type
    ret = src[j+1:k]
    end = match_brace(src, k)
    return params, ret, src[k:end]

def parse_params(params):
    out = []
    d = 0
    cur = ''
    for c in params:
        if c in '<([': d += 1
        if c in '>)]': d -= 1
        if c == ',' and d == 0:
            out.append(cur); cur = ''
        else:
            cur += c
    if cur.strip():
        out.append(cur)
    res = []
    for p in out:
        p = p.strip()
        if not p or p in ('&self', 'self', '&mut self'):
            continue
        n, t = p.split(':', 1)
        res.append((n.strip().replace('mut ', ''), t.strip()))
    return res

if __name__ == '__main__':
    src = sys.stdin.read()
    print(Emitter().e(parse_expr(src)))
