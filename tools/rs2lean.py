#!/usr/bin/env python3
"""Mini translator: a subset of Rust expressions / function bodies -> Lean 4 over Nat.

Subset (v2): integer literals, identifiers/paths, field access, `as T` (dropped: target is Nat),
unary ! & *, binary arithmetic/comparison/logic, calls, method calls (checked_*/saturating_*/min/max/
unwrap_or/iter/filter/filter_map/count/len/sum/map/then_some/...), closures, struct literals,
`if`/`else`, `if let Some(x) = e`, blocks with `let`, assignments (SSA by shadowing; mutations inside
`if` blocks are merged through tuples), closure-valued lets, `return`, `?` on Option/Result-of-unit
(both modelled as Option), tuples.  `debug_assert*!`/`log_*!` statements and attributes are skipped.

Anything outside the subset raises TranslateError: the caller treats that as a broken obligation
(the source was restructured), never as silently-OK.
"""
import re, sys

class TranslateError(Exception):
    pass

TOK = re.compile(r"""
    (?P<ws>\s+|//[^\n]*|/\*.*?\*/)
  | (?P<num>0x[0-9a-fA-F_]+|\d[\d_]*)(?P<suf>(?:u|i)(?:8|16|32|64|128|size))?
  | (?P<id>[A-Za-z_][A-Za-z0-9_]*!?)
  | (?P<op>::|<<=|>>=|<<|>>|<=|>=|==|!=|&&|\|\||\+=|-=|\*=|/=|->|=>|\.\.|[-+*/%<>=!&|.,;:(){}\[\]?#^])
  | (?P<str>"(?:[^"\\]|\\.)*")
""", re.X | re.S)

def tokenize(src):
    out = []
    i = 0
    while i < len(src):
        m = TOK.match(src, i)
        if not m:
            raise TranslateError("cannot tokenize at: %r" % src[i:i+40])
        i = m.end()
        if m.group('ws'):
            continue
        if m.group('num') is not None:
            s = m.group('num').replace('_', '')
            out.append(('num', int(s, 16) if s.startswith('0x') else int(s)))
        elif m.group('id'):
            out.append(('id', m.group('id')))
        elif m.group('op'):
            out.append(('op', m.group('op')))
        elif m.group('str'):
            out.append(('str', m.group('str')))
    return out

BINPREC = [
    ['||'], ['&&'], ['==', '!=', '<', '>', '<=', '>='], ['|'], ['^'], ['&'], ['<<', '>>'],
    ['+', '-'], ['*', '/', '%'],
]
SKIP_MACROS = ('debug_assert!', 'debug_assert_eq!', 'assert!', 'log_trace!', 'log_debug!', 'log_info!',
               'log_error!', 'debug_assert_ne!', 'log_warn!', 'log_given_level!', 'log_gossip!')

class Parser:
    def __init__(self, toks):
        self.t = toks
        self.i = 0
    def peek(self, k=0):
        return self.t[self.i + k] if self.i + k < len(self.t) else ('eof', None)
    def next(self):
        x = self.peek(); self.i += 1; return x
    def accept(self, kind, val=None):
        k, v = self.peek()
        if k == kind and (val is None or v == val):
            self.i += 1
            return True
        return False
    def expect(self, kind, val=None):
        k, v = self.next()
        if k != kind or (val is not None and v != val):
            raise TranslateError("expected %s %s, got %s %s (tok %d: ...%s)" % (kind, val, k, v, self.i, self.t[max(0, self.i-6):self.i+3]))
        return v

    def expr(self, level=0, nostruct=False):
        if level == len(BINPREC):
            return self.cast(nostruct)
        a = self.expr(level + 1, nostruct)
        while True:
            k, v = self.peek()
            if k == 'op' and v in BINPREC[level]:
                self.next()
                b = self.expr(level + 1, nostruct)
                a = ('bin', v, a, b)
            else:
                return a

    def cast(self, nostruct):
        a = self.unary(nostruct)
        while self.peek() == ('id', 'as'):
            self.next()
            ty = self.expect('id')
            a = ('cast', a, ty)
        return a

    def unary(self, nostruct):
        if self.accept('op', '!'):
            return ('not', self.unary(nostruct))
        if self.accept('op', '&'):
            self.accept('id', 'mut')
            return self.unary(nostruct)
        if self.accept('op', '*'):
            return self.unary(nostruct)
        return self.postfix(nostruct)

    def args(self):
        out = []
        self.expect('op', '(')
        while not self.accept('op', ')'):
            out.append(self.expr())
            self.accept('op', ',')
        return out

    def postfix(self, nostruct):
        a = self.primary(nostruct)
        while True:
            if self.accept('op', '.'):
                k, v = self.next()
                if k == 'num':
                    a = ('field', a, str(v))
                    continue
                if k != 'id':
                    raise TranslateError("bad field %s" % v)
                if self.peek() == ('op', '::'):  # turbofish  .sum::<u64>()
                    self.next(); self.skip_angle()
                if self.peek() == ('op', '('):
                    a = ('method', a, v, self.args())
                else:
                    a = ('field', a, v)
            elif self.accept('op', '?'):
                a = ('try', a)
            else:
                return a

    def closure(self):
        params = []
        while not self.accept('op', '|'):
            self.accept('op', '&')
            self.accept('id', 'mut')
            params.append(self.expect('id'))
            if self.accept('op', ':'):
                # typed closure param: skip type up to , or |
                while self.peek() not in (('op', ','), ('op', '|')):
                    self.next()
            self.accept('op', ',')
        body = self.expr()
        return ('closure', params, body)

    def primary(self, nostruct):
        k, v = self.next()
        if k == 'num':
            return ('num', v)
        if k == 'op' and v == '(':
            if self.accept('op', ')'):
                return ('unit',)
            e = self.expr()
            if self.accept('op', ','):
                items = [e]
                while not self.accept('op', ')'):
                    items.append(self.expr())
                    self.accept('op', ',')
                return ('tuple', items)
            self.expect('op', ')')
            return e
        if k == 'op' and v == '{':
            self.i -= 1
            return self.block()
        if k == 'op' and v == '|':
            return self.closure()
        if k == 'op' and v == '||':
            body = self.expr()
            return ('closure', [], body)
        if k == 'id':
            if v == 'move' and self.peek() == ('op', '|'):
                self.next(); return self.closure()
            if v == 'if':
                if self.accept('id', 'let'):
                    ctor = self.expect('id')
                    self.expect('op', '(')
                    self.accept('id', 'ref'); self.accept('id', 'mut')
                    if self.peek() == ('op', '('):
                        self.next(); names = []
                        while not self.accept('op', ')'):
                            names.append(self.expect('id')); self.accept('op', ',')
                        pat = tuple(names)
                    else:
                        pat = self.expect('id')
                    self.expect('op', ')')
                    self.expect('op', '=')
                    e = self.expr(nostruct=True)
                    a = self.block()
                    b = ('unit',)
                    if self.accept('id', 'else'):
                        b = self.primary(nostruct) if self.peek() == ('id', 'if') else self.block()
                    return ('iflet', ctor, pat, e, a, b)
                c = self.expr(nostruct=True)
                a = self.block()
                if self.accept('id', 'else'):
                    if self.peek() == ('id', 'if'):
                        b = self.primary(nostruct)
                    else:
                        b = self.block()
                else:
                    b = ('unit',)
                return ('if', c, a, b)
            name = v
            while self.accept('op', '::'):
                if self.peek() == ('op', '<'):
                    self.skip_angle(); continue
                name += '::' + self.expect('id')
            if self.peek() == ('op', '('):
                args = self.args()
                if name in ('Ok', 'Err', 'Some'):
                    return (name.lower(), args[0] if args else ('unit',))
                return ('call', name, args)
            if (not nostruct) and self.peek() == ('op', '{') and re.match(r'[A-Z]', name.split('::')[-1]) \
                    and not re.fullmatch(r'[A-Z_0-9]+', name.split('::')[-1]):
                return self.struct_lit(name)
            if name == 'None':
                return ('none',)
            if name == 'true':
                return ('bool', True)
            if name == 'false':
                return ('bool', False)
            return ('var', name)
        raise TranslateError("unexpected token %s %s" % (k, v))

    def struct_lit(self, name):
        self.expect('op', '{')
        fields = []
        while not self.accept('op', '}'):
            skip = False
            while self.accept('op', '#'):
                start = self.i
                self.skip_brackets()
                attr = ' '.join(str(x[1]) for x in self.t[start:self.i])
                if 'cfg' in attr and ('test' in attr or 'fuzzing' in attr) and 'not' not in attr and '_test_utils' not in attr:
                    skip = True
            fname = self.expect('id')
            if self.accept('op', ':'):
                e = self.expr()
            else:
                e = ('var', fname)
            self.accept('op', ',')
            if not skip:
                fields.append((fname, e))
        return ('struct', name, fields)

    def block(self):
        self.expect('op', '{')
        stmts = []
        tail = None
        while not self.accept('op', '}'):
            k, v = self.peek()
            if k == 'id' and v in SKIP_MACROS:
                self.next()
                self.skip_parens()
                self.accept('op', ';')
                continue
            if k == 'op' and v == '#':  # attribute on a statement: `#[cfg(debug_assertions)] if ... {}`
                self.next()
                start = self.i
                self.skip_brackets()
                attr = ' '.join(str(x[1]) for x in self.t[start:self.i])
                if 'debug_assertions' in attr:
                    # skip the following statement (debug-only self checks)
                    e = self.expr()
                    self.accept('op', ';')
                continue
            if k == 'id' and v == 'let':
                self.next()
                self.accept('id', 'mut')
                if self.peek() == ('op', '('):
                    self.next()
                    names = []
                    while not self.accept('op', ')'):
                        self.accept('id', 'mut')
                        names.append(self.expect('id'))
                        self.accept('op', ',')
                    name = tuple(names)
                else:
                    name = self.expect('id')
                if self.accept('op', ':'):
                    self.skip_type()
                self.expect('op', '=')
                e = self.expr()
                self.expect('op', ';')
                stmts.append(('let', name, e))
                continue
            if k == 'id' and v == 'return':
                self.next()
                e = self.expr() if self.peek() != ('op', ';') else ('unit',)
                self.accept('op', ';')
                stmts.append(('ret', e))
                continue
            if k == 'id' and self.peek(1)[0] == 'op' and self.peek(1)[1] in ('=', '+=', '-=', '*=', '/='):
                name = self.next()[1]
                op = self.next()[1]
                e = self.expr()
                self.expect('op', ';')
                if op != '=':
                    e = ('bin', op[0], ('var', name), e)
                stmts.append(('assign', name, e))
                continue
            e = self.expr()
            if self.accept('op', ';'):
                stmts.append(('expr', e))
            elif self.peek() == ('op', '}'):
                tail = e
            else:
                stmts.append(('expr', e))
        return ('block', stmts, tail)

    def skip_parens(self):
        self.expect('op', '(')
        d = 1
        while d:
            k, v = self.next()
            if k == 'eof':
                raise TranslateError("unbalanced")
            if (k, v) == ('op', '('): d += 1
            if (k, v) == ('op', ')'): d -= 1
    def skip_brackets(self):
        self.expect('op', '[')
        d = 1
        while d:
            k, v = self.next()
            if k == 'eof': raise TranslateError("unbalanced")
            if (k, v) == ('op', '['): d += 1
            if (k, v) == ('op', ']'): d -= 1
    def skip_angle(self):
        self.expect('op', '<')
        d = 1
        while d:
            k, v = self.next()
            if k == 'eof': raise TranslateError("unbalanced")
            if (k, v) == ('op', '<'): d += 1
            if (k, v) == ('op', '>'): d -= 1
            if (k, v) == ('op', '>>'): d -= 2
    def skip_type(self):
        d = 0
        while True:
            k, v = self.peek()
            if d == 0 and (k, v) == ('op', '='):
                return
            if (k, v) == ('op', '<'): d += 1
            if (k, v) == ('op', '>'): d -= 1
            self.next()


def parse_expr(src):
    p = Parser(tokenize(src))
    e = p.expr()
    if p.peek()[0] != 'eof':
        raise TranslateError("trailing tokens after expression: %s" % (p.t[p.i:p.i+5],))
    return e

def parse_block(src):
    p = Parser(tokenize(src))
    b = p.block()
    if p.peek()[0] != 'eof':
        raise TranslateError("trailing tokens after block")
    return b

# ---------------------------------------------------------------------------------------------
# Emission

def ast_text(a):
    """rough text of an AST (for width heuristics)"""
    if isinstance(a, tuple): return ' '.join(ast_text(x) for x in a)
    if isinstance(a, list): return ' '.join(ast_text(x) for x in a)
    return str(a)

def has_iter(a):
    return isinstance(a, tuple) and ((a[0] == 'method' and (a[2] in ('iter', 'into_iter') or has_iter(a[1]))))

LEAN_KW = {'local', 'end', 'from', 'at', 'have', 'show', 'fun', 'open', 'in', 'then', 'do', 'by', 'with', 'where',
           'instance', 'section', 'namespace', 'variable', 'theorem', 'def', 'macro', 'syntax', 'prefix', 'export', 'import'}
def lname(n):
    return n + '_' if n in LEAN_KW else n

class Emitter:
    """env: Rust names/paths -> Lean terms; unknown UPPER_CASE names map to themselves (generated
    constants); calls go through `funs`; `methods`/`fields` override method / field translation.
    `ret`: how `return e` / the tail is wrapped: None (plain), or 'option' (Ok/Some -> some, Err -> none)."""
    def __init__(self, env=None, funs=None, methods=None, fields=None, errmap=None, result_as_option=False,
                 narrow=lambda txt: 'feerate' in txt):
        self.env = dict(env or {})
        self.funs = dict(funs or {})
        self.methods = dict(methods or {})
        self.fields = dict(fields or {})
        self.errmap = errmap
        self.result_as_option = result_as_option
        self.narrow = narrow   # receiver text -> True when the receiver is a u32
        self.locals = set()

    def var(self, name):
        if name in self.env:
            return self.env[name]
        base = name.split('::')[-1]
        if name in ('u32::MAX', 'core::u32::MAX'): return 'U32_MAX'
        if name in ('u64::MAX', 'core::u64::MAX'): return 'U64_MAX'
        if name in ('i64::MAX',): return 'I64_MAX'
        if base in self.env:
            return self.env[base]
        if re.fullmatch(r'_?[A-Z][A-Z0-9_]*', base):
            return base
        if name.startswith('LocalHTLCFailureReason::') or (self.errmap and name.split('::')[0] in self.errmap):
            return '.' + base[0].lower() + base[1:]
        if re.fullmatch(r'[a-z_][a-z0-9_]*', name):
            return lname(name)
        raise TranslateError("unknown name %s" % name)

    def e(self, a):
        k = a[0]
        if k == 'num': return str(a[1])
        if k == 'bool': return 'true' if a[1] else 'false'
        if k == 'unit': return '()'
        if k == 'var': return self.var(a[1])
        if k == 'cast': return self.e(a[1])
        if k == 'not': return '(!%s)' % self.e(a[1])
        if k == 'bin':
            op = a[1]
            l, r = self.e(a[2]), self.e(a[3])
            if op in ('<', '>', '<=', '>=', '==', '!='):
                return '(decide (%s %s %s))' % (l, {'==': '=', '!=': '≠'}.get(op, op), r)
            if op == '<<': return '(%s * 2 ^ %s)' % (l, r)
            if op == '>>': return '(%s / 2 ^ %s)' % (l, r)
            return '(%s %s %s)' % (l, op, r)
        if k == 'field':
            key = a[2]
            recv = a[1]
            if recv[0] == 'var' and (recv[1] + '.' + key) in self.fields:
                return self.fields[recv[1] + '.' + key]
            if key in self.fields:
                f = self.fields[key]
                return f(self.e(recv)) if callable(f) else '(%s %s)' % (f, self.e(recv))
            return '%s.%s' % (self.e(recv), key)
        if k == 'call':
            name = a[1]
            base = name.split('::')[-1]
            if name in ('cmp::max', 'core::cmp::max', 'max'): return '(Nat.max %s %s)' % tuple(self.e(x) for x in a[2])
            if name in ('cmp::min', 'core::cmp::min', 'min'): return '(Nat.min %s %s)' % tuple(self.e(x) for x in a[2])
            args = [self.e(x) for x in a[2]]
            if base in self.locals:
                return '(%s %s)' % (base, ' '.join(args)) if args else base
            if base in self.funs:
                f = self.funs[base]
                return f(args) if callable(f) else '(%s %s)' % (f, ' '.join(args))
            raise TranslateError("unknown function %s" % name)
        if k == 'method':
            return self.method(a)
        if k == 'if':
            return '(if %s then %s else %s)' % (self.e(a[1]), self.e(a[2]), self.e(a[3]))
        if k == 'iflet':
            return self.iflet_expr(a)
        if k == 'tuple':
            return '(' + ', '.join(self.e(x) for x in a[1]) + ')'
        if k == 'ok': return ('(some %s)' if self.result_as_option else '(.ok %s)') % self.e(a[1])
        if k == 'err': return 'none' if self.result_as_option else '(.error %s)' % self.e(a[1])
        if k == 'some': return '(some %s)' % self.e(a[1])
        if k == 'none': return 'none'
        if k == 'closure':
            return '(fun %s => %s)' % (' '.join(lname(x) for x in a[1]) if a[1] else '_', self.e(a[2]))
        if k == 'struct':
            return '({ %s : %s })' % (', '.join('%s := %s' % (f, self.e(x)) for f, x in a[2]), a[1].split('::')[-1])
        if k == 'try':
            raise TranslateError("`?` must be handled at statement level (let x = e?;)")
        if k == 'block':
            return self.block(a)
        raise TranslateError("cannot emit %s" % (a,))

    def method(self, a):
        name = a[2]
        if name in ('iter', 'into_iter', 'clone', 'into', 'to_sat', 'to_wu', 'copied', 'cloned', 'as_ref', 'rev_placeholder'):
            return self.e(a[1])
        if name == 'unwrap_or' and a[1][0] == 'method' and a[1][2] == 'try_into':
            return '(Nat.min %s %s)' % (self.e(a[1][1]), self.e(a[3][0]))
        recv = self.e(a[1])
        rtxt = ast_text(a[1])
        if name in self.methods:
            return self.methods[name](recv, [self.e(x) for x in a[3]])
        w = '32' if self.narrow(rtxt) else '64'
        def arg(i): return self.e(a[3][i])
        if name == 'saturating_sub': return '(%s - %s)' % (recv, arg(0))
        if name == 'saturating_add': return '(satAdd%s %s %s)' % (w, recv, arg(0))
        if name == 'saturating_mul': return '(satMul%s %s %s)' % (w, recv, arg(0))
        if name == 'checked_sub': return '(chkSub %s %s)' % (recv, arg(0))
        if name == 'checked_add': return '(chkAdd%s %s %s)' % (w, recv, arg(0))
        if name == 'checked_mul': return '(chkMul%s %s %s)' % (w, recv, arg(0))
        if name == 'checked_div': return '(chkDiv %s %s)' % (recv, arg(0))
        if name == 'min': return '(Nat.min %s %s)' % (recv, arg(0))
        if name == 'max': return '(Nat.max %s %s)' % (recv, arg(0))
        if name == 'unwrap_or':
            if a[1][0] == 'method' and a[1][2] == 'try_into':
                return '(Nat.min %s %s)' % (self.e(a[1][1]), arg(0))
            return '(Option.getD %s %s)' % (recv, arg(0))
        if name == 'unwrap': return '(Option.getD %s 0)' % recv
        if name == 'ok_or': return recv          # Result<_, ()> modelled as Option
        if name == 'is_some': return '(Option.isSome %s)' % recv
        if name == 'is_none': return '(Option.isNone %s)' % recv
        if name == 'then_some': return '(if %s then some %s else none)' % (recv, arg(0))
        if name in ('count', 'len'): return '(List.length %s)' % recv
        if name == 'sum': return '(List.sum %s)' % recv
        if name == 'is_empty': return '(List.isEmpty %s)' % recv
        if name in ('filter', 'filter_map', 'map', 'and_then', 'any', 'all') and a[3] and a[3][0][0] == 'closure':
            fn = self.e(a[3][0])
            if name == 'filter': return '(List.filter %s %s)' % (fn, recv)
            if name == 'filter_map': return '(List.filterMap %s %s)' % (fn, recv)
            if name == 'any': return '(List.any %s %s)' % (recv, fn)
            if name == 'all': return '(List.all %s %s)' % (recv, fn)
            if name == 'and_then': return '(Option.bind %s %s)' % (recv, fn)
            if name == 'map':
                return ('(List.map %s %s)' if has_iter(a[1]) else '(Option.map %s %s)') % (fn, recv)
        raise TranslateError("unknown method %s" % name)

    # ---- statements -----------------------------------------------------------------------------
    def block(self, b):
        return self._stmts(list(b[1]), b[2])

    def pat(self, name):
        return lname(name) if isinstance(name, str) else '(' + ', '.join(lname(n) for n in name) + ')'

    def _returns(self, b):
        """True if block b always ends in `return` (possibly after lets / nested returning ifs)."""
        if b[0] != 'block': return False
        stmts = b[1]
        return bool(stmts) and stmts[-1][0] == 'ret' and b[2] is None

    def _contains_ret(self, node):
        if isinstance(node, tuple):
            if node and node[0] == 'ret': return True
            if node and node[0] == 'closure': return False
            return any(self._contains_ret(x) for x in node)
        if isinstance(node, list):
            return any(self._contains_ret(x) for x in node)
        return False

    def _assigned(self, b):
        """names assigned (not let-declared) inside block b, in first-assignment order"""
        out = []
        declared = set()
        def walk(blk, declared):
            if blk == ('unit',) or blk[0] != 'block':
                if isinstance(blk, tuple) and blk and blk[0] in ('if', 'iflet'):
                    walk_if(blk, declared)
                return
            declared = set(declared)
            for s in blk[1]:
                if s[0] == 'let':
                    for n in ([s[1]] if isinstance(s[1], str) else s[1]): declared.add(n)
                elif s[0] == 'assign':
                    if s[1] not in declared and s[1] not in out: out.append(s[1])
                elif s[0] == 'expr' and s[1][0] in ('if', 'iflet'):
                    walk_if(s[1], declared)
            if blk[2] is not None and blk[2][0] in ('if', 'iflet'):
                walk_if(blk[2], declared)
        def walk_if(node, declared):
            if node[0] == 'if':
                walk(node[2], declared); walk(node[3], declared)
            else:
                d2 = set(declared)
                for n in ([node[2]] if isinstance(node[2], str) else node[2]): d2.add(n)
                walk(node[4], d2); walk(node[5], declared)
        walk(b, declared)
        return out

    _TAGS = {'num','var','bin','not','call','method','field','if','iflet','cast','tuple','block','let','assign','ret',
             'expr','ok','err','some','none','unit','bool','closure','struct','try','raw'}
    def _is_ast(self, x):
        return isinstance(x, tuple) and len(x) > 0 and isinstance(x[0], str) and x[0] in self._TAGS
    def _hoist(self, ex, acc):
        """replace `e?` sub-expressions (outside closures / nested blocks / ifs) by fresh variables"""
        if not self._is_ast(ex): return ex
        if ex[0] in ('closure', 'block', 'if', 'iflet', 'raw', 'var', 'num', 'bool', 'unit', 'none'): return ex
        if ex[0] == 'try':
            inner = self._hoist(ex[1], acc)
            v = 'q__%d' % (len(acc) + self._fresh)
            acc.append((v, inner))
            return ('var', v)
        out = [ex[0]]
        for ch in ex[1:]:
            if self._is_ast(ch): out.append(self._hoist(ch, acc))
            elif isinstance(ch, list):
                out.append([self._hoist(c, acc) if self._is_ast(c) else
                            ((c[0], self._hoist(c[1], acc)) if isinstance(c, tuple) and len(c) == 2 and self._is_ast(c[1]) else c)
                            for c in ch])
            else: out.append(ch)
        return tuple(out)

    _fresh = 0
    def _wrap_try(self, acc, body):
        for v, inner in reversed(acc):
            body = '(match %s with\n  | none => none\n  | some %s => %s)' % (self.e(inner), v, body)
        return body

    def _stmts(self, stmts, tail):
        # hoist `?` out of the first statement / the tail
        if stmts and stmts[0][0] in ('let', 'assign', 'ret') and not (stmts[0][0] != 'ret' and stmts[0][2][0] == 'try'):
            s0 = stmts[0]
            acc = []
            ex = self._hoist(s0[-1], acc)
            if acc:
                self._fresh += len(acc)
                new = s0[:-1] + (ex,)
                return self._wrap_try(acc, self._stmts([new] + stmts[1:], tail))
        if not stmts and tail is not None and tail[0] not in ('if', 'iflet', 'block'):
            acc = []
            ex = self._hoist(tail, acc)
            if acc:
                self._fresh += len(acc)
                return self._wrap_try(acc, self.e(ex))
        if not stmts:
            if tail is None:
                return '()'
            if tail[0] in ('if', 'iflet') and self._assigned(('block', [('expr', tail)], None)):
                raise TranslateError("tail if with mutation")
            return self.e(tail)
        s = stmts[0]
        rest = stmts[1:]
        if s[0] in ('let', 'assign'):
            name, ex = s[1], s[2]
            if ex[0] == 'closure' and isinstance(name, str):
                self.locals.add(name)
                return '(let %s := %s;\n  %s)' % (name, self.e(ex), self._stmts(rest, tail))
            if ex[0] == 'try':
                inner = self.e(ex[1])
                return '(match %s with\n  | none => none\n  | some %s => %s)' % (inner, self.pat(name), self._stmts(rest, tail))
            return '(let %s := %s;\n  %s)' % (self.pat(name), self.e(ex), self._stmts(rest, tail))
        if s[0] == 'ret':
            return self.e(s[1])
        if s[0] == 'expr':
            ex = s[1]
            if ex[0] in ('if', 'iflet'):
                return self._if_stmt(ex, rest, tail)
            if ex[0] == 'try':   # `foo()?;`
                return '(match %s with\n  | none => none\n  | some _ => %s)' % (self.e(ex[1]), self._stmts(rest, tail))
            raise TranslateError("expression statement outside subset: %s" % (ex[0],))
        raise TranslateError("statement outside subset: %s" % (s[0],))

    def _branch(self, blk, result):
        """emit block `blk` (no returns inside) followed by the expression `result`"""
        if blk == ('unit',):
            return result
        if blk[0] in ('if', 'iflet'):  # else-if chain
            return self._if_stmt(blk, [], None, result)
        stmts = list(blk[1])
        if blk[2] is not None:
            if blk[2][0] in ('if', 'iflet'):
                stmts.append(('expr', blk[2]))   # unit-valued trailing `if` used for its effects
            else:
                raise TranslateError("value-producing block used as a statement")
        return self._stmts(stmts + [('ret', ('raw', result))], None)

    def _if_stmt(self, ex, rest, tail, result=None):
        if ex[0] == 'if':
            c, a, b = ex[1], ex[2], ex[3]
            head = lambda A, B: '(if %s then %s else\n  %s)' % (self.e(c), A, B)
        else:
            ctor, pat, scrut, a, b = ex[1], ex[2], ex[3], ex[4], ex[5]
            if ctor not in ('Some', 'Ok'): raise TranslateError("if let %s" % ctor)
            head = lambda A, B: '(match %s with\n  | some %s => %s\n  | none => %s)' % (self.e(scrut), self.pat(pat), A, B)
        a_ret = self._returns(a)
        b_ret = b != ('unit',) and (self._returns(b) if b[0] == 'block' else False)
        if result is None:
            if a_ret and b == ('unit',):
                return head(self._stmts(list(a[1]), a[2]), self._stmts(rest, tail))
            if a_ret and b_ret:
                return head(self._stmts(list(a[1]), a[2]), self._stmts(list(b[1]), b[2]))
        if self._contains_ret(a) or self._contains_ret(b):
            raise TranslateError("mixed return/fallthrough in if-statement: outside subset")
        names = self._assigned(('block', [('expr', ex)], None))
        if not names:
            # no effect (e.g. only debug asserts inside)
            return self._stmts(rest, tail) if result is None else result
        tup = names[0] if len(names) == 1 else '(' + ', '.join(names) + ')'
        merged = head(self._branch(a, tup), self._branch(b, tup))
        if result is not None:
            return '(let %s := %s;\n  %s)' % (tup, merged, result)
        return '(let %s := %s;\n  %s)' % (tup, merged, self._stmts(rest, tail))

    def iflet_expr(self, a):
        ctor, pat, scrut, x, y = a[1], a[2], a[3], a[4], a[5]
        return '(match %s with\n  | some %s => %s\n  | none => %s)' % (self.e(scrut), self.pat(pat), self.e(x), self.e(y))

# 'raw' AST node: an already-emitted Lean expression
_orig_e = Emitter.e
def _e(self, a):
    if a[0] == 'raw': return a[1]
    return _orig_e(self, a)
Emitter.e = _e

# ---------------------------------------------------------------------------------------------
# Source extraction helpers

def strip_comments(src):
    src = re.sub(r'//[^\n]*', '', src)
    src = re.sub(r'/\*.*?\*/', '', src, flags=re.S)
    return src

def match_brace(src, i):
    """src[i] == '{' → index just after its matching '}' (comments/strings aware enough)."""
    assert src[i] == '{', src[i:i+20]
    d = 0
    j = i
    n = len(src)
    while j < n:
        c = src[j]
        if c == '/' and src[j:j+2] == '//':
            j = src.index('\n', j)
            continue
        if c == '/' and src[j:j+2] == '/*':
            j = src.index('*/', j) + 2
            continue
        if c == '"':
            j += 1
            while src[j] != '"':
                if src[j] == '\\': j += 1
                j += 1
        elif c == "'" and re.match(r"'(\\.|[^\\'])'", src[j:j+4]):
            j += len(re.match(r"'(\\.|[^\\'])'", src[j:j+4]).group(0)) - 1
        elif c == '{':
            d += 1
        elif c == '}':
            d -= 1
            if d == 0:
                return j + 1
        j += 1
    raise TranslateError("unbalanced braces")

def find_fn(src, name, after=None):
    """Return (params_text, ret_text, body_text_with_braces) of `fn name`."""
    start = 0
    if after:
        start = src.index(after)
    m = re.compile(r'\bfn\s+' + re.escape(name) + r'\s*(<[^>{]*>)?\s*\(').search(src, start)
    if not m:
        raise TranslateError("fn %s not found" % name)
    i = m.end() - 1
    d = 0
    j = i
    while True:
        if src[j] == '(': d += 1
        if src[j] == ')':
            d -= 1
            if d == 0: break
        j += 1
    params = src[i+1:j]
    k = src.index('{', j)
    ret = src[j+1:k]
    end = match_brace(src, k)
    return params, ret, src[k:end]

def parse_params(params):
    out = []
    d = 0
    cur = ''
    for c in strip_comments(params):
        if c in '<([': d += 1
        if c in '>)]': d -= 1
        if c == ',' and d == 0:
            out.append(cur); cur = ''
        else:
            cur += c
    if cur.strip():
        out.append(cur)
    res = []
    for p in out:
        p = p.strip()
        if not p or p in ('&self', 'self', '&mut self'):
            continue
        n, t = p.split(':', 1)
        res.append((n.strip().replace('mut ', ''), t.strip()))
    return res

if __name__ == '__main__':
    src = sys.stdin.read()
    print(Emitter().e(parse_expr(src)))
