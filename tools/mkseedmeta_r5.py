#!/usr/bin/env python3
"""Write seeded/CNN-r5/meta.json from the table below + confirm.log (integrator's re-run of the demo without / with the
patch and of the touched crate's whole suite with the patch, in the seeder's scratch worktree) + firstrun.txt (what
`./check CNN` of the session-4 start commit printed on the patched tree)."""
import json, os, re
ROOT = os.path.dirname(os.path.dirname(os.path.abspath(__file__)))
# id: (breaks, needs, demo filter + crate, what catches it now)
T = {
 'C01': ('impl Writeable for FundedChannel writes a fundee\'s RemoteAnnounced pending_update_fee (the reader maps any written fee update of a fundee to AwaitingRemoteRevokeToAnnounce): the reloaded fundee signs the funder\'s commitment at the uncommitted feerate ⇒ "Invalid commitment tx signature from peer" under honest operation',
         'fundee persisted between update_fee and its commitment_signed, restarts from that state, and sends a commitment_signed of its own (a claim freed from the holding cell at reestablish) before processing the retransmitted update_fee + commitment_signed',
         'demo_c01r5 (-p lightning --lib)',
         'chan restart-in-every-window probe (failing input: fundee reloaded after [0>1:fee], claim in holding cell ⇒ protocol error); gen_chanwriter.py table change breaks feeReadBack_eq → written_forgets_uncommitted; model counter-example fee_drop_is_necessary'),
 'C02': ('ChannelManager::internal_update_fulfill_htlc registers the RAA-monitor-update blocker with entry().or_insert_with(|| vec![blocker]): when an earlier claim\'s blocker is pending on the same downstream channel the new one is not registered; the downstream RAA update (forgets HTLC + preimage) can be persisted before the preimage is durable upstream; after a crash the forwarder fails the upstream HTLC back although downstream was paid',
         'async persistence, two upstream channels forwarded over one downstream channel, both fulfils in flight, one upstream update completes and the other does not, crash + restart from an old manager',
         'demo_c02r5 (-p lightning --lib)',
         'gen_raablock.py translation ⇒ BROKEN mem_get_registerOnFulfil (raa_blocker_registered_for_every_fulfil); c02multi correspondence (flush flies while blockers registered) + chain::Watch order oracle with the schedule'),
 'C03': ('ChannelMonitor::get_onchain_failed_outbound_htlcs no longer recognises funding.prev_counterparty_commitment_txid as the confirmed commitment: on reload every unresolved outbound HTLC is reported failed (PaymentPathFailed + PaymentFailed) although its output is live and later claimed with the preimage (no PaymentSent)',
         'channel closed mid commitment dance, the counterparty\'s PREVIOUS unrevoked commitment confirms to ANTI_REORG_DELAY with an earlier HTLC unresolved in it, then the sender restarts',
         'demo_c03r5 (-p lightning --lib)', None),
 'C04': ('create_recv_pending_htlc_info always credits the peer-declared skimmed_fee_msat towards the sender-intended amount (accept_underpaying_htlcs only selects the error text): an underpaid HTLC becomes PaymentClaimable for X - f on a default-config channel',
         'direct channel peer underpays and sets skimmed_fee_msat on a channel whose accept_underpaying_htlcs is false',
         'demo_c04r5 (-p lightning --lib)',
         'first run already: gen_inbound.py TRANSLATE-ERROR + c04mpp correspondence + oracle failing inputs (`admit 0 X X-f f` -> ok); now also BROKEN recvAmountTest_exact over the statement-level translation'),
 'C05': ('ChannelMonitorImpl::no_further_updates_allowed(): holder_tx_signed && !is_manual_broadcast — for a manual-broadcast-funded channel whose monitor went on chain by itself the freeze is off: a commitment_signed handled before the manager sees HolderForceClosed completes and the node revokes a commitment it has already broadcast',
         'channel funded with funding_transaction_generated_manual_broadcast, monitor-initiated HTLC-timeout broadcast, peer commitment_signed processed before process_pending_monitor_events',
         'demo_c05r5 (-p lightning --lib)', None),
 'C06': ('ChannelMonitorImpl::update_counterparty_commitment_data builds the HTLC list (with transaction_output_index) once from the locked funding and clones it into every pending funding scope: on the splice funding the indices differ (BIP 69), a revoked commitment confirmed there is punished only in its to_local output',
         'pending splice during a commitment update carrying a non-dust HTLC, amounts where a balance output crosses the HTLC value, that state revoked and broadcast on the new funding',
         'demo_c06r5 (-p lightning --lib)', None),
 'C07': ('OutputSweeper::blocks_disconnected un-confirms a sweep confirmed exactly at the fork point (> became >=): it is never re-confirmed, every later sweep re-spends the spent outpoint and batches later outputs into an invalid transaction',
         'Listen-style sync, sweep confirmed at height H, reorg with fork point exactly H, one more SpendableOutputs descriptor tracked afterwards',
         'demo_c07r5 (-p lightning --lib)',
         'gen_sweep.py translation ⇒ BROKEN disconnectUnconfirms_some → sweeper_view_matches_chain; c07sweep oracle "sweep tx 2 double-spends output 1, which sweep tx 1 already spent in block 265 of the best chain"'),
 'C08': ('check_incoming_htlc_cltv: the OutgoingCLTVTooSoon test compares the INCOMING cltv_expiry with cur_height + LATENCY_GRACE_PERIOD_BLOCKS: it can never fire, HTLCs whose outgoing expiry is within the grace period or past are forwarded',
         'adversarial onion: fine incoming expiry, outgoing expiry 0..3 blocks above the next height',
         'demo_c08r5 (-p lightning --lib)',
         'first run already: regenerated check breaks cltv_ok_iff (Proofs/ForwardHop) and the C08 examples'),
 'C09': ('ChannelContext::closing_negotiation_ready, AwaitingChannelReady arm: is_both_sides_shutdown() only — MONITOR_UPDATE_IN_PROGRESS / PEER_DISCONNECTED no longer consulted, closing_signed is released while the ShutdownScript monitor update is in flight',
         'no upfront shutdown script, cooperative close before channel_ready, funder, persister InProgress for the shutdown update, both shutdowns exchanged before completion',
         'demo_c09r5 (-p lightning --lib)',
         'gen_closegate.py re-translation ⇒ BROKEN closing_ready_state_needs_no_update_in_flight; cgop correspondence; closegate oracle "node 0 released closing_signed while ChannelMonitorUpdate [1] (the ShutdownScript update) was still in flight"'),
 'C10': ('ChannelManager::from_channel_manager_data: the regeneration test for Event::HTLCIntercepted is shadowed into "is there ANY HTLCIntercepted event": an intercepted HTLC whose event was already handled is not re-announced after a restart while another intercept\'s event is still queued',
         'two intercepted HTLCs held at once, restart where one event was handled and the other is still queued, legacy reload path',
         'demo_c10r5 (-p lightning --lib)', None),
 'C11': ('FundedChannel::do_best_block_updated: funding_tx_confirmation_height = 0 of an unconfirmed splice candidate moved inside `if Some(sent_funding_txid) == funding.get_funding_txid()`: a candidate reorganised out BEFORE splice_locked was sent keeps its stale confirmation (relevant txids, later splice_locked for a tx not in the best chain)',
         'pending splice with 1..min_depth-1 confirmations, no splice_locked sent yet, reorg removing it',
         'demo_c11r5 (-p lightning --lib)', None),
 'C12': ('impl Writeable for FundedChannel writes next_counterparty_htlc_id without subtracting the dropped RemoteAnnounced inbound HTLCs: the re-read manager answers the retransmitted update_add_htlc with "Remote skipped HTLC ID" and force-closes',
         'manager persisted after update_add_htlc was received and before its commitment_signed, restart, reconnect',
         'demo_c12r5 (-p lightning --lib)',
         'first run already: BROKEN positional_common_exact + deep-dump oracle (next_counterparty_htlc_id 0 before the write, 1 after the reload) + behavioural oracle'),
 'C13': ('impl Writeable for CollectionLength: `<= u16::MAX` (a collection of exactly 65535 elements is written as the bare escape marker) — same site as C12-r4, chosen independently',
         'a vector of exactly 65535 items (PeerStorage.data, TxAbort.data)',
         'demo_c13r5 (-p lightning --lib)',
         'first run already: BROKEN collLenEncode_eq (gen_ser_prims.py) + correspondence + oracle "decode(encode(m)) != m for a TxAbort with 65535 data bytes"'),
 'C14': ('create_fwd_pending_htlc_info sets next_blinding_override: None for a hop inside a blinded path (only the introduction-node arm keeps it): a route over two concatenated blinded paths cannot be peeled to its end',
         'blinded tail made of two concatenated blinded paths with the override on a non-introduction hop',
         'demo_c14r5 (-p lightning --lib)',
         'gen_onion_fwdinfo.py TRANSLATE-ERROR on the `blinded:` field; fwdblind correspondence; oracles "peeled instructions have next_blinding_override none but its encrypted recipient data say …", "could not peel the onion the sender built: InvalidOnionBlinding"'),
 'C15': ('PeerManager::get_ephemeral_key finalises the un-mixed midstate: every connection uses the same BOLT-8 ephemeral key, a recorded initiator transcript replayed on a fresh inbound connection is fully accepted',
         'honest peer connects outbound and is recorded, session ends, attacker replays the recording on a new inbound connection',
         'demo_c15r5 (-p lightning --lib)', None),
 'C16': ('CandidateRouteHop::htlc_minimum_msat, FirstHop arm: counterparty.outbound_htlc_minimum_msat.unwrap_or(0) instead of next_outbound_htlc_minimum_msat: routes whose first hop carries less than the supplied ChannelDetails minimum',
         'first-hop channel whose current minimum is above the peer\'s static one, payment / MPP part below it',
         'demo_c16r5 (-p lightning --lib)',
         'first run already: gen_router.py TRANSLATE-ERROR + route re-check failing inputs; now also BROKEN first_hop_minimum_is_current_minimum, firsthop oracle, probes FA-C16-r5/a,b'),
 'C17': ('verify_channel_announcement checks bitcoin_signature_1 against bitcoin_key_1 twice: an announcement with only bitcoin_signature_2 forged enters the graph and is relayed',
         'adversarial channel_announcement with exactly that signature forged',
         'demo_c17r5 (-p lightning --lib)',
         'first run already: c17 correspondence (`ca …` impl ok vs model err BadSig) + oracles "wrongly signed message changed the graph", "WRONGLY SIGNED GOSSIP IN THE GRAPH"'),
 'C18': ('impl TryFrom<Vec<u8>> for UnsignedInvoiceRequest splits bytes / experimental_bytes at ..=INVOICE_REQUEST_PAYER_ID_TYPE (88): payer_note (89) / offer_from_hrn (91) land after the signature, the signed request does not parse back',
         'remote-signing flow (UnsignedInvoiceRequest::try_from(bytes) then sign()) with a payer note or human readable name',
         'demo_c18r5 (-p lightning --lib)',
         'BROKEN invreq_split_range_is_below_signature over the translated split range; op resign / oracles "not a strictly ascending TLV stream", "does NOT PARSE BACK" (class resign:req:note)'),
 'C19': ('FilesystemStoreInner::execute_locked_write records last_written_version BEFORE callback(): a failed later-issued write still advances the version, an earlier-issued op on the same key executed afterwards is skipped as stale and reports Ok with nothing on disk',
         'two in-flight ops on one key executed in reverse issue order, the later-issued one failing with an I/O error',
         'demo_c19r5 (-p lightning-persister --features tokio --lib)',
         'first run: TRANSLATE-ERROR pin of gen_fsstore.py only (no-failing-input-found)'),
 'C20': ('synchronize_listeners: early `continue` when difference.connected_blocks is empty — a listener AHEAD of the source tip on the same branch is not disconnected, yet recorded at the returned tip',
         'start-up sync with one listener\'s stored best block ahead of the source\'s tip',
         'demo_c20r5 (-p lightning-block-sync)',
         'first run already: init correspondence + oracle "listener k not at the returned tip"; now also BROKEN initListenerStep_eq over the statement-level translation of the loop body'),
}
NOW = {}
try:
    NOW = json.load(open(os.path.join(ROOT, 'seeded', 'r5_now.json')))
except Exception:
    pass
for pid, (breaks, needs, demo, now) in T.items():
    d = os.path.join(ROOT, 'seeded', pid + '-r5')
    if not os.path.isdir(d): continue
    conf, first = {}, None
    cl = os.path.join(d, 'confirm.log')
    if os.path.exists(cl):
        s = open(cl).read()
        secs = re.split(r'^== ', s, flags=re.M)
        def res(prefix):
            for x in secs:
                if x.startswith(prefix):
                    return [l for l in x.split('\n') if l.startswith('test result')]
            return []
        a, b, c = res('pristine'), res('patched + demo'), res('patched, whole')
        conf = {'pristine_demo_passes': bool(a) and all('FAILED' not in l for l in a) and any(' 1 passed' in l for l in a),
                'patched_demo_fails': any('FAILED' in l for l in b),
                'patched_whole_suite': ' | '.join(c),
                'patched_whole_suite_passes': bool(c) and all('FAILED' not in l for l in c)}
        if pid == 'C19':
            conf['note_baseline_always_fail'] = 'lightning-persister::fs_store::v1::tests::test_readonly_dir_perm_failure fails as root on the clean tree too (listed under always_fail in /root/.vp/BASELINE.json); the other 25 pass'
            conf['patched_whole_suite_passes'] = 'FAILED. 25 passed; 1 failed' in conf['patched_whole_suite']
    fr = os.path.join(d, 'firstrun.txt')
    if os.path.exists(fr):
        lines = open(fr).read().split('\n')
        rc1 = 'rc=1' in lines[0]
        nofi = any('no-failing-input-found' in l for l in lines)
        fi = any(l.startswith('FAILING-INPUT') for l in lines)
        first = ('MISSED (exit 0)' if not rc1 else
                 'REPORTED ' + ('with failing input' if fi else ('without a failing input (no-failing-input-found)' if nofi else 'by a broken proof obligation')) +
                 ': ' + ' ;; '.join(l[:160] for l in lines[1:4] if l.startswith(('BROKEN', 'FAILING'))))
    meta = {'property': pid, 'round': 5, 'breaks': breaks, 'needs': needs, 'demo_filter': demo,
            'first_run': first, 'detected_by': NOW.get(pid, now) or 'see DESIGN.md 9.4 (round-5 rows)',
            'confirmed': conf,
            'what_was_run': 'integrator: /tmp/confirm5.sh in the seeder\'s scratch worktree (demo alone on the clean tree; demo with patch; whole suite of the touched crate with the patch, demo skipped); first run: ./check of the session-4 start commit against /repo HEAD + patch.diff (isolated sandbox tools/mut_sandbox.sh, or in place and reverted); "now": the vertical owner\'s sandbox run after strengthening',
            'origin': 'written by an independent sub-agent given only the property text, the list of sites already used and a scratch worktree'}
    json.dump(meta, open(os.path.join(d, 'meta.json'), 'w'), indent=1, ensure_ascii=False)
    print(pid, first and first[:40], conf.get('patched_whole_suite_passes'))
