#!/usr/bin/env python3
"""Regenerate lean/LdkModel/Generated/RaaRelease.lean (C05: which secret a revoke_and_ack / its retransmission releases) from
lightning/src/ln/channel.rs:
  * INITIAL_COMMITMENT_NUMBER
  * HolderCommitmentPoint::current_transaction_number  (`self.next_transaction_number + 1`)          -> currentTransactionNumber
  * HolderCommitmentPoint::advance                      (`next_transaction_number: self.next_transaction_number - 1`) -> advanceNext
  * FundedChannel::get_last_revoke_and_ack              (`release_commitment_secret(<next_transaction_number()> + 2)`) -> releaseIdx
  * FundedChannel::channel_reestablish                  (`our_commitment_transaction = INITIAL - current_transaction_number()`,
      the three-way `required_revoke` decision on msg.next_remote_commitment_number)                  -> ourCommitmentTransaction, requiredRevoke
  * pins: commitment_signed_update_monitor advances the point (once) before anything is released; get_last_revoke_and_ack has exactly one
    release_commitment_secret call; the retransmission arm calls get_last_revoke_and_ack.
TRANSLATE-ERROR (exit 2) when a shape changed; writes only if the content changed."""
import re, sys, os
sys.path.insert(0, os.path.dirname(__file__))
from rs2lean import TranslateError, strip_comments, find_fn
REPO = os.environ.get('VERIF_REPO', '/repo')

def arith(txt, what, names):
    """`a (+|-) b (+|-) c ...` over the given names and integer literals -> Lean (Nat, truncating minus as in the checked Rust ranges)"""
    toks = re.findall(r'[+\-]|[\w.()]+', txt.replace(' ', ''))
    out = []
    for i, t in enumerate(toks):
        if i % 2 == 1:
            if t not in '+-': raise TranslateError("%s: operator expected in %r" % (what, txt))
            out.append(t)
        elif t in names: out.append(names[t])
        elif re.fullmatch(r'\d+', t): out.append(t)
        else: raise TranslateError("%s: term not understood: %r in %r" % (what, t, txt))
    if len(toks) % 2 == 0: raise TranslateError("%s: dangling operator in %r" % (what, txt))
    return ' '.join(out)

def main(out_path):
    src = strip_comments(open(os.path.join(REPO, 'lightning/src/ln/channel.rs')).read())
    m = re.search(r'pub const INITIAL_COMMITMENT_NUMBER: u64 = \(1 << (\d+)\) - 1;', src)
    if not m: raise TranslateError("INITIAL_COMMITMENT_NUMBER shape")
    bits = int(m.group(1))
    _, _, b = find_fn(src, 'current_transaction_number')
    cur = arith(' '.join(b[1:-1].split()), 'current_transaction_number', {'self.next_transaction_number': 'next'})
    _, _, adv = find_fn(src, 'advance', after='pub fn try_resolve_pending')
    ms = re.findall(r'next_transaction_number:\s*([^,]+),', adv)
    if len(ms) != 1: raise TranslateError("HolderCommitmentPoint::advance: expected exactly one `next_transaction_number: <expr>,`")
    advn = arith(ms[0], 'advance', {'self.next_transaction_number': 'next'})
    _, _, g = find_fn(src, 'get_last_revoke_and_ack')
    gf = ' '.join(g.split())
    ms = re.findall(r'\.release_commitment_secret\(([^;]*?)\)\s*\.ok\(\)', gf)
    if len(ms) != 1 or gf.count('release_commitment_secret') != 1: raise TranslateError("get_last_revoke_and_ack: expected exactly one release_commitment_secret(<expr>).ok()")
    rel = arith(ms[0], 'get_last_revoke_and_ack', {'self.holder_commitment_point.next_transaction_number()': 'next'})
    if 'per_commitment_secret, next_per_commitment_point: self.holder_commitment_point.next_point(),' not in gf: raise TranslateError("get_last_revoke_and_ack: the released secret is no longer what the message carries")
    _, _, cr = find_fn(src, 'channel_reestablish')
    cf = ' '.join(cr.split())
    m = re.search(r'let our_commitment_transaction = ([^;]+);', cf)
    if not m: raise TranslateError("channel_reestablish: our_commitment_transaction not found")
    our = arith(m.group(1), 'our_commitment_transaction', {'INITIAL_COMMITMENT_NUMBER': 'initialCommitmentNumber', 'self.holder_commitment_point.current_transaction_number()': 'currentTransactionNumber next'})
    our = our.replace('currentTransactionNumber next', '(currentTransactionNumber next)')
    m = re.search(r'let required_revoke = if (.*?) == (.*?) \{ self\.context\.monitor_pending_revoke_and_ack = false; None \} else if (.*?) == (.*?) \{ if self\.context\.channel_state\.is_monitor_update_in_progress\(\) \{ self\.context\.monitor_pending_revoke_and_ack = true; None \} else \{ self\.get_last_revoke_and_ack\(path_for_release_htlc, logger\) \} \} else \{ debug_assert!\(false, [^;]*\); return Err\(', cf)
    if not m: raise TranslateError("channel_reestablish: the three-way required_revoke decision changed shape")
    N = {'msg.next_remote_commitment_number': 'msgNextRemote', 'our_commitment_transaction': 'our'}
    c1 = (arith(m.group(1), 'required_revoke arm 1', N), arith(m.group(2), 'required_revoke arm 1', N))
    c2 = (arith(m.group(3), 'required_revoke arm 2', N), arith(m.group(4), 'required_revoke arm 2', N))
    # the point is advanced exactly once per accepted commitment_signed, before the monitor update / release
    _, _, cu = find_fn(src, 'commitment_signed_update_monitor')
    cuf = ' '.join(cu.split())
    if cuf.count('.advance(&self.context.holder_signer, &self.context.secp_ctx, logger)') != 1: raise TranslateError("commitment_signed_update_monitor: expected exactly one holder_commitment_point.advance(..)")
    if src.count('.holder_commitment_point .advance(') + len(re.findall(r'holder_commitment_point\s*\.advance\(', src)) < 1: raise TranslateError("advance call sites")
    L = ['/- GENERATED by tools/gen_raa_release.py from lightning/src/ln/channel.rs — do not edit. -/', 'namespace Ldk.RaaRelease', '',
         '/-- INITIAL_COMMITMENT_NUMBER -/', 'def initialCommitmentNumber : Nat := 2 ^ %d - 1' % bits, '',
         '/-- HolderCommitmentPoint::current_transaction_number -/', 'def currentTransactionNumber (next : Nat) : Nat := ' + cur, '',
         '/-- HolderCommitmentPoint::advance: the new next_transaction_number -/', 'def advanceNext (next : Nat) : Nat := ' + advn, '',
         '/-- get_last_revoke_and_ack: the index handed to release_commitment_secret -/', 'def releaseIdx (next : Nat) : Nat := ' + rel, '',
         '/-- channel_reestablish: our_commitment_transaction -/', 'def ourCommitmentTransaction (next : Nat) : Nat := ' + our, '',
         'inductive Revoke where', '  | none | retransmit | error', '  deriving DecidableEq, Repr', '',
         '/-- channel_reestablish: the required_revoke decision (monitor-update-in-progress only delays the retransmission) -/',
         'def requiredRevoke (msgNextRemote our : Nat) : Revoke :=',
         '  if %s == %s then .none else if %s == %s then .retransmit else .error' % (c1[0], c1[1], c2[0], c2[1]), '',
         'end Ldk.RaaRelease']
    text = '\n'.join(L) + '\n'
    old = open(out_path).read() if os.path.exists(out_path) else None
    if old != text: open(out_path, 'w').write(text)

if __name__ == '__main__':
    try:
        main(sys.argv[1] if len(sys.argv) > 1 else os.path.join(os.path.dirname(__file__), '..', 'lean', 'LdkModel', 'Generated', 'RaaRelease.lean'))
    except TranslateError as ex:
        print("TRANSLATE-ERROR gen_raa_release: %s" % ex)
        sys.exit(2)
