#!/usr/bin/env python3
"""Regenerate lean/LdkModel/Generated/PeerGate.lean from /repo (C15, the INIT GATE and the per-message dispatch):

  wire.rs          enum Message  -> `inductive MK` (the variants compiled into the harness build)
                   do_read arms  -> `wireVariant : Nat -> Option MK` (type id -> variant)
  peer_handler.rs  handle_message                       order: holding-lock part `?`, message_received, dispatch
                   do_handle_message_holding_peer_lock  `if let Message::Init(msg) = message { .. }
                                                         else if peer_lock.their_features.is_none() { .. }`:
                       isInitArm            which variant takes the Init arm
                       preInit              the else-if condition, translated (`is_none()` / `is_some()` of their_features)
                       letThroughBeforeInit which variants the else-if body lets CONTINUE (pristine: none; a
                                            `if !matches!(message, A | B) { return Err }` body gives [A, B])
                       secondInitRejected   the `if peer_lock.their_features.is_some() { return Err }` inside the Init arm
                       initChecks           the ordered list of disconnect decisions of the Init arm (names)
                   do_handle_message_without_peer_lock  `match message { .. }`: for EVERY arm the handler methods it calls
                       (chan / route / onion / custom), whether and when it returns Err(PeerHandleError)
                       (never / always / only for an all-zero channel_id, and that the handler call comes first),
                       whether a handler result is propagated with `?`; the two `Message::Unknown` arms (guard
                       `message.is_even()`).

Shapes that are not understood are a TRANSLATE-ERROR (exit 2), never silently accepted.
"""
import os, re, sys
sys.path.insert(0, os.path.dirname(os.path.abspath(__file__)))
from gen_peer_sizes import TErr, read, block_after, fn_body
from gen_peer_sizes import norm as _norm
from gen_wire import eval_cfg, TranslateError as WireErr

ROOT = os.path.dirname(os.path.dirname(os.path.abspath(__file__)))
OUT = os.path.join(ROOT, 'lean', 'LdkModel', 'Generated', 'PeerGate.lean')
PH = 'lightning/src/ln/peer_handler.rs'
ERR = 'return Err(PeerHandleError {}.into());'


def norm(s):
    return re.sub(r'\s*\.\s*', '.', _norm(s))


def match_brace(s, i):
    """index just after the `}` matching the `{` at s[i]"""
    assert s[i] == '{'
    d, j = 0, i
    while j < len(s):
        d += {'{': 1, '}': -1}.get(s[j], 0)
        j += 1
        if d == 0:
            return j
    raise TErr('unbalanced braces')


def strip_macros(s, names=('log_debug', 'log_trace', 'log_info', 'log_gossip')):
    """remove `log_x!( .. );` statements (balanced parentheses)"""
    out, i = '', 0
    pat = re.compile(r'\b(?:%s)!\s*\(' % '|'.join(names))
    while True:
        m = pat.search(s, i)
        if not m:
            return out + s[i:]
        out += s[i:m.start()]
        d, j = 0, m.end() - 1
        while True:
            d += {'(': 1, ')': -1}.get(s[j], 0)
            j += 1
            if d == 0:
                break
        m2 = re.match(r'\s*;', s[j:])
        i = j + (m2.end() if m2 else 0)


def active(attrs):
    try:
        return all(eval_cfg(c) for c in re.findall(r'#\[cfg\((.*?)\)\]', attrs))
    except WireErr as e:
        raise TErr(str(e))


def their_features_cond(cond, what):
    """`peer_lock.their_features.is_none()` / `.is_some()` (optionally negated) over the Bool `theirInit`"""
    c = norm(cond).replace(' ', '')
    neg = False
    while c.startswith('!'):
        neg, c = not neg, c[1:]
    if c == 'peer_lock.their_features.is_none()':
        neg = not neg
    elif c != 'peer_lock.their_features.is_some()':
        raise TErr('%s: condition %r is not a test of peer_lock.their_features' % (what, cond))
    return '!theirInit' if neg else 'theirInit'


def parse_variants():
    src = read('lightning/src/ln/wire.rs')
    body = block_after(src, r'enum\s+Message\s*<[^{]*\{', 'enum Message')
    vs = []
    for m in re.finditer(r'((?:#\[cfg\([^\]]*\)\]\s*)*)(\w+)\(([^)]*)\)\s*,', body):
        if active(m.group(1)):
            vs.append(m.group(2))
    rest = re.sub(r'((?:#\[cfg\([^\]]*\)\]\s*)*)(\w+)\(([^)]*)\)\s*,', '', body).strip()
    if rest:
        raise TErr('enum Message: unparsed text %r' % rest[:80])
    for need in ('Init', 'Error', 'Warning', 'Ping', 'Pong', 'Unknown', 'Custom'):
        if need not in vs:
            raise TErr('enum Message lacks %s' % need)
    ids = dict(re.findall(r'impl\s+Encode\s+for\s+msgs::(\w+)\s*\{\s*const\s+TYPE\s*:\s*u16\s*=\s*(\d+)\s*;\s*\}', src))
    rd = fn_body(src, 'do_read')
    i = rd.index('match message_type')
    mb = rd[rd.index('{', i):]
    mb = mb[1:match_brace(mb, 0) - 1]
    table = []
    for am in re.finditer(r'((?:#\[cfg\([^\]]*\)\]\s*)*)msgs::(\w+)::TYPE\s*=>\s*(?:\{\s*)?Ok\(\s*Message::(\w+)\(', mb):
        if not active(am.group(1)):
            continue
        if am.group(2) not in ids or am.group(3) not in vs:
            raise TErr('do_read arm %s -> Message::%s not understood' % (am.group(2), am.group(3)))
        table.append((int(ids[am.group(2)]), am.group(3)))
    if len(table) != len(vs) - 2 or len(set(t for t, _ in table)) != len(table) or set(v for _, v in table) != set(vs) - {'Unknown', 'Custom'}:
        raise TErr('do_read: %d arms for %d message variants' % (len(table), len(vs) - 2))
    return vs, table


def parse_gate(src, vs):
    d = {}
    # ---- handle_message: the holding-lock part decides first (its Err returns before anything else happens)
    bodies = [m for m in re.finditer(r'fn\s+handle_message\s*\(\s*&self\s*,\s*peer_mutex', src)]
    if len(bodies) != 1:
        raise TErr('PeerManager::handle_message: expected one definition, found %d' % len(bodies))
    i = src.index('{', src.index('->', bodies[0].end()))
    hm = norm(strip_macros(src[i + 1:match_brace(src, i) - 1]))
    want = norm('''let unprocessed_message = self.do_handle_message_holding_peer_lock(peer_lock, message, their_node_id, &logger)?;
        self.message_handler.chan_handler.message_received();
        match unprocessed_message {
            Some(LogicalMessage::FromWire(message)) => self.do_handle_message_without_peer_lock(peer_mutex, message, their_node_id, &logger,),
            Some(LogicalMessage::CommitmentSignedBatch(channel_id, batch)) => {
                let chan_handler = &self.message_handler.chan_handler;
                chan_handler.handle_commitment_signed_batch(their_node_id, channel_id, batch);
                return Ok(None);
            },
            None => Ok(None),
        }''')
    if not hm.endswith(want):
        raise TErr('handle_message changed shape (holding-lock part with `?`, then message_received, then the dispatch):\n   found    %s\n   expected ..%s' % (hm[-700:], want))

    # ---- do_handle_message_holding_peer_lock
    b = fn_body(src, 'do_handle_message_holding_peer_lock')
    head = re.match(r'\s*peer_lock\.received_message_since_timer_tick\s*=\s*true\s*;\s*if\s+let\s+Message::(\w+)\(msg\)\s*=\s*message\s*\{', b)
    if not head:
        raise TErr('do_handle_message_holding_peer_lock does not start with `received_message_since_timer_tick = true; if let Message::X(msg) = message {`')
    d['init_variant'] = head.group(1)
    if d['init_variant'] != 'Init':
        raise TErr('the first `if let` of do_handle_message_holding_peer_lock matches Message::%s, not Message::Init' % d['init_variant'])
    i0 = head.end() - 1
    i1 = match_brace(b, i0)
    init_body = b[i0 + 1:i1 - 1]
    m = re.match(r'\s*else\s+if\s+(.*?)\s*\{', b[i1:], re.S)
    if not m:
        raise TErr('the Init arm is not followed by `else if <their_features test> {`')
    d['pre_src'] = norm(m.group(1))
    d['pre'] = their_features_cond(m.group(1), 'Need-an-Init rule')
    j0 = i1 + m.end() - 1
    j1 = match_brace(b, j0)
    else_body = norm(strip_macros(b[j0 + 1:j1 - 1]))
    if re.match(r'\s*else\b', b[j1:]):
        raise TErr('the Need-an-Init rule has a further else branch')
    # which variants are let through while their_features is None
    if else_body == norm(ERR):
        d['through'] = []
    else:
        mm = re.fullmatch(r'if !matches!\(message,(.*?)\)\{%s\}' % re.escape(norm(ERR)), else_body)
        if not mm:
            raise TErr('Need-an-Init rule: body %r is neither an unconditional `%s` nor `if !matches!(message, ..) { %s }`' % (else_body[:300], ERR, ERR))
        d['through'] = []
        for p in mm.group(1).split('|'):
            pm = re.fullmatch(r'\s*Message::(\w+)\((?:_|\.\.)\)\s*', p)
            if not pm or pm.group(1) not in vs:
                raise TErr('Need-an-Init rule: pattern %r not understood' % p)
            d['through'].append(pm.group(1))
    d['else_src'] = else_body

    # ---- the Init arm: ordered disconnect decisions
    ib = strip_macros(init_body)
    nb = norm(ib)
    checks = []
    second = re.findall(r'if (!*peer_lock\.their_features\.is_(?:some|none)\(\))\{%s\}' % re.escape(norm(ERR)), nb)
    if len(second) != 1:
        raise TErr('Init arm: expected exactly one `if peer_lock.their_features.is_some() { %s }`, found %d' % (ERR, len(second)))
    d['second_src'] = second[0]
    d['second'] = their_features_cond(second[0], 'second-Init rule')
    marks = [('chains', 'if !have_compatible_chains { %s }' % norm(ERR)),
             ('theyRequireUnknown', 'if msg.features.requires_unknown_bits_from(&our_features) { %s }' % norm(ERR)),
             ('weRequireUnknown', 'if our_features.requires_unknown_bits_from(&msg.features) { %s }' % norm(ERR)),
             ('secondInit', 'if %s { %s }' % (second[0], norm(ERR))),
             ('routePeerConnected', 'if let Err(()) = route_handler.peer_connected(their_node_id, &msg, inbound) { %s }' % norm(ERR)),
             ('chanPeerConnected', 'if let Err(()) = chan_handler.peer_connected(their_node_id, &msg, inbound) {'),
             ('onionPeerConnected', 'if let Err(()) = onion_message_handler.peer_connected(their_node_id, &msg, inbound) {'),
             ('customPeerConnected', 'if let Err(()) = custom_handler.peer_connected(their_node_id, &msg, inbound) {'),
             ('sendsPeerConnected', 'if let Err(()) = sends_handler.peer_connected(their_node_id, &msg, inbound) {'),
             ('accept', 'peer_lock.awaiting_pong_timer_tick_intervals = 0; peer_lock.their_features = Some(msg.features); return Ok(None);')]
    pos = -1
    for name, text in marks:
        k = nb.find(norm(text))
        if k < 0 or nb.count(norm(text)) != 1:
            raise TErr('Init arm: statement %r not found exactly once' % text)
        if k < pos:
            raise TErr('Init arm: %s is out of order' % name)
        pos = k
        checks.append(name)
    if nb.count(norm(ERR)) != 9:
        raise TErr('Init arm: %d disconnect returns, expected 9 (chains, 2 feature checks, second Init, 5 handlers)' % nb.count(norm(ERR)))
    if not nb.endswith(norm(marks[-1][1])):
        raise TErr('Init arm does not end with `their_features = Some(msg.features); return Ok(None);`')
    if nb.count('their_features = ') != 1:
        raise TErr('Init arm: their_features assigned more than once')
    d['init_checks'] = checks[:-1]
    # nothing before the gate but the activity flag; the function ends by handing the message on
    tail = norm(strip_macros(b[j1:]))
    if not tail.endswith('Ok(Some(LogicalMessage::FromWire(message)))'):
        raise TErr('do_handle_message_holding_peer_lock does not end with Ok(Some(LogicalMessage::FromWire(message)))')
    d['holding'] = re.findall(r'if let Message::(\w+)\((?:ref )?\w+\)= message\{', tail)
    if d['holding'] != ['StartBatch', 'CommitmentSigned', 'GossipTimestampFilter', 'ChannelAnnouncement']:
        raise TErr('do_handle_message_holding_peer_lock: the `if let Message::..` blocks after the gate are %r' % d['holding'])
    return d


def parse_dispatch(src, vs):
    b = fn_body(src, 'do_handle_message_without_peer_lock')
    ms = [m for m in re.finditer(r'\bmatch\s+message\s*\{', b)]
    if len(ms) != 1:
        raise TErr('do_handle_message_without_peer_lock: expected one `match message {`')
    i0 = ms[0].end() - 1
    i1 = match_brace(b, i0)
    if norm(b[i1:]) != norm('; Ok(should_forward)'):
        raise TErr('do_handle_message_without_peer_lock: text after the match is %r' % norm(b[i1:])[:100])
    pre = norm(strip_macros(b[:ms[0].start()]))
    if pre != norm('if is_gossip_msg(message.type_id()) { } else { } let mut should_forward = None;'):
        raise TErr('do_handle_message_without_peer_lock: text before the match is %r' % pre[:200])
    mb = b[i0 + 1:i1 - 1]
    arms, k = [], 0
    arm_re = re.compile(r'\s*((?:#\[cfg\([^\]]*\)\]\s*)*)Message::(\w+)\((\w+)\)\s*(?:if\s+([^=]+?)\s*)?=>\s*\{')
    while True:
        if not mb[k:].strip().strip(','):
            break
        m = arm_re.match(mb, k)
        if not m:
            raise TErr('dispatch: cannot parse an arm at %r' % mb[k:k + 80])
        e = match_brace(mb, m.end() - 1)
        body = mb[m.end():e - 1]
        k = e
        m2 = re.match(r'\s*,', mb[k:])
        if m2:
            k += m2.end()
        if active(m.group(1)):
            arms.append((m.group(2), m.group(3), m.group(4), body))
    HANDLERS = {'chan_handler': 'chan', 'route_handler': 'route', 'onion_message_handler': 'onion', 'custom_message_handler': 'custom'}
    out = {}
    unknown = []
    for v, bind, guard, body in arms:
        if v not in vs:
            raise TErr('dispatch arm for Message::%s which is not a variant of the build' % v)
        nb = norm(strip_macros(body))
        calls = []
        for cm in re.finditer(r'\b(chan_handler|route_handler|onion_message_handler|custom_message_handler)\.(\w+)\(', nb):
            calls.append(('%s.%s' % (HANDLERS[cm.group(1)], cm.group(2)), cm.start()))
        for cm in re.finditer(r'self\.message_handler\.(\w+)\b(?!\.(?:handle_|peer_))', nb):
            # `let x = &self.message_handler.chan_handler;` aliases must keep their field name
            am = re.search(r'let (\w+) = &self\.message_handler\.%s;' % cm.group(1), nb)
            if am and am.group(1) != cm.group(1):
                raise TErr('dispatch arm %s: handler alias %s for %s' % (v, am.group(1), cm.group(1)))
        for _, name in re.findall(r'\b(\w+)\.(handle_\w+)\(', nb):
            if not any(c[0].endswith('.' + name) for c in calls):
                raise TErr('dispatch arm %s: call of %s on an unrecognised receiver' % (v, name))
        n_err = nb.count(norm(ERR))
        disc, first = 'never', True
        if n_err > 1:
            raise TErr('dispatch arm %s: %d disconnect returns' % (v, n_err))
        if n_err == 1:
            if nb.endswith(norm(ERR)) and not re.search(r'\b(if|match)\b', nb):
                disc = 'always'
            else:
                im = re.search(r'if (\w+)\.channel_id\.is_zero\(\)\{%s\}' % re.escape(norm(ERR)), nb)
                if not im or im.group(1) != bind or not nb.endswith(im.group(0)):
                    raise TErr('dispatch arm %s: conditional disconnect %r not understood' % (v, nb[-200:]))
                disc = 'ifZeroChannelId'
                if any(p > im.start() for _, p in calls):
                    first = False
        if re.search(r'\bErr\(', nb.replace(norm(ERR), '')):
            raise TErr('dispatch arm %s: another Err(..) value' % v)
        may_fail = '?' in nb
        if 'return Ok' in nb or 'break' in nb or 'continue' in nb:
            raise TErr('dispatch arm %s: early exit' % v)
        rec = dict(calls=[c for c, _ in calls], disc=disc, may_fail=may_fail, call_first=first, own=('self.enqueue_message(' in nb or 'peer_lock.' in nb))
        if v == 'Unknown':
            unknown.append((guard, rec))
            continue
        if guard:
            raise TErr('dispatch arm %s has a guard %r' % (v, guard))
        if v in out:
            raise TErr('dispatch: two arms for %s' % v)
        out[v] = rec
    if len(unknown) != 2 or norm(unknown[0][0] or '') != 'message.is_even()' or unknown[1][0] is not None:
        raise TErr('dispatch: the Message::Unknown arms are not `Unknown(_) if message.is_even()` followed by `Unknown(_)`')
    missing = [v for v in vs if v not in out and v != 'Unknown']
    if missing:
        raise TErr('dispatch: no arm for %s' % missing)
    return out, unknown[0][1], unknown[1][1]


def arm_lean(r):
    return '{ calls := [%s], disc := .%s, mayFail := %s, callFirst := %s }' % (
        ', '.join('"%s"' % c for c in r['calls']), r['disc'], str(r['may_fail']).lower(), str(r['call_first']).lower())


def main():
    vs, table = parse_variants()
    src = read(PH)
    g = parse_gate(src, vs)
    disp, unk_even, unk_odd = parse_dispatch(src, vs)
    # is_even of wire::Message / Type: `(self.type_id() & 1) == 0`
    wsrc = read('lightning/src/ln/wire.rs')
    if not re.search(r'fn\s+is_even\(&self\)\s*->\s*bool\s*\{\s*\(self\.type_id\(\)\s*&\s*1\)\s*==\s*0\s*\}', wsrc):
        raise TErr('wire.rs: Message::is_even is not `(self.type_id() & 1) == 0`')
    L = []
    L.append('/- GENERATED by tools/gen_peer_gate.py from lightning/src/ln/peer_handler.rs and lightning/src/ln/wire.rs — do not edit.')
    L.append('   Regenerated on every check.  The Init gate of do_handle_message_holding_peer_lock and the per-message dispatch of')
    L.append('   do_handle_message_without_peer_lock, translated from the Rust text. -/')
    L.append('namespace Ldk.PeerGate')
    L.append('')
    L.append('/-- the variants of `wire::Message` compiled into the harness build, in source order -/')
    L.append('inductive MK where')
    for v in vs:
        L.append('  | %s' % v)
    L.append('  deriving DecidableEq, Repr')
    L.append('')
    L.append('def MK.all : List MK := [%s]' % ', '.join('.' + v for v in vs))
    L.append('def MK.name : MK → String')
    for v in vs:
        L.append('  | .%s => "%s"' % (v, v))
    L.append('')
    L.append('/-- `wire::do_read`: type id → variant (`none`: the custom reader decides between `Custom` and `Unknown`) -/')
    L.append('def wireVariant (t : Nat) : Option MK :=')
    for t, v in table:
        L.append('  if t = %d then some .%s else' % (t, v))
    L.append('  none')
    L.append('def wireTable : List (Nat × MK) := [%s]' % ', '.join('(%d, .%s)' % (t, v) for t, v in table))
    L.append('')
    L.append('/-- do_handle_message_holding_peer_lock: `if let Message::%s(msg) = message {` — the Init arm -/' % g['init_variant'])
    L.append('def isInitArm : MK → Bool')
    L.append('  | .%s => true' % g['init_variant'])
    L.append('  | _ => false')
    L.append('/-- `}` `else if %s {` (`theirInit` = `peer_lock.their_features.is_some()`) -/' % g['pre_src'])
    L.append('def preInit (theirInit : Bool) : Bool := %s' % g['pre'])
    L.append('/-- body of that else-if: `%s` — the variants that CONTINUE to the dispatch although no Init was received -/' % g['else_src'])
    L.append('def letThroughBeforeInit : MK → Bool')
    for v in g['through']:
        L.append('  | .%s => true' % v)
    L.append('  | _ => false')
    L.append('/-- a non-Init message is answered with Err(PeerHandleError) by the Need-an-Init rule -/')
    L.append('def rejectedBeforeInit (theirInit : Bool) (k : MK) : Bool := preInit theirInit && !letThroughBeforeInit k')
    L.append('/-- Init arm: `if %s { %s }` -/' % (g['second_src'], ERR))
    L.append('def secondInitRejected (theirInit : Bool) : Bool := %s' % g['second'])
    L.append('/-- Init arm: the disconnect decisions in source order (after the last one: `their_features = Some(msg.features); return Ok(None)`) -/')
    L.append('def initChecks : List String := [%s]' % ', '.join('"%s"' % c for c in g['init_checks']))
    L.append('/-- `if let Message::X(..) = message` blocks of the holding-lock part after the gate -/')
    L.append('def holdingLockArms : List MK := [%s]' % ', '.join('.' + v for v in g['holding']))
    L.append('')
    L.append('inductive Disc where')
    L.append('  | never | always | ifZeroChannelId')
    L.append('  deriving DecidableEq, Repr')
    L.append('/-- one arm of the `match message` of do_handle_message_without_peer_lock: the handler methods it calls, when it returns')
    L.append('    `Err(PeerHandleError {})`, whether a handler\'s own `Err` is propagated (`?`), whether the calls precede the disconnect test -/')
    L.append('structure Arm where')
    L.append('  calls : List String')
    L.append('  disc : Disc')
    L.append('  mayFail : Bool')
    L.append('  callFirst : Bool')
    L.append('  deriving DecidableEq, Repr')
    L.append('')
    L.append('/-- `typeEven` = `message.is_even()` = `(type_id & 1) == 0` (only the `Message::Unknown` arms look at it) -/')
    L.append('def dispatch (k : MK) (typeEven : Bool) : Arm :=')
    L.append('  match k with')
    for v in vs:
        if v == 'Unknown':
            L.append('  | .Unknown => if typeEven then %s else %s' % (arm_lean(unk_even), arm_lean(unk_odd)))
        else:
            L.append('  | .%s => %s' % (v, arm_lean(disp[v])))
    L.append('')
    L.append('end Ldk.PeerGate')
    out = '\n'.join(L) + '\n'
    old = open(OUT).read() if os.path.exists(OUT) else None
    if old != out:
        with open(OUT, 'w') as f:
            f.write(out)
        print('wrote', OUT)
    else:
        print('unchanged', OUT)


if __name__ == '__main__':
    try:
        main()
    except TErr as e:
        print('TRANSLATE-ERROR gen_peer_gate.py:', e)
        sys.exit(2)
