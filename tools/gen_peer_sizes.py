#!/usr/bin/env python3
"""Regenerate lean/LdkModel/Generated/PeerSizes.lean from /repo (C15): every message-SIZE bound of the
encrypted transport and of the messages the PeerManager builds by itself from peer-chosen values.

The bounds are comparisons / literals in the Rust source.  Comparisons are TRANSLATED (operator and
right-hand side are copied into a Lean `decide (..)`), so a flipped `<` / `<=` or a changed literal
changes the generated Lean and breaks `Ldk.C15.size_bounds_match_source` and the fit theorems; every
surrounding statement is PINNED by shape (whitespace-normalised text), so that a restructured
function is a TRANSLATE-ERROR (exit 2), never silently accepted.

  lightning/src/ln/peer_channel_encryptor.rs
    * `pub const LN_MAX_MSG_LEN: usize = u16::MAX as usize;`, `pub const MSG_BUF_ALLOC_SIZE: usize = N;`
    * encrypt_message_with_header_0s: `let msg_len = msgbuf.len() - 16 - 2;  if msg_len > LN_MAX_MSG_LEN {`
      … `return Err(())`, and the header plaintext `(msg_len as u16).to_be_bytes()`
    * encrypt_message: `with_capacity(MSG_BUF_ALLOC_SIZE)`, `resize(16 + 2, 0)`, type_id then message written,
      `encrypt_message_with_header_0s(..)?`;  encrypt_buffer: `.expect(..)` (relies on from_encoded)
    * MessageBuf::from_encoded: `if encoded_msg.len() > LN_MAX_MSG_LEN {` … `return Err(())`
    * decrypt_length_header: `-> Result<u16, ..>`, `[0; 2]`;  decrypt_message: `if msg.len() > LN_MAX_MSG_LEN + 16 {`
  lightning/src/ln/peer_handler.rs
    * the `Message::Ping(msg)` arm of do_handle_message_without_peer_lock, whole arm pinned:
      `if msg.ponglen <OP> <N> { let resp = msgs::Pong { byteslen: msg.ponglen }; … enqueue_message(..) }`
    * enqueue_message: `match peer.channel_encryptor.encrypt_message(message) { Ok(..) => push_back, Err(()) => .. Err(()) }`
    * the pings the node itself builds: `msgs::Ping { ponglen: P, byteslen: B }` (all non-test occurrences agree)
    * the two warning texts built in do_read_event (zlib / bogus gossip `{}` = the u16 type)
    * read side: `resize(msg_len as usize + 16, 0)`, `debug_assert!(peer.pending_read_buffer.len() >= 2 + 16)`
  lightning/src/ln/msgs.rs      struct Ping / Pong (u16 fields), Writeable for Ping / Pong / WarningMessage /
                                ReplyChannelRange, LengthReadable for Ping / Pong
  lightning/src/util/ser.rs     Writeable for Vec<u8> (CollectionLength prefix) and for CollectionLength
                                (`if self.0 < 0xffff { u16 } else { 0xffff u16; u64 }`)
  lightning/src/ln/wire.rs      TYPE of Ping / Pong / WarningMessage / ReplyChannelRange, `fn type_id(&self) -> u16`
  lightning/src/ln/types.rs     `pub struct ChannelId(pub [u8; 32]);`
  lightning/src/routing/gossip.rs  `const MAX_SCIDS_PER_REPLY: usize = N;` and its use as the batch capacity
"""
import os, re, sys

REPO = os.environ.get('VERIF_REPO', '/repo')
ROOT = os.path.dirname(os.path.dirname(os.path.abspath(__file__)))
OUT = os.path.join(ROOT, 'lean', 'LdkModel', 'Generated', 'PeerSizes.lean')


class TErr(Exception):
    pass


def strip_comments(s):
    s = re.sub(r'/\*.*?\*/', '', s, flags=re.S)
    return re.sub(r'//[^\n]*', '', s)


def norm(s):
    """whitespace-normalised text: single spaces, none next to punctuation"""
    s = re.sub(r'\s+', ' ', s).strip()
    return re.sub(r'\s*([{}()\[\];,])\s*', r'\1', s)


def read(rel, cut_tests=True):
    src = strip_comments(open(os.path.join(REPO, rel)).read())
    if cut_tests:
        src = re.split(r'#\[cfg\(test\)\]\s*(?:pub\(crate\)\s+)?mod tests', src)[0]
    return src


def block_after(src, head_re, what):
    """text of the `{..}` block that follows the first match of head_re (head_re ends before `{`)"""
    ms = list(re.finditer(head_re, src))
    if len(ms) != 1:
        raise TErr('%s: expected exactly one match, found %d' % (what, len(ms)))
    i = src.index('{', ms[0].end() - 1) if src[ms[0].end() - 1] != '{' else ms[0].end() - 1
    depth, j = 0, i
    while j < len(src):
        depth += {'{': 1, '}': -1}.get(src[j], 0)
        j += 1
        if depth == 0:
            return src[i + 1:j - 1]
    raise TErr('%s: unbalanced braces' % what)


def fn_body(src, name):
    return block_after(src, r'fn\s+%s\b[^{;]*\{' % re.escape(name), 'fn ' + name)


def lit(s):
    s = s.replace('_', '')
    m = re.fullmatch(r'(0x[0-9a-fA-F]+|\d+)(?:u8|u16|u32|u64|usize)?', s)
    if not m:
        raise TErr('not an integer literal: %r' % s)
    return int(m.group(1), 16) if m.group(1).startswith('0x') else int(m.group(1))


OPS = {'<': '<', '<=': '≤', '>': '>', '>=': '≥', '==': '=', '!=': '≠'}


def cmp_to_lean(cond, lhs_re, var, consts, what):
    """`<lhs> OP <rhs>` with rhs = literal | CONST | CONST + literal  ->  Lean `decide (var OP rhs)`"""
    m = re.fullmatch(r'\s*(?:%s)\s*(<=|>=|==|!=|<|>)\s*(.+?)\s*' % lhs_re, cond)
    if not m:
        raise TErr('%s: condition %r is not `%s <op> <bound>`' % (what, cond.strip(), lhs_re))
    op, rhs = m.group(1), m.group(2)
    mm = re.fullmatch(r'([A-Z_][A-Z0-9_]*)(?:\s*\+\s*(\w+))?', rhs)
    if mm:
        if mm.group(1) not in consts:
            raise TErr('%s: unknown constant %s' % (what, mm.group(1)))
        r = mm.group(1) + (' + %d' % lit(mm.group(2)) if mm.group(2) else '')
    else:
        r = str(lit(rhs))
    return 'decide (%s %s %s)' % (var, OPS[op], r), re.sub(r'\s+', ' ', cond).strip()


def pin(text, expected, what):
    if norm(text) != norm(expected):
        raise TErr('%s changed shape:\n   found    %s\n   expected %s' % (what, norm(text)[:400], norm(expected)[:400]))


def impl_body(src, head, what):
    """body of `fn ..` inside `impl <head> {`"""
    blk = block_after(src, r'impl\s+%s\s*\{' % head, what)
    return blk


def main():
    enc = read('lightning/src/ln/peer_channel_encryptor.rs')
    ph = read('lightning/src/ln/peer_handler.rs')
    msgs = read('lightning/src/ln/msgs.rs')
    ser = read('lightning/src/util/ser.rs')
    wire = read('lightning/src/ln/wire.rs')
    types = read('lightning/src/ln/types.rs')
    gossip = read('lightning/src/routing/gossip.rs')

    # ---- constants ------------------------------------------------------------------------------
    m = re.search(r'pub const LN_MAX_MSG_LEN\s*:\s*usize\s*=\s*([^;]+);', enc)
    if not m:
        raise TErr('const LN_MAX_MSG_LEN')
    e = norm(m.group(1))
    ln_max = 65535 if e == 'u16::MAX as usize' else lit(e)
    ln_max_src = e
    m = re.search(r'pub const MSG_BUF_ALLOC_SIZE\s*:\s*usize\s*=\s*([^;]+);', enc)
    if not m:
        raise TErr('const MSG_BUF_ALLOC_SIZE')
    buf_alloc = lit(norm(m.group(1)))
    consts = {'LN_MAX_MSG_LEN': ln_max}

    # ---- encryptor: send side -------------------------------------------------------------------
    e0 = fn_body(enc, 'encrypt_message_with_header_0s')
    m = re.search(r'let msg_len = msgbuf\.len\(\)\s*-\s*(\d+)\s*-\s*(\d+)\s*;\s*if\s+([^{]+)\{\s*debug_assert!\(false,\s*"[^"]*"\);\s*return Err\(\(\)\);\s*\}', e0)
    if not m:
        raise TErr('encrypt_message_with_header_0s: length check `let msg_len = msgbuf.len() - 16 - 2; if .. { debug_assert!; return Err(()) }`')
    hdr_reserve = int(m.group(1)) + int(m.group(2))
    enc_rej, enc_rej_src = cmp_to_lean(m.group(3), r'msg_len', 'msgLen', consts, 'encrypt_message_with_header_0s')
    if e0.index('if msg_len') > e0.index('match self.noise_state'):
        raise TErr('encrypt_message_with_header_0s: the length check no longer precedes the encryption')
    if not re.search(r'&\(msg_len as u16\)\.to_be_bytes\(\)', e0):
        raise TErr('encrypt_message_with_header_0s: header plaintext is no longer `(msg_len as u16).to_be_bytes()`')
    pin(fn_body(enc, 'encrypt_message'),
        '''let mut res = VecWriter(Vec::with_capacity(MSG_BUF_ALLOC_SIZE)); res.0.resize(16 + 2, 0);
           message.type_id().write(&mut res).expect("In-memory messages must never fail to serialize");
           message.write(&mut res).expect("In-memory messages must never fail to serialize");
           self.encrypt_message_with_header_0s(&mut res.0)?; Ok(res.0)''', 'encrypt_message')
    if hdr_reserve != 18:
        raise TErr('header placeholder %d != 16 + 2' % hdr_reserve)
    pin(fn_body(enc, 'encrypt_buffer'),
        '''self.encrypt_message_with_header_0s(&mut msg.0)
           .expect("Length was checked in buf constructor and peer should be live"); msg.0''', 'encrypt_buffer')
    fe = fn_body(enc, 'from_encoded')
    m = re.match(r'\s*if\s+([^{]+)\{\s*debug_assert!\(false,\s*"[^"]*"\);\s*return Err\(\(\)\);\s*\}', fe)
    if not m:
        raise TErr('MessageBuf::from_encoded: leading length check')
    fe_rej, fe_rej_src = cmp_to_lean(m.group(1), r'encoded_msg\.len\(\)', 'len', consts, 'MessageBuf::from_encoded')
    if not re.search(r'res\.resize\(encoded_msg\.len\(\) \+ 16 \+ 2, 0\);\s*res\[16 \+ 2\.\.\]\.copy_from_slice\(&encoded_msg\);', fe):
        raise TErr('MessageBuf::from_encoded: placeholder layout')
    # ---- encryptor: receive side ----------------------------------------------------------------
    if not re.search(r'fn decrypt_length_header\(&mut self, msg: &\[u8\]\)\s*->\s*Result<u16, LightningError>', enc):
        raise TErr('decrypt_length_header no longer returns a u16 length')
    dh = fn_body(enc, 'decrypt_length_header')
    if not re.search(r'let mut res = \[0; 2\];', dh) or not re.search(r'Ok\(u16::from_be_bytes\(res\)\)', dh):
        raise TErr('decrypt_length_header: 2-byte big-endian length')
    dm = fn_body(enc, 'decrypt_message')
    m = re.match(r'\s*if\s+([^{]+)\{\s*debug_assert!\(false,\s*"[^"]*"\);\s*return Err\(', dm)
    if not m:
        raise TErr('decrypt_message: leading length check')
    dec_rej, dec_rej_src = cmp_to_lean(m.group(1), r'msg\.len\(\)', 'boxLen', consts, 'decrypt_message')
    tag = re.findall(r'pending_read_buffer\.resize\(msg_len as usize \+ (\d+),\s*0\)', ph)
    if len(tag) != 1:
        raise TErr('do_read_event: `pending_read_buffer.resize(msg_len as usize + 16, 0)` (found %s)' % tag)
    m = re.search(r'debug_assert!\(peer\.pending_read_buffer\.len\(\) >= (\d+) \+ (\d+)\);', ph)
    if not m:
        raise TErr('do_read_event: debug_assert on the body buffer length')
    body_min = int(m.group(1)) + int(m.group(2))

    # ---- peer_handler: the Ping arm -------------------------------------------------------------
    arm = block_after(ph, r'Message::Ping\(msg\)\s*=>\s*\{', 'Message::Ping arm')
    m = re.fullmatch(r'\s*if\s+([^{]+)\{(.*)\}\s*', arm, re.S)
    if not m:
        raise TErr('Message::Ping arm is no longer a single `if .. { .. }`: %s' % norm(arm)[:300])
    ping_ans, ping_src = cmp_to_lean(m.group(1), r'msg\.ponglen', 'ponglen', {}, 'Message::Ping arm')
    pin(m.group(2), '''let resp = msgs::Pong { byteslen: msg.ponglen }; let msg = Message::Pong(resp);
                       let _ = self.enqueue_message(&mut *peer_mutex.lock().unwrap(), msg);''', 'Message::Ping arm body')
    eq = fn_body(ph, 'enqueue_message')
    if not re.search(r'match peer\.channel_encryptor\.encrypt_message\(message\)\s*\{\s*Ok\(encrypted_msg\) => \{\s*peer\.pending_outbound_buffer\.push_back\(encrypted_msg\);\s*Ok\(\(\)\)\s*\},\s*Err\(\(\)\) => \{\s*log_error!\([^;]*\);\s*Err\(\(\)\)\s*\},?\s*\}', eq):
        raise TErr('enqueue_message: encrypt_message result handling changed')
    pin(fn_body(ph, 'encode_message'),
        '''let mut buffer = VecWriter(Vec::with_capacity(MSG_BUF_ALLOC_SIZE));
           message.type_id().write(&mut buffer).expect("In-memory messages must never fail to serialize");
           message.write(&mut buffer).expect("In-memory messages must never fail to serialize"); buffer.0''', 'encode_message')
    own = sorted(set(re.findall(r'msgs::Ping\s*\{\s*ponglen:\s*(\w+),\s*byteslen:\s*(\w+)\s*\}', ph)))
    if len(own) != 1:
        raise TErr('pings built by the PeerManager: expected one (ponglen, byteslen) pair, found %s' % own)
    own_ponglen, own_byteslen = lit(own[0][0]), lit(own[0][1])
    zl = re.findall(r'let data = "(Unsupported message compression: [^"]*)"\s*\.to_owned\(\);', ph)
    bg = re.findall(r'let data = format!\(\s*"(Unreadable/bogus gossip message of type )\{\}",\s*ty\s*\);', ph)
    if len(zl) != 1 or len(bg) != 1:
        raise TErr('warning texts of do_read_event (zlib %s, bogus gossip %s)' % (zl, bg))
    if len(re.findall(r'let msg = Message::Warning\(msgs::WarningMessage\s*\{\s*channel_id,\s*data,?\s*\}\);\s*let _ = self\.enqueue_message\(peer, msg\);\s*continue;', ph)) != 2:
        raise TErr('do_read_event: the two warning replies')

    # ---- message codecs -------------------------------------------------------------------------
    pin(block_after(msgs, r'pub struct Ping\s*\{', 'struct Ping'), 'pub ponglen: u16, pub byteslen: u16,', 'struct Ping')
    pin(block_after(msgs, r'pub struct Pong\s*\{', 'struct Pong'), 'pub byteslen: u16,', 'struct Pong')
    pin(impl_body(msgs, 'Writeable for Ping', 'Writeable for Ping'),
        '''fn write<W: Writer>(&self, w: &mut W) -> Result<(), io::Error> { self.ponglen.write(w)?;
           vec![0u8; self.byteslen as usize].write(w)?; Ok(()) }''', 'Writeable for Ping')
    pin(impl_body(msgs, 'Writeable for Pong', 'Writeable for Pong'),
        '''fn write<W: Writer>(&self, w: &mut W) -> Result<(), io::Error> {
           vec![0u8; self.byteslen as usize].write(w)?; Ok(()) }''', 'Writeable for Pong')
    pin(impl_body(msgs, 'LengthReadable for Ping', 'LengthReadable for Ping'),
        '''fn read_from_fixed_length_buffer<R: LengthLimitedRead>(r: &mut R) -> Result<Self, DecodeError> {
           Ok(Ping { ponglen: Readable::read(r)?, byteslen: { let byteslen = Readable::read(r)?;
           r.read_exact(&mut vec![0u8; byteslen as usize][..])?; byteslen }, }) }''', 'LengthReadable for Ping')
    pin(impl_body(msgs, 'LengthReadable for Pong', 'LengthReadable for Pong'),
        '''fn read_from_fixed_length_buffer<R: LengthLimitedRead>(r: &mut R) -> Result<Self, DecodeError> {
           Ok(Pong { byteslen: { let byteslen = Readable::read(r)?;
           r.read_exact(&mut vec![0u8; byteslen as usize][..])?; byteslen }, }) }''', 'LengthReadable for Pong')
    pin(impl_body(msgs, 'Writeable for WarningMessage', 'Writeable for WarningMessage'),
        '''fn write<W: Writer>(&self, w: &mut W) -> Result<(), io::Error> { self.channel_id.write(w)?;
           (self.data.len() as u16).write(w)?; w.write_all(self.data.as_bytes())?; Ok(()) }''', 'Writeable for WarningMessage')
    pin(impl_body(msgs, 'Writeable for ReplyChannelRange', 'Writeable for ReplyChannelRange'),
        '''fn write<W: Writer>(&self, w: &mut W) -> Result<(), io::Error> {
           let encoding_len: u16 = 1 + self.short_channel_ids.len() as u16 * 8;
           self.chain_hash.write(w)?; self.first_blocknum.write(w)?; self.number_of_blocks.write(w)?;
           self.sync_complete.write(w)?; encoding_len.write(w)?; (EncodingType::Uncompressed as u8).write(w)?;
           for scid in self.short_channel_ids.iter() { scid.write(w)?; } Ok(()) }''', 'Writeable for ReplyChannelRange')
    rcr = norm(block_after(msgs, r'pub struct ReplyChannelRange\s*\{', 'struct ReplyChannelRange'))
    if rcr != norm('pub chain_hash: ChainHash, pub first_blocknum: u32, pub number_of_blocks: u32, pub sync_complete: bool, pub short_channel_ids: Vec<u64>,'):
        raise TErr('struct ReplyChannelRange fields: %s' % rcr)
    m = re.search(r'pub struct ChannelId\(pub \[u8; (\d+)\]\);', types)
    if not m:
        raise TErr('struct ChannelId')
    chan_id_len = int(m.group(1))
    pin(impl_body(ser, r'Writeable for Vec<u8>', 'Writeable for Vec<u8>'),
        '''#[inline] fn write<W: Writer>(&self, w: &mut W) -> Result<(), io::Error> {
           CollectionLength(self.len() as u64).write(w)?; w.write_all(&self) }''', 'Writeable for Vec<u8>')
    cl = impl_body(ser, 'Writeable for CollectionLength', 'Writeable for CollectionLength')
    m = re.search(r'if\s+([^{]+)\{\s*\(self\.0 as u16\)\.write\(writer\)\s*\}\s*else\s*\{\s*(\w+)\.write\(writer\)\?;\s*\(self\.0 - (\w+)\)\.write\(writer\)\s*\}', cl)
    if not m:
        raise TErr('Writeable for CollectionLength: `if self.0 < 0xffff { u16 } else { 0xffffu16; u64 }`')
    cl_cond, cl_src = cmp_to_lean(m.group(1), r'self\.0', 'n', {}, 'CollectionLength::write')
    if not m.group(2).endswith('u16') or lit(m.group(2)) != lit(m.group(3)) or lit(m.group(2)) != 0xffff:
        raise TErr('CollectionLength::write: escape value %s / %s' % (m.group(2), m.group(3)))
    if not re.search(r'pub struct CollectionLength\(pub u64\);', ser):
        raise TErr('struct CollectionLength(pub u64)')

    def wire_type(name):
        mm = re.search(r'impl Encode for msgs::%s\s*\{\s*const TYPE: u16 = (\d+);\s*\}' % name, wire)
        if not mm:
            raise TErr('wire TYPE of %s' % name)
        return int(mm.group(1))
    t_ping, t_pong, t_warn, t_rcr = wire_type('Ping'), wire_type('Pong'), wire_type('WarningMessage'), wire_type('ReplyChannelRange')
    if re.findall(r'fn type_id\(&self\)\s*->\s*(\w+)', wire).count('u16') != len(re.findall(r'fn type_id\(&self\)', wire)):
        raise TErr('wire: type_id is no longer a u16')
    is_gossip = block_after(ph, r'fn is_gossip_msg\(type_id: u16\) -> bool\s*\{', 'is_gossip_msg')
    gossip_names = re.findall(r'msgs::(\w+)::TYPE', is_gossip)
    gossip_types = sorted(wire_type(n) for n in gossip_names)
    if not gossip_types or not re.search(r'=>\s*true,\s*_\s*=>\s*false', is_gossip):
        raise TErr('is_gossip_msg shape')

    # ---- gossip query replies -------------------------------------------------------------------
    m = re.search(r'const MAX_SCIDS_PER_REPLY\s*:\s*usize\s*=\s*(\d+);', gossip)
    if not m:
        raise TErr('const MAX_SCIDS_PER_REPLY')
    max_scids = int(m.group(1))
    if len(re.findall(r'Vec::with_capacity\(MAX_SCIDS_PER_REPLY\)', gossip)) != 2 or \
            not re.search(r'if batches\.last\(\)\.unwrap\(\)\.len\(\) == batches\.last\(\)\.unwrap\(\)\.capacity\(\)\s*\{\s*batches\.push\(Vec::with_capacity\(MAX_SCIDS_PER_REPLY\)\);', gossip):
        raise TErr('handle_query_channel_range: batching by MAX_SCIDS_PER_REPLY changed')

    out = '''/- GENERATED by tools/gen_peer_sizes.py from lightning/src/ln/peer_channel_encryptor.rs, peer_handler.rs,
   msgs.rs, wire.rs, types.rs, util/ser.rs and routing/gossip.rs — do not edit.
   Message-size bounds of the transport and of the messages the PeerManager builds from peer-chosen values.
   Comparisons are translated operator-for-operator; the statements around them are pinned by shape. -/
namespace Ldk.PeerSizes
/-- `pub const LN_MAX_MSG_LEN: usize = %(ln_max_src)s;` -/
def LN_MAX_MSG_LEN : Nat := %(ln_max)d
/-- `pub const MSG_BUF_ALLOC_SIZE: usize = ..;` (capacity hint of encrypt_message / encode_message) -/
def MSG_BUF_ALLOC_SIZE : Nat := %(buf_alloc)d
/-- `let msg_len = msgbuf.len() - 16 - 2`, `res.0.resize(16 + 2, 0)`: placeholder for the sealed length -/
def HEADER_PLACEHOLDER : Nat := %(hdr_reserve)d
/-- encrypt_message_with_header_0s: `if %(enc_rej_src)s { debug_assert!(false, ..); return Err(()) }` -/
def encryptRejects (msgLen : Nat) : Bool := %(enc_rej)s
/-- MessageBuf::from_encoded: `if %(fe_rej_src)s { debug_assert!(false, ..); return Err(()) }` -/
def fromEncodedRejects (len : Nat) : Bool := %(fe_rej)s
/-- decrypt_message: `if %(dec_rej_src)s { debug_assert!(false, ..); return Err(..) }` -/
def decryptRejects (boxLen : Nat) : Bool := %(dec_rej)s
/-- the length header is a `u16` (`(msg_len as u16).to_be_bytes()`, `-> Result<u16, ..>`, `[0; 2]`) -/
def LENGTH_HEADER_BYTES : Nat := 2
/-- do_read_event: `pending_read_buffer.resize(msg_len as usize + .., 0)` -/
def READ_BODY_EXTRA : Nat := %(tag)s
/-- do_read_event: `debug_assert!(peer.pending_read_buffer.len() >= 2 + 16)` before decrypt_message -/
def READ_BODY_MIN : Nat := %(body_min)d
/-- `fn type_id(&self) -> u16`, written before the message by encrypt_message / encode_message -/
def TYPE_BYTES : Nat := 2
def PING_TYPE : Nat := %(t_ping)d
def PONG_TYPE : Nat := %(t_pong)d
def WARNING_TYPE : Nat := %(t_warn)d
def REPLY_CHANNEL_RANGE_TYPE : Nat := %(t_rcr)d
/-- is_gossip_msg: %(gossip_names)s -/
def GOSSIP_TYPES : List Nat := %(gossip_types)s
/-- the `Message::Ping(msg)` arm: `if %(ping_src)s { enqueue Pong { byteslen: msg.ponglen } }` -/
def pingAnswered (ponglen : Nat) : Bool := %(ping_ans)s
/-- `let resp = msgs::Pong { byteslen: msg.ponglen };` -/
def pongByteslen (ponglen : Nat) : Nat := ponglen
/-- `impl Writeable for CollectionLength`: `if %(cl_src)s { (self.0 as u16).write } else { 0xffffu16.write; (self.0 - 0xffff).write }` -/
def collectionLengthSize (n : Nat) : Nat := if %(cl_cond)s then 2 else 2 + 8
/-- `impl Writeable for Pong`: `vec![0u8; byteslen].write(w)` = CollectionLength prefix then the zeros -/
def pongBodySize (byteslen : Nat) : Nat := collectionLengthSize byteslen + byteslen
/-- `impl Writeable for Ping`: u16 ponglen, then `vec![0u8; byteslen].write(w)` -/
def pingBodySize (byteslen : Nat) : Nat := 2 + collectionLengthSize byteslen + byteslen
/-- the pings the PeerManager builds itself: `msgs::Ping { ponglen: .., byteslen: .. }` -/
def OWN_PING_PONGLEN : Nat := %(own_ponglen)d
def OWN_PING_BYTESLEN : Nat := %(own_byteslen)d
/-- `pub struct ChannelId(pub [u8; 32]);` -/
def CHANNEL_ID_LEN : Nat := %(chan_id_len)d
/-- `impl Writeable for WarningMessage`: channel_id, `(data.len() as u16)`, data -/
def warningBodySize (dataLen : Nat) : Nat := CHANNEL_ID_LEN + 2 + dataLen
/-- do_read_event: "%(zl)s" -/
def ZLIB_WARNING_LEN : Nat := %(zl_len)d
/-- do_read_event: format!("%(bg)s{}", ty) with `ty: u16` -/
def BOGUS_GOSSIP_WARNING_PREFIX : String := "%(bg)s"
/-- routing/gossip.rs `const MAX_SCIDS_PER_REPLY: usize`, the capacity of one reply_channel_range batch -/
def MAX_SCIDS_PER_REPLY : Nat := %(max_scids)d
/-- `impl Writeable for ReplyChannelRange`: `encoding_len: u16 = 1 + len as u16 * 8` -/
def replyChannelRangeEncodingLen (scids : Nat) : Nat := 1 + scids * 8
/-- chain_hash 32, first_blocknum u32, number_of_blocks u32, sync_complete bool, encoding_len u16,
    encoding type u8, 8 bytes per short_channel_id -/
def replyChannelRangeBodySize (scids : Nat) : Nat := 32 + 4 + 4 + 1 + 2 + 1 + scids * 8
end Ldk.PeerSizes
''' % dict(ln_max_src=ln_max_src, ln_max=ln_max, buf_alloc=buf_alloc, hdr_reserve=hdr_reserve, enc_rej=enc_rej,
           enc_rej_src=enc_rej_src, fe_rej=fe_rej, fe_rej_src=fe_rej_src, dec_rej=dec_rej, dec_rej_src=dec_rej_src,
           tag=tag[0], body_min=body_min, t_ping=t_ping, t_pong=t_pong, t_warn=t_warn, t_rcr=t_rcr,
           gossip_names=', '.join(gossip_names), gossip_types=gossip_types, ping_ans=ping_ans, ping_src=ping_src,
           cl_cond=cl_cond[len('decide ('):-1], cl_src=cl_src, own_ponglen=own_ponglen, own_byteslen=own_byteslen,
           chan_id_len=chan_id_len, zl=zl[0], zl_len=len(zl[0]), bg=bg[0], max_scids=max_scids)
    old = open(OUT).read() if os.path.exists(OUT) else None
    if old != out:
        with open(OUT, 'w') as f:
            f.write(out)
        print('wrote', OUT)
    else:
        print('unchanged', OUT)


if __name__ == '__main__':
    try:
        main()
    except TErr as e:
        print('TRANSLATE-ERROR gen_peer_sizes.py: %s' % e)
        sys.exit(2)
