#!/usr/bin/env python3
"""Regenerate lean/LdkModel/Generated/Forward.lean (C02): the forward-admission decision for EVERY next-hop
kind, translated from the Rust bodies that exist in /repo *now*:

  channelmanager.rs  can_forward_htlc_should_intercept      (cur_height, known-channel closure, `None =>` arm, tail)
                     can_forward_htlc_to_outgoing_channel
                     forward_needs_intercept_to_known_chan / forward_needs_intercept_to_unknown_chan
                     create_htlc_intercepted_event, forward_intercepted_htlc (amounts only)
  channel.rs         FundedChannel::htlc_satisfies_config   (current config, then prev_config fallback)
  onion_payment.rs   NextPacketDetails / PendingHTLCInfo amounts of a `Hop::Forward`
  util/config.rs     HTLCInterceptionFlags discriminants

Statements are translated in continuation style (an `if` without `else` that may `return` duplicates what
follows it), so moving / dropping / reordering a check changes the generated term.  Anything that does not
have the expected shape is a TRANSLATE-ERROR (exit 2), never silently OK.
"""
import re, sys, os
sys.path.insert(0, os.path.dirname(__file__))
from rs2lean import (parse_expr, parse_block, Emitter, TranslateError, strip_comments, find_fn,
                     match_brace, parse_params, lname)

REPO = os.environ.get('VERIF_REPO', '/repo')
def rd(p): return open(os.path.join(REPO, p)).read()
def norm(s): return ' '.join(s.split())


class Cps(Emitter):
    """Emitter for early-return function bodies: `Result<_, LocalHTLCFailureReason>` is `Except FailReason _`,
    `?` propagates `.error`, statements are emitted with an explicit continuation.
    `tailwrap`: how a value in tail position is wrapped (e.g. '(.ok %s)' for a match arm whose value
    flows into `Ok(..)` while its `return Err(..)` leaves the function)."""
    def __init__(self, tailwrap='%s', **kw):
        Emitter.__init__(self, **kw)
        self.tailwrap = tailwrap

    def e(self, a):
        if a[0] == 'bin' and a[1] == '&':
            return '(Nat.land %s %s)' % (self.e(a[2]), self.e(a[3]))
        if a[0] == 'bin' and a[1] in ('|', '^', '%'):
            raise TranslateError("operator %s outside subset" % a[1])
        return Emitter.e(self, a)

    def body(self, blk):
        if blk[0] != 'block': raise TranslateError("expected a block")
        return self.seq(list(blk[1]), blk[2], None)

    def tryexpr(self, ex, pat, cont):
        return '(match %s with\n  | .error err => .error err\n  | .ok %s => %s)' % (self.e(ex), pat, cont())

    def seq(self, stmts, tail, k):
        if not stmts:
            if tail is None:
                if k is None: raise TranslateError("block falls through without a value")
                return k()
            if k is not None:
                if tail[0] == 'if': return self.stmt_if(tail, k)
                raise TranslateError("value-producing block used as a statement")
            return self.value(tail)
        s, rest = stmts[0], stmts[1:]
        cont = lambda: self.seq(rest, tail, k)
        if s[0] == 'let':
            if s[2][0] == 'try': return self.tryexpr(s[2][1], self.pat(s[1]), cont)
            return '(let %s := %s;\n  %s)' % (self.pat(s[1]), self.e(s[2]), cont())
        if s[0] == 'ret':
            return self.e(s[1])
        if s[0] == 'expr':
            ex = s[1]
            if ex[0] == 'if': return self.stmt_if(ex, cont)
            if ex[0] == 'try': return self.tryexpr(ex[1], '_', cont)
            if ex[0] == 'block': return self.seq(list(ex[1]), ex[2], cont)
        raise TranslateError("statement outside subset: %s" % (s[0:2],))

    def stmt_if(self, ex, cont):
        c, a, b = ex[1], ex[2], ex[3]
        A = self.seq(list(a[1]), a[2], cont)
        if b == ('unit',): B = cont()
        elif b[0] == 'if': B = self.stmt_if(b, cont)
        else: B = self.seq(list(b[1]), b[2], cont)
        return '(if %s then %s else\n  %s)' % (self.e(c), A, B)

    def value(self, t):
        if t[0] == 'if':
            c, a, b = t[1], t[2], t[3]
            if b == ('unit',): raise TranslateError("value `if` without else")
            B = self.value(b) if b[0] == 'if' else self.seq(list(b[1]), b[2], None)
            return '(if %s then %s else\n  %s)' % (self.e(c), self.seq(list(a[1]), a[2], None), B)
        if t[0] == 'block':
            return self.seq(list(t[1]), t[2], None)
        return self.tailwrap % self.e(t)


def must_sub(text, pattern, repl, what, count=None):
    """replace a sub-expression the translator has no business with by a named input; it must be there"""
    new, n = re.subn(pattern, repl, text)
    if n == 0 or (count is not None and n != count):
        raise TranslateError("%s: expected %s occurrence(s) of /%s/, found %d" % (what, count or '>=1', pattern, n))
    return new


def main(out_path):
    cm_raw = rd('lightning/src/ln/channelmanager.rs')
    ch_raw = rd('lightning/src/ln/channel.rs')
    op_raw = rd('lightning/src/ln/onion_payment.rs')
    cfg_raw = rd('lightning/src/util/config.rs')

    L = ['/- GENERATED by tools/gen_forward.py from the Rust sources — do not edit. -/',
         'import LdkModel.Generated.Timing', 'namespace Ldk.FwdGen', 'open Ldk', '']

    # ---- HTLCInterceptionFlags ------------------------------------------------------------------
    m = re.search(r'pub enum HTLCInterceptionFlags\s*\{', cfg_raw)
    if not m: raise TranslateError("enum HTLCInterceptionFlags not found")
    body = strip_comments(cfg_raw[m.end() - 1: match_brace(cfg_raw, m.end() - 1)])
    flags = {}
    for name, sh in re.findall(r'([A-Za-z]+)\s*=\s*1\s*<<\s*(\d+)\s*,', body):
        flags[name] = 1 << int(sh)
    want = ['ToInterceptSCIDs', 'ToOfflinePrivateChannels', 'ToOnlinePrivateChannels', 'ToPublicChannels',
            'ToUnknownSCIDs', 'FromPrivateChannels', 'FromPublicToPrivateChannels', 'FromPublicToPublicChannels']
    for w in want:
        if w not in flags: raise TranslateError("HTLCInterceptionFlags::%s = 1 << n not found" % w)
    L.append('/-! `HTLCInterceptionFlags` discriminants (util/config.rs) -/')
    for w in want:
        L.append('def FLAG_%s : Nat := %d' % (w, flags[w]))
    L.append('')
    flag_env = {'HTLCInterceptionFlags::' + w: 'FLAG_' + w for w in want}

    L += ['/-- the forwarding part of a `ChannelConfig` -/',
          'structure Cfg where', '  feeProp : Nat', '  feeBase : Nat', '  cltvDelta : Nat', '  deriving Repr, DecidableEq, Inhabited', '',
          '/-- what the admission code reads from the outgoing `FundedChannel` -/',
          'structure ChanView where',
          '  /-- `context.should_announce()` -/', '  announce : Bool',
          '  /-- `context.is_live()` -/', '  live : Bool',
          '  /-- `context.is_enabled()` -/', '  enabled : Bool',
          '  /-- `context.is_connected()` -/', '  connected : Bool',
          '  /-- `funding.get_channel_type().supports_scid_privacy()` -/', '  scidPrivacy : Bool',
          '  /-- `context.outbound_scid_alias()` -/', '  scidAlias : Nat',
          '  /-- `context.get_counterparty_htlc_minimum_msat()` -/', '  cpHtlcMin : Nat',
          '  /-- `context.config()` -/', '  cfg : Cfg',
          '  /-- `context.prev_config()` -/', '  prev : Option Cfg',
          '  deriving Repr, DecidableEq, Inhabited', '']

    # ---- cur_height ---------------------------------------------------------------------------------
    _, _, cf_body = find_fn(cm_raw, 'can_forward_htlc_should_intercept')
    cf = strip_comments(cf_body)
    m = re.search(r'let cur_height = (.*?);', cf)
    if not m: raise TranslateError("cur_height of can_forward_htlc_should_intercept not found")
    ch_expr = must_sub(m.group(1), r'self\.best_block\.read\(\)\.unwrap\(\)\.height', 'best_height', 'cur_height', 1)
    L.append('/-- `cur_height` of can_forward_htlc_should_intercept: `%s` -/' % norm(m.group(1)))
    L.append('def curHeight (best_height : Nat) : Nat :=')
    L.append('  ' + Cps().e(parse_expr(ch_expr)))
    L.append('')

    # ---- forward_needs_intercept_to_known_chan / _to_unknown_chan -------------------------------------
    params, _, body = find_fn(cm_raw, 'forward_needs_intercept_to_known_chan')
    if [n for n, _ in parse_params(params)] != ['prev_chan_public', 'outbound_chan']:
        raise TranslateError("forward_needs_intercept_to_known_chan signature changed")
    b = must_sub(strip_comments(body), r'self\.config\.read\(\)\.unwrap\(\)\.htlc_interception_flags', 'cfg_intercept_flags', 'known_chan flags', 1)
    chan_methods = {
        'should_announce': lambda r, a: 'chan.announce', 'is_live': lambda r, a: 'chan.live',
        'is_enabled': lambda r, a: 'chan.enabled', 'is_connected': lambda r, a: 'chan.connected',
        'get_channel_type': lambda r, a: r, 'supports_scid_privacy': lambda r, a: 'chan.scidPrivacy',
        'outbound_scid_alias': lambda r, a: 'chan.scidAlias',
        'get_counterparty_htlc_minimum_msat': lambda r, a: 'chan.cpHtlcMin',
    }
    em = Cps(env=dict(flag_env, outbound_chan='chan'), methods=chan_methods)
    L.append('/-- mirrors channelmanager.rs::forward_needs_intercept_to_known_chan (translated) -/')
    L.append('def forwardNeedsInterceptToKnownChan (cfg_intercept_flags : Nat) (prev_chan_public : Bool) (chan : ChanView) : Bool :=')
    L.append('  ' + em.body(parse_block(b)))
    L.append('')

    params, _, body = find_fn(cm_raw, 'forward_needs_intercept_to_unknown_chan')
    if [n for n, _ in parse_params(params)] != ['outgoing_scid']:
        raise TranslateError("forward_needs_intercept_to_unknown_chan signature changed")
    b = must_sub(strip_comments(body), r'self\.config\.read\(\)\.unwrap\(\)\.htlc_interception_flags', 'cfg_intercept_flags', 'unknown_chan flags', 1)
    def scid_fn(result):
        def f(args):
            if len(args) != 3 or args[1] != 'outgoing_scid': raise TranslateError("fake_scid check no longer on outgoing_scid: %s" % (args,))
            return result
        return f
    fake = {'is_valid_intercept': scid_fn('is_intercept_scid'), 'is_valid_phantom': scid_fn('is_phantom_scid')}
    em = Cps(env=flag_env, funs=fake)
    L.append('/-- mirrors channelmanager.rs::forward_needs_intercept_to_unknown_chan (translated); the two `fake_scid` namespace')
    L.append('    tests of `outgoing_scid` are inputs -/')
    L.append('def forwardNeedsInterceptToUnknownChan (cfg_intercept_flags : Nat) (is_intercept_scid is_phantom_scid : Bool) : Bool :=')
    L.append('  ' + em.body(parse_block(b)))
    L.append('')

    # ---- FundedChannel::htlc_satisfies_config ---------------------------------------------------------
    params, _, body = find_fn(ch_raw, 'htlc_satisfies_config', after='fn internal_htlc_satisfies_config')
    if [n for n, _ in parse_params(params)] != ['htlc', 'amt_to_forward', 'outgoing_cltv_value']:
        raise TranslateError("htlc_satisfies_config signature changed")
    def internal(recv, args):
        if len(args) != 4 or args[0] != 'htlc' or args[1] != 'amt_to_forward' or args[2] != 'outgoing_cltv_value':
            raise TranslateError("internal_htlc_satisfies_config called with unexpected arguments %s" % (args,))
        c = args[3]
        return '(htlcSatisfiesConfig htlc_amount_msat htlc_cltv_expiry amt_to_forward outgoing_cltv_value %s.feeProp %s.feeBase %s.cltvDelta)' % (c, c, c)
    def or_else(recv, args):
        return '(match %s with\n  | .ok u => .ok u\n  | .error err0 => (%s err0))' % (recv, args[0])
    em = Cps(methods={'internal_htlc_satisfies_config': internal, 'or_else': or_else,
                      'config': lambda r, a: 'chan.cfg', 'prev_config': lambda r, a: 'chan.prev'},
             env={'htlc': 'htlc'})
    L.append('/-- mirrors channel.rs FundedChannel::htlc_satisfies_config (translated): the current config, and on failure')
    L.append('    the previous one if there is one; `internal_htlc_satisfies_config` is Generated/Timing `htlcSatisfiesConfig` -/')
    L.append('def htlcSatisfiesConfigChan (chan : ChanView) (htlc_amount_msat htlc_cltv_expiry amt_to_forward outgoing_cltv_value : Nat) : Except FailReason Unit :=')
    L.append('  ' + em.body(parse_block(strip_comments(body))))
    L.append('')

    # ---- can_forward_htlc_to_outgoing_channel -----------------------------------------------------------
    params, _, body = find_fn(cm_raw, 'can_forward_htlc_to_outgoing_channel')
    if [n for n, _ in parse_params(params)] != ['chan', 'msg', 'next_packet', 'will_intercept']:
        raise TranslateError("can_forward_htlc_to_outgoing_channel signature changed")
    b = strip_comments(body)
    b = must_sub(b, r'self\.config\.read\(\)\.unwrap\(\)\.accept_forwards_to_priv_channels', 'cfg_accept_priv', 'accept_forwards_to_priv_channels', 1)
    b = must_sub(b, r'if let HopConnector::ShortChannelId\(outgoing_scid\) = next_packet\.outgoing_connector \{', 'if connector_is_scid {', 'connector test', 1)
    def satisfies(recv, args):
        if args != ['msg', 'outgoing_amt_msat', 'outgoing_cltv_value']:
            raise TranslateError("htlc_satisfies_config called with unexpected arguments %s" % (args,))
        return '(htlcSatisfiesConfigChan chan msg_amount_msat msg_cltv_expiry outgoing_amt_msat outgoing_cltv_value)'
    pkt_fields = {'next_packet.outgoing_amt_msat': 'outgoing_amt_msat', 'next_packet.outgoing_cltv_value': 'outgoing_cltv_value',
                  'next_hop.outgoing_amt_msat': 'outgoing_amt_msat', 'next_hop.outgoing_cltv_value': 'outgoing_cltv_value',
                  'msg.amount_msat': 'msg_amount_msat', 'msg.cltv_expiry': 'msg_cltv_expiry'}
    em = Cps(methods=dict(chan_methods, htlc_satisfies_config=satisfies), fields=pkt_fields, env={'msg': 'msg'})
    L.append('/-- mirrors channelmanager.rs::can_forward_htlc_to_outgoing_channel (translated).  `connector_is_scid`:')
    L.append('    `next_packet.outgoing_connector` is `HopConnector::ShortChannelId(outgoing_scid)` -/')
    L.append('def canForwardHtlcToOutgoingChannel (cfg_accept_priv : Bool) (chan : ChanView) (connector_is_scid : Bool) (outgoing_scid msg_amount_msat msg_cltv_expiry outgoing_amt_msat outgoing_cltv_value : Nat) (will_intercept : Bool) : Except FailReason Unit :=')
    L.append('  ' + em.body(parse_block(b)))
    L.append('')

    # ---- can_forward_htlc_should_intercept ------------------------------------------------------------
    params, _, _ = find_fn(cm_raw, 'can_forward_htlc_should_intercept')
    if [n for n, _ in parse_params(params)] != ['msg', 'prev_chan_public', 'next_hop']:
        raise TranslateError("can_forward_htlc_should_intercept signature changed")
    # outgoing_scid comes from the ShortChannelId connector; Dummy / Trampoline connectors leave the function early
    m = re.search(r'let outgoing_scid = match next_hop\.outgoing_connector \{', cf)
    if not m: raise TranslateError("`let outgoing_scid = match next_hop.outgoing_connector` not found")
    conn_end = match_brace(cf, m.end() - 1)
    conn = cf[m.end():conn_end - 1]
    if not re.match(r'\s*HopConnector::ShortChannelId\(scid\) => scid,\s*HopConnector::Dummy => \{', conn):
        raise TranslateError("connector match of can_forward_htlc_should_intercept changed")
    if not re.match(r'\s*;\s*let intercept = match self\.do_funded_channel_callback\(outgoing_scid, \|chan: &mut FundedChannel<SP>\| \{', norm(cf[conn_end:conn_end + 400])):
        raise TranslateError("statement after the connector match is no longer `let intercept = match self.do_funded_channel_callback(outgoing_scid, |chan| {`")
    i_cl = cf.index('{', cf.index('|chan: &mut FundedChannel<SP>|', conn_end))
    j_cl = match_brace(cf, i_cl)
    closure = cf[i_cl:j_cl]
    m2 = re.match(r'\s*\)\s*\{', cf[j_cl:])
    if not m2: raise TranslateError("do_funded_channel_callback match head changed")
    i_arms = j_cl + m2.end() - 1
    j_arms = match_brace(cf, i_arms)
    arms = cf[i_arms + 1:j_arms - 1]
    m3 = re.match(r'\s*Some\(Ok\(intercept\)\) => intercept,\s*Some\(Err\(e\)\) => return Err\(e\),\s*None => \{', arms)
    if not m3: raise TranslateError("arms of the do_funded_channel_callback match changed")
    i_none = m3.end() - 1
    j_none = match_brace(arms, i_none)
    none_arm = arms[i_none:j_none]
    if norm(arms[j_none:]) not in (',', ''):
        raise TranslateError("unexpected arm after `None =>`: %r" % norm(arms[j_none:])[:80])
    tail = cf[j_arms:]
    if not re.match(r'\s*;', tail): raise TranslateError("`let intercept = match ..;` not terminated")
    tail = '{' + tail[tail.index(';') + 1:]      # the rest of the function body, up to its closing brace

    def known(recv, args):
        if args != ['prev_chan_public', 'chan']: raise TranslateError("forward_needs_intercept_to_known_chan args %s" % (args,))
        return '(forwardNeedsInterceptToKnownChan cfg_intercept_flags prev_chan_public chan)'
    def to_out(recv, args):
        if len(args) != 4 or args[:3] != ['chan', 'msg', 'next_hop']: raise TranslateError("can_forward_htlc_to_outgoing_channel args %s" % (args,))
        return '(canForwardHtlcToOutgoingChannel cfg_accept_priv chan true outgoing_scid msg_amount_msat msg_cltv_expiry outgoing_amt_msat outgoing_cltv_value %s)' % args[3]
    em = Cps(methods={'forward_needs_intercept_to_known_chan': known, 'can_forward_htlc_to_outgoing_channel': to_out},
             env={'msg': 'msg', 'next_hop': 'next_hop', 'chan': 'chan'})
    L.append('/-- the closure run on the outgoing channel when `outgoing_scid` is one of our funded channels (translated) -/')
    L.append('def cfsiKnown (cfg_intercept_flags : Nat) (cfg_accept_priv prev_chan_public : Bool) (chan : ChanView) (outgoing_scid msg_amount_msat msg_cltv_expiry outgoing_amt_msat outgoing_cltv_value : Nat) : Except FailReason Bool :=')
    L.append('  ' + em.body(parse_block(closure)))
    L.append('')

    def unknown(recv, args):
        if args != ['outgoing_scid']: raise TranslateError("forward_needs_intercept_to_unknown_chan args %s" % (args,))
        return '(forwardNeedsInterceptToUnknownChan cfg_intercept_flags is_intercept_scid is_phantom_scid)'
    em = Cps(tailwrap='(.ok %s)', methods={'forward_needs_intercept_to_unknown_chan': unknown}, funs=fake, fields=pkt_fields)
    L.append('/-- the `None =>` arm: `outgoing_scid` is NOT one of our funded channels (translated; a value in tail position')
    L.append('    is the `intercept` flag, a `return Err(..)` leaves the function) -/')
    L.append('def cfsiUnknown (cfg_intercept_flags : Nat) (is_intercept_scid is_phantom_scid : Bool) (msg_amount_msat msg_cltv_expiry outgoing_amt_msat outgoing_cltv_value : Nat) : Except FailReason Bool :=')
    L.append('  ' + em.body(parse_block(none_arm)))
    L.append('')

    def cltv(args):
        if len(args) != 4: raise TranslateError("check_incoming_htlc_cltv arity")
        return '(checkIncomingHtlcCltv %s)' % ' '.join(args)
    em = Cps(funs={'check_incoming_htlc_cltv': cltv}, fields=pkt_fields)
    L.append('/-- what follows the channel lookup (translated) -/')
    L.append('def cfsiTail (cur_height msg_cltv_expiry outgoing_cltv_value : Nat) (intercept : Bool) : Except FailReason Bool :=')
    L.append('  ' + em.body(parse_block(tail)))
    L.append('')
    L.append('/-- mirrors channelmanager.rs::can_forward_htlc_should_intercept for a `HopConnector::ShortChannelId` hop:')
    L.append('    `chan` is what `do_funded_channel_callback(outgoing_scid, ..)` finds (`none`: not one of our funded channels).')
    L.append('    The match skeleton (`Some(Ok(i)) => i`, `Some(Err(e)) => return Err(e)`, `None => {..}`) is checked textually by the generator. -/')
    L.append('def canForwardHtlcShouldIntercept (cfg_intercept_flags : Nat) (cfg_accept_priv : Bool) (best_height : Nat) (chan : Option ChanView) (is_intercept_scid is_phantom_scid prev_chan_public : Bool) (outgoing_scid msg_amount_msat msg_cltv_expiry outgoing_amt_msat outgoing_cltv_value : Nat) : Except FailReason Bool :=')
    L.append('  let cur_height := curHeight best_height')
    L.append('  match (match chan with')
    L.append('         | some chan => cfsiKnown cfg_intercept_flags cfg_accept_priv prev_chan_public chan outgoing_scid msg_amount_msat msg_cltv_expiry outgoing_amt_msat outgoing_cltv_value')
    L.append('         | none => cfsiUnknown cfg_intercept_flags is_intercept_scid is_phantom_scid msg_amount_msat msg_cltv_expiry outgoing_amt_msat outgoing_cltv_value) with')
    L.append('  | .error e => .error e')
    L.append('  | .ok intercept => cfsiTail cur_height msg_cltv_expiry outgoing_cltv_value intercept')
    L.append('')

    # ---- amounts carried from the onion to the forward / the intercept event ------------------------------
    op = strip_comments(op_raw)
    _, _, dec = find_fn(op_raw, 'decode_incoming_update_add_htlc_onion')
    dec = norm(strip_comments(dec))
    if not re.search(r'Hop::Forward \{ next_hop_data: msgs::InboundOnionForwardPayload \{ short_channel_id, amt_to_forward, outgoing_cltv_value \}, shared_secret, \.\. \} => \{.*?'
                     r'outgoing_connector: HopConnector::ShortChannelId\(short_channel_id\), outgoing_amt_msat: amt_to_forward, outgoing_cltv_value \}\)', dec):
        raise TranslateError("NextPacketDetails of a Hop::Forward no longer { ShortChannelId(short_channel_id), outgoing_amt_msat: amt_to_forward, outgoing_cltv_value }")
    _, _, fwd = find_fn(op_raw, 'create_fwd_pending_htlc_info')
    fwd = norm(strip_comments(fwd))
    if not re.search(r'Hop::Forward \{ next_hop_data: msgs::InboundOnionForwardPayload \{ short_channel_id, amt_to_forward, outgoing_cltv_value \}, new_packet_bytes, next_hop_hmac, \.\. \} => '
                     r'\(RoutingInfo::Direct \{ short_channel_id, new_packet_bytes, next_hop_hmac \}, amt_to_forward, outgoing_cltv_value, None, None\)', fwd):
        raise TranslateError("create_fwd_pending_htlc_info: Hop::Forward arm changed")
    m = re.search(r'Ok\(PendingHTLCInfo \{(.*?)\}\)\s*\}$', fwd)
    if not m: raise TranslateError("create_fwd_pending_htlc_info: final PendingHTLCInfo not found")
    info = m.group(1)
    for need in ('incoming_amt_msat: Some(msg.amount_msat),', 'outgoing_amt_msat: amt_to_forward,', 'outgoing_cltv_value,', 'skimmed_fee_msat: None,'):
        if need not in info: raise TranslateError("create_fwd_pending_htlc_info: PendingHTLCInfo no longer has `%s`" % need)
    L.append('/-- `PendingHTLCInfo` of a `Hop::Forward` (onion_payment.rs::create_fwd_pending_htlc_info, shape-checked):')
    L.append('    (incoming_amt_msat, outgoing_amt_msat, outgoing_cltv_value) -/')
    L.append('def fwdPendingInfo (msg_amount_msat amt_to_forward outgoing_cltv_value : Nat) : Nat × Nat × Nat :=')
    L.append('  (msg_amount_msat, amt_to_forward, outgoing_cltv_value)')
    L.append('')

    _, _, ev = find_fn(cm_raw, 'create_htlc_intercepted_event')
    ev = norm(strip_comments(ev))
    if 'let inbound_amount_msat = pending_add.forward_info.incoming_amt_msat.ok_or(())?;' not in ev:
        raise TranslateError("create_htlc_intercepted_event: inbound_amount_msat source changed")
    m = re.search(r'Ok\(Event::HTLCIntercepted \{(.*?)\}\)', ev)
    if not m: raise TranslateError("create_htlc_intercepted_event: event literal not found")
    fields = dict((k.strip(), v.strip()) for k, v in (f.split(':', 1) if ':' in f else (f, f) for f in m.group(1).split(',') if f.strip()))
    em = Cps(env={'inbound_amount_msat': 'info_incoming_amt_msat'})
    def evfield(name):
        if name not in fields: raise TranslateError("HTLCIntercepted no longer has field %s" % name)
        src = fields[name]
        src = src.replace('pending_add.forward_info.outgoing_amt_msat', 'info_outgoing_amt_msat').replace('pending_add.forward_info.outgoing_cltv_value', 'info_outgoing_cltv_value')
        src = re.sub(r'^Some\((.*)\)$', r'\1', src)
        return em.e(parse_expr(src))
    L.append('/-- `Event::HTLCIntercepted` (channelmanager.rs::create_htlc_intercepted_event, translated field by field):')
    L.append('    (inbound_amount_msat, expected_outbound_amount_msat, outgoing_htlc_expiry_block_height) -/')
    L.append('def interceptedEvent (info_incoming_amt_msat info_outgoing_amt_msat info_outgoing_cltv_value : Nat) : Nat × Nat × Nat :=')
    L.append('  (%s, %s, %s)' % (evfield('inbound_amount_msat'), evfield('expected_outbound_amount_msat'), evfield('outgoing_htlc_expiry_block_height')))
    L.append('')

    _, _, fi = find_fn(cm_raw, 'forward_intercepted_htlc')
    fi = norm(strip_comments(fi))
    m = re.search(r'let skimmed_fee_msat = (.*?);', fi)
    if not m: raise TranslateError("forward_intercepted_htlc: skimmed_fee_msat not found")
    skim = m.group(1).replace('payment.forward_info.outgoing_amt_msat', 'info_outgoing_amt_msat')
    m = re.search(r'let pending_htlc_info = PendingHTLCInfo \{(.*?)\.\.payment\.forward_info \}', fi)
    if not m: raise TranslateError("forward_intercepted_htlc: PendingHTLCInfo update not found")
    m2 = re.search(r'outgoing_amt_msat: ([^,]+),', m.group(1))
    if not m2: raise TranslateError("forward_intercepted_htlc: outgoing_amt_msat not set")
    if 'outgoing_cltv_value' in m.group(1): raise TranslateError("forward_intercepted_htlc now changes outgoing_cltv_value")
    em = Cps()
    L.append('/-- channelmanager.rs::forward_intercepted_htlc (translated): (outgoing_amt_msat, skimmed fee) of the re-queued')
    L.append('    forward; `outgoing_cltv_value` is taken over unchanged (`..payment.forward_info`) -/')
    L.append('def forwardIntercepted (info_outgoing_amt_msat amt_to_forward_msat : Nat) : Nat × Nat :=')
    L.append('  (%s, %s)' % (em.e(parse_expr(m2.group(1))), em.e(parse_expr(skim))))
    L.append('')
    L.append('end Ldk.FwdGen')
    text = '\n'.join(L) + '\n'
    old = open(out_path).read() if os.path.exists(out_path) else None
    if old != text:
        open(out_path, 'w').write(text)

if __name__ == '__main__':
    try:
        main(sys.argv[1] if len(sys.argv) > 1 else os.path.join(os.path.dirname(__file__), '..', 'lean', 'LdkModel', 'Generated', 'Forward.lean'))
    except TranslateError as ex:
        print("TRANSLATE-ERROR gen_forward: %s" % ex)
        sys.exit(2)
