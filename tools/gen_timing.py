#!/usr/bin/env python3
"""Regenerate lean/LdkModel/Generated/Timing.lean: the HTLC timing / forward-admission decision
functions, translated from the Rust bodies that exist in /repo *now* (C02, C04, C08).
"""
import re, sys, os
sys.path.insert(0, os.path.dirname(__file__))
from rs2lean import (parse_expr, parse_block, Emitter, TranslateError, strip_comments, find_fn,
                     match_brace, parse_params)

REPO = os.environ.get('VERIF_REPO', '/repo')
def rd(p): return open(os.path.join(REPO, p)).read()

def lc(n): return n[0].lower() + n[1:]

def enum_variants(src, name):
    m = re.search(r'pub enum ' + name + r'\s*\{', src)
    if not m: raise TranslateError("enum %s not found" % name)
    body = strip_comments(src[m.end() - 1: match_brace(src, m.end() - 1)])[1:-1]
    # drop nested braces (struct variants) but remember them
    out = []
    d = 0
    cur = ''
    for c in body:
        if c == '{' or c == '(':
            d += 1
        if d == 0: cur += c
        if c == '}' or c == ')':
            d -= 1
            cur += '@'  # marks a data-carrying variant
    for part in cur.split(','):
        part = re.sub(r'#\[[^\]]*\]', '', part).strip()
        if not part: continue
        m2 = re.fullmatch(r'([A-Za-z0-9_]+)\s*(@?)(?:\s*=\s*\d+)?', part)
        if not m2: raise TranslateError("cannot parse variant %r of %s" % (part, name))
        out.append((m2.group(1), bool(m2.group(2))))
    return out

def paren_end(src, i):
    """src[i] == '(' -> index just after the matching ')'."""
    d = 0
    for j in range(i, len(src)):
        if src[j] in '([{': d += 1
        elif src[j] in ')]}':
            d -= 1
            if d == 0: return j + 1
    raise TranslateError("unbalanced parenthesis")

def split_top(s):
    out, d, cur = [], 0, ''
    for c in s:
        if c in '([{': d += 1
        if c in ')]}': d -= 1
        if c == ',' and d == 0: out.append(cur.strip()); cur = ''
        else: cur += c
    if cur.strip(): out.append(cur.strip())
    return out

BBU_EXITS = ['establishment', 'errUnconfirmed', 'errFundingTimedOut', 'errSpliceConflict', 'splice', 'plain']

def gen_exit_census(L, ch, cm, mon, b, em):
    """C08 (seeded C08-r4): WHAT every exit of FundedChannel::do_best_block_updated returns in the timed-out-HTLC
    position, and that everything between the holding-cell scan and ChannelManager::fail_htlc_backwards_internal
    hands the list on unchanged. `b` = comment-stripped body of do_best_block_updated."""
    # --- the scan: a pushed HTLC leaves the holding cell, everything else stays ---------------------------------
    if not re.search(r'self\.context\.holding_cell_htlc_updates\.retain\(\|htlc_update\| \{\s*match htlc_update \{\s*'
                     r'&HTLCUpdateAwaitingACK::AddHTLC \{ ref payment_hash, ref source, ref cltv_expiry, \.\. \} => \{\s*'
                     r'if \*cltv_expiry (<=|<|>=|>) unforwarded_htlc_cltv_limit \{\s*'
                     r'timed_out_htlcs\.push\(\(source\.clone\(\), payment_hash\.clone\(\)\)\);\s*false\s*\} else \{ true \}\s*\},\s*'
                     r'_ => true\s*\}\s*\}\);', b):
        raise TranslateError("holding-cell scan of do_best_block_updated changed shape (retain/push/false/true)")
    scan_end = b.index('timed_out_htlcs.push')
    if not re.match(r'\{\s*let mut timed_out_htlcs = Vec::new\(\);', b):
        raise TranslateError("do_best_block_updated no longer starts with `let mut timed_out_htlcs = Vec::new();`")
    # --- every exit after the scan ------------------------------------------------------------------------------
    exits = []  # (kind, carries, text)
    def classify(pos, expr):
        e = ' '.join(expr.split())
        if e.startswith('Ok(('):
            inner = e[len('Ok(('):-2]
            comps = split_top(inner)
            if len(comps) != 3: raise TranslateError("exit of do_best_block_updated is not a 3-tuple: %s" % e[:80])
            if comps[0].startswith('Some(FundingConfirmedMessage::Establishment('): kind = 'establishment'
            elif comps[0].startswith('Some(FundingConfirmedMessage::Splice('): kind = 'splice'
            elif comps[0] == 'None': kind = 'plain'
            else: raise TranslateError("unknown Ok exit of do_best_block_updated: %s" % comps[0][:60])
            return (kind, comps[1] == 'timed_out_htlcs', comps[1])
        if e.startswith('Err('):
            ctx = b[max(0, pos - 400):pos] + e
            if 'FundingTimedOut' in e: kind = 'errFundingTimedOut'
            elif 'ProcessingError' in e and 'un-confirmed' in ctx: kind = 'errUnconfirmed'
            elif 'ProcessingError' in e and 'another pending funding' in ctx: kind = 'errSpliceConflict'
            else: raise TranslateError("unknown Err exit of do_best_block_updated: %s" % e[:80])
            return (kind, False, '-')
        raise TranslateError("unrecognised exit of do_best_block_updated: %s" % e[:80])
    for m in re.finditer(r'\breturn\b\s*', b):
        if m.start() < scan_end: raise TranslateError("do_best_block_updated returns before/inside the holding-cell scan")
        k = m.end()
        if b[k:k + 3] not in ('Ok(', 'Err'): raise TranslateError("unrecognised return in do_best_block_updated: %r" % b[k:k + 40])
        j = paren_end(b, b.index('(', k))
        if b[j:j + 1] != ';': raise TranslateError("return expression of do_best_block_updated not terminated by `;`")
        exits.append(classify(m.start(), b[k:j]))
    tail = b[b.rindex(';') + 1:].strip()
    if not tail.endswith('}'): raise TranslateError("do_best_block_updated tail not recognised")
    exits.append(classify(len(b), tail[:-1].strip()))
    if '?' in re.sub(r'"[^"]*"', '', b[scan_end:]):
        raise TranslateError("do_best_block_updated has a `?` exit after the holding-cell scan")
    kinds = [k for k, _, _ in exits]
    if kinds != BBU_EXITS:
        raise TranslateError("exits of do_best_block_updated after the holding-cell scan changed: %s" % kinds)
    n_named = len(re.findall(r'\btimed_out_htlcs\b', b))
    if n_named != 2 + sum(1 for _, c, _ in exits if c):
        raise TranslateError("`timed_out_htlcs` is used in do_best_block_updated outside its declaration, the scan push and the exits")
    L.append('/-- the exits of channel.rs FundedChannel::do_best_block_updated, all AFTER the holding-cell scan, in source order -/')
    L.append('inductive BbuExit where')
    for k in BBU_EXITS: L.append('  | %s' % k)
    L.append('  deriving DecidableEq, Repr, Inhabited')
    L.append('')
    L.append('def BbuExit.all : List BbuExit := [%s]' % ', '.join('.' + k for k in BBU_EXITS))
    L.append('def BbuExit.name : BbuExit → String')
    for k in BBU_EXITS: L.append('  | .%s => "%s"' % (k, k))
    L.append('/-- `Ok(..)` exits (the channel lives on); the `Err(ClosureReason)` exits close the channel -/')
    L.append('def BbuExit.isOk : BbuExit → Bool')
    for k in BBU_EXITS: L.append('  | .%s => %s' % (k, 'false' if k.startswith('err') else 'true'))
    L.append('/-- TRANSLATED per exit: `true` iff the second tuple component it returns is literally `timed_out_htlcs`')
    L.append('    (' + '; '.join('%s: `%s`' % (k, t) for k, _, t in exits) + ') -/')
    L.append('def BbuExit.returnsTimedOut : BbuExit → Bool')
    for k, c, _ in exits: L.append('  | .%s => %s' % (k, 'true' if c else 'false'))
    L.append('')
    # --- FundedChannel::best_block_updated is a bare call of do_best_block_updated ---------------------------------
    _, _, bb = find_fn(ch, 'best_block_updated')
    bbs = ' '.join(strip_comments(bb).split())
    if not re.fullmatch(r'\{ self\.do_best_block_updated\( height, highest_header_time, Some\(\(chain_hash, node_signer, user_config\)\), logger, \) \}', bbs):
        raise TranslateError("FundedChannel::best_block_updated is no longer a bare call of do_best_block_updated")
    # --- transactions_confirmed (channel.rs) never touches the holding cell, transaction_unconfirmed asserts the list empty
    _, _, tcb = find_fn(ch, 'transactions_confirmed')
    if 'holding_cell_htlc_updates' in tcb or 'timed_out' in tcb:
        raise TranslateError("FundedChannel::transactions_confirmed now touches the holding cell / timed-out HTLCs")
    _, _, tub = find_fn(ch, 'transaction_unconfirmed')
    if not re.search(r'assert!\(timed_out_htlcs\.is_empty\(\)', tub):
        raise TranslateError("FundedChannel::transaction_unconfirmed no longer asserts timed_out_htlcs.is_empty()")
    # --- ChannelManager: every closure given to do_chain_event ends in the bare channel call --------------------------
    cms = strip_comments(cm)
    calls = [m.end() - 1 for m in re.finditer(r'\bchannel\.best_block_updated\(', cms)]
    if len(calls) != 3: raise TranslateError("expected 3 ChannelManager call sites of channel.best_block_updated, got %d" % len(calls))
    for i in calls:
        j = paren_end(cms, i)
        if not re.match(r'\s*\}', cms[j:j + 12]):
            raise TranslateError("a ChannelManager call of channel.best_block_updated is post-processed: %r" % cms[j:j + 30])
    if not re.search(r'channel\.transactions_confirmed\((?:[^;]*?)\)\s*\.map\(\|\(a, b\)\| \(a, Vec::new\(\), b\)\)\);', cms):
        raise TranslateError("ChannelManager::transactions_confirmed wrapper around channel.transactions_confirmed changed")
    # --- do_chain_event: the list is drained first thing on Ok, and failed backwards at the end ---------------------------
    m = re.search(r'fn do_chain_event<.*?>\(\s*&self, height_opt: Option<u32>, f: FN,\s*\) \{', cm, re.S)
    if not m or m.end() - m.start() > 600: raise TranslateError("fn do_chain_event not found")
    d = strip_comments(cm[m.end() - 1: match_brace(cm, m.end() - 1)])
    m = re.search(r'let res = f\(funded_channel\);\s*if let Ok\(\(funding_confirmed_opt, mut timed_out_pending_htlcs, announcement_sigs\)\) = res \{\s*'
                  r'for \(source, payment_hash\) in timed_out_pending_htlcs\.drain\(\.\.\) \{\s*'
                  r'let reason = LocalHTLCFailureReason::(\w+);\s*'
                  r'let data = self\.get_htlc_inbound_temp_fail_data\(reason\);\s*'
                  r'let failure_type = source\.failure_type\(funded_channel\.context\.get_counterparty_node_id\(\), \*channel_id\);\s*'
                  r'timed_out_htlcs\.push\(\(source, payment_hash, HTLCFailReason::reason\(reason, data\), failure_type\)\);\s*\}', d)
    if not m: raise TranslateError("do_chain_event no longer drains the channel's timed-out HTLCs first thing on Ok")
    reason = m.group(1)
    if not re.search(r'for \(source, payment_hash, reason, destination\) in timed_out_htlcs\.drain\(\.\.\) \{\s*'
                     r'self\.fail_htlc_backwards_internal\(&source, &payment_hash, &reason, destination, None\);\s*\}\s*\}\s*$', d):
        raise TranslateError("do_chain_event no longer ends by failing every collected timed-out HTLC backwards")
    rets = re.findall(r'\breturn\b[^;]*;', d)
    if any(r.split() != ['return', 'false;'] for r in rets):
        raise TranslateError("do_chain_event has an early return: %s" % rets)
    if len(re.findall(r'\btimed_out_htlcs\b', d)) != 6:
        raise TranslateError("do_chain_event uses `timed_out_htlcs` at a new place (expected: decl, holding cell, claimable, trampoline, intercepted, final drain)")
    L.append('/-- do_chain_event: reason with which the HTLCs returned by the channel (holding-cell timeouts) are failed backwards;')
    L.append('    pinned: they are drained into the fail list first thing on `Ok`, and the function ends by calling')
    L.append('    fail_htlc_backwards_internal on every collected entry, with no early return in between -/')
    L.append('def chainEventHoldingCellReason : FailReason := .%s' % lc(reason))
    m = re.search(r'intercepted_htlcs\.retain\(\|_, htlc\| \{\s*if (height (?:>=|>|<=|<) htlc\.forward_info\.outgoing_cltv_value - \w+) \{', d)
    if not m: raise TranslateError("intercepted-HTLC timeout test of do_chain_event not found")
    L.append('/-- mirrors do_chain_event: an intercepted HTLC is failed back iff `%s` -/' % m.group(1))
    L.append('def interceptTimedOut (height outgoing_cltv_value : Nat) : Bool :=')
    L.append('  ' + em.e(parse_expr(m.group(1).replace('htlc.forward_info.outgoing_cltv_value', 'outgoing_cltv_value'))))
    if not re.search(r'let htlc_timed_out = htlc\.mpp_part\.check_onchain_timeout\(height\);', d):
        raise TranslateError("claimable-HTLC timeout of do_chain_event no longer uses check_onchain_timeout(height)")
    # --- (round 5b) the awaiting_trampoline_forwards arm: quantifier over the parts, what is failed, reason, what is retained
    mt = re.search(r'self\.awaiting_trampoline_forwards\.lock\(\)\.unwrap\(\)\.retain\(\|payment_hash, payment\| \{\s*'
                   r'if payment\.htlcs\.is_empty\(\) \{\s*debug_assert!\(false\);\s*return false;\s*\}\s*'
                   r'let htlc_timed_out =\s*payment\.htlcs\.iter\(\)\.(any|all)\(\|htlc\| htlc\.check_onchain_timeout\(height\)\);\s*'
                   r'if htlc_timed_out \{\s*let previous_hop_data =\s*payment\.htlcs\.drain\(\.\.\)\.map\(\|claimable\| claimable\.prev_hop\)\.collect\(\);\s*'
                   r'let failure_reason = LocalHTLCFailureReason::(\w+);\s*'
                   r'timed_out_htlcs\.push\(\(\s*HTLCSource::TrampolineForward \{ previous_hop_data, outbound_payment: None \},.*?\)\);\s*\}\s*'
                   r'(!?)htlc_timed_out\s*\}\);', d, re.S)
    if not mt: raise TranslateError("awaiting_trampoline_forwards timeout arm of do_chain_event changed shape (quantifier over parts / drain(..) of every prev hop / reason / retain result)")
    if mt.group(3) != '!': raise TranslateError("awaiting_trampoline_forwards: a timed-out payment is no longer dropped from the map")
    L.append('/-- mirrors do_chain_event, awaiting_trampoline_forwards.retain: a trampoline forward waiting for its parts is given up iff')
    L.append('    `payment.htlcs.iter().%s(|htlc| htlc.check_onchain_timeout(height))`; pinned: then EVERY part\'s prev hop is drained into ONE' % mt.group(1))
    L.append('    HTLCSource::TrampolineForward failure, the entry is dropped (`!htlc_timed_out`), an empty entry is dropped -/')
    L.append('def trampolineTimedOut (height : Nat) (cltvs : List Nat) : Bool :=')
    L.append('  cltvs.%s (fun cltv_expiry => mppOnchainTimeout height cltv_expiry)' % mt.group(1))
    L.append('def trampolineTimeoutReason : FailReason := .%s' % lc(mt.group(2)))
    L.append('')
    arms = [('holdingCell', r'timed_out_pending_htlcs\.drain\(\.\.\)'), ('claimable', r'claimable_payments\.retain\('),
            ('trampolineAwaiting', r'awaiting_trampoline_forwards\.lock\(\)\.unwrap\(\)\.retain\('), ('intercepted', r'intercepted_htlcs\.retain\(')]
    pos = []
    for n, pat in arms:
        ma = re.search(pat, d)
        if not ma: raise TranslateError("do_chain_event: timeout sweep `%s` not found" % n)
        pos.append((ma.start(), n))
    L.append('/-- TRANSLATED: the timeout sweeps of do_chain_event that feed `timed_out_htlcs`, in source order -/')
    L.append('inductive MgrSweep where')
    L.append('  | ' + ' | '.join(n for n, _ in arms))
    L.append('  deriving DecidableEq, Repr, Inhabited')
    L.append('def chainEventSweeps : List MgrSweep := [%s]' % ', '.join('.' + n for _, n in sorted(pos)))
    L.append('')
    L.append('')
    # --- ChannelMonitorImpl::best_block_updated: which announced heights are processed at all ---------------------------
    _, _, mb = find_fn(mon, 'best_block_updated', after='fn block_connected<B: BroadcasterInterface, F: FeeEstimator, L: Logger>(\n\t\t&mut self, header: &Header, txdata')
    ms = strip_comments(mb)
    m = re.search(r'if (height (?:>|>=) self\.best_block\.height) \{\s*self\.best_block\.update_for_new_tip\(block_hash, height\);\s*(?:log_trace![^;]*;\s*)?self\.block_confirmed\(height,', ms)
    if not m: raise TranslateError("ChannelMonitorImpl::best_block_updated height test not found")
    L.append('/-- mirrors ChannelMonitorImpl::best_block_updated: block_confirmed runs iff `%s` (a re-announced or lower height is not re-processed) -/' % m.group(1))
    L.append('def monitorProcessesHeight (height best_height : Nat) : Bool :=')
    L.append('  ' + em.e(parse_expr(m.group(1).replace('self.best_block.height', 'best_height'))))
    # block_confirmed: order scan -> matured events -> pre-emptive fail-back, the latter only once no further updates are allowed
    _, _, bc = find_fn(mon, 'block_confirmed')
    bcs = strip_comments(bc)
    i1 = bcs.find('self.should_broadcast_holder_commitment_txn(logger)'); i2 = bcs.find('for entry in onchain_events_reaching_threshold_conf')
    i3 = bcs.find('if self.no_further_updates_allowed() {'); i4 = bcs.find('let max_expiry_height')
    if not (0 <= i1 < i2 < i3 < i4): raise TranslateError("block_confirmed order (scan, matured events, guarded pre-emptive fail-back) changed")
    # onchaintx: a timelocked claim waits exactly while locktime > height and is released up to and including cur_height
    oc = strip_comments(rd('lightning/src/chain/onchaintx.rs'))
    m = re.search(r'let package_locktime = req\.package_locktime\(cur_height\);\s*if (package_locktime (?:>|>=) cur_height) \{', oc)
    if not (m and re.search(r'self\.locktimed_packages\.split_off\(&\(cur_height \+ 1\)\)', oc)):
        raise TranslateError("onchaintx timelocked-claim scheduling (package_locktime > cur_height / split_off(cur_height + 1)) changed")
    L.append('/-- mirrors OnchainTxHandler::update_claims_view_from_requests: a claim is held back iff `%s`; held-back packages with')
    L.append('    locktime ≤ cur_height are released (`split_off(&(cur_height + 1))`) -/' % ())
    L[-2] = L[-2] % m.group(1)
    L.append('def claimHeldBack (cur_height package_locktime : Nat) : Bool :=')
    L.append('  ' + em.e(parse_expr(m.group(1))))
    L.append('')

def main(out_path):
    L = ['/- GENERATED by tools/gen_timing.py from the Rust sources — do not edit. -/',
         'import LdkModel.Prim.Arith', 'import LdkModel.Generated.Consts', 'namespace Ldk', '']
    onion_utils = rd('lightning/src/ln/onion_utils.rs')
    variants = enum_variants(onion_utils, 'LocalHTLCFailureReason')
    L.append('/-- unit variants of `LocalHTLCFailureReason` (onion_utils.rs); data-carrying ones omitted -/')
    L.append('inductive FailReason where')
    for v, data in variants:
        if not data:
            L.append('  | %s' % lc(v))
    L.append('  deriving DecidableEq, Repr, Inhabited')
    L.append('')
    L.append('def FailReason.name : FailReason → String')
    for v, data in variants:
        if not data:
            L.append('  | .%s => "%s"' % (lc(v), v))
    L.append('')

    em = Emitter()
    # --- check_incoming_htlc_cltv (onion_payment.rs) ---------------------------------------------
    op = rd('lightning/src/ln/onion_payment.rs')
    params, ret, body = find_fn(op, 'check_incoming_htlc_cltv')
    ps = [n for n, t in parse_params(params)]
    if ps != ['cur_height', 'outgoing_cltv_value', 'cltv_expiry', 'min_cltv_expiry_delta']:
        raise TranslateError("check_incoming_htlc_cltv signature changed: %s" % ps)
    L.append('/-- mirrors lightning/src/ln/onion_payment.rs::check_incoming_htlc_cltv (translated) -/')
    L.append('def checkIncomingHtlcCltv (cur_height outgoing_cltv_value cltv_expiry min_cltv_expiry_delta : Nat) : Except FailReason Unit :=')
    L.append('  ' + em.block(parse_block(body)))
    L.append('')

    # --- final-hop expiry check in create_recv_pending_htlc_info ---------------------------------
    _, _, body = find_fn(op, 'create_recv_pending_htlc_info')
    b = strip_comments(body)
    idx = b.find('LocalHTLCFailureReason::PaymentClaimBuffer')
    if idx < 0: raise TranslateError("PaymentClaimBuffer check not found")
    ifs = [m for m in re.finditer(r'\bif\s+([^{}]*?)\{', b[:idx])]
    cond = ifs[-1].group(1).strip()
    L.append('/-- mirrors the `final_expiry_too_soon` test of create_recv_pending_htlc_info: `%s` -/' % cond)
    L.append('def finalExpiryTooSoon (current_height cltv_expiry : Nat) : Bool :=')
    L.append('  ' + em.e(parse_expr(cond)))
    L.append('')
    idx = b.find('LocalHTLCFailureReason::FinalIncorrectCLTVExpiry')
    ifs = [m for m in re.finditer(r'\bif\s+([^{}]*?)\{', b[:idx])]
    cond = ifs[-1].group(1).strip()
    L.append('/-- `final_incorrect_cltv_expiry` test: `%s` -/' % cond)
    L.append('def finalIncorrectCltv (onion_cltv_expiry cltv_expiry : Nat) : Bool :=')
    L.append('  ' + em.e(parse_expr(cond)))
    L.append('')

    # --- MppPart::check_onchain_timeout, claim_deadline (channelmanager.rs) ----------------------
    cm = rd('lightning/src/ln/channelmanager.rs')
    _, _, body = find_fn(cm, 'check_onchain_timeout')
    em2 = Emitter(fields={'self.cltv_expiry': 'cltv_expiry'})
    L.append('/-- mirrors channelmanager.rs MppPart::check_onchain_timeout: `%s` -/' % ' '.join(strip_comments(body).split()))
    L.append('def mppOnchainTimeout (height cltv_expiry : Nat) : Bool :=')
    L.append('  ' + em2.block(parse_block(body)))
    L.append('')
    # only the arithmetic AFTER the match is translated here; WHICH expiry is selected (the scrutinee, `.. .min()`) is
    # translated by gen_inbound.py (MppGen.eventMinCltv / eventClaimDeadline) and proved to be the minimum in Props/C04
    m = re.search(r'let claim_deadline = Some\(\s*match ([^{}]*?)\{', cm, re.S)
    if not m: raise TranslateError("claim_deadline computation not found")
    if 'cltv_expiry' not in m.group(1): raise TranslateError("claim_deadline no longer computed from cltv_expiry")
    j = match_brace(cm, m.end() - 1)
    tail = strip_comments(cm[j:j + 80])
    m2 = re.match(r'\s*(.*?),\s*\)\s*;', tail, re.S)
    if not m2: raise TranslateError("claim_deadline tail not recognised: %r" % tail[:60])
    tail_expr = 'min_cltv ' + ' '.join(m2.group(1).split())
    L.append('/-- mirrors the PaymentClaimable `claim_deadline`: min over parts of cltv_expiry, then `%s` -/' % m2.group(1).strip())
    L.append('def claimDeadline (min_cltv : Nat) : Nat :=')
    L.append('  ' + em.e(parse_expr(tail_expr)))
    L.append('')

    # --- should_broadcast_holder_commitment_txn scan_commitment! condition -------------------------
    mon = rd('lightning/src/chain/channelmonitor.rs')
    _, _, body = find_fn(mon, 'should_broadcast_holder_commitment_txn')
    b = strip_comments(body)
    m = re.search(r'let htlc_outbound = \$holder_tx == htlc\.offered;\s*if\s+(.*?)\{\s*log_info', b, re.S)
    if not m: raise TranslateError("scan_commitment! condition not found")
    cond = ' '.join(m.group(1).split())
    em3 = Emitter(fields={'htlc.cltv_expiry': 'cltv_expiry'},
                  methods={'contains_key': lambda recv, args: 'has_preimage'},
                  env={'htlc_outbound': 'htlc_outbound', 'height': 'height'})
    # `self.payment_preimages.contains_key(..)`: receiver is a field chain – give it a name
    em3.fields['self.payment_preimages'] = 'preimages'
    em3.fields['htlc.payment_hash'] = 'hash'
    L.append('/-- mirrors the scan_commitment! test of should_broadcast_holder_commitment_txn: `%s` -/' % cond)
    L.append('def shouldBroadcastFor (height cltv_expiry : Nat) (htlc_outbound has_preimage : Bool) : Bool :=')
    L.append('  ' + em3.e(parse_expr(cond)))
    L.append('')
    # WHICH commitments are scanned, under which `$holder_tx` flag, how the direction of an HTLC is derived from the flag,
    # and the early-return gate in front of the scans (round 5: the condition alone says nothing about a scan that is
    # dropped or run with the wrong side's flag)
    m = re.search(r'let htlc_outbound = (\$holder_tx (?:==|!=) htlc\.offered);', b)
    if not m: raise TranslateError("should_broadcast_holder_commitment_txn: derivation of htlc_outbound changed")
    dir_expr = m.group(1).replace('$holder_tx', 'holder_tx').replace('htlc.offered', 'offered')
    mac_end = match_brace(b, b.index('{', b.index('macro_rules! scan_commitment')))
    after = b[mac_end:]
    scans = re.findall(r'scan_commitment!\((.*?), (true|false)\);', after, re.S)
    names = []
    for src, flag in scans:
        s = ' '.join(src.split())
        if s == 'holder_commitment_htlcs!(self, CURRENT)': names.append(('holderCurrent', flag))
        elif s == 'htlc_outputs.iter().map(|&(ref a, _)| a)': names.append(('counterparty', flag))
        else: raise TranslateError("should_broadcast_holder_commitment_txn scans an unknown HTLC set: %s" % s)
    cps = re.findall(r'if let Some\(ref txid\) = self\.funding\.(\w+) \{\s*if let Some\(ref htlc_outputs\) = self\.funding\.counterparty_claimable_outpoints\.get\(txid\) \{\s*scan_commitment!', after)
    if [n for n, _ in names].count('counterparty') != len(cps):
        raise TranslateError("should_broadcast_holder_commitment_txn: counterparty scans no longer keyed by a commitment txid each")
    known = {'current_counterparty_commitment_txid': 'counterpartyCurrent', 'prev_counterparty_commitment_txid': 'counterpartyPrev'}
    it = iter(cps); scan_list = []
    for n, flag in names:
        if n == 'counterparty':
            k = next(it)
            if k not in known: raise TranslateError("should_broadcast_holder_commitment_txn scans an unknown counterparty commitment: %s" % k)
            n = known[k]
        scan_list.append((n, flag))
    if re.search(r'\breturn\b', after) or not re.search(r'\bNone\s*\}?\s*$', after.strip()):
        raise TranslateError("should_broadcast_holder_commitment_txn: something other than the scans follows the macro")
    head = b[:b.index('macro_rules! scan_commitment')]
    mg = re.search(r'^\s*\{\s*if (self\.funding_spend_confirmed\.is_some\(\)) \|\|\s*self\.onchain_events_awaiting_threshold_conf\.iter\(\)\.find\(\|event\| match event\.event \{\s*'
                   r'OnchainEvent::FundingSpendConfirmation \{ \.\. \} => true,\s*_ => false,\s*\}\)\.is_some\(\)\s*\{\s*return None;\s*\}\s*let height = self\.best_block\.height;\s*$', head, re.S)
    if not mg: raise TranslateError("should_broadcast_holder_commitment_txn: early-return gate / height source in front of the scans changed")
    L.append('/-- the HTLC sets should_broadcast_holder_commitment_txn scans -/')
    L.append('inductive ScanSet where')
    L.append('  | holderCurrent | counterpartyCurrent | counterpartyPrev')
    L.append('  deriving DecidableEq, Repr, Inhabited')
    L.append('def ScanSet.name : ScanSet → String')
    for n in ('holderCurrent', 'counterpartyCurrent', 'counterpartyPrev'): L.append('  | .%s => "%s"' % (n, n))
    L.append('/-- TRANSLATED: the `scan_commitment!(<set>, <holder_tx>)` invocations in source order -/')
    L.append('def scanList : List (ScanSet × Bool) := [%s]' % ', '.join('(.%s, %s)' % x for x in scan_list))
    L.append('/-- TRANSLATED: `let htlc_outbound = %s;` -/' % m.group(1))
    L.append('def scanHtlcOutbound (holder_tx offered : Bool) : Bool :=')
    L.append('  ' + Emitter(env={'holder_tx': 'holder_tx', 'offered': 'offered'}).e(parse_expr(dir_expr)))
    L.append('/-- TRANSLATED gate: the function returns None before any scan iff `self.funding_spend_confirmed.is_some() ||` an')
    L.append('    OnchainEvent::FundingSpendConfirmation awaits its threshold; pinned: nothing else precedes the scans, `height = self.best_block.height` -/')
    L.append('def broadcastGateClosed (funding_spend_confirmed funding_spend_awaiting_conf : Bool) : Bool :=')
    L.append('  (funding_spend_confirmed || funding_spend_awaiting_conf)')
    L.append('')

    # --- OnchainEventEntry::confirmation_threshold ------------------------------------------------
    _, _, body = find_fn(mon, 'confirmation_threshold')
    b = strip_comments(body)
    m = re.search(r'let mut conf_threshold = (.*?);', b)
    if not m: raise TranslateError("conf_threshold base not found")
    base = m.group(1)
    maxes = re.findall(r'conf_threshold = cmp::max\(conf_threshold, (.*?)\);', b)
    if len(maxes) != 2: raise TranslateError("expected two csv arms in confirmation_threshold, got %d" % len(maxes))
    em4 = Emitter(fields={'self.height': 'height', 'descriptor.to_self_delay': 'csv'}, env={'csv': 'csv'})
    csv_exprs = set(em4.e(parse_expr(x)) for x in maxes)
    if len(csv_exprs) != 1: raise TranslateError("csv arms of confirmation_threshold differ: %s" % csv_exprs)
    L.append('/-- mirrors channelmonitor.rs OnchainEventEntry::confirmation_threshold (`%s`; csv arms `%s`) -/' % (base, maxes[0]))
    L.append('def confirmationThreshold (height : Nat) (csv : Option Nat) : Nat :=')
    L.append('  let conf_threshold := ' + em4.e(parse_expr(base)))
    L.append('  match csv with')
    L.append('  | none => conf_threshold')
    L.append('  | some csv => Nat.max conf_threshold ' + csv_exprs.pop())
    L.append('')
    _, _, body = find_fn(mon, 'has_reached_confirmation_threshold')
    em5 = Emitter(fields={'best_block.height': 'best_height'},
                  methods={'confirmation_threshold': lambda r, a: '(confirmationThreshold height csv)'}, env={'self': 'self'})
    L.append('def hasReachedConfirmationThreshold (best_height height : Nat) (csv : Option Nat) : Bool :=')
    L.append('  ' + em5.block(parse_block(body)))
    L.append('')

    # --- pre-emptive upstream fail-back in ChannelMonitorImpl::block_confirmed -------------------------
    _, _, body = find_fn(mon, 'block_confirmed')
    b = strip_comments(body)
    m1 = re.search(r'let max_expiry_height = (.*?);', b)
    m2 = re.search(r'if inbound_htlc_expiry (>|>=|<|<=) max_expiry_height \{\s*continue;', b)
    if not (m1 and m2): raise TranslateError("pre-emptive upstream fail-back test of block_confirmed not found")
    L.append('/-- mirrors block_confirmed: a forwarded HTLC whose downstream channel is closed is failed back upstream')
    L.append('    unless `inbound_htlc_expiry %s max_expiry_height` where `max_expiry_height = %s` -/' % (m2.group(1), m1.group(1)))
    L.append('def earlyFailBack (height inbound_htlc_expiry : Nat) : Bool :=')
    L.append('  let max_expiry_height := ' + Emitter(narrow=lambda t: True).e(parse_expr(m1.group(1))))
    L.append('  !' + em.e(parse_expr('inbound_htlc_expiry %s max_expiry_height' % m2.group(1))))
    L.append('')
    # (round 5b) MEMBERSHIP of that loop: which HTLC sets it chains, and which entries it skips, in source order
    bb = strip_comments(body)
    mg = re.search(r'if self\.no_further_updates_allowed\(\) \{\s*let current_counterparty_htlcs = if let Some\(txid\) = self\.funding\.(\w+) \{.*?'
                   r'let prev_counterparty_htlcs = if let Some\(txid\) = self\.funding\.(\w+) \{.*?'
                   r'let htlcs = holder_commitment_htlcs!\(self, (\w+)\)((?:\s*\.chain\(\w+\))*);\s*'
                   r'let height = self\.best_block\.height;\s*for \(htlc, source_opt\) in htlcs \{(.*?)self\.pending_monitor_events\.push\(MonitorEvent::HTLCEvent', bb, re.S)
    if not mg: raise TranslateError("block_confirmed: shape of the pre-emptive fail-back loop (gate no_further_updates_allowed, chained HTLC sets) changed")
    keyed = {'current_counterparty_htlcs': mg.group(1), 'prev_counterparty_htlcs': mg.group(2)}
    known = {'current_counterparty_commitment_txid': 'counterpartyCurrent', 'prev_counterparty_commitment_txid': 'counterpartyPrev'}
    if mg.group(3) != 'CURRENT_WITH_SOURCES': raise TranslateError("pre-emptive fail-back loop no longer starts from the holder commitment's HTLCs WITH SOURCES: %s" % mg.group(3))
    sweep = ['holderCurrent']
    for c in re.findall(r'\.chain\((\w+)\)', mg.group(4)):
        if c not in keyed or keyed[c] not in known: raise TranslateError("pre-emptive fail-back loop chains an unknown HTLC set: %s" % c)
        sweep.append(known[keyed[c]])
    loop = mg.group(5)
    skips = []
    for pat, name in [(r'let source = match source_opt \{\s*Some\(source\) => source,\s*None => continue,\s*\};', 'noSource'),
                      (r'let inbound_htlc_expiry = match source\.inbound_htlc_expiry\(\) \{\s*Some\(cltv_expiry\) => cltv_expiry,\s*None => continue,\s*\};', 'noInboundExpiry'),
                      (r'if inbound_htlc_expiry > max_expiry_height \{\s*continue;\s*\}', 'notYetDue'),
                      (r'if duplicate_event \{\s*continue;\s*\}', 'eventAlreadyPending'),
                      (r'if !self\.failed_back_htlc_ids\.insert\(SentHTLCId::from_source\(source\)\) \{\s*continue;\s*\}', 'alreadyFailedBack')]:
        mm = re.search(pat, loop)
        if not mm: raise TranslateError("pre-emptive fail-back loop: skip rule `%s` not found" % name)
        skips.append((mm.start(), name))
    if len(re.findall(r'\bcontinue\b', loop)) != len(skips) or re.search(r'\b(break|return)\b', loop):
        raise TranslateError("pre-emptive fail-back loop has a new skip / break / return")
    if [n for _, n in sorted(skips)] != [n for _, n in skips]: raise TranslateError("pre-emptive fail-back loop: order of the skip rules changed")
    L.append('/-- TRANSLATED: the HTLC sets the pre-emptive upstream fail-back loop of block_confirmed visits (gate: no_further_updates_allowed()),')
    L.append('    `holder_commitment_htlcs!(self, CURRENT_WITH_SOURCES)%s` -/' % ''.join(mg.group(4).split()))
    L.append('def preemptiveSweepList : List ScanSet := [%s]' % ', '.join('.' + x for x in sweep))
    L.append('/-- TRANSLATED: the only `continue`s of that loop, in source order (no break / return) -/')
    L.append('inductive PreemptSkip where')
    L.append('  | ' + ' | '.join(n for _, n in skips))
    L.append('  deriving DecidableEq, Repr, Inhabited')
    L.append('def preemptiveSkips : List PreemptSkip := [%s]' % ', '.join('.' + n for _, n in skips))
    L.append('')

    # --- FundedChannel::internal_htlc_satisfies_config (channel.rs) ------------------------------
    ch = rd('lightning/src/ln/channel.rs')
    _, _, body = find_fn(ch, 'internal_htlc_satisfies_config')
    em6 = Emitter(fields={'htlc.amount_msat': 'htlc_amount_msat', 'htlc.cltv_expiry': 'htlc_cltv_expiry',
                          'config.forwarding_fee_proportional_millionths': 'fee_prop',
                          'config.forwarding_fee_base_msat': 'fee_base',
                          'config.cltv_expiry_delta': 'cltv_delta'})
    L.append('/-- mirrors channel.rs FundedChannel::internal_htlc_satisfies_config (translated) -/')
    L.append('def htlcSatisfiesConfig (htlc_amount_msat htlc_cltv_expiry amt_to_forward outgoing_cltv_value fee_prop fee_base cltv_delta : Nat) : Except FailReason Unit :=')
    L.append('  ' + em6.block(parse_block(body)))
    # --- holding-cell HTLC timeout in do_best_block_updated ---------------------------------------
    _, _, body = find_fn(ch, 'do_best_block_updated')
    b = strip_comments(body)
    m1 = re.search(r'let unforwarded_htlc_cltv_limit = (.*?);', b)
    m2 = re.search(r'if \*cltv_expiry (<=|<|>=|>) unforwarded_htlc_cltv_limit \{\s*timed_out_htlcs\.push', b)
    if not (m1 and m2): raise TranslateError("holding-cell timeout test of do_best_block_updated not found")
    L.append('')
    L.append('/-- mirrors do_best_block_updated: holding-cell AddHTLC timed out iff `cltv_expiry %s %s` -/' % (m2.group(1), m1.group(1)))
    L.append('def holdingCellTimedOut (height cltv_expiry : Nat) : Bool :=')
    L.append('  ' + em.e(parse_expr('cltv_expiry %s (%s)' % (m2.group(1), m1.group(1)))))
    L.append('')
    gen_exit_census(L, ch, cm, mon, b, em)
    L.append('end Ldk')
    text = '\n'.join(L) + '\n'
    old = open(out_path).read() if os.path.exists(out_path) else None
    if old != text:
        open(out_path, 'w').write(text)

if __name__ == '__main__':
    try:
        main(sys.argv[1] if len(sys.argv) > 1 else os.path.join(os.path.dirname(__file__), '..', 'lean', 'LdkModel', 'Generated', 'Timing.lean'))
    except TranslateError as ex:
        print("TRANSLATE-ERROR gen_timing: %s" % ex)
        sys.exit(2)
