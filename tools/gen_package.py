#!/usr/bin/env python3
"""Regenerate lean/LdkModel/Generated/Package.lean: the pure fee-bump / bump-timer / locktime
arithmetic of lightning/src/chain/package.rs (C06, C07), translated from the Rust bodies that exist
in /repo *now*:

  LowerBoundedFeeEstimator::bounded_sat_per_1000_weight, compute_feerate_sat_per_1000_weight
  (chain/chaininterface.rs); compute_fee_from_spent_amounts, feerate_bump (incl. the three
  `FeerateStrategy` arms), PackageTemplate::get_height_timer (closure `timer_for_target_conf` and
  one arm per `PackageSolvingData` variant), PackageSolvingData::{minimum_locktime,
  signed_locktime}, PackageTemplate::{signed_locktime, package_locktime} (chain/package.rs).

Only what is Nat/Option arithmetic is translated; anything whose shape is not the expected one is
a TRANSLATE-ERROR (exit 2), never silently skipped.
"""
import re, sys, os
sys.path.insert(0, os.path.dirname(__file__))
from rs2lean import (parse_expr, parse_block, Emitter, TranslateError, strip_comments, find_fn,
                     match_brace, parse_params)

REPO = os.environ.get('VERIF_REPO', '/repo')
def rd(p): return open(os.path.join(REPO, p)).read()
def lc(n): return n[0].lower() + n[1:]
def one(s): return ' '.join(s.split())

# per-variant data the arithmetic may look at (constructor fields of the generated `PkgInput`)
VARIANT_FIELDS = {
    'RevokedOutput': [], 'RevokedHTLCOutput': [],
    'CounterpartyOfferedHTLCOutput': ['cltv_expiry'], 'CounterpartyReceivedHTLCOutput': ['cltv_expiry'],
    'HolderHTLCOutput': ['has_preimage', 'cltv_expiry'], 'HolderFundingOutput': [],
}
FIELD_TY = {'cltv_expiry': 'Nat', 'has_preimage': 'Bool'}

def enum_unit_or_tuple_variants(src, name):
    m = re.search(r'enum ' + name + r'\s*\{', src)
    if not m: raise TranslateError("enum %s not found" % name)
    body = strip_comments(src[m.end() - 1: match_brace(src, m.end() - 1)])[1:-1]
    out = []
    for part in body.split(','):
        part = part.strip()
        if not part: continue
        mm = re.fullmatch(r'([A-Za-z0-9_]+)\s*(?:\(\s*[A-Za-z0-9_]+\s*\))?', part)
        if not mm: raise TranslateError("cannot parse variant %r of %s" % (part, name))
        out.append(mm.group(1))
    return out

def split_arms(body):
    """`match x { PAT => EXPR, ... }` body text (without the outer braces) -> [(pat, expr_text)]"""
    arms = []
    i, n = 0, len(body)
    while i < n:
        while i < n and body[i] in ' \t\r\n,': i += 1
        if i >= n: break
        j = body.index('=>', i)
        pat = body[i:j].strip()
        k = j + 2
        while body[k] in ' \t\r\n': k += 1
        # expression: up to the `,` at depth 0 (a `{..}` block followed by optional `else {..}` chains)
        d = 0
        e = k
        while e < n:
            c = body[e]
            if c in '({[': d += 1
            elif c in ')}]':
                d -= 1
                if d == 0 and c == '}':
                    # block ended: expression ends unless an `else` follows
                    rest = body[e + 1:].lstrip()
                    if not rest.startswith('else'):
                        e += 1
                        break
            elif c == ',' and d == 0:
                break
            e += 1
        arms.append((pat, body[k:e].strip()))
        i = e
    return arms

def match_body(src, head_re):
    m = re.search(head_re, src)
    if not m: raise TranslateError("match not found: %s" % head_re)
    i = src.index('{', m.end() - 1)
    return src[i + 1: match_brace(src, i) - 1], m.start(), match_brace(src, i)

def fn_in_impl(src, impl_head, name):
    i = src.find(impl_head)
    if i < 0: raise TranslateError("%r not found" % impl_head)
    return find_fn(src[i:], name)

def gen_package_feerate_output(pk, strategies, L):
    """PackageTemplate::compute_package_feerate (target feerate of externally funded claims: every
    `FeerateStrategy` arm x previous feerate known / unknown) and PackageTemplate::compute_package_output
    (output value + feerate of self-funded malleable claims).  `match` and `if let .. { return .. }` that falls
    through to the function's tail are outside rs2lean's statement subset, so the skeleton is pinned here (by the
    parsed AST for compute_package_output, by text for the strategy `match`) and every expression in it is
    translated by rs2lean; any other shape is a TRANSLATE-ERROR."""
    # --- compute_package_feerate -------------------------------------------------------------------------
    params, ret, body = find_fn(pk, 'compute_package_feerate', after='impl PackageTemplate')
    ps = [n for n, t in parse_params(params)]
    if ps != ['fee_estimator', 'conf_target', 'feerate_strategy']:
        raise TranslateError("compute_package_feerate signature changed: %s" % ps)
    if one(ret) != '-> u32': raise TranslateError("compute_package_feerate return type changed: %s" % one(ret))
    b = strip_comments(body)
    if len(re.findall(r'\bmatch\b', b)) != 1: raise TranslateError("compute_package_feerate: expected exactly one `match`")
    mm = re.search(r'match feerate_strategy\s*\{', b)
    if not mm: raise TranslateError("compute_package_feerate: `match feerate_strategy` missing")
    mend = match_brace(b, mm.end() - 1)
    mk = lambda extra: Emitter(methods={'bounded_sat_per_1000_weight': lambda r, a: '(boundedSatPer1000Weight est)'},
                               fields={'self.feerate_previous': 'feerate_previous'},
                               env=dict({'fee_estimator': '()', 'conf_target': '()'}, **extra))
    seen = {}
    for pat, ex in split_arms(b[mm.end():mend - 1]):
        mp = re.fullmatch(r'FeerateStrategy::([A-Za-z]+)', pat)
        if not mp or mp.group(1) in seen: raise TranslateError("compute_package_feerate: arm pattern %r" % pat)
        seen[mp.group(1)] = mk({}).e(parse_expr(ex))
    if sorted(seen) != sorted(strategies): raise TranslateError("compute_package_feerate: arms %s" % sorted(seen))
    sel = '(match feerate_strategy with\n' + '\n'.join('    | .%s => %s' % (lc(v), seen[v]) for v in strategies) + ')'
    pseudo = b[:mm.start()] + 'STRATEGY_SELECT__' + b[mend:]
    L.append('/-- mirrors package.rs PackageTemplate::compute_package_feerate (translated: the skeleton around the')
    L.append('    `match feerate_strategy`, and each of its arms; `feerate_previous` = `self.feerate_previous`, 0 = the claim')
    L.append('    was never issued; `est` = the raw fee-estimator answer).  u32 arithmetic is rendered over Nat: exact as long')
    L.append('    as `feerate_estimate * 5` does not overflow a u32. -/')
    L.append('def computePackageFeerate (feerate_previous : Nat) (feerate_strategy : FeerateStrategy) (est : Nat) : Nat :=')
    L.append('  ' + mk({'STRATEGY_SELECT__': sel}).block(parse_block(pseudo)))
    L.append('')
    # --- compute_package_output --------------------------------------------------------------------------
    params, ret, body = find_fn(pk, 'compute_package_output', after='impl PackageTemplate')
    ps = [n for n, t in parse_params(params)]
    if ps != ['predicted_weight', 'dust_limit_sats', 'feerate_strategy', 'conf_target', 'fee_estimator', 'logger']:
        raise TranslateError("compute_package_output signature changed: %s" % ps)
    if one(ret) != '-> Option<(u64, u64)>': raise TranslateError("compute_package_output return type changed: %s" % one(ret))
    blk = parse_block(strip_comments(body))
    stmts, tail = list(blk[1]), blk[2]
    if tail != ('none',): raise TranslateError("compute_package_output: the fall-through result is not `None`")
    if not stmts or stmts[-1][0] != 'expr' or stmts[-1][1][0] != 'if':
        raise TranslateError("compute_package_output: last statement is not the `if self.feerate_previous != 0 {..} else {..}`")
    if any(s[0] != 'let' for s in stmts[:-1]): raise TranslateError("compute_package_output: unexpected statement before the if")
    top = stmts[-1][1]
    def close_branch(x):
        # a branch that may fall through continues with the function's tail `None` (nothing else follows the if)
        if x[0] != 'block': raise TranslateError("compute_package_output: branch is not a block")
        st = list(x[1])
        if x[2] is not None:
            if x[2][0] != 'iflet' or x[2][5] != ('unit',): raise TranslateError("compute_package_output: branch tail is not `if let .. { return .. }`")
            st.append(('expr', x[2]))
        for s in st:
            if s[0] == 'expr' and not (s[1][0] == 'iflet' and s[1][5] == ('unit',)):
                raise TranslateError("compute_package_output: unexpected statement in a branch")
        return ('block', st + [('ret', ('none',))], None)
    new = ('block', stmts[:-1] + [('expr', ('if', top[1], close_branch(top[2]), close_branch(top[3])))], None)
    def fb(a):
        if len(a) != 8: raise TranslateError("compute_package_output: feerate_bump call has %d arguments" % len(a))
        return '(feerateBump %s %s %s %s %s est)' % tuple(a[:5])
    def cf(a):
        if len(a) != 5: raise TranslateError("compute_package_output: compute_fee_from_spent_amounts call has %d arguments" % len(a))
        return '(computeFeeFromSpentAmounts %s %s est)' % tuple(a[:2])
    em = Emitter(funs={'feerate_bump': fb, 'compute_fee_from_spent_amounts': cf},
                 methods={'package_amount': lambda r, a: 'package_amount'},
                 fields={'self.feerate_previous': 'feerate_previous'},
                 env={'fee_estimator': '()', 'conf_target': '()', 'logger': '()', 'self': '()'})
    L.append('/-- mirrors package.rs PackageTemplate::compute_package_output (translated; `package_amount` =')
    L.append('    `self.package_amount()`, the `assert!(dust_limit_sats as i64 > 0)` precondition is not rendered; a branch')
    L.append('    whose `if let .. { return .. }` does not fire continues with the function\'s tail `None`) -/')
    L.append('def computePackageOutput (package_amount predicted_weight dust_limit_sats feerate_previous : Nat) (feerate_strategy : FeerateStrategy) (est : Nat) : Option (Nat × Nat) :=')
    L.append('  ' + em.block(new))
    L.append('')

def main(out_path):
    pk = rd('lightning/src/chain/package.rs')
    ci = rd('lightning/src/chain/chaininterface.rs')
    oc = rd('lightning/src/chain/onchaintx.rs')
    L = ['/- GENERATED by tools/gen_package.py from lightning/src/chain/{package,chaininterface,onchaintx}.rs — do not edit. -/',
         'import LdkModel.Prim.Arith', 'import LdkModel.Generated.Consts', 'set_option linter.unusedVariables false', 'namespace Ldk.Pkg', 'open Ldk', '']

    # ---- FeerateStrategy ----------------------------------------------------------------------
    strategies = enum_unit_or_tuple_variants(oc, 'FeerateStrategy')
    if sorted(strategies) != ['ForceBump', 'HighestOfPreviousOrNew', 'RetryPrevious']:
        raise TranslateError("FeerateStrategy variants changed: %s" % strategies)
    L.append('/-- `onchaintx.rs` enum FeerateStrategy -/')
    L.append('inductive FeerateStrategy where')
    for v in strategies: L.append('  | %s' % lc(v))
    L.append('  deriving DecidableEq, Repr, Inhabited')
    L.append('')

    # ---- PackageSolvingData variants -----------------------------------------------------------
    variants = enum_unit_or_tuple_variants(pk, 'PackageSolvingData')
    if sorted(variants) != sorted(VARIANT_FIELDS):
        raise TranslateError("PackageSolvingData variants changed: %s" % variants)
    L.append('/-- `package.rs` enum PackageSolvingData, reduced to what the bump-timer / locktime arithmetic reads')
    L.append('    (`has_preimage` = `outp.preimage.is_some()`; `cltv_expiry` = `outp.htlc.cltv_expiry` resp. `outp.cltv_expiry`) -/')
    L.append('inductive PkgInput where')
    for v in variants:
        L.append('  | %s%s' % (lc(v), ''.join(' (%s : %s)' % (f, FIELD_TY[f]) for f in VARIANT_FIELDS[v])))
    L.append('  deriving DecidableEq, Repr, Inhabited')
    L.append('')
    def lean_pat(v): return '.%s%s' % (lc(v), ''.join(' ' + f for f in VARIANT_FIELDS[v]))

    # ---- chaininterface -------------------------------------------------------------------------
    params, ret, body = fn_in_impl(ci, 'impl<F: FeeEstimator> LowerBoundedFeeEstimator<F>', 'bounded_sat_per_1000_weight')
    em = Emitter(methods={'get_est_sat_per_1000_weight': lambda r, a: 'est'}, fields={'self.0': 'self0'})
    L.append('/-- mirrors chaininterface.rs LowerBoundedFeeEstimator::bounded_sat_per_1000_weight (`est` = what the')
    L.append('    wrapped FeeEstimator answers): `%s` -/' % one(strip_comments(body)))
    L.append('def boundedSatPer1000Weight (est : Nat) : Nat :=')
    L.append('  ' + em.block(parse_block(body)))
    L.append('')
    params, ret, body = find_fn(ci, 'compute_feerate_sat_per_1000_weight')
    if [n for n, t in parse_params(params)] != ['fee_sat', 'weight']:
        raise TranslateError("compute_feerate_sat_per_1000_weight signature changed")
    L.append('/-- mirrors chaininterface.rs compute_feerate_sat_per_1000_weight: `%s` -/' % one(strip_comments(body)))
    L.append('def computeFeerateSatPer1000Weight (fee_sat weight : Nat) : Nat :=')
    L.append('  ' + Emitter().block(parse_block(body)))
    L.append('')

    # ---- compute_fee_from_spent_amounts ----------------------------------------------------------
    params, ret, body = find_fn(pk, 'compute_fee_from_spent_amounts')
    ps = [n for n, t in parse_params(params)]
    if ps != ['input_amounts', 'predicted_weight', 'conf_target', 'fee_estimator', 'logger']:
        raise TranslateError("compute_fee_from_spent_amounts signature changed: %s" % ps)
    em = Emitter(methods={'bounded_sat_per_1000_weight': lambda r, a: '(boundedSatPer1000Weight est)'},
                 funs={'compute_feerate_sat_per_1000_weight': 'computeFeerateSatPer1000Weight'},
                 env={'fee_estimator': 'fee_estimator'})
    L.append('/-- mirrors package.rs compute_fee_from_spent_amounts (translated; `est` = the raw fee-estimator answer) -/')
    L.append('def computeFeeFromSpentAmounts (input_amounts predicted_weight est : Nat) : Option (Nat × Nat) :=')
    L.append('  ' + em.block(parse_block(body)))
    L.append('')

    # ---- feerate_bump ----------------------------------------------------------------------------
    params, ret, body = find_fn(pk, 'feerate_bump')
    ps = [n for n, t in parse_params(params)]
    if ps != ['predicted_weight', 'input_amounts', 'dust_limit_sats', 'previous_feerate', 'feerate_strategy',
              'conf_target', 'fee_estimator', 'logger']:
        raise TranslateError("feerate_bump signature changed: %s" % ps)
    if one(ret) != '-> Option<(u64, u64)>': raise TranslateError("feerate_bump return type changed: %s" % one(ret))
    b = strip_comments(body)
    m = re.search(r'let \(new_fee, new_feerate\) = if let Some\(\(new_fee, new_feerate\)\) =\s*'
                  r'compute_fee_from_spent_amounts\(\s*input_amounts,\s*predicted_weight,\s*conf_target,\s*fee_estimator,\s*logger\s*,?\s*\)\s*\{', b)
    if not m: raise TranslateError("feerate_bump: strategy selection head not recognised")
    then_end = match_brace(b, m.end() - 1)
    then_body = b[m.end():then_end - 1]
    m2 = re.match(r'\s*else\s*\{', b[then_end:])
    if not m2: raise TranslateError("feerate_bump: else branch missing")
    else_start = then_end + m2.end() - 1
    else_end = match_brace(b, else_start)
    else_body = re.sub(r'log_[a-z]+!\((?:[^()]|\([^()]*\))*\);', '', b[else_start + 1:else_end - 1]).strip()
    if one(else_body) != 'return None;': raise TranslateError("feerate_bump: else branch is not `return None;`: %r" % else_body)
    m3 = re.match(r'\s*;', b[else_end:])
    if not m3: raise TranslateError("feerate_bump: `;` after strategy selection missing")
    rest = b[else_end + m3.end():]
    pre = b[b.index('{') + 1:m.start()]
    mm = re.search(r'match feerate_strategy\s*\{', then_body)
    if not mm: raise TranslateError("feerate_bump: `match feerate_strategy` missing")
    lead = re.sub(r'log_[a-z]+!\((?:[^()]|\([^()]*\))*\);', '', then_body[:mm.start()]).strip()
    if lead: raise TranslateError("feerate_bump: unexpected statements before the strategy match: %r" % lead[:80])
    mend = match_brace(then_body, mm.end() - 1)
    if then_body[mend:].strip(): raise TranslateError("feerate_bump: unexpected statements after the strategy match")
    arms = split_arms(then_body[mm.end():mend - 1])
    seen = {}
    em = Emitter(funs={'compute_fee_from_spent_amounts': lambda a: '(computeFeeFromSpentAmounts input_amounts predicted_weight est)'})
    for pat, ex in arms:
        mp = re.fullmatch(r'FeerateStrategy::([A-Za-z]+)', pat)
        if not mp: raise TranslateError("feerate_bump: arm pattern %r" % pat)
        seen[mp.group(1)] = em.e(parse_expr(ex))
    if sorted(seen) != sorted(strategies): raise TranslateError("feerate_bump: arms %s" % sorted(seen))
    sel = '(match feerate_strategy with\n' + '\n'.join('    | .%s => %s' % (lc(v), seen[v]) for v in strategies) + ')'
    em = Emitter(funs={'compute_fee_from_spent_amounts': lambda a: '(computeFeeFromSpentAmounts input_amounts predicted_weight est)'},
                 env={'STRATEGY_SELECT__': sel, 'conf_target': '()', 'fee_estimator': '()', 'logger': '()'})
    pseudo = '{' + pre + '\nlet (new_fee, new_feerate) = compute_fee_from_spent_amounts(input_amounts, predicted_weight, conf_target, fee_estimator, logger)?;\n' \
             + 'let (new_fee, new_feerate) = STRATEGY_SELECT__;\n' + rest
    L.append('/-- mirrors package.rs feerate_bump (translated; the `if let Some(..) = compute_fee_from_spent_amounts(..)')
    L.append('    { match feerate_strategy {..} } else { return None }` head is re-assembled from its three arms) -/')
    L.append('def feerateBump (predicted_weight input_amounts dust_limit_sats previous_feerate : Nat) (feerate_strategy : FeerateStrategy) (est : Nat) : Option (Nat × Nat) :=')
    L.append('  ' + em.block(parse_block(pseudo)))
    L.append('')

    # ---- get_height_timer --------------------------------------------------------------------------
    params, ret, body = find_fn(pk, 'get_height_timer')
    if [n for n, t in parse_params(params)] != ['current_height']: raise TranslateError("get_height_timer signature changed")
    b = strip_comments(body)
    m = re.search(r'let mut height_timer = (.*?);', b)
    if not m: raise TranslateError("get_height_timer: initial timer not found")
    init = m.group(1)
    m = re.search(r'let timer_for_target_conf = \|target_conf\| -> u32 \{', b)
    if not m: raise TranslateError("get_height_timer: closure timer_for_target_conf not found")
    cend = match_brace(b, m.end() - 1)
    closure_body = b[m.end() - 1:cend]
    if not re.match(r'\s*;\s*for \(_, input\) in self\.inputs\.iter\(\) \{\s*match input \{', b[cend:]):
        raise TranslateError("get_height_timer: loop over self.inputs not in the expected shape")
    mb, _, mend = match_body(b[cend:], r'match input\s*\{')
    tail = b[cend + mend:]
    if one(tail) != '} height_timer }': raise TranslateError("get_height_timer: tail is %r" % one(tail))
    L.append('/-- mirrors the closure `timer_for_target_conf` of PackageTemplate::get_height_timer (translated) -/')
    L.append('def timerForTargetConf (current_height target_conf : Nat) : Nat :=')
    L.append('  ' + Emitter().block(parse_block(closure_body)))
    L.append('')
    em = Emitter(funs={'timer_for_target_conf': lambda a: '(timerForTargetConf current_height %s)' % a[0]},
                 fields={'self.counterparty_spendable_height': 'counterparty_spendable_height', 'outp.htlc': 'outp',
                         'cltv_expiry': lambda r: 'cltv_expiry', 'outp.preimage': 'has_preimage'},
                 methods={'is_some': lambda r, a: r})
    arms = {}
    for pat, ex in split_arms(mb):
        mp = re.fullmatch(r'PackageSolvingData::([A-Za-z]+)\((?:_|outp)\)(?:\s+if\s+(.*))?', pat, re.S)
        if not mp: raise TranslateError("get_height_timer: arm pattern %r" % pat)
        blk = parse_block(ex)
        if blk[2] is not None: raise TranslateError("get_height_timer: arm %s has a value" % mp.group(1))
        if len(blk[1]) == 0:
            new = 'height_timer'
        elif len(blk[1]) == 1 and blk[1][0][0] == 'assign' and blk[1][0][1] == 'height_timer':
            new = em.e(blk[1][0][2])
        else:
            raise TranslateError("get_height_timer: arm %s is not a single `height_timer = ..`" % mp.group(1))
        guard = em.e(parse_expr(mp.group(2))) if mp.group(2) else None
        arms.setdefault(mp.group(1), []).append((guard, new))
    if sorted(arms) != sorted(variants): raise TranslateError("get_height_timer: arms %s" % sorted(arms))
    L.append('/-- one iteration of the `for (_, input) in self.inputs.iter() { match input { .. } }` loop of get_height_timer (translated arm by arm) -/')
    L.append('def heightTimerStep (current_height counterparty_spendable_height height_timer : Nat) : PkgInput → Nat')
    for v in variants:
        gs = arms[v]
        if gs[-1][0] is not None: raise TranslateError("get_height_timer: last arm of %s is guarded" % v)
        ex = gs[-1][1]
        for g, new in reversed(gs[:-1]):
            if g is None: raise TranslateError("get_height_timer: unreachable arm of %s" % v)
            ex = '(if %s then %s else %s)' % (g, new, ex)
        L.append('  | %s => %s' % (lean_pat(v), ex))
    L.append('')
    L.append('/-- mirrors package.rs PackageTemplate::get_height_timer: `let mut height_timer = %s;` then the loop -/' % init)
    L.append('def getHeightTimer (current_height counterparty_spendable_height : Nat) (inputs : List PkgInput) : Nat :=')
    L.append('  inputs.foldl (heightTimerStep current_height counterparty_spendable_height) ' + Emitter().e(parse_expr(init)))
    L.append('')

    # ---- locktimes -------------------------------------------------------------------------------------
    def variant_fn(name, lean_name, doc):
        params, ret, body = fn_in_impl(pk, 'impl PackageSolvingData', name)
        mb, _, _ = match_body(strip_comments(body), r'match self\s*\{')
        em = Emitter(fields={'outp.htlc': 'outp', 'cltv_expiry': lambda r: 'cltv_expiry', 'outp.preimage': 'has_preimage'},
                     methods={'is_some': lambda r, a: r})
        got, default = {}, None
        for pat, ex in split_arms(mb):
            if pat == '_': default = em.e(parse_expr(ex)); continue
            mp = re.fullmatch(r'PackageSolvingData::([A-Za-z]+)\(ref outp\)', pat)
            if not mp: raise TranslateError("%s: arm pattern %r" % (name, pat))
            # drop `if outp.preimage.is_some() { debug_assert_eq!(..); }` style self-checks
            ex2 = re.sub(r'if [^{}]*\{\s*debug_assert(?:_eq|_ne)?!\((?:[^()]|\([^()]*\))*\);\s*\}', '', ex)
            got[mp.group(1)] = em.e(parse_expr(ex2))
        if default is None: raise TranslateError("%s: no default arm" % name)
        L.append('/-- mirrors package.rs PackageSolvingData::%s (%s) -/' % (name, doc))
        L.append('def %s : PkgInput → Option Nat' % lean_name)
        for v in variants:
            L.append('  | %s => %s' % (lean_pat(v), got.get(v, default)))
        L.append('')
    variant_fn('minimum_locktime', 'minimumLocktime', 'CLTV-locked outputs need at least this nLockTime')
    variant_fn('signed_locktime', 'signedLocktime', 'pre-signed HTLC transactions carry exactly this nLockTime')
    params, ret, body = find_fn(pk, 'signed_locktime', after='impl PackageTemplate')
    b = strip_comments(body).replace('|(_, outp)|', '|outp|')
    b = re.sub(r'#\[cfg\(debug_assertions\)\]\s*for [^{]*\{[^{}]*\}', '', b)
    em = Emitter(fields={'self.inputs': 'inputs'},
                 methods={'signed_locktime': lambda r, a: '(signedLocktime %s)' % r,
                          'find_map': lambda r, a: '(List.findSome? %s %s)' % (a[0], r)})
    L.append('/-- mirrors package.rs PackageTemplate::signed_locktime (the debug-only agreement loop is dropped) -/')
    L.append('def pkgSignedLocktime (inputs : List PkgInput) : Option Nat :=')
    L.append('  ' + em.block(parse_block(b)))
    L.append('')
    params, ret, body = find_fn(pk, 'package_locktime')
    if [n for n, t in parse_params(params)] != ['current_height']: raise TranslateError("package_locktime signature changed")
    b = strip_comments(body).replace('|(_, outp)|', '|outp|')
    def mx(r, a):
        if a: return '(Nat.max %s %s)' % (r, a[0])
        return '(listMax? %s)' % r
    em = Emitter(fields={'self.inputs': 'inputs'},
                 methods={'minimum_locktime': lambda r, a: '(minimumLocktime %s)' % r,
                          'signed_locktime': lambda r, a: '(pkgSignedLocktime inputs)', 'max': mx},
                 env={'self': 'self'})
    L.append('/-- Rust `Iterator::max` on `u32`s -/')
    L.append('def listMax? : List Nat → Option Nat')
    L.append('  | [] => none')
    L.append('  | x :: xs => some (xs.foldl Nat.max x)')
    L.append('')
    L.append('/-- mirrors package.rs PackageTemplate::package_locktime (translated) -/')
    L.append('def packageLocktime (current_height : Nat) (inputs : List PkgInput) : Nat :=')
    L.append('  ' + em.block(parse_block(b)))
    L.append('')
    # ---- compute_package_feerate / compute_package_output (C07; appended, nothing above is changed) ----
    gen_package_feerate_output(pk, strategies, L)
    L.append('end Ldk.Pkg')
    text = '\n'.join(L) + '\n'
    old = open(out_path).read() if os.path.exists(out_path) else None
    if old != text:
        open(out_path, 'w').write(text)

if __name__ == '__main__':
    try:
        main(sys.argv[1] if len(sys.argv) > 1 else os.path.join(os.path.dirname(__file__), '..', 'lean', 'LdkModel', 'Generated', 'Package.lean'))
    except TranslateError as ex:
        print("TRANSLATE-ERROR gen_package: %s" % ex)
        sys.exit(2)
    except ValueError as ex:
        print("TRANSLATE-ERROR gen_package: %s" % ex)
        sys.exit(2)
