#!/usr/bin/env python3
"""Regenerate lean/LdkModel/Generated/GossipSig.lean (C17): WHICH signature field of a gossip message is
verified against WHICH announced key, over WHICH hash -- translated from the Rust text in /repo *now*.

  * msgs.rs: the `Signature`-typed fields of ChannelAnnouncement / NodeAnnouncement / ChannelUpdate and the
    `NodeId`-typed fields of UnsignedChannelAnnouncement / UnsignedNodeAnnouncement become the enumerations
    CaSig / CaKey / NaSig / NaKey (a new signature field that nobody verifies breaks the coverage theorem).
  * gossip.rs::verify_channel_announcement: the statement list
        let msg_hash = hash_to_message!(&message_sha256d_hash(&msg.contents)[..]);
        ( let K = get_pubkey_from_node_id!(msg.contents.<key>, "channel_announcement");
          | secp_verify_sig!(secp_ctx, &msg_hash, &msg.<sig>, &K, "channel_announcement"); )*
        Ok(())
    is read as a little straight-line program: every `let` binds a variable to a key FIELD, every
    secp_verify_sig! becomes one pair (signature field, key field the variable is bound to at that point),
    in statement order  =>  `chanAnnSigChecks`. A check that names the wrong field / variable is TRANSLATED
    (it is a legal shape), and then breaks `chanAnnSigChecks_exact` (Proofs/GossipRefine.lean) and
    Props/C17 `channel_announcement_signature_checks_exact`; anything else in the body is a TRANSLATE-ERROR.
  * gossip.rs::verify_node_announcement  =>  `nodeAnnSigChecks` (same reading).
  * PINNED by shape: the macros secp_verify_sig! (argument order of verify_ecdsa, Err => return the
    "Invalid signature on {} message" error) and get_pubkey_from_node_id!, message_sha256d_hash (hashes exactly
    its argument), and the channel_update check of update_channel_internal (hash over `msg`, key parsed from
    the `node_id` chosen by direction -- the direction expression itself is translated by gen_gossip.py --,
    verified only `if let Some(sig) = sig`).
"""
import re, sys, os
sys.path.insert(0, os.path.dirname(__file__))
from rs2lean import (TranslateError, strip_comments, find_fn)

REPO = os.environ.get('VERIF_REPO', '/repo')
def rd(p): return open(os.path.join(REPO, p)).read()
def norm(s): return ' '.join(strip_comments(s).split())
def need(cond, what):
    if not cond: raise TranslateError(what)
def rx(pat, text, what):
    m = re.search(pat, text)
    if not m: raise TranslateError("shape changed: %s (pattern %r not found)" % (what, pat))
    return m

def struct_fields(src, name):
    m = re.search(r'pub struct %s\s*\{' % re.escape(name), src)
    need(m, "msgs.rs: struct %s not found" % name)
    i = m.end(); d = 1; j = i
    while d:
        if src[j] == '{': d += 1
        if src[j] == '}': d -= 1
        j += 1
    body = strip_comments(src[i:j-1])
    return re.findall(r'pub\s+(\w+)\s*:\s*([^,]+),', body)

def macro_body(src, name):
    m = re.search(r'macro_rules!\s*%s\s*\{' % re.escape(name), src)
    need(m, "macro %s not found" % name)
    i = m.end(); d = 1; j = i
    while d:
        if src[j] == '{': d += 1
        if src[j] == '}': d -= 1
        j += 1
    return norm(src[i:j-1])

def checks_of(body, kind, sig_fields, key_fields):
    """straight-line reading of a verify_* body; returns [(sig_field, key_field)] in statement order"""
    b = norm(body)
    need(b.startswith('{ ') and b.endswith(' Ok(()) }'), "%s: body does not end in Ok(())" % kind)
    stmts = [s.strip() for s in b[2:-len(' Ok(()) }')].split(';') if s.strip()]
    need(stmts and stmts[0] == 'let msg_hash = hash_to_message!(&message_sha256d_hash(&msg.contents)[..])',
         "%s: the verified hash is no longer sha256d(msg.contents): %r" % (kind, stmts[:1]))
    env, out = {}, []
    key_pat = r'get_pubkey_from_node_id!\(msg\.contents\.(\w+), "%s"\)' % kind
    for s in stmts[1:]:
        m = re.fullmatch(r'let (\w+) = ' + key_pat, s)
        if m:
            need(m.group(2) in key_fields, "%s: key field %s is not a NodeId field of the unsigned message" % (kind, m.group(2)))
            env[m.group(1)] = m.group(2); continue
        m = re.fullmatch(r'secp_verify_sig!\( ?secp_ctx, &msg_hash, &msg\.(\w+), &(\w+|' + key_pat + r'), "%s",? ?\)' % kind, s)
        need(m, "%s: unexpected statement %r" % (kind, s))
        need(m.group(1) in sig_fields, "%s: %s is not a Signature field of the message" % (kind, m.group(1)))
        if m.group(3):
            need(m.group(3) in key_fields, "%s: key field %s unknown" % (kind, m.group(3)))
            key = m.group(3)
        else:
            need(m.group(2) in env, "%s: public key variable %s is not bound by get_pubkey_from_node_id!" % (kind, m.group(2)))
            key = env[m.group(2)]
        out.append((m.group(1), key))
    need(out, "%s: no signature is verified at all" % kind)
    return out

def main(out_path):
    msgs = rd('lightning/src/ln/msgs.rs')
    src = rd('lightning/src/routing/gossip.rs')
    def sigs(name):
        f = struct_fields(msgs, name)
        need(('contents', 'Unsigned' + name) in [(a, b.strip()) for a, b in f], "msgs.rs: %s.contents" % name)
        return [a for a, t in f if t.strip() == 'Signature']
    def keys(name): return [a for a, t in struct_fields(msgs, name) if t.strip() == 'NodeId']
    ca_s, ca_k = sigs('ChannelAnnouncement'), keys('UnsignedChannelAnnouncement')
    na_s, na_k = sigs('NodeAnnouncement'), keys('UnsignedNodeAnnouncement')
    cu_s = sigs('ChannelUpdate')
    need(ca_s and ca_k and na_s and na_k and cu_s == ['signature'], "msgs.rs: signature / key fields of the gossip messages")

    # the two macros and the hash helper
    mb = macro_body(src, 'secp_verify_sig')
    rx(r'^\( \$secp_ctx: expr, \$msg: expr, \$sig: expr, \$pubkey: expr, \$msg_type: expr \) => \{ match \$secp_ctx\.verify_ecdsa\(\$msg, \$sig, \$pubkey\) \{ Ok\(_\) => \{\},? Err\(_\) => \{ return Err\(LightningError \{ err: format!\("Invalid signature on \{\} message", \$msg_type\), action: ErrorAction::SendWarningMessage \{', mb, 'secp_verify_sig! macro')
    mb = macro_body(src, 'get_pubkey_from_node_id')
    rx(r'^\( \$node_id: expr, \$msg_type: expr \) => \{ PublicKey::from_slice\(\$node_id\.as_slice\(\)\)\.map_err\(\|_\| LightningError \{ err: format!\("Invalid public key on \{\} message", \$msg_type\), action: ErrorAction::SendWarningMessage \{', mb, 'get_pubkey_from_node_id! macro')
    need(mb.rstrip().endswith('})? };') or mb.rstrip().endswith('})? }'), "get_pubkey_from_node_id!: no longer propagates the parse error with `?`")
    _, _, hb = find_fn(src, 'message_sha256d_hash')
    rx(r'^\{ let mut engine = Sha256dHash::engine\(\); msg\.write\(&mut engine\)\.expect\("[^"]*"\); Sha256dHash::from_engine\(engine\) \}$', norm(hb), 'message_sha256d_hash')

    _, _, body = find_fn(src, 'verify_channel_announcement')
    ca = checks_of(body, 'channel_announcement', ca_s, ca_k)
    _, _, body = find_fn(src, 'verify_node_announcement')
    na = checks_of(body, 'node_announcement', na_s, na_k)

    # channel_update: hash over the unsigned message that is stored, key = the node_id picked by direction
    _, _, body = find_fn(src, 'update_channel_internal')
    b = norm(body)
    rx(r'let node_id = if (.+?) \{ channel\.node_two\.as_slice\(\) \} else \{ channel\.node_one\.as_slice\(\) \}; if sig\.is_some\(\) \{ node_pubkey = Some\(PublicKey::from_slice\(node_id\)\.map_err\(', b, 'update_channel_internal: the signer key is parsed from the node_id chosen by direction')
    rx(r'if let Some\(sig\) = sig \{ let msg_hash = hash_to_message!\(&message_sha256d_hash\(&msg\)\[\.\.\]\); let node_pubkey = if let Some\(pubkey\) = node_pubkey \{ pubkey \} else \{ .*? return Err\(LightningError \{ err, action \}\); \}; secp_verify_sig!\(self\.secp_ctx, &msg_hash, &sig, &node_pubkey, "channel_update"\); \} if only_verify \{ return Ok\(None\); \}', b, 'update_channel_internal: signature check over sha256d(msg) before only_verify / the store')
    need(b.count('node_pubkey = ') == 3 and b.count('let mut node_pubkey = None;') == 1, "update_channel_internal: node_pubkey is assigned elsewhere")

    L = ['/- GENERATED by tools/gen_gossip_sig.py from lightning/src/ln/msgs.rs and lightning/src/routing/gossip.rs',
         '   (verify_channel_announcement, verify_node_announcement). DO NOT EDIT. -/',
         'namespace Ldk.Gossip', 'namespace Gen', '']
    def enum(name, doc, fields):
        L.append('/-- %s -/' % doc)
        L.append('inductive %s where' % name)
        L.append('  ' + ' '.join('| %s' % f for f in fields))
        L.append('  deriving DecidableEq, Repr')
        L.append('def %s.all : List %s := [%s]' % (name, name, ', '.join('.' + f for f in fields)))
        L.append('')
    enum('CaSig', 'msgs.rs: the `Signature` fields of ChannelAnnouncement, in declaration order', ca_s)
    enum('CaKey', 'msgs.rs: the `NodeId` fields of UnsignedChannelAnnouncement, in declaration order', ca_k)
    enum('NaSig', 'msgs.rs: the `Signature` fields of NodeAnnouncement', na_s)
    enum('NaKey', 'msgs.rs: the `NodeId` fields of UnsignedNodeAnnouncement', na_k)
    L.append('/-- verify_channel_announcement: one pair per secp_verify_sig!, in statement order: (signature field of the')
    L.append('    message, key field of msg.contents whose parsed point it is verified against); every check is over')
    L.append('    sha256d(msg.contents) and a failing one returns "Invalid signature on channel_announcement message" -/')
    L.append('def chanAnnSigChecks : List (CaSig × CaKey) := [%s]' % ', '.join('(.%s, .%s)' % p for p in ca))
    L.append('')
    L.append('/-- verify_node_announcement: the same reading -/')
    L.append('def nodeAnnSigChecks : List (NaSig × NaKey) := [%s]' % ', '.join('(.%s, .%s)' % p for p in na))
    L.append('')
    L.append('end Gen')
    L.append('end Ldk.Gossip')
    text = '\n'.join(L) + '\n'
    old = open(out_path).read() if os.path.exists(out_path) else None
    if old != text:
        open(out_path, 'w').write(text)

if __name__ == '__main__':
    try:
        main(sys.argv[1] if len(sys.argv) > 1 else os.path.join(os.path.dirname(__file__), '..', 'lean', 'LdkModel', 'Generated', 'GossipSig.lean'))
    except TranslateError as ex:
        print("TRANSLATE-ERROR gen_gossip_sig: %s" % ex)
        sys.exit(2)
